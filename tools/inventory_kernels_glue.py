#!/usr/bin/env python3
"""tools/inventory_kernels_glue.py — phase 3 of the source-to-Lean translator (imported by inventory_kernels.py):
the GLUE around the block-level code — the stream-cipher bookkeeping of `rustcrypto_impl.rs` (`Buffer`, `ChaChaAny`),
the `Default` / `Update` / `FixedOutputDirty` / `Reset` impls of the four hash crates, the trait impls of Threefish.

It extends the phase-2 evaluator (`inventory_kernels_code.Code`) by
  * the scalar types `i8` (two's complement, signed comparisons / checked signed arithmetic) and `u128`, `usize` values
    that are not statically bounded (struct fields, `slice.len()`): checked in profile debug, wrapping otherwise;
  * comparisons, `/`, `%`, `cmp::min`, `overflowing_sub`, `assert!` on a symbolic condition (a guard in every profile);
  * `Result` values, `return` / `?` at the top level of a function (the rest of the function is the `else` branch);
  * byte slices of SYMBOLIC length (`&mut [u8]` parameters): `split_at_mut`, `chunks_exact_mut`, `chunks_mut`
    (loops over them become `forChunksExactMut` / `forChunksMut` of a generated body definition), the idiom
    `for (a, b) in x.iter_mut().zip(y) { *a ^= *b }` ↦ `xorInto x y`, slices with symbolic bounds;
  * calls that stay calls of an already generated definition (`calls`), with `&mut` arguments written back;
  * closures handed to the `block_buffer::BlockBuffer` methods, which are NAMED PRIMITIVES mapped to the functions of
    lean/CC/Buffer/BlockBuffer.lean; functions of other files / crates become PARAMETERS of the generated definition
    (`extern`), instantiated by the obligation with the model's function;
  * inventories of the hasher structs (fields, derived / hand-written `Clone` and `Default`) and of trait impls.

Everything assumed is printed by `trusted_table_lines3`.  Anything else is a translation error (never skipped).
"""
import re
import inventory_kernels as IK
import inventory_kernels_code as KC
from inventory_kernels import TErr, Tok, is_p, is_id, match_close, fmt_expr
from inventory_kernels_code import P2, Env, Frame, Ctx, is_node, is_int, projs, carrier, INT_BITS, VEC_WIDTH

# the scalar types of phase 3 (phase 2 never meets them: it would have failed on them)
KC.SCALARS = tuple(KC.SCALARS) + tuple(t for t in ("u128", "i8") if t not in KC.SCALARS)
SCALARS = KC.SCALARS
SIGNED = ("i8",)
USIZE_MAX = (1 << 64) - 1
SLICE_MAX = (1 << 63) - 1           # Rust: a slice is at most isize::MAX bytes long

_old_lean_ty = KC.lean_ty


def lean_ty(t):
    if t == "BB":
        return "CC.Buffer.BB"
    if t == "unitT":
        return "Unit"
    if isinstance(t, tuple) and t and t[0] == "opq":
        return t[1]
    if isinstance(t, tuple) and t and t[0] == "out":
        x = lean_ty(t[1])
        return "Out (%s)" % x
    if isinstance(t, tuple) and t and t[0] == "opt":
        x = lean_ty(t[1])
        return "Option (%s)" % x
    if isinstance(t, tuple) and t and t[0] == "tup":
        return " × ".join("(%s)" % lean_ty(x) if isinstance(x, tuple) and x[0] == "tup" else lean_ty(x) for x in t[1])
    if isinstance(t, tuple) and t and t[0] == "list":
        x = lean_ty(t[1])
        return "List (%s)" % x if " " in x else "List %s" % x
    return _old_lean_ty(t)


KC.lean_ty = lean_ty


class ReturnSig(Exception):
    def __init__(self, value):
        Exception.__init__(self, "return")
        self.value = value


# =========================================================================== parser

class P3(P2):
    """phase-3 parser: closures, `return`, `?`, `impl Trait` parameter types, `use` statements in blocks"""

    def type_(self):
        if self.at_id("impl"):
            self.i += 1
            inner = P2.type_(self)
            return ("impltrait", inner)
        if self.at_p("&") or self.at_p("&&"):
            self.i += 1
            if self.peek() is not None and self.peek().k == "life":
                self.i += 1
            mut = False
            if self.at_id("mut"):
                mut = True
                self.i += 1
            return ("ref", mut, self.type_())
        # `Name<<A as B>::C>`: the lexer reads `<<` as one token
        j = self.i
        while j < self.end and (is_id(self.t[j]) or is_p(self.t[j], "::")):
            j += 1
        if j > self.i and j < self.end and is_p(self.t[j], "<<"):
            self.t = list(self.t)
            self.t[j:j + 1] = [Tok("p", "<"), Tok("p", "<")]
            self.end += 1
        return P2.type_(self)

    def pattern(self):
        if self.at_p("&") and self.at_id(None, 1) and not self.at_id("mut", 1):
            self.i += 1                       # `&x` against a `&T` item with `T: Copy`: the value
            return ("pid", self.eat_id())
        return P2.pattern(self)

    def block(self):
        if not self.at_p("{"):
            raise TErr("`{` expected at `%s`" % self.ctx())
        e = match_close(self.t, self.i)
        q = P3(self.t, self.i + 1, e - 1)
        stmts, tail = q.block_body()
        self.i = e
        return ("block", stmts, tail)

    def postfix(self):
        e = self.primary()
        while True:
            if self.at_p("."):
                t = self.peek(1)
                if t is not None and t.k == "int":
                    if t.suf:
                        raise TErr("suffixed tuple index")
                    self.i += 2
                    e = ("tfield", e, t.v)
                elif is_id(t):
                    self.i += 2
                    targs = []
                    if self.at_p("::"):
                        targs = self.turbofish()
                    if self.at_p("("):
                        e = ("mcall", e, t.s, self.args(), targs)
                    else:
                        e = ("field", e, t.s)
                else:
                    raise TErr("field or method expected at `%s`" % self.ctx())
            elif self.at_p("["):
                self.i += 1
                ix = self.expr()
                self.eat_p("]")
                e = ("index", e, ix)
            elif self.at_p("?"):
                self.i += 1
                e = ("try", e)
            else:
                return e

    def primary(self):
        t = self.peek()
        if t is not None and t.k == "id" and t.s == "move" and (self.at_p("|", 1) or self.at_p("||", 1)):
            self.i += 1
            t = self.peek()
        if t is not None and t.k == "p" and t.s in ("|", "||"):
            params = []
            if t.s == "||":
                self.i += 1
            else:
                self.i += 1
                while not self.at_p("|"):
                    pat = self.pattern()
                    if self.at_p(":"):
                        self.i += 1
                        self.type_()
                    params.append(pat)
                    if self.at_p(","):
                        self.i += 1
                self.eat_p("|")
            body = self.expr()
            return ("closure", params, body)
        if t is not None and t.k == "id" and t.s == "return":
            self.i += 1
            if self._range_end():
                return ("return", None)
            return ("return", self.expr())
        if t is not None and t.k == "id" and t.s == "unsafe":
            raise TErr("`unsafe` block at `%s` is outside the language" % self.ctx())
        return P2.primary(self)

    def block_body(self):
        # `use path;` inside a block has no meaning for the dataflow: skipped
        while self.at_id("use"):
            while not self.at_p(";"):
                self.i += 1
            self.i += 1
        stmts, tail = [], None
        while not self.done():
            if self.at_id("use"):
                while not self.at_p(";"):
                    self.i += 1
                self.i += 1
                continue
            if self.at_p(";"):
                self.i += 1
                continue
            if self.at_p("#"):
                raise TErr("attribute inside a body at `%s`" % self.ctx())
            if self.at_id("let"):
                self.i += 1
                pat = self.pattern()
                ty = None
                if self.at_p(":"):
                    self.i += 1
                    ty = self.type_()
                e = None
                if self.at_p("="):
                    self.i += 1
                    e = self.expr()
                self.eat_p(";")
                stmts.append(("let", pat, ty, e))
                continue
            if self.at_id("const") and self.at_id(None, 1) and self.at_p(":", 2):
                self.i += 1
                name = self.eat_id()
                self.eat_p(":")
                ty = self.type_()
                self.eat_p("=")
                e = self.expr()
                self.eat_p(";")
                stmts.append(("const", name, ty, e))
                continue
            if self.at_id("macro_rules") and self.at_p("!", 1):
                self.i += 2
                name = self.eat_id()
                e = match_close(self.t, self.i)
                stmts.append(("macrodef", name, self.t[self.i + 1:e - 1]))
                self.i = e
                continue
            if self.at_id("for"):
                self.i += 1
                pat = self.pattern()
                self.eat_id("in")
                it = self.expr()
                body = self.block()
                stmts.append(("for", pat, it, body))
                continue
            if self.at_id("if") or self.at_p("{"):
                e = self.if_expr() if self.at_id("if") else self.block()
                if self.done():
                    tail = e
                    break
                stmts.append(("expr", e))
                continue
            e = self.expr()
            t = self.peek()
            if t is None:
                tail = e
                break
            if t.k == "p" and t.s in self.ASSIGN_OPS:
                self.i += 1
                rhs = self.expr()
                if not self.done():
                    self.eat_p(";")
                stmts.append(("assign", e, None if t.s == "=" else t.s[:-1], rhs))
                continue
            if t.k == "p" and t.s == ";":
                self.i += 1
                stmts.append(("expr", e))
                continue
            if e[0] == "macro":
                stmts.append(("expr", e))
                continue
            raise TErr("statement not understood at `%s`" % self.ctx())
        return stmts, tail


def has_return(node):
    """does the syntax tree contain a `return` / `?` (not looking into closures)"""
    if isinstance(node, tuple) and node:
        if node[0] in ("return", "try"):
            return True
        if node[0] == "closure":
            return False
        return any(has_return(x) for x in node[1:])
    if isinstance(node, list):
        return any(has_return(x) for x in node)
    return False


# =========================================================================== TRUSTED: the named primitives of phase 3

# block_buffer::BlockBuffer<B> methods ↦ functions of lean/CC/Buffer/BlockBuffer.lean  ({b} = B, {0} = the buffer)
BB_PRIMS = {
    # name: (kind, lean function)
    "input_block": ("closure1", "CC.Buffer.inputBlock"),
    "input_lazy": ("closure1", "CC.Buffer.inputLazy"),
    "len64_padding_be": ("len_closure1", "CC.Buffer.len64PaddingBe"),
    "digest_pad": ("nat_closure1", "CC.Buffer.digestPad"),
}
BB_PADDINGS = {"Iso7816": "CC.Buffer.padWithIso7816", "ZeroPadding": "CC.Buffer.padWithZero"}


def trusted_table_lines3():
    return [
        "  TRUSTED, phase 3 (the glue: stream-cipher bookkeeping, hasher impls, trait impls; tools/inventory_kernels_glue.py):",
        "    i8 ↦ BitVec 8 in two's complement: a < b ↦ BitVec.slt a b (<=, >, >= alike), -a, a + b, a - b ↦ the wrapping result",
        "      with the GUARD `no signed overflow` in profile debug;  x as i8 ↦ BitVec.setWidth 8 x (BitVec.ofNat 8 for usize);",
        "      i as u8 ↦ the same bits;  i as usize / u64 (i : i8) ↦ sign extension (BitVec.signExtend 64)",
        "    u128 ↦ BitVec 128;  u128::from(x), u64::from(x) ↦ BitVec.setWidth;  u64::from(b) (b : bool) ↦ if b then 1 else 0",
        "    a < b, a <= b, a > b, a >= b on unsigned scalars ↦ BitVec.ult / BitVec.ule;  a / c, a % c ↦ BitVec udiv / umod",
        "      (GUARD `c ≠ 0` in every profile unless c is a non-zero constant);  a.overflowing_sub(b) ↦ (a - b, decide (a.toNat < b.toNat))",
        "    a & b on bool ↦ (a && b);  cmp::min(a, b) ↦ min a b;  a & m on usize ↦ Nat `&&&`",
        "    usize values that are struct fields, `slice.len()` or `position()` ↦ Nat below 2^64 (`slice.len()` below 2^63);",
        "      a + b, a - b, a * b whose result the interval analysis (plus the facts min a b ≤ a, ≤ b and a & m ≤ a) cannot bound ↦",
        "      usizeAdd / usizeSub / usizeMul (the result modulo 2^64) with the GUARD `no overflow` in profile debug",
        "    assert!(c) ↦ GUARD c in every profile;  debug_assert!(c) / debug_assert_eq!(a, b) ↦ GUARD in profile debug;",
        "      unreachable!() ↦ a GUARD that always fails;  x.unwrap() on Err / None ↦ GUARD",
        "    Result<T, E> / Option<T> ↦ (ok flag, payload);  Ok(()), Err(e) (the error value carries no data here), `.map_err(f)`",
        "      ↦ the same flag;  `return e` / `e?` at the top level of a function ↦ if <returns> then e else <rest of the function>",
        "    a `&mut [u8]` / `impl AsRef<[u8]>` parameter ↦ List (BitVec 8) of SYMBOLIC length;  s.split_at_mut(k) ↦ (s.take k, s.drop k)",
        "      (GUARD k ≤ len unless known), the final value of the parameter is the concatenation of the parts;",
        "      s[a..] ↦ s.drop a with the GUARD a ≤ len in every profile (slice index out of range);  s[a..b] alike",
        "    `for (x, y) in a.iter_mut().zip(b) { *x ^= *y }` ↦ a := xorInto a b  (zipWith xor on the common prefix, rest of a unchanged)",
        "    `for dd in s.chunks_exact_mut(k) { body }` ↦ forChunksExactMut k body;  `for dd in s.chunks_mut(k)` ↦ forChunksMut k body",
        "      (`for (i, dd) in s.chunks_mut(k).enumerate()` ↦ forChunksMutEnum): the body is a generated definition over the tuple of",
        "      the variables it assigns and the chunk; a `chunks_mut` chunk has 1 ≤ len ≤ k, a `chunks_exact_mut` chunk has len = k",
        "    [0; N] ↦ List.replicate N 0;  GenericArray::default() ↦ List.replicate N 0;  Default::default() of a tuple of integers ↦ zeros;",
        "      fields whose type is a bare generic parameter / PhantomData (zero-sized markers) are dropped",
        "    a call listed as `calls kept` ↦ ONE application of the generated definition of the callee (arguments flattened in",
        "      parameter order, results: returned value, then the changed `&mut` parameters); a callee that returns `Out` ↦ GUARD outOk",
        "    associated constants of type parameters (`NonceSize::U32`, `Rounds::U32`, `EnableWide::BOOL`, `N::to_u64()`, `$bits::USIZE`) ↦ the value",
        "      of the named instantiation, or a parameter of the generated definition",
        "    NAMED PRIMITIVES of block-buffer 0.9 (B = the block size of the type; model: lean/CC/Buffer/BlockBuffer.lean, pos ≤ B assumed):",
        "      BlockBuffer::default() / Default::default() ↦ BB.init B;  b.position() ↦ b.pos;  b.remaining() ↦ B - b.pos",
        "      b.input_block(x, f) ↦ inputBlock B b x F a;  b.input_lazy(x, f) ↦ inputLazy B b x F a;",
        "      b.len64_padding_be(n, f) ↦ len64PaddingBe B b n F a;  b.digest_pad(k, f) ↦ digestPad B b k F a;",
        "      b.pad_with::<Iso7816>() ↦ padWithIso7816 B b;  b.pad_with::<ZeroPadding>() ↦ padWithZero B b  (Option (buffer × block))",
        "      where a = the tuple of the variables the closure f assigns and F = fun a block => <generated body of f>; when the body",
        "      can panic, a : Out _ and F = fun a block => a >>= fun s => <body>, followed by the GUARD outOk",
        "      NOT mapped (unused by the workspace, a use is a translation error): input_blocks, len64_padding_le, len128_padding_be,",
        "      pad_with_zeros, reset",
        "    functions of other files / crates named as `extern` in the instantiation ↦ PARAMETERS of the generated definition",
        "      (the obligation instantiates them with the model's function): JH / Grøstl `Compressor*::{new, input, finalize,",
        "      finalize_dirty}` (opaque type C), BLAKE `$compressor::finalize`, `T::from_block_byte` (SeekNum);  `pos.try_into()`",
        "      (SeekNum → u64) ↦ the parameter `pos_try_into : Option (BitVec 64)`",
        "    BLAKE `compressor.put_block(block, t)` ↦ the generated `$X4::put_block` (the `dispatch!` wrapper method is not translated);",
        "      `Self::f(..)` inside a trait impl ↦ the inherent function f of the type (Rust's method resolution)",
        "    Skein `Block<N>` (a `repr(C)` union of bytes and words) ↦ its byte array: `Block::from_byte_array`, `.as_byte_array()`,",
        "      `.as_byte_array_mut()`, `.bytes()`, `.clone()` ↦ the value, `Block::default()` ↦ zeros, `a ^ b` ↦ xorInto a b (equal lengths)",
        "    `let x = &mut self.f;` ↦ an alias of the field;  the state of a closure ↦ the places (variables / fields) its body assigns,",
        "      ordered by declaration order of the root variable, then field position",
        "    x.to_be() (u64, little-endian target) ↦ CC.ofLeBytes 64 (CC.toBeBytes x 8);  b as usize (b : bool) ↦ if b then 1 else 0;",
        "      `if c { 0x00 } else { 0x80 }` (untyped literals) ↦ typed by its first typed use",
        "    type-level numbers: `U28::to_usize()`, `$bits::USIZE`, `$bits::U32`, `<U512 as PartialDiv<U8>>::Output` ↦ the number;",
        "      `GenericArray::default()` without type arguments ↦ the length named in the instantiation (`default_lens`)",
        "    a loop variable that shadows the iterated variable (`for (out, &x) in out.chunks_exact_mut(8).zip(..)`) ↦ the iterated one is",
        "      renamed for the loop;  the pattern `&x` on a `&T` item ↦ the value",
        "    inventories `<family>_structs` (name, struct / union, fields, derives, hand-written impls of Clone / Copy / Default / Drop — a",
        "      hand-written `Clone` or `Drop` is a translation ERROR) and `<family>_trait_impls` (type, trait, the functions the impl defines)",
    ]


PRELUDE = """\
/-- phase 3: `for (x, y) in a.iter_mut().zip(b) { *x ^= *y }` -/
def xorInto (a b : List (BitVec 8)) : List (BitVec 8) := List.zipWith (· ^^^ ·) a b ++ a.drop b.length

def outOk {α : Type} : Out α → Bool
  | .ok _ => true
  | _ => false

def outGet {α : Type} [Inhabited α] : Out α → α
  | .ok a => a
  | _ => default

/-- only used as the junk value of `outGet` on an outcome that is not `ok` (a guard has fired then) -/
instance : Inhabited CC.Buffer.BB := ⟨CC.Buffer.BB.init 0⟩

/-- usize arithmetic whose result is not statically bounded: the value modulo 2^64 (the overflow check of profile debug is a guard) -/
def usizeAdd (a b : Nat) : Nat := (a + b) % 18446744073709551616
def usizeSub (a b : Nat) : Nat := if b ≤ a then a - b else a + 18446744073709551616 - b
def usizeMul (a b : Nat) : Nat := (a * b) % 18446744073709551616

def forChunksExactMutAux {σ : Type} (k : Nat) (body : σ → List (BitVec 8) → σ × List (BitVec 8)) :
    Nat → σ → List (BitVec 8) → σ × List (BitVec 8)
  | 0, s, d => (s, d)
  | fuel + 1, s, d =>
    if k ≤ d.length ∧ 0 < k then
      let r := body s (d.take k)
      let r2 := forChunksExactMutAux k body fuel r.1 (d.drop k)
      (r2.1, r.2 ++ r2.2)
    else (s, d)

/-- `for dd in d.chunks_exact_mut(k) { (s, dd) := body s dd }`; the remainder (`< k` bytes) is untouched -/
def forChunksExactMut {σ : Type} (k : Nat) (body : σ → List (BitVec 8) → σ × List (BitVec 8)) (s : σ)
    (d : List (BitVec 8)) : σ × List (BitVec 8) := forChunksExactMutAux k body d.length s d

def forChunksMutAux {σ : Type} (k : Nat) (body : σ → List (BitVec 8) → σ × List (BitVec 8)) :
    Nat → σ → List (BitVec 8) → σ × List (BitVec 8)
  | 0, s, d => (s, d)
  | fuel + 1, s, d =>
    if 0 < d.length ∧ 0 < k then
      let r := body s (d.take k)
      let r2 := forChunksMutAux k body fuel r.1 (d.drop k)
      (r2.1, r.2 ++ r2.2)
    else (s, d)

/-- `for dd in d.chunks_mut(k) { (s, dd) := body s dd }` (the last chunk may be shorter) -/
def forChunksMut {σ : Type} (k : Nat) (body : σ → List (BitVec 8) → σ × List (BitVec 8)) (s : σ)
    (d : List (BitVec 8)) : σ × List (BitVec 8) := forChunksMutAux k body d.length s d

def forChunksMutEnumAux {σ : Type} (k : Nat) (body : σ → Nat → List (BitVec 8) → σ × List (BitVec 8)) :
    Nat → Nat → σ → List (BitVec 8) → σ × List (BitVec 8)
  | 0, _, s, d => (s, d)
  | fuel + 1, i, s, d =>
    if 0 < d.length ∧ 0 < k then
      let r := body s i (d.take k)
      let r2 := forChunksMutEnumAux k body fuel (i + 1) r.1 (d.drop k)
      (r2.1, r.2 ++ r2.2)
    else (s, d)

/-- `for (i, dd) in d.chunks_mut(k).enumerate() { (s, dd) := body s i dd }` -/
def forChunksMutEnum {σ : Type} (k : Nat) (body : σ → Nat → List (BitVec 8) → σ × List (BitVec 8)) (s : σ)
    (d : List (BitVec 8)) : σ × List (BitVec 8) := forChunksMutEnumAux k body d.length 0 s d
"""


# =========================================================================== the evaluator of phase 3

CMP_OPS = ("<", ">", "<=", ">=")
UNIT = ("unit",)


def is_kind(v, k):
    return isinstance(v, tuple) and len(v) > 0 and v[0] == k


class G(KC.Code):
    """phase-3 evaluator (see the module comment)"""

    def __init__(self, tr, spec):
        spec = dict(spec)
        spec["out"] = True                    # checked arithmetic is allowed everywhere (the result is `Out` iff guards exist)
        KC.Code.__init__(self, tr, spec)
        self.views = {}                       # view id -> ["leaf", dl] | ["node", left id, right id]
        self.nview = 0
        self.frozen = set()                   # views that must not be touched (inside a loop body / closure)
        self.le = set()                       # (frame id, a id, b id): Nat node a ≤ Nat node b
        self.fn_bodies = set()                # ids of the blocks that are function bodies (early `return` is split there)
        self.keep = []                        # keep function-body blocks alive (ids are compared)
        self.ncl = 0
        self.externs_used = []
        self.ext_scopes = []                  # externs used inside the loop / closure bodies being evaluated
        self.pending_ite = {}

    # ------------------------------------------------------------------ small helpers
    def bconst(self, b):
        return self.app("true" if b else "false", [], "bool")

    def as_bool_node(self, v):
        if is_kind(v, "bool"):
            return self.bconst(v[1])
        if is_node(v) and self.cty(v) == "bool":
            return v
        raise TErr("bool value expected")

    def bnot(self, v):
        if is_kind(v, "bool"):
            return ("bool", not v[1])
        return self.app("(!{0})", [v], "bool")

    def guard(self, cond, msg, debug_only):
        """`cond` (a bool node) must hold, else panic"""
        if is_kind(cond, "bool"):
            if cond[1]:
                return
            cond = self.bconst(False)
        g = (tuple(self.pathcond), cond, msg, debug_only)
        if g not in self.guards:
            self.guards.append(g)
        if debug_only:
            self.uses_profile = True

    def natv(self, v):
        """a usize value as int literal or Nat node"""
        if is_int(v):
            return v
        if is_node(v) and self.cty(v) == "nat":
            return v
        raise TErr("usize value expected")

    def le_known(self, a, b):
        """is a ≤ b known (intervals, recorded facts)"""
        (al, ah), (bl, bh) = self.nat_iv(a), self.nat_iv(b)
        if ah <= bl:
            return True
        if is_node(a) and is_node(b):
            if a[1] == b[1]:
                return True
            return (id(self.fr), a[1], b[1]) in self.le
        return False

    def add_le(self, a, b):
        if is_node(a) and is_node(b):
            self.le.add((id(self.fr), a[1], b[1]))

    # ------------------------------------------------------------------ dynamic byte lists
    def dl(self, node, lenv):
        return ("dl", node, lenv)

    def to_dl(self, v):
        if is_kind(v, "dl"):
            return v
        if is_kind(v, "view"):
            return self.view_content(v[1])
        if is_kind(v, "rep"):
            v = self.rep_bytes(v)
        if self.is_bytes(v) or (is_kind(v, "arr") and v[1] and
                                all((is_int(x) and x[2] in (None, "u8")) or (is_node(x) and self.cty(x) == "u8") for x in v[1])):
            b = self.buf_of(v)
            return ("dl", self.buf_node(b), ("int", b[1], "usize"))
        raise TErr("byte slice expected")

    def static_len(self, v):
        """length of a byte value when it is statically known, else None"""
        if is_kind(v, "rep"):
            return v[2]
        if self.is_bytes(v):
            return self.buf_of(v)[1]
        if is_kind(v, "dl") and is_int(v[2]):
            return v[2][1]
        if is_kind(v, "view"):
            d = self.view_content(v[1])
            return d[2][1] if is_int(d[2]) else None
        return None

    def as_static(self, d):
        """a dl of static length as a phase-2 bytes node"""
        if is_kind(d, "dl") and is_int(d[2]):
            nd = d[1]
            self.fr.blen[nd[1]] = d[2][1]
            return nd
        return d

    def rep_bytes(self, v):
        if v[3] not in (None, "u8"):
            raise TErr("`[x; n]` of %s used as bytes" % v[3])
        if not (0 <= v[1] < 256):
            raise TErr("byte literal out of range")
        return self.bytes_node("List.replicate %d %d#8" % (v[2], v[1]), [], v[2])

    def buf_of(self, v):
        if is_kind(v, "rep"):
            v = self.rep_bytes(v)
        if is_kind(v, "dl"):
            if not is_int(v[2]):
                raise TErr("a byte slice of symbolic length where a static length is needed")
            v = self.as_static(v)
        if is_kind(v, "view"):
            return self.buf_of(self.view_content(v[1]))
        return KC.Code.buf_of(self, v)

    def is_bytes(self, v):
        if is_kind(v, "rep") and v[3] in (None, "u8"):
            return True
        if is_kind(v, "dl") and is_int(v[2]):
            return True
        return KC.Code.is_bytes(self, v)

    def is_byteslike(self, v):
        return self.is_bytes(v) or is_kind(v, "dl") or is_kind(v, "view") or is_kind(v, "rep")

    def len_of(self, v):
        n = self.static_len(v)
        if n is not None:
            return ("int", n, "usize")
        return self.to_dl(v)[2]

    def xor_into(self, a, b):
        da, db = self.to_dl(a), self.to_dl(b)
        nd = self.app("xorInto {0} {1}", [da[1], db[1]], "bytes")
        if is_int(da[2]):
            self.fr.blen[nd[1]] = da[2][1]
            return nd
        return ("dl", nd, da[2])

    # ------------------------------------------------------------------ views of a `&mut [u8]` of symbolic length
    def new_view(self, d):
        self.nview += 1
        self.views[self.nview] = ["leaf", d]
        return ("view", self.nview)

    def view_check(self, vid):
        if vid in self.frozen:
            raise TErr("a slice of the enclosing function is used inside a loop body / closure")

    def view_content(self, vid):
        self.view_check(vid)
        v = self.views[vid]
        if v[0] == "leaf":
            return v[1]
        a, b = self.view_content(v[1]), self.view_content(v[2])
        n = v[3]                 # the length of a slice does not change when it is split
        nd = self.app("{0} ++ {1}", [a[1], b[1]], "bytes")
        if is_int(n):
            self.fr.blen[nd[1]] = n[1]
        return ("dl", nd, n)

    def view_set(self, vid, d):
        self.view_check(vid)
        if self.views[vid][0] != "leaf":
            raise TErr("assignment to a slice that was split")
        self.views[vid] = ["leaf", d]

    def view_split(self, vid, k):
        self.view_check(vid)
        if self.views[vid][0] != "leaf":
            raise TErr("`split_at_mut` of a slice that was already split")
        d = self.views[vid][1]
        k = self.natv(k)
        if not self.le_known(k, d[2]):
            self.guard(self.app("decide ({0} ≤ {1})", [self.nat_txt(k), self.nat_txt(d[2])], "bool"),
                       "assertion failed: mid <= self.len()", False)
        left = ("dl", self.app("List.take {1} {0}", [d[1], self.nat_txt(k)], "bytes"), k)
        rl = self.nat_sub_known(d[2], k)
        right = ("dl", self.app("List.drop {1} {0}", [d[1], self.nat_txt(k)], "bytes"), rl)
        a, b = self.new_view(left), self.new_view(right)
        self.views[vid] = ["node", a[1], b[1], d[2]]
        return a, b

    def nat_sub_known(self, a, b):
        """a - b where b ≤ a holds (checked or guarded by the caller)"""
        if is_int(a) and is_int(b):
            return ("int", max(a[1] - b[1], 0), "usize")
        (al, ah), (bl, bh) = self.nat_iv(a), self.nat_iv(b)
        n = self.mk_nat("{0} - {1}", [a, b], (max(al - bh, 0), max(ah - bl, 0)))
        self.add_le(n, a)
        return n

    def views_snapshot(self):
        return dict((k, list(v)) for k, v in self.views.items())

    # ------------------------------------------------------------------ types
    def rtype(self, ty, ctx):
        if ty is None:
            return None, False
        k = ty[0]
        if k == "impltrait":
            inner = ty[1]
            txt = inner[1][-1] if inner[0] == "path" else ""
            if txt == "AsRef":
                return ("arr", "u8", None), False
            raise TErr("`impl %s` parameter type" % txt)
        if k == "ref":
            t, _ = self.rtype(ty[2], ctx)
            return t, ty[1]
        if k == "tuple" and not ty[1]:
            return "unit", False
        if k == "opaque":
            m = re.match(r"^<\$?(\w+)asPartialDiv<U(\d+)>>::Output$", ty[1])
            if m:
                n = self.typenum_of(m.group(1), ctx)
                return ("typenum", n // int(m.group(2))), False
            return None, False
        if k == "path":
            segs, args = ty[1], ty[2]
            name = segs[-1]
            if len(segs) == 1 and name in ("i8", "u128") and not args:
                return name, False
            if name in ("Result", "Option"):
                return None, False
            if name == "PhantomData":
                return "unit", False
            if name == "BlockBuffer" and len(args) == 1:
                n = self.rtype(args[0], ctx)[0]
                if isinstance(n, tuple) and n and n[0] == "typenum":
                    return ("bb", n[1]), False
                raise TErr("BlockBuffer of an unknown block size")
            if len(segs) == 1 and re.match(r"^U\d+$", name) and not args:
                return ("typenum", int(name[1:])), False
            if len(segs) == 1 and name in (self.spec.get("bytes_types") or {}):
                return ("arr", "u8", self.spec["bytes_types"][name]), False
            if len(segs) == 1 and name in (self.spec.get("opaque_types") or {}):
                return ("opq", self.spec["opaque_types"][name]), False
            if len(segs) == 1 and name in (self.spec.get("tsub") or {}) and not args:
                v = self.spec["tsub"][name]
                if isinstance(v, int):
                    return ("typenum", v), False
            if len(segs) == 1 and name in ctx.generics and name not in ctx.tsub and "Machine" not in ctx.generics[name]:
                return "unit", False            # a bare type parameter: zero-sized marker (`NonceSize`, `Rounds`, `IsX`)
            if name in ("GenericArray", "BBGenericArray", "DGenericArray") and len(args) == 2:
                el, _ = self.rtype(args[0], ctx)
                try:
                    n = self.rtype(args[1], ctx)[0]
                except TErr:
                    n = None
                if isinstance(n, tuple) and n and n[0] == "typenum":
                    return ("arr", el, n[1]), False
                return ("arr", el, None), False
            if name not in VEC_WIDTH and name not in SCALARS and name not in ("bool", "usize", "Self") and \
                    name not in ctx.generics:
                try:
                    self.tr.find_struct3(ctx.unit, name)
                    return ("rec", name, [self.rtype(a, ctx)[0] for a in args]), False
                except TErr:
                    pass
        return KC.Code.rtype(self, ty, ctx)

    def typenum_of(self, name, ctx):
        m = re.match(r"^U(\d+)$", name)
        if m:
            return int(m.group(1))
        v = (self.spec.get("tsub") or {}).get(name)
        if isinstance(v, int):
            return v
        raise TErr("type-level number %s is not instantiated" % name)

    def struct_fields(self, name, targs, ctx):
        gens, fields = self.tr.find_struct3(ctx.unit, name)
        c2 = Ctx(ctx.unit, {}, name, ctx.machname)
        tp = [g for g in gens if not g[0].startswith("'")]
        for i, (g, b) in enumerate(tp):
            c2.generics[g] = b
            if i < len(targs) and targs[i] is not None:
                c2.tsub[g] = targs[i]
        return [(f, self.rtype(fty, c2)[0]) for f, fty in fields]

    def fresh(self, ty, name, leaves, ctx, lens=None, mut=False):
        if ty == "unit":
            return UNIT
        if ty == "nat":
            v = self.leaf(name, "nat")
            self.fr.iv[v[1]] = (0, USIZE_MAX)
            leaves.append((name, "nat"))
            return v
        if isinstance(ty, tuple) and ty[0] == "bb":
            v = self.leaf(name, "BB")
            leaves.append((name, "BB"))
            return ("bb", v, ty[1])
        if isinstance(ty, tuple) and ty[0] == "opq":
            v = self.leaf(name, ty)
            leaves.append((name, ty))
            return v
        if isinstance(ty, tuple) and ty[0] == "rec":
            return ("rec", ty[1], [(f, self.fresh(t, "%s_%s" % (name, f), leaves, ctx))
                                   for f, t in self.struct_fields(ty[1], ty[2], ctx)])
        if isinstance(ty, tuple) and ty[0] == "arr" and ty[1] == "u8" and ty[2] is None and \
                (self.spec.get("lens") or {}).get(name) is None:
            v = self.leaf(name, "bytes")
            leaves.append((name, "bytes"))
            n = self.app("{0}.length", [v], "nat")
            self.fr.iv[n[1]] = (0, SLICE_MAX)
            d = ("dl", v, n)
            return self.new_view(d) if mut else d
        return KC.Code.fresh(self, ty, name, leaves, ctx, lens)

    # ------------------------------------------------------------------ operators
    def nat_binop(self, op, a, b):
        a, b = self.natv(a), self.natv(b)
        (al, ah), (bl, bh) = self.nat_iv(a), self.nat_iv(b)
        if op == "+":
            if ah + bh <= USIZE_MAX:
                return self.mk_nat("{0} + {1}", [a, b], (al + bl, ah + bh))
            self.guard(self.app("decide ({0} + {1} < 18446744073709551616)", [self.nat_txt(a), self.nat_txt(b)], "bool"),
                       "attempt to add with overflow", True)
            return self.mk_nat("usizeAdd {0} {1}", [a, b], (0, USIZE_MAX))
        if op == "*":
            if ah * bh <= USIZE_MAX:
                return self.mk_nat("{0} * {1}", [a, b], (al * bl, ah * bh))
            self.guard(self.app("decide ({0} * {1} < 18446744073709551616)", [self.nat_txt(a), self.nat_txt(b)], "bool"),
                       "attempt to multiply with overflow", True)
            return self.mk_nat("usizeMul {0} {1}", [a, b], (0, USIZE_MAX))
        if op == "-":
            if al >= bh or self.le_known(b, a):
                return self.nat_sub_known(a, b)
            self.guard(self.app("decide ({1} ≤ {0})", [self.nat_txt(a), self.nat_txt(b)], "bool"),
                       "attempt to subtract with overflow", True)
            return self.mk_nat("usizeSub {0} {1}", [a, b], (0, USIZE_MAX))
        if op == "&":
            n = self.mk_nat("{0} &&& {1}", [a, b], (0, min(ah, bh)))
            self.add_le(n, a)
            self.add_le(n, b)
            return n
        return KC.Code.nat_binop(self, op, a, b)

    def nat_min(self, a, b):
        a, b = self.natv(a), self.natv(b)
        if is_int(a) and is_int(b):
            return ("int", min(a[1], b[1]), "usize")
        (al, ah), (bl, bh) = self.nat_iv(a), self.nat_iv(b)
        n = self.mk_nat("min {0} {1}", [a, b], (min(al, bl), min(ah, bh)))
        self.add_le(n, a)
        self.add_le(n, b)
        return n

    def typed_pending(self, v, other):
        """`if c { 0 } else { 128 }` used with a value of a scalar type: the typed `if`"""
        if is_node(v) and (id(self.fr), v[1]) in self.pending_ite:
            t = None
            if is_node(other) and self.cty(other) in SCALARS:
                t = self.cty(other)
            elif is_int(other) and other[2] in SCALARS:
                t = other[2]
            if t is not None:
                c, x, y = self.pending_ite[(id(self.fr), v[1])]
                return self.app("(if {0} then {1} else {2})", [c, self.const(x, t), self.const(y, t)], t)
        return v

    def binop(self, op, a, b):
        if op == "^" and self.is_byteslike(a) and self.is_byteslike(b) and self.spec.get("bytes_types"):
            if self.static_len(a) is None or self.static_len(a) != self.static_len(b):
                raise TErr("`^` on byte buffers of different / unknown lengths")
            return self.xor_into(a, b)
        a, b = self.typed_pending(a, b), self.typed_pending(b, a)
        if is_int(a) and is_int(b):
            return KC.Code.binop(self, op, a, b)
        if is_node(a) and is_int(b) and self.cty(a) in SCALARS:
            b = self.lit_for(b, a)
        elif is_node(b) and is_int(a) and self.cty(b) in SCALARS:
            a = self.lit_for(a, b)
        if is_node(a) and is_node(b):
            ta, tb = self.cty(a), self.cty(b)
            if ta == tb and ta in SCALARS:
                sg = ta in SIGNED
                if op in CMP_OPS:
                    x, y = (a, b) if op in ("<", "<=") else (b, a)
                    fn = ("BitVec.slt" if sg else "BitVec.ult") if op in ("<", ">") else ("BitVec.sle" if sg else "BitVec.ule")
                    return self.app("%s {0} {1}" % fn, [x, y], "bool")
                if op in ("/", "%"):
                    if sg:
                        raise TErr("signed division")
                    nd = self.fr.dag.nodes[b[1]]
                    const = nd[0] == "app" and not nd[2] and re.match(r"^(0x[0-9a-f]+|\d+)#\d+$", nd[1])
                    if not const or int(nd[1].split("#")[0], 0) == 0:
                        self.guard(self.app("({0} != %s)" % KC.fmt_int(0, INT_BITS[ta]), [b], "bool"),
                                   "attempt to divide by zero", False)
                    return self.app("{0} %s {1}" % op, [a, b], ta)
                if sg and op in ("+", "-"):
                    w = INT_BITS[ta]
                    lo, hi = -(1 << (w - 1)), (1 << (w - 1))
                    ok = self.app("decide (%d ≤ {0}.toInt %s {1}.toInt ∧ {0}.toInt %s {1}.toInt < %d)" % (lo, op, op, hi),
                                  [a, b], "bool")
                    self.guard(ok, "attempt to add with overflow" if op == "+" else "attempt to subtract with overflow", True)
                    return self.app("{0} %s {1}" % op, [a, b], ta)
                if sg and op == "*":
                    raise TErr("signed multiplication")
            if ta == tb == "bool":
                if op == "&":
                    return self.app("({0} && {1})", [a, b], "bool")
                if op == "!=":
                    return self.app("({0} != {1})", [a, b], "bool")
        if (is_kind(a, "bool") or is_kind(b, "bool")) and op in ("&", "|"):
            return KC.Code.binop(self, "&&" if op == "&" else "||", a, b)
        return KC.Code.binop(self, op, a, b)

    def checked_arith(self, op, a, b, ty):
        n0 = len(self.guards)
        r = KC.Code.checked_arith(self, op, a, b, ty)
        for g in self.guards[n0:]:
            if g in self.guards[:n0]:
                self.guards.remove(g)         # removes the first (earlier, identical) entry: one copy stays
        return r

    def neg(self, a):
        if is_int(a):
            raise TErr("negation of an integer constant")
        t = self.cty(a)
        if t not in SIGNED:
            raise TErr("unary `-` on %s" % (t,))
        w = INT_BITS[t]
        self.guard(self.app("decide ({0}.toInt ≠ %d)" % -(1 << (w - 1)), [a], "bool"), "attempt to negate with overflow", True)
        return self.app("-{0}", [a], t)

    def cast(self, v, ty):
        if is_node(v) and self.cty(v) == "bool" and ty == "nat":
            n = self.app("(if {0} then 1 else 0)", [v], "nat")
            self.fr.iv[n[1]] = (0, 1)
            return n
        if is_node(v):
            t = self.cty(v)
            if t in SIGNED:
                w0 = INT_BITS[t]
                if ty == "nat":
                    n = self.app("(BitVec.signExtend 64 {0}).toNat", [v], "nat")
                    self.fr.iv[n[1]] = (0, USIZE_MAX)
                    return n
                if ty in SCALARS:
                    w = INT_BITS[ty]
                    if w == w0:
                        return v if ty == t else self.app("{0}", [v], ty)
                    if w > w0:
                        return self.app("BitVec.signExtend %d {0}" % w, [v], ty)
                    return self.app("BitVec.setWidth %d {0}" % w, [v], ty)
            if ty in SIGNED and t in SCALARS and t not in SIGNED and INT_BITS[t] == INT_BITS[ty]:
                return self.app("{0}", [v], ty)
        return KC.Code.cast(self, v, ty)

    def ite(self, c, a, b, whole=False):
        if a == b:
            return a
        if is_int(a) and is_int(b) and a[2] is None and b[2] is None:
            n = KC.Code.ite(self, c, a, b, whole)
            self.pending_ite[(id(self.fr), n[1])] = (c, a[1], b[1])      # the integer type is fixed by the first typed use
            return n
        if is_kind(a, "bool") or is_kind(b, "bool"):
            return self.app("(if {0} then {1} else {2})", [c, self.as_bool_node(a), self.as_bool_node(b)], "bool")
        if is_kind(a, "res") and is_kind(b, "res"):
            return ("res", self.ite(c, a[1], b[1]), self.ite(c, a[2], b[2]))
        if is_kind(a, "bb") and is_kind(b, "bb") and a[2] == b[2]:
            return ("bb", self.app("(if {0} then {1} else {2})", [c, a[1], b[1]], "BB"), a[2])
        if is_kind(a, "rep") or is_kind(b, "rep"):
            return self.ite(c, self.rep_bytes(a) if is_kind(a, "rep") else a, self.rep_bytes(b) if is_kind(b, "rep") else b)
        if is_kind(a, "dl") or is_kind(b, "dl"):
            da, db = self.to_dl(a), self.to_dl(b)
            if da[2] != db[2]:
                raise TErr("`if` branches give byte slices of different lengths")
            return ("dl", self.app("(if {0} then {1} else {2})", [c, da[1], db[1]], "bytes"), da[2])
        if is_node(a) and is_node(b) and self.cty(a) == self.cty(b) and (self.cty(a) == "BB" or
                                                                         (isinstance(self.cty(a), tuple) and self.cty(a)[0] == "opq")):
            return self.app("(if {0} then {1} else {2})", [c, a, b], self.cty(a))
        if is_kind(a, "view") or is_kind(b, "view"):
            raise TErr("`if` branches select different slices")
        return KC.Code.ite(self, c, a, b, whole)

    # ------------------------------------------------------------------ expressions
    def ev(self, e, env, ctx, want=None):
        k = e[0]
        if k == "closure":
            return ("closure", e[1], e[2], env, ctx)
        if k == "return":
            v = UNIT if e[1] is None else self.ev(e[1], env, ctx)
            raise ReturnSig(v)
        if k == "try":
            raise TErr("`?` is only understood on the initializer of a `let` / an expression statement at the top level of a function")
        if k == "un" and e[1] == "-":
            return self.neg(self.ev(e[2], env, ctx))
        if k == "repeat":
            n = self.need_int(self.ev(e[2], env, ctx))
            x = self.ev(e[1], env, ctx)
            if is_int(x) and x[2] in (None, "u8"):
                return ("rep", x[1], n, x[2])
            return ("arr", [x] * n)
        if k == "tuple" and not e[1]:
            return UNIT
        if k == "bin" and e[1] in ("&&", "||"):
            a = self.ev(e[2], env, ctx)
            if is_kind(a, "bool"):
                if (e[1] == "&&" and not a[1]) or (e[1] == "||" and a[1]):
                    return a
                return self.ev(e[3], env, ctx)
            ng = len(self.guards)
            b = self.ev(e[3], env, ctx)
            if len(self.guards) != ng:
                raise TErr("the right operand of %s can panic" % e[1])
            return self.binop(e[1], a, b)
        if k == "bin" and e[1] not in ("<<", ">>"):
            a = self.ev(e[2], env, ctx)
            b = self.ev(e[3], env, ctx)
            return self.binop(e[1], a, b)
        if k == "cast":
            ty, _ = self.rtype(e[2], ctx)
            return self.cast(self.ev(e[1], env, ctx), ty)
        return KC.Code.ev(self, e, env, ctx, want)

    def ev_path(self, segs, env, ctx):
        key = "::".join(segs)
        tc = self.spec.get("tconsts") or {}
        if key in tc:
            v = tc[key]
            if isinstance(v, bool):
                return ("bool", v)
            if isinstance(v, tuple) and v[0] == "int":
                return v
            if isinstance(v, tuple) and v[0] == "param":
                return self.param_leaf(v[1], v[2])
            raise TErr("instantiation of %s" % key)
        if len(segs) == 2 and segs[0] in (self.spec.get("tsub") or {}) and isinstance(self.spec["tsub"][segs[0]], str):
            # associated constant of a named instantiation: `impl Trait for Name { const C: T = v; }`
            return self.assoc_const(self.spec["tsub"][segs[0]], segs[1], ctx)
        if len(segs) == 2 and segs[1] in ("USIZE", "U32", "U64", "U8") and (re.match(r"^U\d+$", segs[0]) or
                                                                          isinstance((self.spec.get("tsub") or {}).get(segs[0]), int)):
            n = self.typenum_of(segs[0], ctx)
            return ("int", n, {"USIZE": "usize", "U32": "u32", "U64": "u64", "U8": "u8"}[segs[1]])
        if len(segs) == 1 and segs[0] in ("None",):
            return ("res", ("bool", False), UNIT)
        if len(segs) == 1 and segs[0] in ("true", "false") and env.lookup(segs[0]) is None:
            return ("bool", segs[0] == "true")
        if len(segs) == 1 and segs[0] in ("LoopError", "OverflowError", "PadError"):
            return UNIT
        v = None
        try:
            return KC.Code.ev_path(self, segs, env, ctx)
        except TErr:
            pass
        # a byte-string table of a sibling file used as data (`PADDING`)
        reg = [(f, c) for (f, c) in self.tr.registry if c == segs[-1] and f.split("/")[:2] == ctx.unit.rel.split("/")[:2]]
        if len(reg) == 1 and self.tr.registry[reg[0]][1] == "bytes":
            lean = self.tr.registry[reg[0]][0]
            k2 = ("C", reg[0][0])
            if k2 not in self.tr.consts:
                self.tr.consts[k2] = IK.Consts(IK.Source(self.tr.repo, reg[0][0]))
            val = self.tr.consts[k2].value(segs[-1])
            return self.bytes_node(lean, [], len(val))
        raise TErr("unknown name %s" % "::".join(segs))

    def param_leaf(self, name, ty):
        """an instantiation parameter of the generated definition (e.g. `Rounds::U32`)"""
        for (n, t) in self.extra_leaves:
            if n == name:
                break
        else:
            self.extra_leaves.append((name, ty))
        v = self.top_frame.dag.leaf(name, carrier(ty))
        v = ("n", v[1], ty)
        if self.fr is not self.top_frame:
            return self.import_value(v, self.fr, self.top_frame) if self.fr.parent is self.top_frame else self.import_deep(v)
        return v

    def import_deep(self, v):
        chain, f = [], self.fr
        while f is not self.top_frame:
            chain.append(f)
            f = f.parent
        cur, parent = v, self.top_frame
        for f in reversed(chain):
            cur = self.import_value(cur, f, parent)
            parent = f
        return cur

    def assoc_const(self, tyname, cname, ctx):
        t = ctx.unit.toks
        hits = []
        for (a, b, g, s) in ctx.unit.impls:
            if s == tyname:
                for i in range(a, b - 3):
                    if is_id(t[i], "const") and is_id(t[i + 1], cname) and is_p(t[i + 2], ":"):
                        j = i + 3
                        while not is_p(t[j], "="):
                            j += 1
                        k = j
                        while not is_p(t[k], ";"):
                            k += 1
                        hits.append(t[j + 1:k])
        if len(hits) != 1:
            raise TErr("associated constant %s::%s: %d definitions" % (tyname, cname, len(hits)))
        p = P3(list(hits[0]))
        e = p.expr()
        if e == ("path", ["true"]):
            return ("bool", True)
        if e == ("path", ["false"]):
            return ("bool", False)
        return self.ev(e, Env(), ctx)

    def ev_index(self, e, env, ctx):
        base = self.ev(e[1], env, ctx)
        ix = e[2]
        if is_kind(base, "rep"):
            base = self.rep_bytes(base)
        if ix[0] == "range" and self.is_byteslike(base):
            lo = None if ix[1] is None else self.ev(ix[1], env, ctx)
            hi = None if ix[2] is None else self.ev(ix[2], env, ctx)
            if hi is not None and ix[3]:
                hi = self.nat_binop("+", hi, ("int", 1, "usize")) if not is_int(hi) else ("int", hi[1] + 1, "usize")
            if (lo is None or is_int(lo)) and (hi is None or is_int(hi)) and self.static_len(base) is not None:
                b2 = base if not (is_kind(base, "dl") or is_kind(base, "view")) else self.as_static(self.to_dl(base))
                return self.buf_slice_form(b2, None if lo is None else lo[1], None if hi is None else hi[1])
            return self.dyn_slice(base, lo, hi)
        if ix[0] == "range" and is_node(base) and isinstance(self.cty(base), tuple) and self.cty(base)[0] == "list" \
                and not isinstance(self.cty(base)[1], tuple):
            n = self.fr.shape[base[1]][0]
            lo = 0 if ix[1] is None else self.need_int(self.ev(ix[1], env, ctx))
            hi = n if ix[2] is None else self.need_int(self.ev(ix[2], env, ctx)) + (1 if ix[3] else 0)
            if not (0 <= lo <= hi <= n):
                raise TErr("slice [%d..%d] of a list of %d" % (lo, hi, n))
            return ("arr", [self.list_get(base, ("int", i, "usize")) for i in range(lo, hi)])
        return KC.Code.ev_index(self, e, env, ctx)

    def dyn_slice(self, base, lo, hi):
        """s[lo..hi] with symbolic bounds: guards `lo ≤ hi ≤ len` in every profile"""
        d = self.to_dl(base)
        n = d[2]
        node, ln = d[1], n
        if hi is not None:
            hi = self.natv(hi)
            if not self.le_known(hi, n):
                self.guard(self.app("decide ({0} ≤ {1})", [self.nat_txt(hi), self.nat_txt(n)], "bool"),
                           "range end index out of range for slice", False)
            node, ln = self.app("List.take {1} {0}", [node, self.nat_txt(hi)], "bytes"), hi
        if lo is not None:
            lo = self.natv(lo)
            if not self.le_known(lo, ln):
                self.guard(self.app("decide ({0} ≤ {1})", [self.nat_txt(lo), self.nat_txt(ln)], "bool"),
                           "slice index starts past its end", False)
            node, ln = self.app("List.drop {1} {0}", [node, self.nat_txt(lo)], "bytes"), self.nat_sub_known(ln, lo)
        if is_int(ln):
            self.fr.blen[node[1]] = ln[1]
            return node
        return ("dl", node, ln)

    # ------------------------------------------------------------------ calls
    def ev_call(self, e, env, ctx, want):
        segs = e[1]
        targs = e[3] if len(e) > 3 else []
        name = segs[-1]
        args = e[2]
        bt = self.spec.get("bytes_types") or {}
        if len(segs) == 2 and segs[0] in bt and name == "from_byte_array" and len(args) == 1:
            return self.ev(args[0], env, ctx)
        if len(segs) == 2 and segs[0] in bt and name == "default" and not args:
            return ("rep", 0, bt[segs[0]], "u8")
        if name in ("Ok", "Some") and len(segs) == 1 and len(args) == 1:
            return ("res", ("bool", True), self.ev(args[0], env, ctx))
        if name == "Err" and len(segs) == 1 and len(args) == 1:
            self.ev(args[0], env, ctx)
            return ("res", ("bool", False), UNIT)
        if name == "min" and len(args) == 2 and segs[:-1] in (["cmp"], ["core", "cmp"], ["std", "cmp"]):
            a, b = self.ev(args[0], env, ctx), self.ev(args[1], env, ctx)
            return self.nat_min(a, b)
        if len(segs) == 2 and segs[0] in SCALARS and name == "from" and len(args) == 1:
            a = self.ev(args[0], env, ctx)
            if is_node(a) and self.cty(a) == "nat":
                raise TErr("%s::from(usize)" % segs[0])
            if is_node(a) and self.cty(a) in SCALARS:
                if self.cty(a) in SIGNED or INT_BITS[self.cty(a)] > INT_BITS[segs[0]]:
                    raise TErr("%s::from(%s)" % (segs[0], self.cty(a)))
                return self.cast(a, segs[0])
        if name == "default" and not args:
            owner0 = None
            if len(segs) == 2:
                owner0 = ctx.selfname if segs[0] == "Self" else segs[0]
            if owner0 is not None:
                try:
                    self.tr.find_struct3(ctx.unit, owner0)
                    is_struct = True
                except TErr:
                    is_struct = False
                if is_struct:
                    if "default" in (self.spec.get("calls") or {}):
                        return self.gcall(self.spec["calls"]["default"], None, [], env, ctx)
                    f = self.tr.find_fn(ctx.unit, "default", owner0, optional=True)
                    if f is None:
                        raise TErr("`%s::default()`: no `impl Default` in this file (a derived Default is not translated)" % owner0)
                    return self.call_fn(f, None, [], env, ctx)
            return self.default_of(want, targs, segs, ctx)
        if "::".join(segs) in (self.spec.get("tconsts") or {}) and not args:
            return self.ev_path(segs, env, ctx)
        if len(segs) == 2 and name in ("to_usize", "to_u64", "to_u32") and not args:
            n = self.typenum_of(segs[0], ctx)
            return ("int", n, {"to_usize": "usize", "to_u64": "u64", "to_u32": "u32"}[name])
        ext = (self.spec.get("extern") or {}).get("::".join(segs)) or (self.spec.get("extern") or {}).get(name)
        if ext is not None:
            return self.extern_call(ext, [self.ev(x, env, ctx) for x in args])
        if name in (self.spec.get("calls") or {}) and self.keeps_call(name, None):
            return self.gcall(self.spec["calls"][name], None, args, env, ctx)
        owner = None
        if len(segs) >= 2:
            owner = segs[-2] if segs[-2] != "Self" else ctx.selfname
        if len(segs) == 1:
            try:
                _g, fields = self.tr.find_struct3(ctx.unit, name if name != "Self" else ctx.selfname)
            except TErr:
                fields = None
            if fields is not None and all(f.isdigit() for f, _ in fields):
                vals = [self.ev(x, env, ctx) for x in args]
                if len(vals) != len(fields):
                    raise TErr("constructor %s: %d arguments" % (name, len(vals)))
                return ("rec", name, [(f, a) for (f, _), a in zip(fields, vals)])
        if len(segs) >= 2 or owner is None:
            f = self.find_callee(ctx, name, owner)
            if f is not None:
                return self.call_fn(f, None, args, env, ctx)
        return KC.Code.ev_call(self, e, env, ctx, want)

    def keeps_call(self, name, recv):
        return True

    def find_callee(self, ctx, name, owner):
        """a function of this unit: with an `impl_header` selection when the spec names one for it"""
        sel = (self.spec.get("select") or {}).get(name)
        if sel is not None:
            return self.tr.find_fn_header(ctx.unit, name, sel)
        try:
            return self.tr.find_fn(ctx.unit, name, owner, optional=True)
        except TErr:
            # several definitions: a method of the impl itself wins over functions nested in it (`dispatch!` wrappers)
            return self.tr.find_fn_direct(ctx.unit, name, owner)

    def default_of(self, want, targs, segs, ctx):
        ty = want
        if ty is None and len(segs) >= 2 and segs[-2] in ("GenericArray", "BBGenericArray", "DGenericArray") and len(targs) == 2:
            el, _ = self.rtype(targs[0], ctx)
            n = self.rtype(targs[1], ctx)[0]
            if isinstance(n, tuple) and n[0] == "typenum":
                ty = ("arr", el, n[1])
        if ty is None and len(segs) >= 2 and segs[-2] in (self.spec.get("default_lens") or {}):
            ty = ("arr", "u8", self.spec["default_lens"][segs[-2]])
        if ty is None and len(segs) >= 2 and segs[-2] == "BlockBuffer":
            raise TErr("BlockBuffer::default() of an undetermined block size")
        if ty == "unit":
            return UNIT
        if isinstance(ty, str) and ty in SCALARS:
            return ("int", 0, ty)
        if ty == "nat":
            return ("int", 0, "usize")
        if isinstance(ty, tuple) and ty[0] == "bb":
            return ("bb", self.app("CC.Buffer.BB.init %d" % ty[1], [], "BB"), ty[1])
        if isinstance(ty, tuple) and ty[0] == "arr" and ty[1] == "u8" and ty[2] is not None:
            return ("rep", 0, ty[2], "u8")
        if isinstance(ty, tuple) and ty[0] == "tup":
            return ("tup", [self.default_of(t, [], [], ctx) for t in ty[1]])
        raise TErr("`Default::default()` of a type that is not in the trusted table (%s)" % (ty,))

    def param_value(self, par, pname, leaves):
        """a parameter of a generic type of which only ONE named primitive is used: the definition takes its result"""
        ty = par["type"]
        if not (isinstance(ty, tuple) and ty[0] == "opt" and ty[1] in SCALARS):
            raise TErr("parameter primitive type")
        v = self.leaf(par["leaf"], ty)
        leaves.append((par["leaf"], ty))
        ok = self.app("({0}).isSome", [v], "bool")
        val = self.app("({0}).getD %s" % KC.fmt_int(0, INT_BITS[ty[1]]), [v], ty[1])
        return ("prim", par["prim"], ("res", ok, val))

    def use_extern(self, ext):
        for scope in [self.externs_used] + self.ext_scopes:
            if ext not in scope:
                scope.append(ext)

    def extern_call(self, ext, vals):
        """a function of another file / crate: an application of a PARAMETER of the generated definition"""
        self.use_extern(ext)
        atys, rty = ext["args"], ext["ret"]
        if len(vals) != len(atys):
            raise TErr("extern %s: %d arguments for %d" % (ext["lean"], len(vals), len(atys)))
        ops = []
        for v, t in zip(vals, atys):
            if isinstance(t, tuple) and t[0] == "tab":
                if not is_kind(v, "ctab"):
                    raise TErr("extern %s: a constant table is expected" % ext["lean"])
                ops.append(v[1])
            elif isinstance(t, tuple) and t[0] == "list":
                nd = self.to_list(v, t[1]) if not is_node(v) else v
                if self.cty(nd) != ("list", t[1]) or (len(t) > 2 and self.fr.shape.get(nd[1]) != (t[2],)):
                    raise TErr("extern %s: a list of %s is expected" % (ext["lean"], t[1]))
                ops.append(nd)
            elif t == "bytes":
                d = self.to_dl(v)
                ops.append(d[1])
            elif t == "nat":
                ops.append(self.nat_txt(self.natv(v)))
            elif isinstance(t, str) and t in SCALARS:
                ops.append(self.as_node(v, t))
            else:
                if not is_node(v) or self.cty(v) != (carrier(t) if isinstance(t, str) else t):
                    raise TErr("extern %s: argument of type %s expected" % (ext["lean"], t))
                ops.append(v)
        tpl = ext["lean"] + "".join(" {%d}" % i for i in range(len(ops)))
        return self.ext_result(self.app(tpl, ops, self.ext_type(rty)), rty)

    def ext_type(self, rty):
        if isinstance(rty, tuple) and rty[0] == "bytes":
            return "bytes"
        if isinstance(rty, tuple) and rty[0] == "list":
            return ("list", rty[1])
        if isinstance(rty, tuple) and rty[0] == "pair":
            return ("tup", (self.ext_type(rty[1]), self.ext_type(rty[2])))
        return rty

    def ext_result(self, n, rty):
        if isinstance(rty, tuple) and rty[0] == "bytes":
            self.fr.blen[n[1]] = rty[1]
        if isinstance(rty, tuple) and rty[0] == "list":
            self.fr.shape[n[1]] = (rty[2],)
        if isinstance(rty, tuple) and rty[0] == "pair":
            a = self.ext_result(self.app("{0}.1", [n], self.ext_type(rty[1])), rty[1])
            b = self.ext_result(self.app("{0}.2", [n], self.ext_type(rty[2])), rty[2])
            return ("tup", [a, b])
        return n

    def call_fn(self, f, recv_expr, arg_exprs, env, ctx):
        """as phase 2, with `return` and the phase-3 parser"""
        self.depth += 1
        if self.depth > 12:
            raise TErr("call depth exceeded (recursion?) in fn %s" % f.name)
        fctx = self.tr.fn_ctx(f)
        params = f.params
        exprs = ([recv_expr] if recv_expr is not None else []) + list(arg_exprs)
        if len(exprs) != len(params):
            raise TErr("fn %s called with %d arguments for %d parameters" % (f.name, len(exprs), len(params)))
        fenv = Env()
        if getattr(fctx, "machvar", None):
            fenv.define(fctx.machvar, ("mach",))
        back = []
        for (pat, ty), x in zip(params, exprs):
            if pat[0] == "self":
                v = self.ev(x, env, ctx)
                fenv.define("self", v)
                if pat[1]:
                    back.append(("self", x))
                continue
            t, mut = self.rtype(ty, fctx)
            if t == "mach":
                v = self.ev(x, env, ctx)
                if v != ("mach",):
                    raise TErr("fn %s: machine argument expected" % f.name)
                fenv.define(pat[1], v)
                continue
            v = self.coerce(self.ev(x, env, ctx, t), t)
            if is_int(v) and v[2] is None:
                raise TErr("fn %s: untyped literal for a parameter of unknown type" % f.name)
            if is_int(v) and t in SCALARS:
                v = ("int", v[1], t)              # a literal argument stays a constant (it folds in the callee)
            self.bind(pat, v, fenv)
            if mut and not is_kind(v, "view"):
                if pat[0] != "pid":
                    raise TErr("fn %s: pattern on a `&mut` parameter" % f.name)
                back.append((pat[1], x))
        rt, _ = self.rtype(f.ret, fctx) if f.ret is not None else (None, False)
        a, b = f.body
        stmts, tail = P3(fctx.unit.toks, a, b).block_body()
        blk = ("block", stmts, tail)
        self.keep.append(blk)
        self.fn_bodies.add(id(blk))
        try:
            r = self.exec_block(blk, fenv, fctx, rt)
        except ReturnSig as s:
            r = s.value
        r = self.coerce(r, rt)
        for name, x in back:
            self.lv_set(x, fenv.lookup(name), env, ctx)
        self.depth -= 1
        return r

    def coerce(self, v, ty):
        if is_kind(v, "rep") and isinstance(ty, tuple) and ty[0] == "arr" and ty[1] != "u8" and ty[1] is not None:
            return ("arr", [("int", v[1], ty[1] if v[3] is None else v[3])] * v[2])
        if isinstance(v, tuple) and v and v[0] in ("res", "dl", "view", "bb", "rep", "closure", "unit", "bool"):
            return v
        return KC.Code.coerce(self, v, ty)

    def conform(self, old, new, where):
        if is_kind(old, "rep") or is_kind(new, "rep") or is_kind(old, "dl") or is_kind(new, "dl"):
            lo, ln = self.static_len(old), self.static_len(new)
            if lo is not None and ln is not None and lo != ln:
                raise TErr("assignment changes the length of a byte buffer at %s" % fmt_expr(where))
            if lo is None and ln is None and self.to_dl(old)[2] != self.to_dl(new)[2]:
                raise TErr("assignment may change the length of a byte slice at %s" % fmt_expr(where))
            return new
        if isinstance(old, tuple) and old and old[0] in ("res", "view", "bb", "unit", "bool", "closure"):
            return new
        if is_node(old) and self.cty(old) == "bytes" and self.is_bytes(new):
            if self.fr.blen.get(old[1]) != self.buf_of(new)[1]:
                raise TErr("assignment changes the length of a byte buffer at %s" % fmt_expr(where))
            return new
        if is_node(old) and self.cty(old) == "bool" and is_kind(new, "bool"):
            return self.bconst(new[1])
        return KC.Code.conform(self, old, new, where)

    # ------------------------------------------------------------------ methods
    def ev_mcall(self, e, env, ctx, want):
        rx, name, argx = e[1], e[2], e[3]
        targs = e[4] if len(e) > 4 else []
        # kept calls of generated definitions (`self.state.refill(..)`)
        if "." + name in (self.spec.get("calls") or {}):
            ng = len(self.guards)
            recv0 = self.ev(rx, env, ctx)
            del self.guards[ng:]
            if is_kind(recv0, "rec") and self.keeps_call(name, recv0):
                return self.gcall(self.spec["calls"]["." + name], rx, argx, env, ctx)
        if name == "fold" and rx[0] == "mcall" and rx[2] == "iter":
            return KC.Code.ev_mcall(self, e, env, ctx, want)
        recv = self.ev(rx, env, ctx)
        if is_kind(recv, "closure"):
            raise TErr("call of a closure value")
        if is_kind(recv, "rec"):
            ext = (self.spec.get("extern") or {}).get("%s.%s" % (recv[1], name))
            if ext is not None:
                flat = []
                self.flat_args(recv, flat)
                return self.extern_call(ext, flat + [self.ev(x, env, ctx) for x in argx])
        if is_kind(recv, "prim"):
            if name == recv[1] and not argx:
                return recv[2]
            raise TErr("method `%s` on a parameter that stands for the result of `%s`" % (name, recv[1]))
        # ---- Result / Option
        if is_kind(recv, "res"):
            if name == "map_err" and len(argx) == 1:
                return recv
            if name == "unwrap" and not argx:
                self.guard(recv[1] if not is_kind(recv[1], "bool") else recv[1],
                           "called `Result::unwrap()` on an `Err` value", False)
                return recv[2]
            if name in ("is_ok", "is_some") and not argx:
                return recv[1]
            if name in ("is_err", "is_none") and not argx:
                return self.bnot(recv[1])
            raise TErr("method `%s` on a Result / Option" % name)
        # ---- BlockBuffer
        if is_kind(recv, "bb"):
            return self.bb_method(recv, rx, name, argx, targs, env, ctx)
        # ---- values of an opaque (extern) type
        if is_node(recv) and isinstance(self.cty(recv), tuple) and self.cty(recv)[0] == "opq":
            ext = (self.spec.get("extern") or {}).get("%s.%s" % (self.cty(recv)[1], name))
            if ext is None:
                raise TErr("method `%s` on a value of the opaque type %s is not declared `extern`" % (name, self.cty(recv)[1]))
            vals = [self.ev(x, env, ctx) for x in argx]
            r = self.extern_call(ext, [recv] + vals)
            if ext.get("mut_self") == "pair":
                self.lv_set(rx, r[1][0], env, ctx)
                return r[1][1]
            if ext.get("mut_self"):
                self.lv_set(rx, r, env, ctx)
                return UNIT
            return r
        # ---- byte slices
        if self.is_byteslike(recv):
            if name == "len" and not argx:
                return self.len_of(recv)
            if name in self.IDENTITY_METHODS and not argx:
                return recv
            if name == "clone" and not argx:
                return recv
            if name == "split_at_mut" and len(argx) == 1:
                if not is_kind(recv, "view"):
                    raise TErr("`split_at_mut` on a buffer that is not a `&mut [u8]` parameter")
                a, b = self.view_split(recv[1], self.ev(argx[0], env, ctx))
                return ("tup", [a, b])
            if name == "copy_from_slice" and len(argx) == 1:
                src = self.ev(argx[0], env, ctx)
                self.store_bytes(rx, recv, src, env, ctx)
                return UNIT
        if name == "copy_from_slice" and len(argx) == 1:
            src = self.ev(argx[0], env, ctx)
            if is_kind(src, "dl") or is_kind(src, "rep"):
                self.store_bytes(rx, recv, src, env, ctx)
                return UNIT
        # ---- scalars
        if name == "overflowing_sub" and len(argx) == 1:
            a = self.as_scalar(recv)
            t = self.cty(a)
            b = self.as_node(self.ev(argx[0], env, ctx), t)
            return ("tup", [self.app("{0} - {1}", [a, b], t), self.app("decide ({0}.toNat < {1}.toNat)", [a, b], "bool")])
        if name in ("to_be", "to_le", "swap_bytes") and not argx:
            a = self.as_scalar(recv)
            t = self.cty(a)
            if name == "to_le":
                return a
            return self.app("CC.ofLeBytes %d (CC.toBeBytes {0} %d)" % (INT_BITS[t], INT_BITS[t] // 8), [a], t)
        if name == "try_into" and not argx and is_node(recv) and isinstance(self.cty(recv), tuple) and self.cty(recv)[0] == "opq":
            raise TErr("try_into on an opaque value")
        if name == "to_usize" or name == "to_u64":
            raise TErr("`%s` of a type-level number must be instantiated (tconsts)" % name)
        return KC.Code.ev_mcall(self, e, env, ctx, want)

    def into(self, v, want):
        # a row of a constant table (`$iv[0].into()`): the packed constant
        if is_kind(v, "ctab") and v[2] and all(isinstance(x, int) for x in v[2]) and len(v[2]) == 4:
            r = v[3][1] if isinstance(v[3], tuple) and v[3][0] == "list" else None
            if r == ("bv", 32) and want in KC.W128:
                return self.app(KC.PACK32, [self.const(x, "u32") for x in v[2]], want)
            if r == ("bv", 64) and want in KC.W256:
                return self.app("CC.Simd.pack64x4 {0} {1} {2} {3}", [self.const(x, "u64") for x in v[2]], want)
        return KC.Code.into(self, v, want)

    def store_bytes(self, rx, recv, src, env, ctx):
        """`recv.copy_from_slice(src)` (panics unless the lengths are equal)"""
        ls, lr = self.len_of(src), self.len_of(recv)
        if is_int(ls) and is_int(lr):
            if ls[1] != lr[1]:
                raise TErr("copy_from_slice of %d bytes into %d" % (ls[1], lr[1]))
        elif ls != lr:
            self.guard(self.app("({0} == {1})", [self.nat_txt(ls), self.nat_txt(lr)], "bool"),
                       "source slice length does not match destination slice length", False)
        if is_kind(recv, "view"):
            d = self.to_dl(src)
            self.view_set(recv[1], ("dl", d[1], self.to_dl(recv)[2]))
            return
        if is_int(lr) and not is_int(ls):
            # the source has the destination's (static) length under the guard
            d = self.to_dl(src)
            src = d[1]
            self.fr.blen[src[1]] = lr[1]
        self.lv_set(rx, src if not is_kind(src, "rep") else self.rep_bytes(src), env, ctx)

    # ------------------------------------------------------------------ macros
    def ev_macro(self, e, env, ctx, want):
        name, toks = e[1], e[2]
        if env.macro(name) is None and name in ("assert", "debug_assert", "assert_eq", "debug_assert_eq"):
            args = KC.split_args(toks)
            vals = [self.ev(P3(list(a)).expr(), env, ctx) for a in args[:2 if name.endswith("_eq") else 1]]
            if name.endswith("_eq"):
                c = self.binop("==", vals[0], vals[1]) if not (is_int(vals[0]) and is_int(vals[1])) \
                    else ("bool", vals[0][1] == vals[1][1])
            else:
                c = vals[0]
            if is_kind(c, "bool"):
                if not c[1]:
                    self.guard(c, "assertion failed", name.startswith("debug_"))
                return UNIT
            self.guard(c, "assertion failed", name.startswith("debug_"))
            return UNIT
        if env.macro(name) is None and name in ("unreachable", "panic"):
            self.guard(("bool", False), "internal error: entered unreachable code" if name == "unreachable" else "explicit panic", False)
            return ("never",)
        local = env.macro(name)
        if local is not None:
            out = local.expand(KC.split_args(toks))
            p = P3(out)
            x = p.expr()
            if not p.done():
                raise TErr("local macro %s!: expansion is not one expression" % name)
            return self.ev(x, env, ctx, want)
        md = ctx.unit.macros.get(name)
        if md is not None:
            md = self.tr.select_macro(ctx.unit, name, self.spec)
            out = md.expand(KC.split_args(toks))
            stmts, tail = P3(out).block_body()
            return self.exec_block(("block", stmts, tail), env, ctx, want, newscope=False)
        raise TErr("macro %s! is not understood" % name)

    # ------------------------------------------------------------------ if / blocks / early return
    def ev_if(self, e, env, ctx, want):
        c = self.ev(e[1], env, ctx)
        if is_kind(c, "bool"):
            if c[1]:
                return self.exec_block(e[2], Env(env), ctx, want)
            if e[3] is None:
                return UNIT
            return self.exec_block(e[3], Env(env), ctx, want)
        if not (is_node(c) and self.cty(c) == "bool"):
            raise TErr("`if` condition is not a bool")
        snap = self.views_snapshot()
        base = env
        e1, e2 = base.fork(), base.fork()
        try:
            self.pathcond.append((c, True))
            r1 = self.exec_block(e[2], Env(e1), ctx, want)
            self.pathcond.pop()
            self.pathcond.append((c, False))
            r2 = self.exec_block(e[3], Env(e2), ctx, want) if e[3] is not None else UNIT
            self.pathcond.pop()
        except ReturnSig:
            raise TErr("`return` under a symbolic condition that is not at the top level of a function")
        if self.views != snap:
            raise TErr("a `&mut [u8]` parameter is split / written under a symbolic condition")
        for lvl, l1, l2 in zip(base.chain(), e1.chain(), e2.chain()):
            for n in lvl.order:
                a, b = l1.vars[n], l2.vars[n]
                if a is not b and a != b:
                    lvl.vars[n] = self.ite(c, a, b)
        if r1 == UNIT and r2 == UNIT:
            return UNIT
        if r1 == ("never",):
            return r2
        if r2 == ("never",):
            return r1
        return self.ite(c, r1, r2, whole=True)

    def exec_block(self, blk, env, ctx, want=None, newscope=True):
        stmts, tail = blk[1], blk[2]
        top = id(blk) in self.fn_bodies
        for idx, st in enumerate(stmts):
            if top and has_return(st):
                r = self.try_split(blk, idx, st, env, ctx, want)
                if r is not None:
                    return r[0]
            self.exec_stmt(st, env, ctx)
        if tail is None:
            return UNIT
        return self.ev(tail, env, ctx, want)

    def try_split(self, blk, idx, st, env, ctx, want):
        """statement idx of a function body returns under a symbolic condition: the rest of the body is the other branch.
        -> (value,) when handled here, None when the statement is to be executed normally"""
        stmts, tail = blk[1], blk[2]
        rest = ("block", stmts[idx + 1:], tail)
        self.keep.append(rest)
        self.fn_bodies.add(id(rest))
        if st[0] == "expr" and st[1][0] == "if" and st[1][3] is None and not has_return(st[1][1]):
            c = self.ev(st[1][1], env, ctx)
            if is_kind(c, "bool"):
                return None
            if not (is_node(c) and self.cty(c) == "bool"):
                raise TErr("`if` condition is not a bool")

            def branch(envA):
                self.exec_block(st[1][2], Env(envA), ctx)
                raise TErr("the branch of an early-return `if` does not end in `return`")
            return (self.split(c, branch, lambda envB: self.exec_block(rest, envB, ctx, want), env),)
        inner, bind = None, None
        if st[0] == "let" and st[3] is not None and st[3][0] == "try" and not has_return(st[3][1]):
            inner = st[3][1]
            ty = self.rtype(st[2], ctx)[0] if st[2] is not None else None
            bind = lambda v, envB: self.bind(st[1], self.coerce(v, ty), envB)
        elif st[0] == "expr" and st[1][0] == "try" and not has_return(st[1][1]):
            inner = st[1][1]
            bind = lambda v, envB: None
        if inner is None:
            if st[0] == "expr" and st[1][0] == "return":
                return None
            raise TErr("`return` / `?` in a statement form that is not understood")
        r = self.ev(inner, env, ctx)
        if not is_kind(r, "res"):
            raise TErr("`?` on a value that is not a Result / Option")
        if is_kind(r[1], "bool"):
            if not r[1][1]:
                raise ReturnSig(("res", ("bool", False), UNIT))
            bind(r[2], env)
            return (self.exec_block(rest, env, ctx, want),)
        c = self.bnot(r[1])

        def branch(envA):
            raise ReturnSig(("res", ("bool", False), UNIT))

        def cont(envB):
            bind(r[2], envB)
            return self.exec_block(rest, envB, ctx, want)
        return (self.split(c, branch, cont, env),)

    def split(self, c, branch, cont, env):
        snap = self.views_snapshot()
        eA, eB = env.fork(), env.fork()
        self.pathcond.append((c, True))
        try:
            branch(eA)
            raise TErr("early return expected")
        except ReturnSig as s:
            va = s.value
        self.pathcond.pop()
        if self.views != snap:
            raise TErr("a `&mut [u8]` parameter is touched before an early return")
        contentA = dict((vid, self.view_content(vid)) for vid in self.root_views())
        self.pathcond.append((c, False))
        try:
            vb = cont(eB)
        except ReturnSig as s:
            vb = s.value
        self.pathcond.pop()
        for lvl, l1, l2 in zip(env.chain(), eA.chain(), eB.chain()):
            for n in lvl.order:
                a, b = l1.vars[n], l2.vars[n]
                if a is not b and a != b:
                    if is_kind(a, "view") or is_kind(b, "view"):
                        lvl.vars[n] = b          # the function is over: only the contents of the parameter slices matter
                        continue
                    try:
                        lvl.vars[n] = self.ite(c, a, b)
                    except TErr:
                        lvl.vars[n] = ("dead", n)
        for vid, dA in contentA.items():
            dB = self.view_content(vid)
            if dA[1] != dB[1]:
                self.views[vid] = ["leaf", ("dl", self.app("(if {0} then {1} else {2})", [c, dA[1], dB[1]], "bytes"), dA[2])]
        if va == UNIT and vb == UNIT:
            return UNIT
        return self.ite(c, va, vb, whole=True)

    def root_views(self):
        return list(getattr(self, "param_views", {}).values())

    def exec_stmt(self, st, env, ctx):
        if st[0] == "let" and st[3] is not None:
            ty, _ = self.rtype(st[2], ctx) if st[2] is not None else (None, False)
            # `let x = &mut self.field;` : an alias (place) of the field
            init = st[3]
            if init[0] == "addr" and init[1] and st[1][0] == "pid" and self.is_place_expr(init[2], env):
                env.define(st[1][1], ("place", init[2]))
                return
            v = self.coerce(self.ev(init, env, ctx, ty), ty)
            if isinstance(v, tuple) and v and v[0] == "parr":
                raise TErr("`.into()` of undetermined target type")
            self.bind(st[1], v, env)
            return
        if st[0] == "expr":
            self.ev(st[1], env, ctx)
            return
        if st[0] == "assign" and st[2] is not None and st[2] in ("-", "+", "*", "/", "%", "&", "|", "^"):
            rhs = self.ev(st[3], env, ctx, self.type_hint(st[1], env, ctx))
            cur = self.lv_get(st[1], env, ctx)
            self.lv_set(st[1], self.binop(st[2], cur, rhs), env, ctx)
            return
        return KC.Code.exec_stmt(self, st, env, ctx)

    def type_hint(self, lv, env, ctx):
        h = KC.Code.type_hint(self, lv, env, ctx)
        if h is not None:
            return h
        ng = len(self.guards)
        try:
            cur = self.lv_get(lv, env, ctx)
        except TErr:
            return None
        finally:
            del self.guards[ng:]
        if is_kind(cur, "tup") and all((is_node(x) and self.cty(x) in SCALARS) or (is_int(x) and x[2] in SCALARS) for x in cur[1]):
            return ("tup", [self.cty(x) if is_node(x) else x[2] for x in cur[1]])
        if is_kind(cur, "bb"):
            return ("bb", cur[2])
        return None

    IDENTITY_METHODS = ("as_byte_array", "as_byte_array_mut", "bytes", "as_slice", "as_mut_slice", "as_ref", "as_mut")

    def lv_set(self, lv, val, env, ctx):
        if lv[0] == "mcall" and lv[2] in self.IDENTITY_METHODS and not lv[3]:
            return self.lv_set(lv[1], val, env, ctx)
        return KC.Code.lv_set(self, lv, val, env, ctx)

    def is_place_expr(self, e, env):
        while e[0] in ("field", "tfield", "paren"):
            e = e[1]
        if e[0] == "path" and len(e[1]) == 1:
            v = env.lookup(e[1][0])
            return v is not None and not is_kind(v, "view")
        return False

    # ------------------------------------------------------------------ loops
    def strip(self, e):
        while e[0] in ("paren",) or (e[0] == "addr"):
            e = e[1] if e[0] == "paren" else e[2]
        return e

    def exec_for(self, st, env, ctx):
        pat, it, body = st[1], st[2], st[3]
        head = self.strip(it)
        # ---- `for (a, b) in X.iter_mut().zip(Y) { *a ^= *b; }`
        if head[0] == "mcall" and head[2] == "zip" and len(head[3]) == 1:
            lhs = self.strip(head[1])
            if lhs[0] == "mcall" and lhs[2] == "iter_mut" and not lhs[3] and pat[0] == "ptuple" and len(pat[1]) == 2 \
                    and all(q[0] == "pid" for q in pat[1]):
                target = lhs[1]
                tv = self.ev(target, env, ctx)
                if self.is_byteslike(tv):
                    a, b = pat[1][0][1], pat[1][1][1]
                    want = ("assign", ("deref", ("path", [a])), "^", ("deref", ("path", [b])))
                    if not (body[2] is None and len(body[1]) == 1 and body[1][0] == want):
                        raise TErr("a zipped loop over a byte slice whose body is not `*a ^= *b`")
                    rhs = self.strip(head[3][0])
                    if rhs[0] == "mcall" and rhs[2] == "iter" and not rhs[3]:
                        rhs = rhs[1]
                    kv = self.ev(rhs, env, ctx)
                    if not self.is_byteslike(kv):
                        raise TErr("a zipped xor loop whose right-hand side is not a byte slice")
                    new = self.xor_into(tv, kv)
                    if is_kind(tv, "view"):
                        self.view_set(tv[1], self.to_dl(new))
                    else:
                        self.lv_set(target, new, env, ctx)
                    return
        # ---- `for dd in X.chunks_exact_mut(k)` / `X.chunks_mut(k)` / `.enumerate()` over a slice of symbolic length
        enum = False
        h2 = head
        if h2[0] == "mcall" and h2[2] == "enumerate" and not h2[3]:
            enum, h2 = True, self.strip(h2[1])
        if h2[0] == "mcall" and h2[2] in ("chunks_exact_mut", "chunks_mut") and len(h2[3]) == 1:
            xv = self.ev(h2[1], env, ctx)
            if is_kind(xv, "view") and self.static_len(xv) is None:
                k = self.need_int(self.ev(h2[3][0], env, ctx))
                if k <= 0:
                    raise TErr("chunk size 0")
                return self.chunk_loop(xv[1], k, h2[2] == "chunks_exact_mut", enum, pat, body, env, ctx)
        # a loop variable that shadows a variable of the iterator expression (`for (out, x) in out.chunks_exact_mut(8)..`):
        # the iterated variable is renamed for the duration of the loop
        pnames = set()

        def pat_names(q):
            if q[0] == "pid":
                pnames.add(q[1])
            else:
                for x in q[1]:
                    pat_names(x)
        pat_names(pat)
        shadow = [n for n in sorted(pnames) if n != "_" and self.mentions(it, n) and env.lookup(n) is not None]
        if shadow:
            it2 = it
            for n in shadow:
                env.define("$outer_" + n, env.lookup(n))
                it2 = self.subst_root(it2, n, "$outer_" + n)
            KC.Code.exec_for(self, ("for", pat, it2, body), env, ctx)
            for n in shadow:
                env.set(n, env.lookup("$outer_" + n))
            return
        return KC.Code.exec_for(self, st, env, ctx)

    def mentions(self, node, name):
        if isinstance(node, tuple) and node and node[0] == "path" and node[1] == [name]:
            return True
        if isinstance(node, (tuple, list)):
            return any(self.mentions(x, name) for x in node if isinstance(x, (tuple, list)))
        return False

    def subst_root(self, node, old, new):
        if isinstance(node, tuple) and node and node[0] == "path" and node[1] == [old]:
            return ("path", [new])
        if isinstance(node, tuple):
            return tuple(self.subst_root(x, old, new) if isinstance(x, (tuple, list)) else x for x in node)
        if isinstance(node, list):
            return [self.subst_root(x, old, new) if isinstance(x, (tuple, list)) else x for x in node]
        return node

    def import_value(self, v, child, parent):
        if is_kind(v, "dl"):
            n = self.import_value(v[1], child, parent)
            ln = v[2] if is_int(v[2]) else self.import_value(v[2], child, parent)
            return ("dl", n, ln)
        if is_kind(v, "bb"):
            return ("bb", self.import_value(v[1], child, parent), v[2])
        if is_kind(v, "res"):
            return ("res", self.import_value(v[1], child, parent), self.import_value(v[2], child, parent))
        r = KC.Code.import_value(self, v, child, parent)
        if is_node(v) and is_node(r):
            # facts a ≤ b between imported values
            for (fid, a, b) in list(self.le):
                if fid == id(parent) and a in child.imports and b in child.imports:
                    self.le.add((id(child), child.imports[a], child.imports[b]))
        return r

    def listify(self, v):
        if is_kind(v, "rep"):
            return self.rep_bytes(v)
        if isinstance(v, tuple) and v and v[0] in ("bb", "dl", "res", "view", "unit", "bool", "closure", "never"):
            if is_kind(v, "bb"):
                return v
            if is_kind(v, "bool"):
                return self.bconst(v[1])
            return v
        return KC.Code.listify(self, v)

    def flat(self, v, out):
        if is_kind(v, "bb"):
            out.append(v[1])
            return out
        if v == UNIT:
            return out
        if is_kind(v, "rec"):
            for _, x in v[2]:
                self.flat(x, out)
            return out
        return KC.Code.flat(self, v, out)

    def rebuild(self, v, it):
        if is_kind(v, "bb"):
            n = next(it)
            return ("bb", ("n", n[1], "BB"), v[2])
        if v == UNIT:
            return v
        return KC.Code.rebuild(self, v, it)

    def loop_state(self, body_syntax, env, extra_exclude=()):
        """the variables a body may assign, resolved through place aliases: [(name, value)] in declaration order"""
        roots = set()
        self.assigned_roots(body_syntax, roots)
        # aliases: `let t = &mut self.t;` — an assignment through `t` assigns `self`
        changed = True
        while changed:
            changed = False
            for n in list(roots):
                v = env.lookup(n)
                if is_kind(v, "place"):
                    r2 = set()
                    self.root_of(v[1], r2)
                    if not r2 <= roots:
                        roots |= r2
                        changed = True
        state = []
        for n in env.names():
            if n not in roots or n in extra_exclude:
                continue
            v = env.lookup(n)
            if v == ("mach",) or (isinstance(v, tuple) and v and v[0] in ("ctab", "place", "fnref", "view", "closure")):
                continue
            v = self.listify(self.concretize(v))
            env.set(n, v)
            state.append((n, v))
        return state

    def assigned_roots(self, node, out):
        if isinstance(node, tuple) and node and node[0] == "closure":
            self.assigned_roots(node[2], out)
            return
        if isinstance(node, tuple) and node and node[0] == "mcall" and node[2] in (
                "position", "remaining", "len", "as_ref", "to_be", "to_le", "overflowing_sub", "map_err", "is_err", "is_ok"):
            for x in node[3]:
                self.assigned_roots(x, out)
            self.assigned_roots(node[1], out)
            return
        return KC.Code.assigned_roots(self, node, out)

    def enter_child(self, env):
        """a child frame for a loop body / closure body: -> (parent frame, child frame, child env)"""
        parent = self.fr
        child = Frame(parent)
        cenv = env.fork()
        for lvl in cenv.chain():
            for n in lvl.order:
                v = lvl.vars[n]
                if isinstance(v, tuple) and v and v[0] in ("place", "view", "closure"):
                    continue
                lvl.vars[n] = self.import_value(self.listify(self.concretize(v, soft=True)), child, parent)
        self.fr = child
        return parent, child, cenv

    def state_leaves(self, state, child, parent):
        init = []
        for n, v in state:
            self.flat(v, init)
        sel = projs(len(init)) if init else []
        leaves = []
        for i, x in enumerate(init):
            nd = child.dag.leaf("s" + sel[i], parent.dag.nodes[x[1]][-1])
            for side_p, side_c in ((parent.blen, child.blen), (parent.shape, child.shape)):
                if x[1] in side_p:
                    side_c[nd[1]] = side_p[x[1]]
            if parent.dag.nodes[x[1]][-1] == "nat":
                child.iv[nd[1]] = (0, USIZE_MAX)      # a loop-carried usize: only the type's range is an invariant
            leaves.append(("n", nd[1], x[2]))
        return init, leaves

    def chunk_loop(self, vid, k, exact, enum, pat, body, env, ctx):
        content = self.view_content(vid)
        state = self.loop_state(body, env)
        parent, child, cenv = self.enter_child(env)
        frozen0 = set(self.frozen)
        self.frozen |= set(self.views)
        snapshot = [dict(lvl.vars) for lvl in cenv.chain()]
        init, leaves = self.state_leaves(state, child, parent)
        it = iter(leaves)
        for n, v in state:
            cenv.set(n, self.rebuild(v, it))
        sc = Env(cenv)
        dd = child.dag.leaf("dd", "bytes")
        dd = ("n", dd[1], "bytes")
        if exact:
            child.blen[dd[1]] = k
            ddv = self.new_view(("dl", dd, ("int", k, "usize")))
        else:
            ln = self.app("{0}.length", [dd], "nat")
            child.iv[ln[1]] = (1, k)
            ddv = self.new_view(("dl", dd, ln))
        ivar = None
        if enum:
            if not (pat[0] == "ptuple" and len(pat[1]) == 2 and all(q[0] == "pid" for q in pat[1])):
                raise TErr("pattern of an enumerated chunk loop")
            ivar = child.dag.leaf("i", "nat")
            child.iv[ivar[1]] = (0, SLICE_MAX)
            self.bind(pat[1][0], ("n", ivar[1], "nat"), sc)
            self.bind(pat[1][1], ddv, sc)
        else:
            if pat[0] != "pid":
                raise TErr("pattern of a chunk loop")
            self.bind(pat, ddv, sc)
        ng = len(self.guards)
        scope = []
        self.ext_scopes.append(scope)
        self.exec_block(body, sc, ctx)
        self.ext_scopes.pop()
        if len(self.guards) != ng:
            raise TErr("a chunk-loop body that can panic is outside the language")
        snames = set(n for n, _ in state)
        for lvl, before in zip(cenv.chain(), snapshot):
            for n in lvl.order:
                if n not in snames and n in before and lvl.vars[n] != before[n]:
                    raise TErr("the loop body changes `%s`, which was not recognized as loop state" % n)
        outs = []
        it2 = iter(leaves)
        for n, v in state:
            tmpl = self.rebuild(v, it2)
            nv = self.conform(tmpl, self.listify(self.concretize(cenv.lookup(n))), ("path", [n]))
            self.flat(nv, outs)
        if [child.dag.nodes[o[1]][-1] for o in outs] != [parent.dag.nodes[x[1]][-1] for x in init]:
            raise TErr("the loop body changes the type of its state")
        ddout = self.view_content(ddv[1])[1]
        self.nloops += 1
        lname = "%s_loop%d" % (self.spec["lean"], self.nloops)
        caps = self.tr.emit_body(self, child, lname, leaves, [("i", ivar)] if enum else [], dd, outs, ddout,
                                 "body of loop %d of %s" % (self.nloops, self.spec["lean"]), externs=scope)
        self.fr = parent
        self.frozen = frozen0
        del self.views[ddv[1]]
        # the application in the parent frame
        sty = tuple(parent.dag.nodes[x[1]][-1] for x in init)
        S = ("tup", sty) if len(sty) > 1 else (sty[0] if sty else "unitT")
        capargs = [("n", pid, None) for pid in caps]
        k0 = len(capargs)
        fn = "%s%s%s%s" % (lname, "".join(" " + x["lean"] for x in scope), " M" if self.spec.get("mach", True) else "",
                           "".join(" {%d}" % i for i in range(k0)))
        tup = "(" + ", ".join("{%d}" % (k0 + i) for i in range(len(init))) + ")" if len(init) != 1 else "{%d}" % k0
        comb = "forChunksExactMut" if exact else ("forChunksMutEnum" if enum else "forChunksMut")
        if exact and enum:
            raise TErr("enumerated chunks_exact_mut")
        tpl = "%s %d (%s) %s {%d}" % (comb, k, fn, tup, k0 + len(init))
        res = self.app(tpl, capargs + init + [content[1]], ("tup", (S, "bytes")))
        sel = projs(len(init)) if init else []
        newleaves = []
        for p, x in zip(sel, init):
            nd = self.app("{0}.1" + p, [res], x[2] if x[2] is not None else parent.dag.nodes[x[1]][-1])
            nd = ("n", nd[1], x[2])
            for side in (parent.blen, parent.shape):
                if x[1] in side:
                    side[nd[1]] = side[x[1]]
            if parent.dag.nodes[x[1]][-1] == "nat":
                parent.iv[nd[1]] = (0, USIZE_MAX)
            newleaves.append(nd)
        it = iter(newleaves)
        for n, v in state:
            env.set(n, self.rebuild(v, it))
        newc = self.app("{0}.2", [res], "bytes")
        self.view_set(vid, ("dl", newc, content[2]))

    # ------------------------------------------------------------------ closures handed to BlockBuffer primitives
    def bb_method(self, recv, rx, name, argx, targs, env, ctx):
        b = recv[2]
        if name == "position" and not argx:
            n = self.app("{0}.pos", [recv[1]], "nat")
            self.fr.iv[n[1]] = (0, b)
            return n
        if name == "remaining" and not argx:
            pos = self.app("{0}.pos", [recv[1]], "nat")
            self.fr.iv[pos[1]] = (0, b)
            return self.nat_sub_known(("int", b, "usize"), pos)
        if name == "pad_with" and not argx and len(targs) == 1:
            scheme = targs[0][1][-1] if targs[0][0] == "path" else None
            if scheme not in BB_PADDINGS:
                raise TErr("padding scheme %s is not in the trusted table" % scheme)
            r = self.app("%s %d {0}" % (BB_PADDINGS[scheme], b), [recv[1]], ("opt", ("tup", ("BB", "bytes"))))
            ok = self.app("({0}).isSome", [r], "bool")
            val = self.app("({0}).getD (CC.Buffer.BB.init 0, [])", [r], ("tup", ("BB", "bytes")))
            nb = self.app("{0}.1", [val], "BB")
            blk = self.app("{0}.2", [val], "bytes")
            self.fr.blen[blk[1]] = b
            self.lv_set(rx, ("bb", nb, b), env, ctx)
            return ("res", ok, blk)
        if name in BB_PRIMS:
            kind, lean = BB_PRIMS[name]
            pre = []
            if kind == "closure1":
                if len(argx) != 2:
                    raise TErr("%s: two arguments expected" % name)
                inp = self.to_dl(self.ev(argx[0], env, ctx))[1]
                pre, clx = [inp], argx[1]
            elif kind == "len_closure1":
                if len(argx) != 2:
                    raise TErr("%s: two arguments expected" % name)
                pre, clx = [self.as_node(self.ev(argx[0], env, ctx), "u64")], argx[1]
            else:
                if len(argx) != 2:
                    raise TErr("%s: two arguments expected" % name)
                pre, clx = [self.nat_txt(self.natv(self.ev(argx[0], env, ctx)))], argx[1]
            cl = self.ev(clx, env, ctx)
            if not is_kind(cl, "closure"):
                raise TErr("%s: a closure literal is expected" % name)
            return self.apply_prim(lean, b, recv, rx, pre, cl, env, ctx)
        raise TErr("BlockBuffer method `%s` is not in the trusted table" % name)

    # ---- the state of a closure: the PLACES (variables / struct fields) its body may assign
    PURE_METHODS = ("clone", "into", "len", "iter", "extract", "insert", "wrapping_add", "wrapping_sub", "rotate_left",
                    "rotate_right", "unpack", "vec", "to_lanes", "to_le_bytes", "to_be_bytes", "try_into", "unwrap", "zip",
                    "chunks_exact", "fold", "rev", "position", "remaining", "as_ref", "to_be", "to_le", "overflowing_sub",
                    "overflowing_add", "map_err", "is_err", "is_ok", "finalize")

    def lvalue_path(self, e):
        """the variable / field path an lvalue expression writes into (indices dropped), or None"""
        while e[0] in ("deref", "paren", "addr", "index"):
            e = e[-1] if e[0] in ("deref", "paren", "addr") else e[1]
        x = e
        while x[0] in ("field", "tfield"):
            x = x[1]
            while x[0] in ("deref", "paren"):
                x = x[-1]
        if x[0] == "path" and len(x[1]) == 1:
            return e
        return None

    def collect_lvalues(self, node, out):
        if isinstance(node, tuple) and node:
            k = node[0]
            if k == "closure":
                self.collect_lvalues(node[2], out)
                return
            if k == "assign":
                out.append(node[1])
            if k == "addr" and node[1]:
                out.append(node[2])
            if k == "mcall":
                if node[2] in ("copy_from_slice", "write_le", "write_be", "iter_mut", "chunks_exact_mut", "chunks_mut",
                               "split_at_mut"):
                    out.append(node[1])
                    out.extend(node[3])
                elif node[2] not in self.PURE_METHODS and \
                        not re.match(r"^(rotate_each_word_right\d+|shuffle(_lane_words)?\d+)$", node[2]):
                    out.append(node[1])
            if k in ("call", "mcall"):
                key = node[1][-1] if k == "call" else "." + node[2]
                lean = (self.spec.get("calls") or {}).get(key)
                sig = self.tr.sigs.get(lean) if lean else None
                if sig is not None:
                    exprs = (list(node[2]) if k == "call" else [node[1]] + list(node[3]))
                    params = sig["params"] if len(sig["params"]) == len(exprs) else [q for q in sig["params"] if not q[3]]
                    for q, x in zip(params, exprs):
                        if q[2]:
                            out.append(x)
            if k == "macro":
                out.append(("wholemacro", node))
                return
            for x in node[1:]:
                if isinstance(x, (list, tuple)):
                    self.collect_lvalues(x, out)
        elif isinstance(node, list):
            for x in node:
                if isinstance(x, (list, tuple)):
                    self.collect_lvalues(x, out)

    def resolve_place(self, e, env):
        """substitute place aliases (`let t = &mut self.t;`) at the root of a field path"""
        if e[0] in ("field", "tfield"):
            return (e[0], self.resolve_place(e[1], env), e[2])
        if e[0] in ("deref", "paren"):
            return self.resolve_place(e[-1], env)
        if e[0] == "path" and len(e[1]) == 1:
            v = env.lookup(e[1][0])
            if is_kind(v, "place"):
                p = self.lvalue_path(v[1])
                if p is None:
                    raise TErr("alias of something that is not a variable / field")
                return self.resolve_place(p, env)
        return e

    def path_key(self, e, env, ctx):
        """(declaration index of the root variable, field positions) — the canonical order of closure state"""
        idx = []
        x = e
        while x[0] in ("field", "tfield"):
            base = self.ev(x[1], env, ctx)
            if x[0] == "tfield":
                idx.append(x[2])
            elif is_kind(base, "rec"):
                idx.append([f for f, _ in base[2]].index(str(x[2])))
            else:
                raise TErr("field path through a value that is not a struct")
            x = x[1]
        names = env.names()
        return (names.index(x[1][0]), tuple(reversed(idx)))

    def closure_places(self, body, env, ctx):
        lvs = []
        self.collect_lvalues(body, lvs)
        paths = []
        for lv in lvs:
            if lv[0] == "wholemacro":
                md = env.macro(lv[1][1])
                if md is None and lv[1][1] in ("unreachable", "panic", "assert", "debug_assert", "assert_eq", "debug_assert_eq"):
                    continue
                raise TErr("macro call in a closure body")
            p = self.lvalue_path(lv)
            if p is None:
                continue
            root = p
            while root[0] in ("field", "tfield", "deref", "paren"):
                root = root[1] if root[0] in ("field", "tfield") else root[-1]
            if env.lookup(root[1][0]) is None:
                continue                       # a local of the closure body
            p = self.resolve_place(p, env)
            if p not in paths:
                paths.append(p)
        # drop paths that have a proper prefix in the list
        def prefixes(e):
            out = []
            while e[0] in ("field", "tfield"):
                e = e[1]
                out.append(e)
            return out
        paths = [p for p in paths if not any(q in paths for q in prefixes(p))]
        keyed = sorted(((self.path_key(p, env, ctx), i, p) for i, p in enumerate(paths)), key=lambda t: (t[0], t[1]))
        return [p for _k, _i, p in keyed]

    def apply_prim(self, lean, b, recv, rx, pre, cl, env, ctx):
        """buffer.<prim>(pre.., |block| body): the closure body becomes a definition over (state, block); the state is the
        tuple of the places the body assigns"""
        _, params, body, cenv0, cctx = cl
        if len(params) != 1 or params[0][0] != "pid":
            raise TErr("closure with a parameter list that is not one identifier")
        body_blk = body if body[0] == "block" else ("block", [], body)
        places = self.closure_places(body_blk, env, ctx)
        state = []
        for pl in places:
            v = self.listify(self.concretize(self.ev(pl, env, ctx)))
            if is_kind(v, "view") or is_kind(v, "closure"):
                raise TErr("a closure that assigns a slice parameter")
            self.lv_set(pl, v, env, ctx)
            state.append((pl, v))
        parent, child, cenv = self.enter_child(env)
        frozen0 = set(self.frozen)
        self.frozen |= set(self.views)
        init, leaves = self.state_leaves([(None, v) for _, v in state], child, parent)
        it = iter(leaves)
        for pl, v in state:
            self.lv_set(pl, self.rebuild(v, it), cenv, cctx)
        snapshot = [dict(lvl.vars) for lvl in cenv.chain()]
        sc = Env(cenv)
        blk = child.dag.leaf("block", "bytes")
        blk = ("n", blk[1], "bytes")
        child.blen[blk[1]] = b
        if params[0][1] != "_":
            sc.define(params[0][1], blk)
        # the body runs with its own guards and path conditions
        g0, pc0, up0 = self.guards, self.pathcond, self.uses_profile
        self.guards, self.pathcond, self.uses_profile = [], [], False
        scope = []
        self.ext_scopes.append(scope)
        try:
            self.exec_block(body_blk, sc, cctx)
        except ReturnSig:
            raise TErr("`return` inside a closure")
        self.ext_scopes.pop()
        cguards, cprof = self.guards, self.uses_profile
        self.guards, self.pathcond, self.uses_profile = g0, pc0, up0 or cprof
        outs = []
        it2 = iter(leaves)
        for pl, v in state:
            tmpl = self.rebuild(v, it2)
            nv = self.conform(tmpl, self.listify(self.concretize(self.ev(pl, cenv, cctx))), pl)
            self.flat(nv, outs)
            self.lv_set(pl, tmpl, cenv, cctx)          # for the comparison below
        for lvl, before in zip(cenv.chain(), snapshot):
            for n in lvl.order:
                if n in before and lvl.vars[n] != before[n]:
                    raise TErr("the closure changes `%s` outside the places recognized as its state" % n)
        if [child.dag.nodes[o[1]][-1] for o in outs] != [parent.dag.nodes[x[1]][-1] for x in init]:
            raise TErr("the closure changes the type of its state")
        self.ncl += 1
        lname = "%s_closure%d" % (self.spec["lean"], self.ncl)
        caps = self.tr.emit_body(self, child, lname, leaves, [], blk, outs, None,
                                 "closure %d of %s" % (self.ncl, self.spec["lean"]), guards=cguards, profile=cprof,
                                 externs=scope)
        self.fr = parent
        self.frozen = frozen0
        sty = tuple(parent.dag.nodes[x[1]][-1] for x in init)
        S = ("tup", sty) if len(sty) > 1 else (sty[0] if sty else "unitT")
        capargs = [("n", pid, None) for pid in caps]
        k0 = len(capargs)
        fn = "%s%s%s%s%s" % (lname, "".join(" " + x["lean"] for x in scope), " M" if self.spec.get("mach", True) else "",
                             " p" if cprof else "", "".join(" {%d}" % i for i in range(k0)))
        np_ = len(pre)
        pre_tpl = "".join(" {%d}" % (k0 + i) for i in range(np_))
        tup = "(" + ", ".join("{%d}" % (k0 + np_ + 1 + i) for i in range(len(init))) + ")" if len(init) != 1 \
            else "{%d}" % (k0 + np_ + 1)
        if not init:
            tup = "()"
        monadic = bool(cguards)
        if monadic:
            tpl = "%s %d {%d}%s (fun a blk => a >>= fun s => %s s blk) (Out.ok %s)" % (lean, b, k0 + np_, pre_tpl, fn, tup)
            rty = ("tup", ("BB", ("out", S)))
        else:
            tpl = "%s %d {%d}%s (%s) %s" % (lean, b, k0 + np_, pre_tpl, fn, tup)
            rty = ("tup", ("BB", S))
        # argument order of the template: captures, pre-arguments, the buffer, the initial state
        res = self.app(tpl, capargs + list(pre) + [recv[1]] + init, rty)
        acc = self.app("{0}.2", [res], rty[1][1])
        if monadic:
            self.uses_profile = self.uses_profile or cprof
            self.guard(self.app("outOk {0}", [acc], "bool"), "the closure panicked", False)
            acc = self.app("outGet {0}", [acc], S)
        sel = projs(len(init)) if init else []
        newleaves = []
        for p, x in zip(sel, init):
            nd = self.app("{0}" + p, [acc], x[2] if x[2] is not None else parent.dag.nodes[x[1]][-1])
            nd = ("n", nd[1], x[2])
            for side in (parent.blen, parent.shape):
                if x[1] in side:
                    side[nd[1]] = side[x[1]]
            if parent.dag.nodes[x[1]][-1] == "nat":
                parent.iv[nd[1]] = (0, USIZE_MAX)
            newleaves.append(nd)
        it = iter(newleaves)
        for pl, v in state:
            self.lv_set(pl, self.rebuild(v, it), env, ctx)
        nb = self.app("{0}.1", [res], "BB")
        self.lv_set(rx, ("bb", nb, b), env, ctx)
        return UNIT

    # ------------------------------------------------------------------ calls kept as calls of generated definitions
    def flat_args(self, v, out):
        """the nodes of an argument value in the order `fresh` creates the leaves of a parameter"""
        if v == UNIT:
            return
        if is_kind(v, "rep"):
            v = self.rep_bytes(v)
        if is_kind(v, "view") or is_kind(v, "dl"):
            out.append(self.to_dl(v)[1])
        elif is_kind(v, "bb"):
            out.append(v[1])
        elif is_node(v):
            out.append(v)
        elif is_kind(v, "buf"):
            out.append(self.buf_node(v))
        elif is_int(v):
            if v[2] in SCALARS:
                out.append(self.const(v[1], v[2]))
            else:
                out.append(self.as_node(v, "nat"))
        elif is_kind(v, "bool"):
            out.append(self.bconst(v[1]))
        elif is_kind(v, "arr") and v[1] and all((is_node(x) and self.cty(x) in SCALARS) or is_int(x) for x in v[1]):
            if all(is_int(x) and x[2] in (None, "u8") for x in v[1]) or all(is_node(x) and self.cty(x) == "u8" for x in v[1]):
                out.append(self.buf_node(self.buf_of(v)))
            else:
                out.append(self.to_list(v))
        elif is_kind(v, "arr") or is_kind(v, "tup"):
            for x in v[1]:
                self.flat_args(x, out)
        elif is_kind(v, "rec"):
            for _, x in v[2]:
                self.flat_args(x, out)
        else:
            raise TErr("argument of a kept call that is not made of values (%s)" % (v[0] if isinstance(v, tuple) and v else v))

    def gcall(self, lean, recv_expr, arg_exprs, env, ctx):
        sig = self.tr.sigs.get(lean)
        if sig is None:
            raise TErr("kept call of %s: that definition has not been generated (before this one)" % lean)
        exprs = ([recv_expr] if recv_expr is not None else []) + list(arg_exprs)
        params = sig["params"]
        if len(exprs) != len(params):
            # the machine argument of a `dispatch!`-wrapped callee is not written at the call
            params = [q for q in params if not q[3]]
        if len(exprs) != len(params):
            raise TErr("kept call of %s: %d arguments for %d parameters" % (lean, len(exprs), len(params)))
        args, places = [], {}
        for (pname, pty, mut, is_mach), x in zip(params, exprs):
            if is_mach:
                continue
            v = self.coerce(self.ev(x, env, ctx, pty), pty)
            if is_int(v) and isinstance(pty, str) and pty in SCALARS:
                v = self.const(v[1], pty)
            places[pname] = (x, v)
            self.flat_args(v, args)
        for name, ty in sig.get("extra", []):
            args.append(self.param_leaf(name, ty))
        want = [carrier(t) if isinstance(t, str) else t for _, t in list(sig["leaves"]) + list(sig.get("extra", []))]
        got = [self.cty(a) for a in args]
        if want != got:
            raise TErr("kept call of %s: argument types %s for parameters %s" % (lean, got, want))
        for a, (_, t) in zip(args, sig["leaves"]):
            if t == "bytes" and a[1] in self.fr.blen and sig["blens"].get(_) is not None \
                    and self.fr.blen[a[1]] != sig["blens"][_]:
                raise TErr("kept call of %s: a buffer of %d bytes for a parameter of %d" % (lean, self.fr.blen[a[1]], sig["blens"][_]))
        tpl = "%s%s%s%s%s" % (lean, "".join(" " + x for x in sig.get("ext_args", [])), " M" if sig["mach"] else "",
                              " p" if sig["profile"] else "", "".join(" {%d}" % i for i in range(len(args))))
        if sig["profile"]:
            self.uses_profile = True
        for ext in sig.get("externs", []):
            self.use_extern(ext)
        otys = tuple(sig["outs"])
        T = ("tup", otys) if len(otys) > 1 else otys[0]
        if sig["out"]:
            r = self.app(tpl, args, ("out", T))
            self.guard(self.app("outOk {0}", [r], "bool"), "the callee panicked", False)
            r = self.app("outGet {0}", [r], T)
        else:
            r = self.app(tpl, args, T)
        comps = [self.app("{0}" + p, [r], t) for p, t in zip(projs(len(otys)), otys)] if len(otys) > 1 else [r]
        it = iter(comps)
        ret = UNIT
        for (name, shape) in sig["results"]:
            v = self.unshape(shape, it)
            if name == "result":
                ret = v
            else:
                x, old = places[name]
                if is_kind(old, "view"):
                    self.view_set(old[1], ("dl", self.to_dl(v)[1], self.to_dl(old)[2]))
                else:
                    self.lv_set(x, v, env, ctx)
        return ret

    def shape_of(self, v, outs):
        """flatten a result value into nodes (appended to outs) -> its shape"""
        if v == UNIT:
            return ("unit",)
        if is_kind(v, "never"):
            raise TErr("a function whose result is `!`")
        if is_kind(v, "rep"):
            v = self.rep_bytes(v)
        if is_kind(v, "bool"):
            v = self.bconst(v[1])
        if is_kind(v, "res"):
            return ("res", self.shape_of(v[1], outs), self.shape_of(v[2], outs))
        if is_kind(v, "bb"):
            outs.append(v[1])
            return ("bb", v[2])
        if is_kind(v, "view"):
            v = self.view_content(v[1])
        if is_kind(v, "dl"):
            outs.append(v[1])
            return ("dl",) if not is_int(v[2]) else ("leaf", "bytes", v[2][1], None)
        if is_kind(v, "buf"):
            outs.append(self.buf_node(v))
            return ("leaf", "bytes", v[1], None)
        if is_node(v):
            outs.append(v)
            t = self.cty(v)
            return ("leaf", v[2] if v[2] is not None else t, self.fr.blen.get(v[1]), self.fr.shape.get(v[1]))
        if is_int(v) and v[2] in SCALARS:
            outs.append(self.const(v[1], v[2]))
            return ("leaf", v[2], None, None)
        if is_int(v):
            outs.append(self.as_node(v, "nat"))
            return ("leaf", "nat", None, None)
        if is_kind(v, "arr") and v[1] and all((is_node(x) and self.cty(x) in SCALARS) or is_int(x) for x in v[1]):
            if all(is_int(x) and x[2] in (None, "u8") for x in v[1]) or all(is_node(x) and self.cty(x) == "u8" for x in v[1]):
                nd = self.buf_node(self.buf_of(v))
                outs.append(nd)
                return ("leaf", "bytes", len(v[1]), None)
            nd = self.to_list(v)
            outs.append(nd)
            return ("leaf", self.cty(nd), None, self.fr.shape.get(nd[1]))
        if is_kind(v, "arr") and v[1] and all(is_kind(r, "arr") and r[1] and
                                              all((is_node(x) and self.cty(x) in SCALARS) or is_int(x) for x in r[1]) for r in v[1]):
            nd = self.to_list(("arr", [self.concretize(r) for r in v[1]]))
            outs.append(nd)
            return ("leaf", self.cty(nd), None, self.fr.shape.get(nd[1]))
        if is_kind(v, "tup") or is_kind(v, "arr"):
            return (v[0], [self.shape_of(x, outs) for x in v[1]])
        if is_kind(v, "rec"):
            return ("rec", v[1], [(f, self.shape_of(x, outs)) for f, x in v[2]])
        raise TErr("result contains a value that cannot be returned (%s)" % (v[0] if isinstance(v, tuple) and v else v))

    def unshape(self, sh, it):
        k = sh[0]
        if k == "unit":
            return UNIT
        if k == "res":
            return ("res", self.unshape(sh[1], it), self.unshape(sh[2], it))
        if k == "bb":
            n = next(it)
            return ("bb", ("n", n[1], "BB"), sh[1])
        if k == "dl":
            n = next(it)
            ln = self.app("{0}.length", [n], "nat")
            self.fr.iv[ln[1]] = (0, SLICE_MAX)
            return ("dl", n, ln)
        if k == "leaf":
            n = next(it)
            n = ("n", n[1], sh[1] if isinstance(sh[1], str) else None)
            if sh[2] is not None:
                self.fr.blen[n[1]] = sh[2]
            if sh[3] is not None:
                self.fr.shape[n[1]] = sh[3]
            if self.cty(n) == "nat":
                self.fr.iv[n[1]] = (0, USIZE_MAX)
            return n
        if k in ("tup", "arr"):
            return (k, [self.unshape(x, it) for x in sh[1]])
        if k == "rec":
            return ("rec", sh[1], [(f, self.unshape(x, it)) for f, x in sh[2]])
        raise TErr("shape")


# =========================================================================== the translator

def p2_shape(code, v):
    """shape of a phase-2 result value, in the order `Translator.flat_out` flattens it"""
    if is_node(v):
        return ("leaf", v[2] if v[2] is not None else code.cty(v), code.fr.blen.get(v[1]), code.fr.shape.get(v[1]))
    if is_kind(v, "buf"):
        return ("leaf", "bytes", v[1], None)
    scal = lambda x: (is_node(x) and code.cty(x) in SCALARS) or is_int(x)
    if is_kind(v, "arr") and v[1] and all(scal(x) for x in v[1]):
        el = None
        for x in v[1]:
            if is_node(x):
                el = code.cty(x)
            elif is_int(x) and x[2] is not None:
                el = "nat" if x[2] == "usize" else x[2]
        return ("leaf", ("list", el), None, (len(v[1]),))
    if is_kind(v, "arr") and v[1] and all(is_kind(r, "arr") and r[1] and all(scal(x) for x in r[1]) for r in v[1]):
        el = None
        for r in v[1]:
            for x in r[1]:
                if is_node(x):
                    el = code.cty(x)
                elif is_int(x) and x[2] is not None:
                    el = "nat" if x[2] == "usize" else x[2]
        return ("leaf", ("list", ("list", el)), None, (len(v[1]), len(v[1][0][1])))
    if is_kind(v, "tup") or is_kind(v, "arr"):
        return (v[0], [p2_shape(code, x) for x in v[1]])
    if is_kind(v, "rec"):
        return ("rec", v[1], [(f, p2_shape(code, x)) for f, x in v[2]])
    if is_int(v) and v[2] in SCALARS:
        return ("leaf", v[2], None, None)
    raise TErr("shape of a phase-2 result")


class Unit3(KC.Unit):
    """a compilation unit with SEVERAL item-macro invocations expanded in place: expand = ((macro, index), ..)"""

    def __init__(self, repo, rel, drop=(), expand=()):
        KC.Unit.__init__(self, repo, rel, drop=drop, expand=None)
        # same macro: higher indices first (an expansion removes its invocation)
        for name, which in sorted(expand, key=lambda e: (e[0], -e[1])):
            invs = list(self._invocation_spans(name))
            if which >= len(invs):
                raise TErr("invocation %d of %s! not found in %s" % (which, name, rel))
            a, b, args = invs[which]
            md = self.macros.get(name)
            if md is None:
                raise TErr("macro_rules! %s not found in %s" % (name, rel))
            if isinstance(md, TErr):
                raise md
            self.toks = self.toks[:a] + md.expand(args) + self.toks[b:]
            self._index()
            self.macros = self._macro_defs()


class GlueTranslator(KC.Translator):
    def __init__(self, repo):
        KC.Translator.__init__(self, repo)
        self.sigs = {}

    def unit(self, rel, expand=None, drop=()):
        if isinstance(expand, list):
            key = (rel, tuple(expand), tuple(drop))
            if key not in self.units:
                try:
                    self.units[key] = Unit3(self.repo, rel, drop=("#[cfg(target_endian=\"big\")]",) + tuple(drop),
                                            expand=tuple(expand))
                except TErr as e:
                    self.units[key] = e
                except Exception as e:
                    self.units[key] = TErr("%s: %s: %s" % (rel, type(e).__name__, e))
            if isinstance(self.units[key], TErr):
                raise self.units[key]
            return self.units[key]
        return KC.Translator.unit(self, rel, expand, drop)

    # ---- item lookup
    def impl_headers(self, unit):
        t = unit.toks
        out = []
        for i in range(len(t)):
            if is_id(t[i], "impl") and not unit.in_macro(i):
                p = P2(t, i + 1)
                try:
                    p.generics()
                except TErr:
                    continue
                j = p.i
                k, depth = j, 0
                while k < len(t) and not (is_p(t[k], "{") and depth == 0):
                    if is_p(t[k], "<"):
                        depth += 1
                    elif is_p(t[k], ">"):
                        depth -= 1
                    elif is_p(t[k], ">>"):
                        depth -= 2
                    k += 1
                if k >= len(t):
                    continue
                hdr = t[j:k]
                for q, x in enumerate(hdr):
                    if is_id(x, "where"):
                        hdr = hdr[:q]
                        break
                out.append((k, match_close(t, k), "".join(x.s if x.k != "id" or x.s != "for" else " for " for x in hdr)))
        return out

    def fn_at(self, unit, i, im):
        """the FnItem2 of the `fn` keyword at token i"""
        t = unit.toks
        name = t[i + 1].s
        p = P3(t, i + 2)
        gens = p.generics()
        p.eat_p("(")
        params = []
        while not p.at_p(")"):
            if p.at_p("#"):
                raise TErr("attribute on a parameter of fn %s" % name)
            if p.at_p("&") and (p.at_id("self", 1) or (p.at_id("mut", 1) and p.at_id("self", 2))):
                mut = p.at_id("mut", 1)
                p.i += 3 if mut else 2
                params.append((("self", mut), None))
            elif p.at_id("self") or (p.at_id("mut") and p.at_id("self", 1)):
                p.i += 2 if p.at_id("mut") else 1
                params.append((("self", False), None))
            else:
                pat = p.pattern()
                p.eat_p(":")
                params.append((pat, p.type_()))
            if p.at_p(","):
                p.i += 1
            elif not p.at_p(")"):
                raise TErr("parameter list of fn %s not understood at `%s`" % (name, p.ctx()))
        p.eat_p(")")
        ret = None
        if p.at_p("->"):
            p.i += 1
            ret = p.type_()
        if p.at_id("where"):
            while not p.at_p("{"):
                p.i += 1
        if not p.at_p("{"):
            raise TErr("body of fn %s not found" % name)
        shift = len(p.t) - len(t)             # the parser splits `>>` tokens of nested generics in its own copy
        start = p.i - shift
        e = match_close(t, start)
        f = KC.FnItem2(name, gens, params, ret, (start + 1, e - 1), im, i)
        f.unit = unit
        return f

    def find_fn(self, unit, name, owner=None, optional=False):
        if getattr(self, "glue_mode", False) and owner is not None:
            # a method / associated function: only functions of an `impl owner` block qualify (this unit, then its siblings)
            for u in [unit] + list(unit.siblings):
                t = u.toks
                hits = [(i, u.enclosing_impl(i)) for i in range(len(t) - 1)
                        if is_id(t[i], "fn") and is_id(t[i + 1], name) and not u.in_macro(i)]
                hits = [h for h in hits if h[1] is not None and h[1][3] == owner]
                if len(hits) > 1:
                    raise TErr("fn %s::%s is defined %d times in %s" % (owner, name, len(hits), u.rel))
                if hits:
                    return self.fn_at(u, hits[0][0], hits[0][1])
            if optional:
                return None
            raise TErr("fn %s::%s not found" % (owner, name))
        f = KC.Translator.find_fn(self, unit, name, owner, optional)
        if f is None or not getattr(self, "glue_mode", False):
            return f
        return self.fn_at(f.unit, f.pos, f.impl)       # re-parsed with the phase-3 parser (`impl Trait` parameter types)

    def find_struct3(self, unit, name):
        """struct declaration, field types parsed with the phase-3 parser -> (generics, [(field, type)])"""
        for u in [unit] + list(unit.siblings):
            t = u.toks
            hits = [i for i in range(len(t) - 1) if is_id(t[i], "struct") and is_id(t[i + 1], name) and not u.in_macro(i)]
            if not hits:
                continue
            if len(hits) != 1:
                raise TErr("struct %s: %d declarations in %s" % (name, len(hits), u.rel))
            p = P3(t, hits[0] + 2)
            gens = p.generics()
            while not (p.at_p("{") or p.at_p("(") or p.at_p(";")):
                p.i += 1                                   # where-clause
            fields = []
            if p.at_p(";"):
                return gens, fields
            tuple_struct = p.at_p("(")
            e = match_close(t, p.i)
            q = P3(list(t[p.i + 1:e - 1]))
            k = 0
            while not q.done():
                while q.at_p("#"):
                    q.i = IK.skip_attr(q.t, q.i)
                if q.at_id("pub"):
                    q.i += 1
                    if q.at_p("("):
                        q.i = match_close(q.t, q.i)
                if tuple_struct:
                    fields.append((str(k), q.type_()))
                    k += 1
                else:
                    f = q.eat_id()
                    q.eat_p(":")
                    fields.append((f, q.type_()))
                if q.at_p(","):
                    q.i += 1
            return gens, fields
        raise TErr("struct %s: 0 declarations in %s" % (name, unit.rel))

    def find_fn_header(self, unit, name, header):
        """`fn name` directly inside the impl block whose header text (generics and where-clause dropped) is `header`"""
        t = unit.toks
        hits = []
        for (a, b, txt) in self.impl_headers(unit):
            if txt.replace(" ", "") != header.replace(" ", ""):
                continue
            depth = 0
            for i in range(a, b):
                if is_p(t[i], "{"):
                    depth += 1
                elif is_p(t[i], "}"):
                    depth -= 1
                elif depth == 1 and is_id(t[i], "fn") and is_id(t[i + 1], name):
                    hits.append((i, (a, b)))
        if len(hits) != 1:
            raise TErr("fn %s in `impl %s`: %d definitions in %s" % (name, header, len(hits), unit.rel))
        i, (a, b) = hits[0]
        im = unit.enclosing_impl(i)
        return self.fn_at(unit, i, im)

    def find_fn_direct(self, unit, name, owner):
        t = unit.toks
        hits = []
        for (a, b, g, s) in unit.impls:
            if s != owner:
                continue
            depth = 0
            for i in range(a, b):
                if is_p(t[i], "{"):
                    depth += 1
                elif is_p(t[i], "}"):
                    depth -= 1
                elif depth == 1 and is_id(t[i], "fn") and is_id(t[i + 1], name):
                    hits.append((i, (a, b, g, s)))
        if len(hits) != 1:
            raise TErr("fn %s::%s: %d definitions in %s" % (owner, name, len(hits), unit.rel))
        return self.fn_at(unit, hits[0][0], hits[0][1])

    # ---- printing of loop / closure bodies
    def ext_header(self, code, externs, sigtext):
        """`{C : Type} (f : C → ..)` for the externs used and the opaque types the signature mentions"""
        tvars = []
        for ext in externs:
            for tv in ext.get("tvars", []):
                if tv not in tvars:
                    tvars.append(tv)
        for tv in list((code.spec.get("opaque_types") or {}).values()) + list(code.spec.get("tvars") or []):
            if tv not in tvars and re.search(r"(?<![A-Za-z0-9_.])%s(?![A-Za-z0-9_.])" % re.escape(tv), sigtext):
                tvars.append(tv)
        hdr = []
        if tvars:
            hdr.append("{%s : Type}" % " ".join(tvars))
        for inst in (code.spec.get("inst") or []):
            hdr.append(inst)
        for ext in externs:
            hdr.append("(%s : %s)" % (ext["lean"], ext["type"]))
        return "".join(x + " " for x in hdr)

    def emit_body(self, code, child, lname, leaves, extra_vars, chunk, outs, ddout, what, guards=None, profile=False,
                  externs=()):
        allouts = list(outs) + ([ddout] if ddout is not None else [])
        extra = []
        for (pcs, g, msg, dbg) in (guards or []):
            extra += [c for c, _pol in pcs] + [g]
        order, caps = self.order_of(child, allouts + extra)
        rename = {}
        inv = dict((v, k) for k, v in child.imports.items())
        for j, c in enumerate(caps):
            rename[c] = "c%d" % (j + 1)
        for nm, var in extra_vars:
            rename[var[1]] = nm
        L, _res, ref = self.body_lines(child, allouts, rename, extra)
        sty = " × ".join(lean_ty(child.dag.nodes[x[1]][-1]) for x in leaves) if leaves else "Unit"
        sig = "(M : Mach) " if code.spec.get("mach", True) else ""
        if profile:
            sig += "(p : Profile) "
        sig0 = sig
        for c in caps:
            sig += "(%s : %s) " % (rename[c], lean_ty(child.dag.nodes[c][-1]))
        sig += "(s : %s)" % sty
        for nm, var in extra_vars:
            sig += " (%s : %s)" % (nm, lean_ty(child.dag.nodes[var[1]][-1]))
        sig += " (%s : List (BitVec 8))" % child.dag.nodes[chunk[1]][1]
        sig = self.ext_header(code, externs, sig) + sig
        sres = ", ".join(ref(o[1]) for o in outs)
        sres = "(%s)" % sres if len(outs) != 1 else sres
        if ddout is not None:
            rty = "(%s) × List (BitVec 8)" % sty if len(leaves) > 1 else "%s × List (BitVec 8)" % sty
            res = "(%s, %s)" % (sres, ref(ddout[1]))
        else:
            rty, res = sty, sres
        txt = ["/-- %s -/" % what, "def %s %s :" % (lname, sig)]
        if guards:
            txt.append("    Out (%s) :=" % rty)
            txt += L
            for (pcs, g, msg, dbg) in guards:
                conds = (["p = .debug"] if dbg else [])
                for (c, pol) in pcs:
                    conds.append("%s = %s" % (ref(c[1]), "true" if pol else "false"))
                conds.append("%s = false" % ref(g[1]))
                txt.append("  if %s then .panic %s else" % (" ∧ ".join(conds), IK._lean_str(msg)))
            txt.append("  .ok %s" % res)
        else:
            txt.append("    %s :=" % rty)
            txt += L
            txt.append("  " + res)
        self.loops.append("\n".join(txt))
        return [inv[c] for c in caps]

    # ---- inventories: struct declarations (fields, derives, hand-written impls of Clone / Copy / Default / Drop), trait impls
    WATCHED_TRAITS = ("Clone", "Copy", "Default", "Drop")

    def attrs_before(self, unit, i):
        """texts of the attributes directly before the item keyword at token i (visibility skipped)"""
        t = unit.toks
        j = i
        if j > 0 and is_p(t[j - 1], ")"):
            k = j - 1
            while k > 0 and not is_p(t[k], "("):
                k -= 1
            if k > 0 and is_id(t[k - 1], "pub"):
                j = k - 1
        elif j > 0 and is_id(t[j - 1], "pub"):
            j -= 1
        out = []
        while j > 0 and is_p(t[j - 1], "]"):
            depth, k = 0, j - 1
            while k >= 0:
                if is_p(t[k], "]"):
                    depth += 1
                elif is_p(t[k], "["):
                    depth -= 1
                    if depth == 0:
                        break
                k -= 1
            if k < 1 or not is_p(t[k - 1], "#"):
                break
            out.append("".join(x.s for x in t[k + 1:j - 1]))
            j = k - 1
        return out[::-1]

    def struct_row(self, unit, name):
        for u in [unit] + list(unit.siblings):
            t = u.toks
            hits = [i for i in range(len(t) - 1) if (is_id(t[i], "struct") or is_id(t[i], "union")) and is_id(t[i + 1], name)
                    and not u.in_macro(i)]
            if not hits:
                continue
            if len(hits) != 1:
                raise TErr("struct %s: %d declarations in %s" % (name, len(hits), u.rel))
            i = hits[0]
            kind = t[i].s
            if kind == "struct":
                _g, fields = self.find_struct3(u, name)
                fnames = [f for f, _ in fields]
            else:
                p = P3(t, i + 2)
                p.generics()
                while not p.at_p("{"):
                    p.i += 1
                e = match_close(t, p.i)
                q = P3(list(t[p.i + 1:e - 1]))
                fnames = []
                while not q.done():
                    fnames.append(q.eat_id())
                    q.eat_p(":")
                    q.type_()
                    if q.at_p(","):
                        q.i += 1
            derives = []
            for a in self.attrs_before(u, i):
                m = re.match(r"^derive\((.*)\)$", a)
                if m:
                    derives += [x.split("::")[-1] for x in m.group(1).split(",") if x]
            impls = []
            for (_a, _b, txt) in self.impl_headers(u):
                m = re.match(r"^(?:[\w]+::)*(\w+)(?:<.*>)? for (\w+)(?:<.*>)?$", txt.strip())
                if m and m.group(2) == name and m.group(1) in self.WATCHED_TRAITS:
                    impls.append(m.group(1))
            for bad in ("Clone", "Drop"):
                if bad in impls:
                    raise TErr("hand-written `impl %s for %s` (not derived): it is not translated" % (bad, name))
            return (name, kind, fnames, sorted(derives), sorted(impls))
        raise TErr("struct %s not found" % name)

    def struct_inventory(self, spec):
        unit = self.unit(spec["file"], spec.get("expand"), spec.get("drop", ()))
        unit.siblings = [self.unit(r) for r in spec.get("with", ())]
        rows = []
        for name in spec["structs"]:
            n, kind, fields, derives, impls = self.struct_row(unit, name)
            ls = lambda xs: "[" + ", ".join(IK._lean_str(x) for x in xs) + "]"
            rows.append("(%s, %s, %s, %s, %s)" % (IK._lean_str(n), IK._lean_str(kind), ls(fields), ls(derives), ls(impls)))
        txt = "def %s : List (String × String × List String × List String × List String) := [\n  %s]" % (
            spec["lean"], ",\n  ".join(rows))
        return [txt], "name, struct / union, fields, derived traits, hand-written impls among Clone / Copy / Default / Drop"

    def trait_inventory(self, spec):
        """every `impl Trait for Type` of the named types: (type, trait, [fn names in source order])"""
        unit = self.unit(spec["file"], spec.get("expand"), spec.get("drop", ()))
        t = unit.toks
        rows = []
        for (a, b, txt) in self.impl_headers(unit):
            m = re.match(r"^(?:[\w]+::)*(\w+)(?:<.*>)? for (\w+)(?:<.*>)?$", txt.strip())
            if not m or m.group(2) not in spec["types"] or m.group(1) in spec.get("skip", ()):
                continue
            fns, depth = [], 0
            for i in range(a, b):
                if is_p(t[i], "{"):
                    depth += 1
                elif is_p(t[i], "}"):
                    depth -= 1
                elif depth == 1 and is_id(t[i], "fn") and is_id(t[i + 1]):
                    fns.append(t[i + 1].s)
            rows.append("(%s, %s, [%s])" % (IK._lean_str(m.group(2)), IK._lean_str(m.group(1)),
                                            ", ".join(IK._lean_str(x) for x in fns)))
        if not rows:
            raise TErr("no trait impls found")
        txt = "def %s : List (String × String × List String) := [\n  %s]" % (spec["lean"], ",\n  ".join(rows))
        return [txt], "type, trait, the functions the impl defines (an override of a provided method shows up here)"

    # ---- translation
    def translate(self, spec):
        if spec.get("kind") == "structs":
            return self.struct_inventory(spec)
        if spec.get("kind") == "traits":
            return self.trait_inventory(spec)
        if not spec.get("glue"):
            self.glue_mode = False
            texts, doc = KC.Translator.translate(self, spec)
            self.record_p2(spec)
            return texts, doc
        self.glue_mode = True
        try:
            return self.translate_glue(spec)
        finally:
            self.glue_mode = False

    def record_p2(self, spec):
        L = getattr(self, "last", None)
        if L is None or L["spec"] is not spec:
            return
        code, f, ctx = L["code"], L["f"], L["ctx"]
        params = []
        for pat, ty in f.params:
            if pat[0] == "self":
                params.append(("self", ("rec", ctx.selfname, []), pat[1], False))
                continue
            t, mut = code.rtype(ty, ctx)
            params.append((pat[1] if pat[0] == "pid" else None, t, mut, t == "mach"))
        try:
            results = [(n, p2_shape(code, v)) for n, v in zip(L["names"], L["results"])]
        except TErr:
            return
        self.sigs[spec["lean"]] = dict(
            params=params, leaves=L["leaves"], outs=[code.fr.dag.nodes[o[1]][-1] for o in L["outs"]], results=results,
            out=bool(code.guards or spec.get("out")), profile=code.uses_profile, mach=spec.get("mach", True),
            blens=dict((n, code.fr.blen.get(code.fr.dag.memo.get(("leaf", n, "bytes")))) for n, t in L["leaves"] if t == "bytes"))

    def translate_glue(self, spec):
        self.loops = []
        unit = self.unit(spec["file"], spec.get("expand"), spec.get("drop", ()))
        self.cur_unit = unit
        unit.siblings = [self.unit(r) for r in spec.get("with", ())]
        if spec.get("header"):
            f = self.find_fn_header(unit, spec["fn"], spec["header"])
        else:
            try:
                f = self.find_fn(unit, spec["fn"], spec.get("impl"))
            except TErr:
                if not spec.get("impl"):
                    raise
                f = self.find_fn_direct(unit, spec["fn"], spec["impl"])
        code = G(self, spec)
        code.top_frame = code.fr
        code.extra_leaves = []
        code.param_views = {}
        ctx = self.fn_ctx(f)
        env = Env()
        if ctx.machvar:
            env.define(ctx.machvar, ("mach",))
        leaves, muts, params = [], [], []
        for pat, ty in f.params:
            if pat[0] == "self":
                v = code.fresh(("rec", ctx.selfname, []), "self", leaves, ctx)
                env.define("self", v)
                params.append(("self", ("rec", ctx.selfname, []), pat[1], False))
                if pat[1]:
                    muts.append("self")
                continue
            t, mut = code.rtype(ty, ctx)
            if pat[0] != "pid":
                raise TErr("parameter pattern not understood")
            params.append((pat[1], t, mut, t == "mach"))
            if t == "mach":
                env.define(pat[1], ("mach",))
                continue
            pname = pat[1]
            par = (spec.get("params") or {}).get(pname)
            if par is not None:
                # a parameter of a generic / foreign type: the generated definition takes what the named primitive yields
                v = code.param_value(par, pname, leaves)
            else:
                v = code.fresh(t, pname, leaves, ctx, mut=mut)
            env.define(pname, v)
            if is_kind(v, "view"):
                code.param_views[pname] = v[1]
            if mut:
                muts.append(pname)
        initial = dict((n, env.lookup(n)) for n in muts)
        initial_views = dict((n, code.view_content(vid)) for n, vid in code.param_views.items())
        rt, _ = code.rtype(f.ret, ctx) if f.ret is not None else (None, False)
        a, b = f.body
        stmts, tail = P3(unit.toks, a, b).block_body()
        blk = ("block", stmts, tail)
        code.keep.append(blk)
        code.fn_bodies.add(id(blk))
        try:
            r = code.exec_block(blk, env, ctx, rt)
        except ReturnSig as s:
            r = s.value
        r = code.coerce(r, rt)
        results, names = [], []
        if r != UNIT and r != ("never",):
            results.append(r)
            names.append("result")
        unchanged = []
        for n in muts:
            if n in code.param_views:
                fin = code.view_content(code.param_views[n])
                if fin[1] == initial_views[n][1]:
                    unchanged.append(n)
                else:
                    results.append(fin)
                    names.append(n)
                continue
            fin = env.lookup(n)
            if fin == initial[n]:
                unchanged.append(n)
            else:
                results.append(fin)
                names.append(n)
        outs, shapes = [], []
        for v in results:
            shapes.append(code.shape_of(v, outs))
        if not outs:
            raise TErr("the function has no result and changes nothing")
        extra = []
        for (pcs, g, msg, dbg) in code.guards:
            extra += [c for c, _pol in pcs] + [g]
        L, res, ref = self.body_lines(code.fr, outs, {}, extra)
        allleaves = list(leaves) + list(code.extra_leaves)
        pl, cur = [], None
        for n, t in allleaves:
            lt = lean_ty(carrier(t) if isinstance(t, str) else t)
            if cur is not None and cur[1] == lt:
                cur[0].append(n)
            else:
                cur = ([n], lt)
                pl.append(cur)
        sig = " ".join("(%s : %s)" % (" ".join(ns), lt) for ns, lt in pl)
        rty = " × ".join(lean_ty(code.fr.dag.nodes[o[1]][-1]) for o in outs)
        ext_args = [ext["lean"] for ext in code.externs_used]
        head = "def %s %s%s%s%s :" % (spec["lean"], self.ext_header(code, code.externs_used, sig + " : " + rty),
                                      "(M : Mach) " if spec.get("mach", True) else "",
                                      "(p : Profile) " if code.uses_profile else "", sig)
        is_out = bool(code.guards)
        if is_out:
            txt = [head, "    Out (%s) :=" % rty] + L
            for (pcs, g, msg, dbg) in code.guards:
                conds = (["p = .debug"] if dbg else [])
                for (c, pol) in pcs:
                    conds.append("%s = %s" % (ref(c[1]), "true" if pol else "false"))
                conds.append("%s = false" % ref(g[1]))
                txt.append("  if %s then .panic %s else" % (" ∧ ".join(conds), IK._lean_str(msg)))
            txt.append("  .ok %s" % res)
        else:
            txt = [head, "    %s :=" % rty] + L + ["  " + res]
        doc = "result: %s" % ", ".join(names)
        if unchanged:
            doc += "; unchanged `&mut` parameters (not returned): %s" % ", ".join(unchanged)
        self.sigs[spec["lean"]] = dict(
            params=params, leaves=leaves, extra=list(code.extra_leaves), outs=[code.fr.dag.nodes[o[1]][-1] for o in outs],
            results=list(zip(names, shapes)), out=is_out, profile=code.uses_profile, mach=spec.get("mach", True),
            blens=dict((n, code.fr.blen.get(code.fr.dag.memo.get(("leaf", n, "bytes")))) for n, t in leaves if t == "bytes"),
            externs=list(code.externs_used), ext_args=ext_args)
        return self.loops + ["\n".join(txt)], doc


# =========================================================================== what is translated in phase 3

RCI, GUTS = IK.RCI, IK.GUTS


def _g(**kw):
    kw["glue"] = True
    return kw


FROM_BLOCK_BYTE = dict(lean="from_block_byte", args=["u128", "u8", "u8"], ret=("opq", "ρ"), tvars=["ρ"],
                       type="BitVec 128 → BitVec 8 → BitVec 8 → ρ")
TRY_INTO_U64 = dict(prim="try_into", leaf="pos_try_into", type=("opt", "u64"))


def _chacha_any(n):
    hdr = "ChaChaAny<NonceSize,Rounds,IsX>"
    nz = {"NonceSize::U32": ("int", n, "u32")}
    return [
        _g(fam="chacha", lean="chacha_any_try_seek_%d" % n, file=RCI, fn="try_seek", header="StreamCipherSeek for " + hdr,
           tconsts=nz, params={"pos": TRY_INTO_U64}, calls={"seek64": "chacha_buffer_seek64", "seek32": "chacha_buffer_seek32"},
           **{"with": (GUTS,)}),
        _g(fam="chacha", lean="chacha_any_try_current_pos_%d" % n, file=RCI, fn="try_current_pos",
           header="StreamCipherSeek for " + hdr, tconsts=nz, extern={"T::from_block_byte": FROM_BLOCK_BYTE}, mach=False,
           **{"with": (GUTS,)}),
        _g(fam="chacha", lean="chacha_any_try_apply_keystream_%d" % n, file=RCI, fn="try_apply_keystream", header=hdr,
           tconsts=dict(nz, **{"Rounds::U32": ("param", "rounds", "u32")}),
           calls={".try_apply_keystream": "chacha_buffer_try_apply_keystream"}, **{"with": (GUTS,)}),
    ]


JH_LIB = IK.JH_LIB
JH_EXT = {
    "Compressor::new": dict(lean="compressor_new", args=[("tab",)], ret=("opq", "C"), tvars=["C"], type="BitVec 1024 → C"),
    "C.input": dict(lean="compressor_input", args=[("opq", "C"), "bytes"], ret=("opq", "C"), mut_self=True, tvars=["C"],
                    type="C → List (BitVec 8) → C"),
    "C.finalize": dict(lean="compressor_finalize", args=[("opq", "C")], ret=("bytes", 128), tvars=["C"],
                       type="C → List (BitVec 8)"),
}


def _jh(i, name, nbytes):
    common = dict(fam="jh", file=JH_LIB, expand=("define_hasher", i), impl=name, opaque_types={"Compressor": "C"},
                  extern=JH_EXT, mach=False, default_lens={"BBGenericArray": 64})
    tag = name[2:]
    return [
        _g(lean="jh_default_%s" % tag, fn="default", **common),
        _g(lean="jh_update_%s" % tag, fn="update", **common),
        _g(lean="jh_finalize_into_dirty_%s" % tag, fn="finalize_into_dirty", lens={"out": nbytes}, **common),
        _g(lean="jh_reset_%s" % tag, fn="reset", calls={"default": "jh_default_%s" % tag}, **common),
    ]


GLUE_JH = _jh(0, "Jh224", 28) + _jh(1, "Jh256", 32) + _jh(2, "Jh384", 48) + _jh(3, "Jh512", 64)

GROESTL_LIB = "hashes/groestl/src/lib.rs"


def _groestl_ext(cname, nwords):
    return {
        "%s::new" % cname: dict(lean="compressor_new", args=[("list", "u64", nwords)], ret=("opq", "C"), tvars=["C"],
                                type="List (BitVec 64) → C"),
        "C.input": dict(lean="compressor_input", args=[("opq", "C"), "bytes"], ret=("opq", "C"), mut_self=True, tvars=["C"],
                        type="C → List (BitVec 8) → C"),
        "C.finalize_dirty": dict(lean="compressor_finalize_dirty", args=[("opq", "C")],
                                 ret=("pair", ("opq", "C"), ("list", "u64", nwords)), mut_self="pair", tvars=["C"],
                                 type="C → C × List (BitVec 64)"),
    }


def _groestl(i, name, cname, bits, wrapper, wbits):
    tag = name[7:]
    common = dict(fam="groestl", file=GROESTL_LIB, expand=("impl_digest", i), opaque_types={cname: "C"},
                  extern=_groestl_ext(cname, bits // 64), mach=False, inst=["[Inhabited C]"])
    wtag = wrapper[7:]
    return [
        _g(lean="groestl_new_truncated_%s" % tag, fn="new_truncated", impl=name, **common),
        _g(lean="groestl_default_%s" % tag, fn="default", impl=name, calls={"new_truncated": "groestl_new_truncated_%s" % tag},
           **common),
        _g(lean="groestl_update_%s" % tag, fn="update", impl=name, **common),
        _g(lean="groestl_finalize_dirty_%s" % tag, fn="finalize_dirty", impl=name, **common),
        _g(lean="groestl_finalize_into_dirty_%s" % tag, fn="finalize_into_dirty", impl=name, lens={"out": bits // 16},
           calls={".finalize_dirty": "groestl_finalize_dirty_%s" % tag}, **common),
        _g(lean="groestl_reset_%s" % tag, fn="reset", impl=name, calls={"default": "groestl_default_%s" % tag}, **common),
        # the hand-written wrapper type (`Groestl224(Groestl256)`, `Groestl384(Groestl512)`)
        _g(lean="groestl_default_%s" % wtag, fn="default", impl=wrapper,
           calls={"new_truncated": "groestl_new_truncated_%s" % tag}, **common),
        _g(lean="groestl_update_%s" % wtag, fn="update", impl=wrapper, calls={"update": "groestl_update_%s" % tag}, **common),
        _g(lean="groestl_finalize_into_dirty_%s" % wtag, fn="finalize_into_dirty", impl=wrapper, lens={"out": wbits // 8},
           calls={".finalize_dirty": "groestl_finalize_dirty_%s" % tag}, **common),
        _g(lean="groestl_reset_%s" % wtag, fn="reset", impl=wrapper,
           calls={"new_truncated": "groestl_new_truncated_%s" % tag, "default": "groestl_default_%s" % wtag}, **common),
    ]


GLUE_GROESTL = _groestl(0, "Groestl256", "Compressor512", 512, "Groestl224", 224) + \
    _groestl(1, "Groestl512", "Compressor1024", 1024, "Groestl384", 384)

BLAKE_LIB = IK.BLAKE_LIB


def _blake(i, name, word, vec, comp):
    tag = name[5:]
    w = 32 if word == "u32" else 64
    ext = {"%s.finalize" % comp: dict(lean="compressor_finalize", args=[vec, vec], ret=("bytes", w),
                                      type="BitVec %d → BitVec %d → List (BitVec 8)" % (4 * w, 4 * w))}
    common = dict(fam="blake", file=BLAKE_LIB,
                  expand=[("define_compressor", 0), ("define_compressor", 1), ("define_hasher", i)], impl=name, extern=ext,
                  **{"with": (IK.BLAKE_CONSTS,)})
    calls = {"increase_count": "blake_increase_count_%s" % tag, ".put_block": "blake_put_block_%sx4" % word}
    return [
        _g(lean="blake_default_%s" % tag, fn="default", mach=False, **common),
        _g(lean="blake_update_%s" % tag, fn="update", calls=calls, **common),
        _g(lean="blake_finalize_into_dirty_%s" % tag, fn="finalize_into_dirty", calls=calls,
           lens={"out": {"224": 28, "256": 32, "384": 48, "512": 64}[tag]}, **common),
        _g(lean="blake_reset_%s" % tag, fn="reset", calls={"default": "blake_default_%s" % tag}, mach=False, **common),
    ]


GLUE_BLAKE = _blake(0, "Blake224", "u32", "vec128_storage", "Compressor256") + \
    _blake(1, "Blake256", "u32", "vec128_storage", "Compressor256") + \
    _blake(2, "Blake384", "u64", "vec256_storage", "Compressor512") + \
    _blake(3, "Blake512", "u64", "vec256_storage", "Compressor512")

TF_LIB, SKEIN_LIB = IK.TF_LIB, IK.SKEIN_LIB
INVENTORIES = [
    dict(kind="structs", fam="chacha", lean="chacha_structs", file=RCI, fn="(struct declarations)", structs=["Buffer", "ChaChaAny", "X", "O", "ChaCha"],
         **{"with": (GUTS,)}),
    dict(kind="traits", fam="chacha", lean="chacha_trait_impls", file=RCI, fn="(trait impls)", types=["ChaChaAny"]),
    dict(kind="structs", fam="blake", lean="blake_structs", file=BLAKE_LIB, fn="(struct declarations)",
         expand=[("define_compressor", 0), ("define_compressor", 1)] + [("define_hasher", i) for i in range(4)],
         structs=["Compressor256", "Compressor512", "Blake224", "Blake256", "Blake384", "Blake512"]),
    dict(kind="structs", fam="jh", lean="jh_structs", file=JH_LIB, fn="(struct declarations)",
         expand=[("define_hasher", i) for i in range(4)], structs=["Jh224", "Jh256", "Jh384", "Jh512", "Compressor"],
         **{"with": (IK.JH_COMP,)}),
    dict(kind="structs", fam="groestl", lean="groestl_structs", file=GROESTL_LIB, fn="(struct declarations)",
         expand=[("impl_digest", 0), ("impl_digest", 1)],
         structs=["Groestl224", "Groestl256", "Groestl384", "Groestl512", "Compressor512", "Compressor1024", "X4", "X8"],
         **{"with": (IK.GROESTL_COMP,)}),
    dict(kind="structs", fam="skein", lean="skein_structs", file=SKEIN_LIB, fn="(struct declarations)",
         expand=[("define_hasher", i) for i in range(3)], structs=["Skein256", "Skein512", "Skein1024", "State", "Block"]),
    dict(kind="structs", fam="threefish", lean="threefish_structs", file=TF_LIB, fn="(struct declarations)",
         expand=[("impl_threefish", i) for i in range(3)], structs=["Threefish256", "Threefish512", "Threefish1024"]),
    dict(kind="traits", fam="threefish", lean="threefish_trait_impls", file=TF_LIB, fn="(trait impls)",
         expand=[("impl_threefish", i) for i in range(3)], types=["Threefish256", "Threefish512", "Threefish1024"]),
]

GLUE_TF = [
    _g(fam="threefish", lean="threefish%d_new" % n, file=TF_LIB, fn="new", header="NewBlockCipher for Threefish%d" % n,
       expand=("impl_threefish", i), mach=False, drop=('#[cfg(feature="no_unroll")]',),
       calls={"with_tweak": "threefish%d_with_tweak" % n})
    for i, n in enumerate((256, 512, 1024))
]

def _skein(i, n):
    nb = n // 8
    tag = str(n)
    common = dict(fam="skein", file=SKEIN_LIB, expand=("define_hasher", i), impl="Skein%d" % n, mach=False,
                  bytes_types={"Block": nb}, tconsts={"N::to_u64": ("param", "n_out", "u64")})
    tf = {"with_tweak": "threefish%d_with_tweak" % n, ".encrypt_block": "threefish%d_encrypt_block" % n}
    pb = dict(tf, process_block="skein%s_process_block" % tag)
    return [
        _g(lean="skein%s_process_block" % tag, fn="process_block", calls=tf, **common),
        _g(lean="skein%s_default" % tag, fn="default", calls=pb, **common),
        _g(lean="skein%s_update" % tag, fn="update", calls=pb, **common),
        _g(lean="skein%s_finalize_into_dirty" % tag, fn="finalize_into_dirty", calls=tf, **common),
        _g(lean="skein%s_reset" % tag, fn="reset", calls={"default": "skein%s_default" % tag}, **common),
    ]


GLUE_SKEIN = _skein(0, 256) + _skein(1, 512) + _skein(2, 1024)

GLUE = [
    _g(fam="chacha", lean="chacha_buffer_seek64", file=RCI, fn="seek64", calls={".seek64": "chacha_seek64"}, **{"with": (GUTS,)}),
    _g(fam="chacha", lean="chacha_buffer_seek32", file=RCI, fn="seek32", calls={".seek32": "chacha_seek32"}, **{"with": (GUTS,)}),
    _g(fam="chacha", lean="chacha_buffer_try_apply_keystream", file=RCI, fn="try_apply_keystream", impl="Buffer",
       tsub={"EnableWide": "WideEnabled"}, calls={".refill": "chacha_refill", ".refill4": "chacha_refill4"},
       **{"with": (GUTS,)}),
    _g(fam="chacha", lean="chacha_any_new_8", file=RCI, fn="new", header="ChaChaAny<NonceSize,Rounds,O>", lens={"nonce": 8},
       calls={"init_chacha": "chacha_init_chacha_8"}, **{"with": (GUTS,)}),
    _g(fam="chacha", lean="chacha_any_new_12", file=RCI, fn="new", header="ChaChaAny<NonceSize,Rounds,O>", lens={"nonce": 12},
       calls={"init_chacha": "chacha_init_chacha_12"}, **{"with": (GUTS,)}),
    _g(fam="chacha", lean="chacha_any_new_x", file=RCI, fn="new", header="ChaChaAny<U24,Rounds,X>",
       tconsts={"Rounds::U32": ("param", "rounds", "u32")}, calls={"init_chacha_x": "chacha_init_chacha_x"},
       **{"with": (GUTS,)}),
] + _chacha_any(12) + _chacha_any(8) + _chacha_any(24) + [
    # the trait impls forward to the inherent functions (`Self::f` in a trait impl is the inherent `f`)
    _g(fam="chacha", lean="chacha_newcipher_new_8", file=RCI, fn="new", header="NewCipher for ChaChaAny<NonceSize,Rounds,O>",
       lens={"key": 32, "nonce": 8}, calls={"new": "chacha_any_new_8"}, **{"with": (GUTS,)}),
    _g(fam="chacha", lean="chacha_newcipher_new_12", file=RCI, fn="new", header="NewCipher for ChaChaAny<NonceSize,Rounds,O>",
       lens={"key": 32, "nonce": 12}, calls={"new": "chacha_any_new_12"}, **{"with": (GUTS,)}),
    _g(fam="chacha", lean="chacha_newcipher_new_x", file=RCI, fn="new", header="NewCipher for ChaChaAny<U24,Rounds,X>",
       lens={"key": 32, "nonce": 24}, calls={"new": "chacha_any_new_x"}, **{"with": (GUTS,)}),
] + [
    _g(fam="chacha", lean="chacha_streamcipher_try_apply_keystream_%d" % n, file=RCI, fn="try_apply_keystream",
       header="StreamCipher for ChaChaAny<NonceSize,Rounds,IsX>",
       calls={"try_apply_keystream": "chacha_any_try_apply_keystream_%d" % n}, **{"with": (GUTS,)}) for n in (12, 8, 24)
] + GLUE_JH + GLUE_GROESTL + GLUE_BLAKE + GLUE_TF + GLUE_SKEIN + INVENTORIES
