"""Regenerates lean/CC/Thm/C19.lean and lean/CC/Audit/C19.lean (the define_vec4! section is one template
instantiated for u32x4 and u64x4, as the Rust macro is).  Usage: python3 tools/mk_c19_thm.py"""
import os
ROOT = os.path.dirname(os.path.dirname(os.path.abspath(__file__)))
HEAD = r'''/-
  C19 — ppv-null emulated vectors equal scalar lane-wise arithmetic and never panic.

  For every public method / operator impl of `u128x1, u128x2, u32x4, u64x4, u32x4x4`
  (model: CC.Null.Model, shaped like /repo/utils-simd/ppv-null/src/lib.rs; meaning: CC.Null.Meaning,
  scalar functions over lane lists):

      ∀ profile operands, (guards) → model profile … = .ok (meaning …)

  for all operand values, rotation amounts `1 ≤ i < bits`, lane indices in range, correct slice lengths,
  in BOTH profiles (methods that cannot panic are modelled as pure functions: `model … = meaning …`).
  The error branches are stated explicitly (`…_panic`, `…_release`): which arguments panic in which
  profile, and what release builds compute for out-of-contract arguments.
  Helper lemmas: CC/Null/Lemmas.lean.  Amounts/indices are the Rust integers (`BitVec 32` for `u32`,
  `BitVec 64` for `usize`, `BitVec 128` for the `u128` amount of `rotate_right`), hypotheses in BitVec order.
-/
import CC.Null.Lemmas
import CC.Null.Src
namespace CC.Thm.C19
open CC CC.Null CC.Null.Lemmas
'''

U128X1 = r'''
/-! ## u128x1 -/

theorem u128x1_new (a : BitVec 128) : U128x1.new a = Meaning.U128x1.new a := rfl
theorem u128x1_clone (v : U128x1) : v.clone = v := rfl
theorem u128x1_into_inner (v : U128x1) : v.into_inner = Meaning.U128x1.into_inner v := rfl

/-- `rotate_right` (never panics): for EVERY `i : u128` the word is rotated by `(i mod 2^32) mod 128` … -/
theorem u128x1_rotate_right_total (v : U128x1) (i : BitVec 128) :
    v.rotate_right i = Meaning.U128x1.rotate_right v (i.toNat % 2 ^ 32 % 128) := by
  simp [U128x1.rotate_right, rotr, Meaning.U128x1.rotate_right, Meaning.U128x1.map1, U128x1.lanes, U128x1.ofLanes]
/-- … hence by `i` itself for the amounts `1 ≤ i < 128` of the property. -/
theorem u128x1_rotate_right (v : U128x1) (i : BitVec 128) (_h1 : 1#128 ≤ i) (h2 : i < 128#128) :
    v.rotate_right i = Meaning.U128x1.rotate_right v i.toNat := by
  have h2' : i.toNat < 128 := by simpa [BitVec.lt_def] using h2
  rw [u128x1_rotate_right_total]; congr 1; omega

theorem u128x1_load (p : Profile) (xs : List (BitVec 128)) (h : xs.length = 1) :
    U128x1.load p xs = .ok (Meaning.U128x1.load xs) := by
  obtain ⟨a, rfl⟩ := len1 xs h; cases p <;> rfl
theorem u128x1_load_debug_panic (xs : List (BitVec 128)) (h : xs.length ≠ 1) :
    (U128x1.load .debug xs).isPanic = true := by
  simp [U128x1.load, dbgAssert_debug_ne _ _ h, Out.isPanic]
/-- release: no length check, a longer slice is accepted (first element taken) -/
theorem u128x1_load_release (xs : List (BitVec 128)) (h : 1 ≤ xs.length) :
    U128x1.load .release xs = .ok (Meaning.U128x1.load xs) := by
  obtain ⟨a, r, rfl⟩ := len_ge1 xs h; rfl
theorem u128x1_load_release_panic : (U128x1.load .release []).isPanic = true := rfl

theorem u128x1_xor_store (p : Profile) (v : U128x1) (xs : List (BitVec 128)) (h : xs.length = 1) :
    v.xor_store p xs = .ok (Meaning.U128x1.xor_store v xs) := by
  obtain ⟨a, rfl⟩ := len1 xs h; cases p <;> rfl
theorem u128x1_xor_store_debug_panic (v : U128x1) (xs : List (BitVec 128)) (h : xs.length ≠ 1) :
    (v.xor_store .debug xs).isPanic = true := by
  simp [U128x1.xor_store, dbgAssert_debug_ne _ _ h, Out.isPanic]
/-- release: a longer slice is accepted; the tail is left untouched -/
theorem u128x1_xor_store_release (v : U128x1) (xs : List (BitVec 128)) (h : 1 ≤ xs.length) :
    v.xor_store .release xs = .ok (Meaning.U128x1.xor_store v xs ++ xs.drop 1) := by
  obtain ⟨a, r, rfl⟩ := len_ge1 xs h
  simp [U128x1.xor_store, idx, setIdx, Meaning.U128x1.xor_store, U128x1.lanes]
theorem u128x1_xor_store_release_panic (v : U128x1) : (v.xor_store .release []).isPanic = true := rfl
''' + "".join(r'''
theorem u128x1_swap%(g)d (p : Profile) (v : U128x1) : v.swap%(g)d p = .ok (Meaning.U128x1.swap %(g)d v) := by
  unfold U128x1.swap%(g)d
  rw [swap_ok p v _ _ (by decide)]
  exact congrArg (fun x => Out.ok (U128x1.mk x)) (eq_swapGroups_of_bits %(g)d#7 %(g)d rfl (swap%(g)d_bits v.a))
''' % dict(g=g) for g in (1, 2, 4, 8, 16, 32)) + r'''
theorem u128x1_swap64 (p : Profile) (v : U128x1) : v.swap64 p = .ok (Meaning.U128x1.swap 64 v) := by
  unfold U128x1.swap64
  rw [shl128 p _ _ (by decide), shr128 p _ _ (by decide)]
  exact congrArg (fun x => Out.ok (U128x1.mk x)) (eq_swapGroups_of_bits 64#7 64 rfl (swap64_bits v.a))

theorem u128x1_andnot (v r : U128x1) : v.andnot r = Meaning.U128x1.andnot v r := rfl

theorem u128x1_extract (p : Profile) (v : U128x1) : v.extract p 0#32 = .ok (Meaning.U128x1.extract v 0) := by
  cases p <;> rfl
theorem u128x1_extract_debug_panic (v : U128x1) (i : BitVec 32) (h : i ≠ 0#32) :
    (v.extract .debug i).isPanic = true := by
  simp [U128x1.extract, dbgAssert_debug_ne _ _ h, Out.isPanic]
/-- release: the index is ignored -/
theorem u128x1_extract_release (v : U128x1) (i : BitVec 32) :
    v.extract .release i = .ok (Meaning.U128x1.extract v 0) := rfl

theorem u128x1_add_assign (v r : U128x1) : v.add_assign r = Meaning.U128x1.add v r := rfl
theorem u128x1_bitxor_assign (v r : U128x1) : v.bitxor_assign r = Meaning.U128x1.xor v r := rfl
theorem u128x1_bitxor (v r : U128x1) : v.bitxor r = Meaning.U128x1.xor v r := rfl
theorem u128x1_bitand (v r : U128x1) : v.bitand r = Meaning.U128x1.and v r := rfl
theorem u128x1_not (v : U128x1) : v.not = Meaning.U128x1.not v := rfl
'''

U128X2 = r'''
/-! ## u128x2 -/

theorem u128x2_new (a b : BitVec 128) : U128x2.new a b = Meaning.U128x2.new a b := rfl
theorem u128x2_clone (v : U128x2) : v.clone = v := rfl

theorem u128x2_rotate_right_total (v : U128x2) (i : BitVec 128) :
    v.rotate_right i = Meaning.U128x2.rotate_right v (i.toNat % 2 ^ 32 % 128) := by
  simp [U128x2.rotate_right, U128x2.map, rotr, Meaning.U128x2.rotate_right, Meaning.U128x2.map1, U128x2.lanes,
    U128x2.ofLanes]
theorem u128x2_rotate_right (v : U128x2) (i : BitVec 128) (_h1 : 1#128 ≤ i) (h2 : i < 128#128) :
    v.rotate_right i = Meaning.U128x2.rotate_right v i.toNat := by
  have h2' : i.toNat < 128 := by simpa [BitVec.lt_def] using h2
  rw [u128x2_rotate_right_total]; congr 1; omega

theorem u128x2_load (p : Profile) (xs : List (BitVec 128)) (h : xs.length = 2) :
    U128x2.load p xs = .ok (Meaning.U128x2.load xs) := by
  obtain ⟨a, b, rfl⟩ := len2 xs h; cases p <;> rfl
theorem u128x2_load_debug_panic (xs : List (BitVec 128)) (h : xs.length ≠ 2) :
    (U128x2.load .debug xs).isPanic = true := by
  simp [U128x2.load, dbgAssert_debug_ne _ _ h, Out.isPanic]
theorem u128x2_load_release (xs : List (BitVec 128)) (h : 2 ≤ xs.length) :
    U128x2.load .release xs = .ok (Meaning.U128x2.load xs) := by
  obtain ⟨a, b, r, rfl⟩ := len_ge2 xs h; rfl
theorem u128x2_load_release_panic (xs : List (BitVec 128)) (h : xs.length < 2) :
    (U128x2.load .release xs).isPanic = true := by
  rcases len_lt2 xs h with rfl | ⟨a, rfl⟩ <;> rfl

theorem u128x2_xor_store (p : Profile) (v : U128x2) (xs : List (BitVec 128)) (h : xs.length = 2) :
    v.xor_store p xs = .ok (Meaning.U128x2.xor_store v xs) := by
  obtain ⟨a, b, rfl⟩ := len2 xs h; cases p <;> rfl
theorem u128x2_xor_store_debug_panic (v : U128x2) (xs : List (BitVec 128)) (h : xs.length ≠ 2) :
    (v.xor_store .debug xs).isPanic = true := by
  simp [U128x2.xor_store, dbgAssert_debug_ne _ _ h, Out.isPanic]
theorem u128x2_xor_store_release (v : U128x2) (xs : List (BitVec 128)) (h : 2 ≤ xs.length) :
    v.xor_store .release xs = .ok (Meaning.U128x2.xor_store v xs ++ xs.drop 2) := by
  obtain ⟨a, b, r, rfl⟩ := len_ge2 xs h
  simp [U128x2.xor_store, idx, setIdx, Meaning.U128x2.xor_store, U128x2.lanes]
theorem u128x2_xor_store_release_panic (v : U128x2) (xs : List (BitVec 128)) (h : xs.length < 2) :
    (v.xor_store .release xs).isPanic = true := by
  rcases len_lt2 xs h with rfl | ⟨a, rfl⟩ <;> rfl

/-- `extract` has no profile dependence: array indexing, checked in every build -/
theorem u128x2_extract (v : U128x2) (i : BitVec 32) (h : i < 2#32) :
    v.extract i = .ok (Meaning.U128x2.extract v i.toNat) := by
  rcases lt2_cases32 i h with rfl | rfl <;> rfl
theorem u128x2_extract_panic (v : U128x2) (i : BitVec 32) (h : 2#32 ≤ i) : (v.extract i).isPanic = true := by
  have : 2 ≤ i.toNat := by simpa [BitVec.le_def] using h
  rw [U128x2.extract, idx_ge _ _ (by simpa using this)]; rfl

theorem u128x2_andnot (v r : U128x2) : v.andnot r = Meaning.U128x2.andnot v r := rfl
theorem u128x2_add_assign (v r : U128x2) : v.add_assign r = Meaning.U128x2.add v r := rfl
theorem u128x2_bitxor_assign (v r : U128x2) : v.bitxor_assign r = Meaning.U128x2.xor v r := rfl
theorem u128x2_bitand (v r : U128x2) : v.bitand r = Meaning.U128x2.and v r := rfl
theorem u128x2_bitor (v r : U128x2) : v.bitor r = Meaning.U128x2.or v r := rfl
theorem u128x2_not (v : U128x2) : v.not = Meaning.U128x2.not v := rfl
'''

VEC4 = r'''
/-! ## @t@ -/

theorem @t@_new (a b c d : BitVec @w@) : @T@.new a b c d = Meaning.@T@.new a b c d := rfl
theorem @t@_clone (v : @T@) : v.clone = v := rfl
theorem @t@_splat (x : BitVec @w@) : @T@.splat x = Meaning.@T@.splat x := rfl

/-- `uN::rotate_right(x, n as u32)` = rotation by the amount truncated to 32 bits (`rotateRight` reduces mod N) -/
theorem @t@_rotr_lane (x n : BitVec @w@) :
    rotr x (n.setWidth 32) = x.rotateRight ((n.setWidth 32).setWidth @w@).toNat := by
  unfold rotr
  rw [BitVec.rotateRight_mod_eq_rotateRight]
  congr 1
  first | done | (simp only [BitVec.toNat_setWidth]; omega)
/-- `rotate_right(&mut self, ii) -> Self` never panics, leaves `*self` unchanged and RETURNS the vector whose
    lane `k` is lane `k` of `self` rotated right by `ii.k as u32` (mod @w@) — for EVERY `ii` … -/
theorem @t@_rotate_right_total (v ii : @T@) :
    v.rotate_right ii = (v, Meaning.@T@.rotate_right v
      ⟨(ii.a.setWidth 32).setWidth @w@, (ii.b.setWidth 32).setWidth @w@,
       (ii.c.setWidth 32).setWidth @w@, (ii.d.setWidth 32).setWidth @w@⟩) := by
  unfold @T@.rotate_right
  rw [@t@_rotr_lane, @t@_rotr_lane, @t@_rotr_lane, @t@_rotr_lane]; rfl
/-- … hence by `ii.k` itself when every lane amount is in `1..@w@-1` (in fact whenever it is `< 2^32`). -/
theorem @t@_rotate_right (v ii : @T@)
    (ha : 1#@w@ ≤ ii.a ∧ ii.a < @w@#@w@) (hb : 1#@w@ ≤ ii.b ∧ ii.b < @w@#@w@)
    (hc : 1#@w@ ≤ ii.c ∧ ii.c < @w@#@w@) (hd : 1#@w@ ≤ ii.d ∧ ii.d < @w@#@w@) :
    v.rotate_right ii = (v, Meaning.@T@.rotate_right v ii) := by
  have e : ∀ i : BitVec @w@, i < @w@#@w@ → (i.setWidth 32).setWidth @w@ = i := fun i h => by bv_decide
  rw [@t@_rotate_right_total, e _ ha.2, e _ hb.2, e _ hc.2, e _ hd.2]

theorem @t@_from_slice_unaligned (p : Profile) (xs : List (BitVec @w@)) (h : xs.length = 4) :
    @T@.from_slice_unaligned p xs = .ok (Meaning.@T@.from_slice_unaligned xs) := by
  obtain ⟨a, b, c, d, rfl⟩ := len4 xs h; cases p <;> rfl
theorem @t@_from_slice_unaligned_debug_panic (xs : List (BitVec @w@)) (h : xs.length ≠ 4) :
    (@T@.from_slice_unaligned .debug xs).isPanic = true := by
  simp [@T@.from_slice_unaligned, dbgAssert_debug_ne _ _ h, Out.isPanic]
theorem @t@_from_slice_unaligned_release (xs : List (BitVec @w@)) (h : 4 ≤ xs.length) :
    @T@.from_slice_unaligned .release xs = .ok (Meaning.@T@.from_slice_unaligned xs) := by
  obtain ⟨a, b, c, d, r, rfl⟩ := len_ge4 xs h; rfl
theorem @t@_from_slice_unaligned_release_panic (xs : List (BitVec @w@)) (h : xs.length < 4) :
    (@T@.from_slice_unaligned .release xs).isPanic = true := by
  rcases len_lt4 xs h with rfl | ⟨a, rfl⟩ | ⟨a, b, rfl⟩ | ⟨a, b, c, rfl⟩ <;> rfl

theorem @t@_write_to_slice_unaligned (p : Profile) (v : @T@) (xs : List (BitVec @w@)) (h : xs.length = 4) :
    v.write_to_slice_unaligned p xs = .ok (Meaning.@T@.write_to_slice_unaligned v) := by
  obtain ⟨a, b, c, d, rfl⟩ := len4 xs h; cases p <;> rfl
theorem @t@_write_to_slice_unaligned_debug_panic (v : @T@) (xs : List (BitVec @w@)) (h : xs.length ≠ 4) :
    (v.write_to_slice_unaligned .debug xs).isPanic = true := by
  simp [@T@.write_to_slice_unaligned, dbgAssert_debug_ne _ _ h, Out.isPanic]
theorem @t@_write_to_slice_unaligned_release (v : @T@) (xs : List (BitVec @w@)) (h : 4 ≤ xs.length) :
    v.write_to_slice_unaligned .release xs = .ok (Meaning.@T@.write_to_slice_unaligned v ++ xs.drop 4) := by
  obtain ⟨a, b, c, d, r, rfl⟩ := len_ge4 xs h; rfl
theorem @t@_write_to_slice_unaligned_release_panic (v : @T@) (xs : List (BitVec @w@)) (h : xs.length < 4) :
    (v.write_to_slice_unaligned .release xs).isPanic = true := by
  rcases len_lt4 xs h with rfl | ⟨a, rfl⟩ | ⟨a, b, rfl⟩ | ⟨a, b, c, rfl⟩ <;> rfl

/-- `extract` / `replace`: array indexing (`usize` index), checked in every build profile -/
theorem @t@_extract (v : @T@) (i : BitVec 64) (h : i < 4#64) :
    v.extract i = .ok (Meaning.@T@.extract v i.toNat) := by
  rcases lt4_cases64 i h with rfl | rfl | rfl | rfl <;> rfl
theorem @t@_extract_panic (v : @T@) (i : BitVec 64) (h : 4#64 ≤ i) : (v.extract i).isPanic = true := by
  have : 4 ≤ i.toNat := by simpa [BitVec.le_def] using h
  rw [@T@.extract, idx_ge _ _ (by simpa using this)]; rfl
theorem @t@_replace (v : @T@) (i : BitVec 64) (x : BitVec @w@) (h : i < 4#64) :
    v.replace i x = .ok (Meaning.@T@.replace v i.toNat x) := by
  rcases lt4_cases64 i h with rfl | rfl | rfl | rfl <;> rfl
theorem @t@_replace_panic (v : @T@) (i : BitVec 64) (x : BitVec @w@) (h : 4#64 ≤ i) :
    (v.replace i x).isPanic = true := by
  have : 4 ≤ i.toNat := by simpa [BitVec.le_def] using h
  obtain ⟨n, hn⟩ : ∃ n, i.toNat = n + 4 := ⟨i.toNat - 4, by omega⟩
  rw [@T@.replace, hn]; rfl

theorem @t@_add_assign (v r : @T@) : v.add_assign r = Meaning.@T@.add v r := rfl
theorem @t@_bitxor_assign (v r : @T@) : v.bitxor_assign r = Meaning.@T@.xor v r := rfl
theorem @t@_add (v r : @T@) : v.add r = Meaning.@T@.add v r := rfl
theorem @t@_bitxor (v r : @T@) : v.bitxor r = Meaning.@T@.xor v r := rfl
theorem @t@_bitor (v r : @T@) : v.bitor r = Meaning.@T@.or v r := rfl
theorem @t@_bitand (v r : @T@) : v.bitand r = Meaning.@T@.and v r := rfl

/-- `rotate_words_right i`, `i < 4` (the contract the code `debug_assert`s), both profiles -/
theorem @t@_rotate_words_right (p : Profile) (v : @T@) (i : BitVec 32) (h : i < 4#32) :
    v.rotate_words_right p i = .ok (Meaning.@T@.rotate_words_right v i.toNat) := by
  rcases lt4_cases32 i h with rfl | rfl | rfl | rfl <;> cases p <;> rfl
theorem @t@_rotate_words_right_debug_panic (v : @T@) (i : BitVec 32) (h : 4#32 ≤ i) :
    (v.rotate_words_right .debug i).isPanic = true := by
  unfold @T@.rotate_words_right
  rw [dbgAssert_debug_ne _ _ (and_not3_ne i h)]; rfl
/-- release: every `i` is accepted and reduced mod 4 -/
theorem @t@_rotate_words_right_release (v : @T@) (i : BitVec 32) :
    v.rotate_words_right .release i = .ok (Meaning.@T@.rotate_words_right v (i.toNat % 4)) := by
  rw [← toNat_and3]
  unfold @T@.rotate_words_right
  rcases and3_cases i with e | e | e | e <;> rw [e] <;> rfl

/-- `splat_rotate_right i`, `1 ≤ i < @w@`, both profiles -/
theorem @t@_splat_rotate_right (p : Profile) (v : @T@) (i : BitVec 32) (h1 : 1#32 ≤ i) (h2 : i < @w@#32) :
    v.splat_rotate_right p i = .ok (Meaning.@T@.splat_rotate_right v i.toNat) := by
  unfold @T@.splat_rotate_right
  simp only [srr_lane@w@_ok p _ i h1 h2, ok_bind]; rfl
/-- debug: `i = 0` (`x << @w@`) and `i ≥ @w@` (`x >> i`) are shift-overflow panics -/
theorem @t@_splat_rotate_right_debug_panic (v : @T@) (i : BitVec 32) (h : i = 0#32 ∨ @w@#32 ≤ i) :
    (v.splat_rotate_right .debug i).isPanic = true :=
  isPanic_bind_of_isPanic _ _ (srr_lane@w@_debug_panic v.a i h)
/-- release: masked shifts; EVERY `i` gives the rotation by `i mod @w@` (identity for `i = 0`) -/
theorem @t@_splat_rotate_right_release (v : @T@) (i : BitVec 32) :
    v.splat_rotate_right .release i = .ok (Meaning.@T@.splat_rotate_right v (i.toNat % @w@)) := by
  unfold @T@.splat_rotate_right
  simp only [srr_lane@w@_release, ok_bind]; rfl
'''

U32X4X4 = r'''
/-! ## u32x4x4 -/

theorem u32x4x4_from (a b c d : U32x4) : U32x4x4.from_ (a, b, c, d) = Meaning.U32x4x4.from_ a b c d := rfl
theorem u32x4x4_splat (a : U32x4) : U32x4x4.splat a = Meaning.U32x4x4.splat a := rfl
theorem u32x4x4_into_parts (v : U32x4x4) : v.into_parts = Meaning.U32x4x4.into_parts v := rfl
theorem u32x4x4_clone (v : U32x4x4) : v.clone = v := rfl
theorem u32x4x4_bitxor (v r : U32x4x4) : v.bitxor r = Meaning.U32x4x4.xor v r := rfl
theorem u32x4x4_bitor (v r : U32x4x4) : v.bitor r = Meaning.U32x4x4.or v r := rfl
theorem u32x4x4_bitand (v r : U32x4x4) : v.bitand r = Meaning.U32x4x4.and v r := rfl
theorem u32x4x4_add (v r : U32x4x4) : v.add r = Meaning.U32x4x4.add v r := rfl
theorem u32x4x4_bitxor_assign (v r : U32x4x4) : v.bitxor_assign r = Meaning.U32x4x4.xor v r := rfl
theorem u32x4x4_add_assign (v r : U32x4x4) : v.add_assign r = Meaning.U32x4x4.add v r := rfl

theorem u32x4x4_rotate_words_right (p : Profile) (v : U32x4x4) (i : BitVec 32) (h : i < 4#32) :
    v.rotate_words_right p i = .ok (Meaning.U32x4x4.rotate_words_right v i.toNat) := by
  unfold U32x4x4.rotate_words_right
  simp only [u32x4_rotate_words_right p _ i h, ok_bind]; rfl
theorem u32x4x4_rotate_words_right_debug_panic (v : U32x4x4) (i : BitVec 32) (h : 4#32 ≤ i) :
    (v.rotate_words_right .debug i).isPanic = true :=
  isPanic_bind_of_isPanic _ _ (u32x4_rotate_words_right_debug_panic v.a i h)
theorem u32x4x4_rotate_words_right_release (v : U32x4x4) (i : BitVec 32) :
    v.rotate_words_right .release i = .ok (Meaning.U32x4x4.rotate_words_right v (i.toNat % 4)) := by
  unfold U32x4x4.rotate_words_right
  simp only [u32x4_rotate_words_right_release, ok_bind]; rfl

theorem u32x4x4_splat_rotate_right (p : Profile) (v : U32x4x4) (i : BitVec 32) (h1 : 1#32 ≤ i) (h2 : i < 32#32) :
    v.splat_rotate_right p i = .ok (Meaning.U32x4x4.splat_rotate_right v i.toNat) := by
  unfold U32x4x4.splat_rotate_right
  simp only [u32x4_splat_rotate_right p _ i h1 h2, ok_bind]; rfl
theorem u32x4x4_splat_rotate_right_debug_panic (v : U32x4x4) (i : BitVec 32) (h : i = 0#32 ∨ 32#32 ≤ i) :
    (v.splat_rotate_right .debug i).isPanic = true :=
  isPanic_bind_of_isPanic _ _ (u32x4_splat_rotate_right_debug_panic v.a i h)
theorem u32x4x4_splat_rotate_right_release (v : U32x4x4) (i : BitVec 32) :
    v.splat_rotate_right .release i = .ok (Meaning.U32x4x4.splat_rotate_right v (i.toNat % 32)) := by
  unfold U32x4x4.splat_rotate_right
  simp only [u32x4_splat_rotate_right_release, ok_bind]; rfl
'''

EXAMPLES = r'''
/-! ## non-vacuity: the guards are satisfiable, and model and meaning agree on byte-counting operands
    (every byte distinct, so any lane / byte / group mix-up shows) -/

example : (1#32 ≤ 8#32 ∧ 8#32 < 32#32) ∧ (3#32 < 4#32) ∧ (3#64 < 4#64) ∧ (1#128 ≤ 127#128 ∧ 127#128 < 128#128) := by
  decide

/-- swap8 exchanges adjacent bytes — model and meaning, evaluated independently -/
example : U128x1.swap8 .debug ⟨0x0f0e0d0c0b0a09080706050403020100#128⟩
    = .ok ⟨0x0e0f0c0d0a0b08090607040502030001#128⟩ := by rfl
example : Meaning.U128x1.swap 8 ⟨0x0f0e0d0c0b0a09080706050403020100#128⟩
    = ⟨0x0e0f0c0d0a0b08090607040502030001#128⟩ := by decide +kernel
example : Meaning.U128x1.swap 1 ⟨0x0f0e0d0c0b0a09080706050403020100#128⟩
    = ⟨0x0f0d0e0c070506040b090a0803010200#128⟩ := by decide +kernel
example : U128x1.swap64 .release ⟨0x0f0e0d0c0b0a09080706050403020100#128⟩
    = .ok ⟨0x07060504030201000f0e0d0c0b0a0908#128⟩ := by rfl

/-- all-ones + 1 wraps in every lane (every add carries out) -/
example : U32x4.add ⟨0xffffffff#32, 0xffffffff#32, 0xffffffff#32, 0xffffffff#32⟩ ⟨1#32, 1#32, 1#32, 1#32⟩
    = ⟨0#32, 0#32, 0#32, 0#32⟩ := by decide
example : U128x1.add_assign ⟨0xffffffffffffffffffffffffffffffff#128⟩ ⟨1#128⟩ = ⟨0#128⟩ := by decide

/-- per-word rotation by 8 and word rotation by 1 on byte-counting lanes -/
example : U32x4.splat_rotate_right .debug ⟨0x03020100#32, 0x07060504#32, 0x0b0a0908#32, 0x0f0e0d0c#32⟩ 8#32
    = .ok ⟨0x00030201#32, 0x04070605#32, 0x080b0a09#32, 0x0c0f0e0d#32⟩ := by rfl
example : Meaning.U32x4.splat_rotate_right ⟨0x03020100#32, 0x07060504#32, 0x0b0a0908#32, 0x0f0e0d0c#32⟩ 8
    = ⟨0x00030201#32, 0x04070605#32, 0x080b0a09#32, 0x0c0f0e0d#32⟩ := by decide
example : U32x4.rotate_words_right .debug ⟨0x03020100#32, 0x07060504#32, 0x0b0a0908#32, 0x0f0e0d0c#32⟩ 1#32
    = .ok ⟨0x0f0e0d0c#32, 0x03020100#32, 0x07060504#32, 0x0b0a0908#32⟩ := by rfl
example : U64x4.extract ⟨0x0706050403020100#64, 0x0f0e0d0c0b0a0908#64, 0x1716151413121110#64, 0x1f1e1d1c1b1a1918#64⟩ 2#64
    = .ok 0x1716151413121110#64 := by rfl

/-- out-of-contract witnesses: the two profiles differ exactly as stated by the `_panic` / `_release` theorems -/
example : (U32x4.splat_rotate_right .debug ⟨1#32, 2#32, 3#32, 4#32⟩ 0#32).isPanic = true := by decide
example : U32x4.splat_rotate_right .release ⟨1#32, 2#32, 3#32, 4#32⟩ 0#32 = .ok ⟨1#32, 2#32, 3#32, 4#32⟩ := by rfl
example : (U32x4.rotate_words_right .debug ⟨1#32, 2#32, 3#32, 4#32⟩ 5#32).isPanic = true := by decide
example : U32x4.rotate_words_right .release ⟨1#32, 2#32, 3#32, 4#32⟩ 5#32 = .ok ⟨4#32, 1#32, 2#32, 3#32⟩ := by rfl
example : (U32x4.extract ⟨1#32, 2#32, 3#32, 4#32⟩ 4#64).isPanic = true := by decide

end CC.Thm.C19
'''

def source_section():
    """`source_null_match`: the conjunction of the obligations `CC.Src.src_null_*` of lean/CC/Null/Src.lean (one per
    regenerated definition of lean/CC/Gen/NullSrc.lean), statements copied from there"""
    import re
    src = open(ROOT + "/lean/CC/Null/Src.lean").read()
    obl = re.findall(r"^theorem (src_null_\w+) : ([^\n]*?) :=", src, re.M)
    assert len(obl) >= 87, len(obl)
    stmts = [st.replace("Gen.NullSrc.", "CC.Gen.NullSrc.").replace("Null.U", "CC.Null.U").replace("CC.CC.", "CC.")
                .replace("null_items_expected", "CC.Src.null_items_expected").replace("null_structs_expected", "CC.Src.null_structs_expected")
             for _, st in obl]
    out = """
/-! ## source tie -/

/-- **Source tie.**  Every public and private method and every trait-impl method of every type of
    /repo/utils-simd/ppv-null/src/lib.rs — the bodies of `define_vec1!`, `define_vec2!`, `define_vec4!`, `zipmap_impl!` with the
    arguments of each instantiation substituted (`u128x1`, `u128x2`, `u32x4`, `u64x4`) and the hand-written `u32x4x4` —, as
    TRANSLATED from the Rust source on every run (tools/inventory_null.py → `CC.Gen.NullSrc`), equals the model definition
    the theorems above are about: as FUNCTIONS, hence for both profiles where the definition takes one (`debug_assert*`
    is a guard in profile debug only, `xs[i]` a guard on the length in every profile, `<<` `>>` `-` overflow-checked in debug
    and masked / wrapping in release, closures handed to `map` / `zipmap` inlined).  Nothing was outside the translator's
    language (`null_errors = []`), the list of items (structs, derives, methods with visibility, trait impls) and the struct
    shapes are the modelled ones.  Individual facts: `CC.Src.src_null_*` (lean/CC/Null/Src.lean). -/
theorem source_null_match :
"""
    out += " ∧\n".join("    (%s)" % st for st in stmts) + " :=\n"
    names = ["CC.Src." + n for n, _ in obl]
    lines, cur = [], "  ⟨"
    for i, n in enumerate(names):
        piece = n + (", " if i + 1 < len(names) else "⟩")
        if len(cur) + len(piece) > 118:
            lines.append(cur.rstrip())
            cur = "   "
        cur += piece
    lines.append(cur)
    return out + "\n".join(lines) + "\n"


def vec4(t, T, w):
    return VEC4.replace("@t@", t).replace("@T@", T).replace("@w@", str(w))

src = HEAD + U128X1 + U128X2 + vec4("u32x4", "U32x4", 32) + vec4("u64x4", "U64x4", 64) + U32X4X4 + source_section() + EXAMPLES
open(ROOT + "/lean/CC/Thm/C19.lean", "w").write(src)
import re
names = re.findall(r"^theorem (\w+)", src, re.M)
open(ROOT + "/lean/CC/Audit/C19.lean", "w").write("import CC.Thm.C19\n" + "".join("#print axioms CC.Thm.C19.%s\n" % n for n in names))
pass
print(len(names))
