#!/usr/bin/env python3
"""tools/inventory_memops.py — the raw-memory-operation inventory of C16 (dispatched from
tools/inventory.py).

    python3 tools/inventory.py memops [--repo DIR] [--out FILE] [--print] [--skeleton]
    python3 tools/inventory.py memops --selftest [--repo DIR]   (scanner self-test on a temporary copy)

`memops_inventory(repo)` scans the modelled Rust sources for raw-memory operations and returns a
deterministic list of items (file, enclosing context, kind, normalised text, count).  No line
numbers: an edit elsewhere in a file does not change the inventory, an edit that adds / removes /
changes a raw-memory operation does.  `write_memops_lean` regenerates lean/CC/Gen/MemOps.lean
(`def memOps : List MemOp`); the proof obligation `CC.Thm.C16.inventory_accounted` states that this
list equals the hand-reviewed `CC.Mem.expectedMemOps` the footprint model accounts for.

Standard library only.
"""
import os, re, sys

VERIF = os.path.dirname(os.path.dirname(os.path.abspath(__file__)))
DEFAULT_OUT = os.path.join(VERIF, "lean", "CC", "Gen", "MemOps.lean")

MODELLED_DIRS = [
    "stream-ciphers/chacha/src",
    "hashes/blake/src",
    "hashes/groestl/src",
    "hashes/jh/src",
    "hashes/skein/src",
    "block-ciphers/threefish/src",
    "utils-simd/ppv-lite86/src",
    "utils-simd/ppv-null/src",
]

# kind names = constructors of CC.Mem.Kind (lean/CC/Mem/MemOp.lean)
KINDS = [
    "simdLoadU", "simdLoadA", "simdLddqu", "simdLoadOther", "simdStoreU", "simdStoreA", "simdStream",
    "simdStoreOther", "ptrReadU", "ptrRead", "ptrWriteU", "ptrWrite", "ptrOther", "ptrOffset", "ptrAdd",
    "castConst", "castMut", "asPtr", "fromRawParts", "transmute", "getUnchecked", "copyNonoverlapping",
    "writeBytes", "unionRead",
]


# --------------------------------------------------------------------------- cleaning

def clean_rust(src):
    """Blank out comments, string and char literals (same length, newlines kept) so that the
    scanners below only ever see code."""
    out = list(src)
    n = len(src)
    i = 0

    def blank(a, b):
        for k in range(a, b):
            if out[k] != "\n":
                out[k] = " "

    while i < n:
        c = src[i]
        if src.startswith("//", i):
            j = src.find("\n", i)
            j = n if j < 0 else j
            blank(i, j)
            i = j
        elif src.startswith("/*", i):
            depth, j = 1, i + 2
            while j < n and depth:
                if src.startswith("/*", j):
                    depth += 1
                    j += 2
                elif src.startswith("*/", j):
                    depth -= 1
                    j += 2
                else:
                    j += 1
            blank(i, j)
            i = j
        elif c == "r" and re.match(r'r#*"', src[i:i + 12]) and (i == 0 or not (src[i - 1].isalnum() or src[i - 1] == "_")):
            m = re.match(r'r(#*)"', src[i:])
            close = '"' + m.group(1)
            j = src.find(close, i + len(m.group(0)))
            j = n if j < 0 else j + len(close)
            blank(i + len(m.group(0)), j - len(close))
            i = j
        elif c == '"':
            j = i + 1
            while j < n and src[j] != '"':
                j += 2 if src[j] == "\\" else 1
            blank(i + 1, j)
            i = j + 1
        elif c == "'":
            # char literal ('x', '\n', '\u{..}') vs lifetime ('a)
            m = re.match(r"'(\\u\{[0-9a-fA-F]+\}|\\x[0-9a-fA-F]{2}|\\.|[^\\'])'", src[i:])
            if m:
                blank(i + 1, i + len(m.group(0)) - 1)
                i += len(m.group(0))
            else:
                i += 1
        else:
            i += 1
    return "".join(out)


def match_close(s, i):
    """s[i] is an opening bracket: index of the matching closing one (or len(s))."""
    pairs = {"(": ")", "[": "]", "{": "}"}
    o, c = s[i], pairs[s[i]]
    depth = 0
    for j in range(i, len(s)):
        if s[j] == o:
            depth += 1
        elif s[j] == c:
            depth -= 1
            if depth == 0:
                return j
    return len(s)


def item_end(s, i):
    """End (exclusive) of the item starting at s[i:]: through the matching `}` of its first `{`
    or its first `;`, whichever comes first at bracket depth 0."""
    depth = 0
    j = i
    n = len(s)
    while j < n:
        ch = s[j]
        if ch in "([":
            j = match_close(s, j)
        elif ch == "{":
            return match_close(s, j) + 1
        elif ch == ";":
            return j + 1
        j += 1
    return n


def strip_cfg_test(s):
    """Blank every item carrying `#[cfg(test)]` (test modules, test-only impls and fns)."""
    out = s
    pos = 0
    while True:
        m = re.compile(r"#\s*\[\s*cfg\s*\(\s*test\s*\)\s*\]").search(out, pos)
        if not m:
            return out
        j = m.end()
        # skip further attributes
        while True:
            m2 = re.compile(r"\s*#\s*\[").match(out, j)
            if not m2:
                break
            j = match_close(out, m2.end() - 1) + 1
        e = item_end(out, j)
        out = out[:m.start()] + "".join(ch if ch == "\n" else " " for ch in out[m.start():e]) + out[e:]
        pos = e


# --------------------------------------------------------------------------- contexts

HEAD = re.compile(
    r"\bmacro_rules\s*!\s*(?P<mac>\w+)|\bfn\s+(?P<fn>\w+)|\bmod\s+(?P<mod>\w+)\s*\{|\bimpl\b(?P<impl>(?:[^{;\[]|\[[^\]]*\])*)\{"
    r"|\btrait\s+(?P<trait>\w+)")


def norm_ws(t):
    t = re.sub(r"\s+", " ", t).strip()
    t = re.sub(r"([(\[]) ", r"\1", t)                   # no blank after an opening bracket
    t = re.sub(r" ([)\],;])", r"\1", t)                 # … or before a closing one / `,` / `;`
    t = re.sub(r" ?(\.|::) ?", r"\1", t)                # … or around `.` and `::`
    t = t.replace(",)", ")").replace(",]", "]")          # trailing commas (rustfmt line breaks)
    t = re.sub(r", ?", ", ", t)
    return t.strip()


def impl_name(h):
    h = re.sub(r"\bwhere\b.*", "", h, flags=re.S)
    h = re.sub(r"^\s*<[^>]*(<[^>]*>[^>]*)*>", "", h)      # leading generic parameter list
    return "impl " + norm_ws(h)


def spans(s):
    """[(start, end, label)] for every fn / macro_rules / mod / impl / trait body."""
    res = []
    for m in HEAD.finditer(s):
        if m.group("mac"):
            lab = "macro " + m.group("mac")
            b = re.compile(r"[{(\[]").search(s, m.end())
            if not b:
                continue
            res.append((m.start(), match_close(s, b.start()) + 1, lab))
        elif m.group("fn"):
            e = item_end(s, m.end())
            if s[e - 1] != "}":
                continue
            res.append((m.start(), e, "fn " + m.group("fn")))
        elif m.group("mod"):
            res.append((m.start(), match_close(s, m.end() - 1) + 1, "mod " + m.group("mod")))
        elif m.group("impl") is not None:
            res.append((m.start(), match_close(s, m.end() - 1) + 1, impl_name(m.group("impl"))))
        elif m.group("trait"):
            e = item_end(s, m.end())
            if s[e - 1] == "}":
                res.append((m.start(), e, "trait " + m.group("trait")))
    return res


def context_at(sp, pos):
    inside = [x for x in sp if x[0] <= pos < x[1]]
    inside.sort(key=lambda x: (x[0], -x[1]))
    return " / ".join(x[2] for x in inside) if inside else "(top level)"


# --------------------------------------------------------------------------- patterns

def call_text(s, name_start, paren):
    return norm_ws(s[name_start:match_close(s, paren) + 1])


def receiver_start(s, i):
    """Start of the postfix-expression chain ending just before s[i] (identifier chars, `.`, `::`,
    balanced (...) and [...] groups)."""
    j = i
    while j > 0:
        ch = s[j - 1]
        if ch in ")]":
            o = "(" if ch == ")" else "["
            depth = 0
            k = j - 1
            while k >= 0:
                if s[k] == ch:
                    depth += 1
                elif s[k] == o:
                    depth -= 1
                    if depth == 0:
                        break
                k -= 1
            j = max(k, 0)
        elif ch.isalnum() or ch in "_.:$":
            j -= 1
        else:
            break
    return j


def simd_kind(name):
    if "lddqu" in name:
        return "simdLddqu"
    if "stream" in name:
        return "simdStream"
    if "loadu" in name:
        return "simdLoadU"
    if "storeu" in name:
        return "simdStoreU"
    if re.search(r"_load_(si\d+|ps|pd|epi\d+)$", name) or re.search(r"_load$", name):
        return "simdLoadA"
    if re.search(r"_store_(si\d+|ps|pd|epi\d+)$", name):
        return "simdStoreA"
    return "simdLoadOther" if "load" in name else "simdStoreOther"


def union_decls(s):
    """{union name: [field names]} declared in this file."""
    res = {}
    for m in re.finditer(r"\bunion\s+(\w+)", s):
        b = s.find("{", m.end())
        if b < 0:
            continue
        body = s[b + 1:match_close(s, b)]
        res[m.group(1)] = re.findall(r"(?:^|[,{\n])\s*(?:pub(?:\([^)]*\))?\s+)?(\w+)\s*:", body)
    return res


def unsafe_regions(s):
    """[(start, end)] of `unsafe { … }` blocks and `unsafe fn … { … }` bodies."""
    res = []
    for m in re.finditer(r"\bunsafe\b", s):
        m2 = re.compile(r"\s*\{").match(s, m.end())
        if m2:
            res.append((m.start(), match_close(s, m2.end() - 1) + 1))
            continue
        m3 = re.compile(r"\s*(?:extern\s*(?:\"[^\"]*\")?\s*)?fn\s+\w+").match(s, m.end())
        if m3:
            e = item_end(s, m3.end())
            if s[e - 1] == "}":
                res.append((m.start(), e))
    return res


def prepared(src):
    return strip_cfg_test(clean_rust(src))


def scan_file(rel, src, crate_unions=None):
    """`crate_unions`: {union name: fields} of the whole crate (private union fields are visible
    in child modules, e.g. `p.avx` in x86_64/sse2.rs for a union declared in x86_64/mod.rs)."""
    s = prepared(src)
    sp = spans(s)
    found = []        # (pos, kind, text)
    taken = []        # spans of names already classified (to avoid double counting)

    def free(a, b):
        return all(b <= x or a >= y for x, y in taken)

    def add(pos, a, b, kind, text):
        if free(a, b):
            taken.append((a, b))
            found.append((pos, kind, text))

    # 1. load/store intrinsics
    for m in re.finditer(r"\b(_mm\d*_\w*?(?:load|store|lddqu|stream)\w*)\s*\(", s):
        add(m.start(), m.start(1), m.end(1), simd_kind(m.group(1)), call_text(s, m.start(1), m.end() - 1))
    # 2. ptr::read* / ptr::write* / copy_nonoverlapping / write_bytes, free or method forms
    for m in re.finditer(r"\b(?:(?:core|std)::)?ptr::(\w+)\s*(?:::\s*<[^>]*>\s*)?\(", s):
        nm = m.group(1)
        if nm == "copy_nonoverlapping":
            k = "copyNonoverlapping"
        elif nm == "write_bytes":
            k = "writeBytes"
        elif nm == "read_unaligned":
            k = "ptrReadU"
        elif nm == "write_unaligned":
            k = "ptrWriteU"
        elif nm == "read":
            k = "ptrRead"
        elif nm == "write":
            k = "ptrWrite"
        elif nm.startswith("read") or nm.startswith("write") or nm.startswith("copy") or nm.startswith("swap") or nm.startswith("replace"):
            k = "ptrOther"
        else:
            continue
        add(m.start(), m.start(), m.end(1), k, call_text(s, m.start(), m.end() - 1))
    for m in re.finditer(r"(\.\s*)?\b(read_unaligned|write_unaligned|read_volatile|write_volatile|copy_nonoverlapping|write_bytes|copy_to_nonoverlapping|copy_from_nonoverlapping)\s*(?:::\s*<[^>]*>\s*)?\(", s):
        nm = m.group(2)
        k = {"read_unaligned": "ptrReadU", "write_unaligned": "ptrWriteU", "read_volatile": "ptrOther",
             "write_volatile": "ptrOther", "write_bytes": "writeBytes"}.get(nm, "copyNonoverlapping")
        st = receiver_start(s, m.start()) if m.group(1) else m.start(2)
        add(m.start(2), m.start(2), m.end(2), k, call_text(s, st, m.end() - 1))
    # raw-pointer methods `.read()` / `.write(v)`
    for m in re.finditer(r"\.\s*(read|write)\s*\(", s):
        st = receiver_start(s, m.start())
        add(m.start(1), m.start(1), m.end(1), "ptrRead" if m.group(1) == "read" else "ptrWrite",
            call_text(s, st, m.end() - 1))
    # 3. pointer arithmetic
    for m in re.finditer(r"\.\s*(offset|add|sub|byte_add|byte_offset|wrapping_offset)\s*\(", s):
        if m.group(1) == "sub" and False:
            continue
        st = receiver_start(s, m.start())
        k = "ptrOffset" if "offset" in m.group(1) else "ptrAdd"
        if m.group(1) == "sub":
            k = "ptrAdd"
        add(m.start(1), m.start(1), m.end(1), k, call_text(s, st, m.end() - 1))
    # 4. raw-pointer casts and slice -> pointer
    for m in re.finditer(r"\bas\s+\*\s*(const|mut)\s+([\w:<>\[\];$ ]+?)\s*(?=[,;)}\n=.]|$)", s):
        st = receiver_start(s, len(s[:m.start()].rstrip()))
        k = "castConst" if m.group(1) == "const" else "castMut"
        add(m.start(), m.start(), m.end(), k, norm_ws(s[st:m.end()]))
    for m in re.finditer(r"\.\s*(as_ptr|as_mut_ptr|as_ptr_range|as_mut_ptr_range)\s*\(", s):
        st = receiver_start(s, m.start())
        add(m.start(1), m.start(1), m.end(1), "asPtr", call_text(s, st, m.end() - 1))
    # 5. reinterpretation
    for m in re.finditer(r"\b(from_raw_parts(?:_mut)?)\s*(?:::\s*<[^>]*>\s*)?\(", s):
        add(m.start(1), m.start(1), m.end(1), "fromRawParts", call_text(s, m.start(1), m.end() - 1))
    for m in re.finditer(r"\b(transmute(?:_copy|_ref|_mut)?)\s*(!)?\s*(?:::\s*<[^>]*(?:<[^>]*>[^>]*)*>\s*)?\(", s):
        add(m.start(1), m.start(1), m.end(1), "transmute", call_text(s, m.start(1), m.end() - 1))
    for m in re.finditer(r"\.\s*(get_unchecked(?:_mut)?)\s*\(", s):
        st = receiver_start(s, m.start())
        add(m.start(1), m.start(1), m.end(1), "getUnchecked", call_text(s, st, m.end() - 1))
    # 6. union field reads: `.f` (f a field of a union declared in this file) inside an unsafe region
    #    -- includes `U { a }.b`, `U::<T> { a: x }.b`, `&self.f`, `&mut self.f`, `x.f == y.f`
    un = dict(crate_unions or {})
    un.update(union_decls(s))
    fields = sorted({f for fs in un.values() for f in fs})
    if fields:
        regs = unsafe_regions(s)
        # a macro metavariable in field position (`vec.$name`) is a field read as well
        for m in re.finditer(r"\.\s*(\$\w+|(?:" + "|".join(map(re.escape, fields)) + r")\b)(?!\s*(?:\(|::|!))", s):
            if not any(a <= m.start() < b for a, b in regs):
                continue
            st = receiver_start(s, m.start())
            txt = s[st:m.end()]
            if s[st:m.start()].strip() == "" and st > 0 and s[st - 1] == "}":
                # struct-literal receiver: `Name { … }.f` / `Name::<T> { … }.f`
                o = st - 1
                depth = 0
                while o >= 0:
                    if s[o] == "}":
                        depth += 1
                    elif s[o] == "{":
                        depth -= 1
                        if depth == 0:
                            break
                    o -= 1
                h = receiver_start(s, len(s[:o].rstrip()))
                # allow a turbofish `::<…>` before the brace
                pre = s[:o].rstrip()
                if pre.endswith(">"):
                    k = len(pre) - 1
                    depth = 0
                    while k >= 0:
                        if pre[k] == ">":
                            depth += 1
                        elif pre[k] == "<":
                            depth -= 1
                            if depth == 0:
                                break
                        k -= 1
                    h = receiver_start(s, k)
                txt = s[h:m.end()]
            add(m.start(1), m.start(1), m.end(1), "unionRead", norm_ws(txt))
    items = {}
    for pos, kind, text in found:
        key = (rel, context_at(sp, pos), kind, text)
        items[key] = items.get(key, 0) + 1
    return items


def memops_inventory(repo="/repo"):
    """Deterministic list of (file, context, kind, text, count)."""
    items = {}
    for d in MODELLED_DIRS:
        root = os.path.join(repo, d)
        files = []
        for dp, dns, fns in sorted(os.walk(root)):
            dns.sort()
            files += [os.path.join(dp, fn) for fn in sorted(fns) if fn.endswith(".rs")]
        srcs = {p: open(p, errors="replace").read() for p in files}
        crate_unions = {}
        for p in files:
            crate_unions.update(union_decls(prepared(srcs[p])))
        for p in files:
            rel = os.path.relpath(p, repo)
            for k, v in scan_file(rel, srcs[p], crate_unions).items():
                items[k] = items.get(k, 0) + v
    return [k + (items[k],) for k in sorted(items)]


# --------------------------------------------------------------------------- Lean output

def lean_str(t):
    return '"' + t.replace("\\", "\\\\").replace('"', '\\"') + '"'


def lean_item(it):
    f, ctx, kind, text, cnt = it
    return "⟨%s, %s, .%s, %s, %d⟩" % (lean_str(f), lean_str(ctx), kind, lean_str(text), cnt)


def memops_lean(items):
    lines = [
        "/-",
        "  CC.Gen.MemOps — GENERATED by tools/inventory.py from the tree under verification on every",
        "  run of tools/check C16.  Do not edit: the hand-reviewed counterpart is",
        "  `CC.Mem.expectedMemOps` (lean/CC/Mem/Footprint.lean); `CC.Thm.C16.inventory_accounted`",
        "  states that the two are equal.",
        "-/",
        "import CC.Mem.MemOp",
        "namespace CC.Gen",
        "open CC.Mem",
        "",
        "def memOps : List MemOp := [",
    ]
    lines += ["  " + lean_item(it) + ("," if i + 1 < len(items) else "") for i, it in enumerate(items)]
    lines += ["]", "", "end CC.Gen", ""]
    return "\n".join(lines)


def write_memops_lean(items, out=DEFAULT_OUT):
    txt = memops_lean(items)
    os.makedirs(os.path.dirname(out), exist_ok=True)
    old = open(out).read() if os.path.exists(out) else None
    if old != txt:                      # keep the mtime (and lake's cache) when nothing changed
        with open(out, "w") as f:
            f.write(txt)
    return out


DEFAULT_CLS = {
    "simdLoadU": ".unalignedLoad", "simdLddqu": ".unalignedLoad", "ptrReadU": ".unalignedLoad",
    "simdStoreU": ".unalignedStore", "ptrWriteU": ".unalignedStore",
    "ptrOffset": "(.ptrArith 16 0 64)", "ptrAdd": "(.ptrArith 16 0 64)",
    "castConst": ".reinterpret", "castMut": ".reinterpret", "transmute": ".reinterpret",
    "unionRead": ".reinterpret", "asPtr": ".safe",
}


def skeleton(items):
    """Starting point for the hand-reviewed `accounted` list (classification to be reviewed)."""
    return ",\n".join("  (%s, %s)" % (lean_item(it), DEFAULT_CLS.get(it[2], ".TODO")) for it in items)


def selftest(repo="/repo"):
    """Scanner self-test on a temporary copy of the modelled sources (never edits `repo`):
    harmless edits (comments, strings, a #[cfg(test)] module, blank lines) leave the inventory
    unchanged; an aligned load on the caller pointer / a fifth `data.offset(4)` change it."""
    import shutil, tempfile
    tmp = tempfile.mkdtemp(prefix="c16_inv_")
    try:
        for d in MODELLED_DIRS:
            shutil.copytree(os.path.join(repo, d), os.path.join(tmp, d))
        base = memops_inventory(repo)
        assert memops_inventory(tmp) == base, "copy differs"
        f = os.path.join(tmp, "hashes/groestl/src/compressor.rs")
        orig = open(f).read()

        def variant(edit):
            open(f, "w").write(edit(orig))
            return memops_inventory(tmp)

        harmless = variant(lambda t: t.replace(
            "unsafe fn init512_impl", "// _mm_load_si128(data)\n/* ptr::read(data.offset(9)) */\n\n\nunsafe fn init512_impl", 1).replace(
            "    let y = transpose_a(X4(d0, d1, d2, d3));", "    let _s = \"_mm_load_si128(x)\";\n    let y = transpose_a(X4(d0, d1, d2, d3));", 1)
            + "\n#[cfg(test)]\nmod tests {\n    #[test]\n    fn t() { unsafe { let p = [0u8; 16].as_ptr(); let _ = core::ptr::read(p.add(3)); } }\n}\n")
        assert harmless == base, "harmless edits changed the inventory"
        aligned = variant(lambda t: t.replace("    let d0 = _mm_loadu_si128(data);\n",
                                              "    let d0 = _mm_load_si128(data as *const __m128i);\n", 1))
        assert aligned != base and any(i[2] == "simdLoadA" and "tf512_impl" in i[1] for i in aligned), "aligned load not detected"
        fifth = variant(lambda t: t.replace("    let d3 = _mm_loadu_si128(data.offset(3));\n",
                                            "    let d3 = _mm_loadu_si128(data.offset(3));\n    let _d4 = _mm_loadu_si128(data.offset(4));\n", 1))
        assert fifth != base and any(i[3] == "data.offset(4)" and i[1] == "fn tf512_impl" for i in fifth), "fifth offset not detected"
        print("inventory selftest ok: %d items; harmless edits ignored, aligned load and fifth offset detected" % len(base))
        return 0
    finally:
        shutil.rmtree(tmp, ignore_errors=True)


def main(argv):
    """argv = ["memops", options…] (as passed on by tools/inventory.py)"""
    if not argv or argv[0] != "memops":
        print(__doc__)
        return 2
    repo, out = "/repo", DEFAULT_OUT
    a = argv[1:]
    mode = "write"
    while a:
        if a[0] == "--repo":
            repo = a[1]
            a = a[2:]
        elif a[0] == "--out":
            out = a[1]
            a = a[2:]
        elif a[0] in ("--print", "--skeleton", "--selftest"):
            mode = a[0][2:]
            a = a[1:]
        else:
            print(__doc__)
            return 2
    if mode == "selftest":
        return selftest(repo)
    items = memops_inventory(repo)
    if mode == "print":
        for it in items:
            print("\t".join(map(str, it)))
        return 0
    if mode == "skeleton":
        print(skeleton(items))
        return 0
    p = write_memops_lean(items, out)
    print("%d items (%d occurrences) -> %s" % (len(items), sum(i[4] for i in items), p))
    return 0


if __name__ == "__main__":
    sys.exit(main(["memops"] + sys.argv[1:]))
