#!/usr/bin/env python3
"""tools/inventory_blockbuffer_selftest.py — negative / positive tests of tools/inventory_blockbuffer.py (not a registered
check): copies the sources of the pinned crates (block-buffer, block-padding, digest, cipher) into a scratch tree under the
system temp directory, applies ONE edit per case, regenerates lean/CC/Gen/BlockBufferSrc.lean from the scratch tree
(`crate_dirs` override) and
  * N cases (breaking edits): `lake build CC.Buffer.Src` must FAIL (a proof obligation breaks, or the translator reports an
    error and `blockbuffer_errors = []` breaks);
  * P cases (harmless rewrites): the regenerated file must be BYTE-IDENTICAL to the one regenerated from the real sources.
The generated file is restored from the real sources at the end and the scratch tree removed.
    python3 tools/inventory_blockbuffer_selftest.py [case id | N* | P* ...]"""
import os, re, shutil, subprocess, sys, tempfile, time
V = os.path.dirname(os.path.dirname(os.path.abspath(__file__)))
sys.path.insert(0, V + "/tools")
import inventory_blockbuffer as B

REPO = os.environ.get("VERIF_REPO", "/repo")
ROOT = os.path.join(tempfile.gettempdir(), "blockbuffer_selftest_%d" % os.getpid())
MODULE = "CC.Buffer.Src"
MODULES = {"block-buffer": "CC.Buffer.Src", "block-padding": "CC.Buffer.Src", "digest": "CC.Buffer.SrcTraits", "cipher": "CC.Buffer.SrcTraits"}
BBF, PADF, DIGF, FIXF, STRF = ("block-buffer", "src/lib.rs"), ("block-padding", "src/lib.rs"), ("digest", "src/digest.rs"), \
    ("digest", "src/fixed.rs"), ("cipher", "src/stream.rs")


def sub1(old, new, nth=0):
    def f(s):
        parts = s.split(old)
        assert len(parts) > nth + 1, old
        return old.join(parts[:nth + 1]) + new + old.join(parts[nth + 1:])
    return f


def chain(*fs):
    def f(s):
        for g in fs:
            s = g(s)
        return s
    return f


def suball(old, new):
    def f(s):
        assert old in s, old
        return s.replace(old, new)
    return f


SMALL = "            self.buffer[self.pos..self.pos + n].copy_from_slice(input);\n"
CASES = [
    # (id + description, breaking?, file, edit)
    ("N01 input_block: early-return test `input.len() < r` -> `<=`", True, BBF, sub1("if input.len() < r {", "if input.len() <= r {", 0)),
    ("N02 input_lazy: early-return test `input.len() <= r` -> `<`", True, BBF, sub1("if input.len() <= r {", "if input.len() < r {")),
    ("N03 input_block: flush copies into `..self.pos` instead of `self.pos..`", True, BBF, sub1("self.buffer[self.pos..].copy_from_slice(l);", "self.buffer[..self.pos].copy_from_slice(l);", 0)),
    ("N04 len64_padding_be: dropped `self.pos = 0`", True, BBF, sub1("        f(&self.buffer);\n        self.pos = 0;\n", "        f(&self.buffer);\n", 0)),
    ("N05 digest_pad: 0x80 -> 0x01", True, BBF, sub1("self.buffer[self.pos] = 0x80;", "self.buffer[self.pos] = 0x01;")),
    ("N06 digest_pad: `self.remaining() < up_to` flipped", True, BBF, sub1("if self.remaining() < up_to {", "if self.remaining() > up_to {")),
    ("N07 len64_padding_be: to_be_bytes -> to_le_bytes", True, BBF, sub1("let b = data_len.to_be_bytes();", "let b = data_len.to_le_bytes();", 0)),
    ("N08 input_block: remainder copied to offset 1", True, BBF, sub1("self.buffer[..rem.len()].copy_from_slice(rem);", "self.buffer[1..rem.len() + 1].copy_from_slice(rem);")),
    ("N09 input_lazy: `while input.len() > self.size()` -> `>=`", True, BBF, sub1("while input.len() > self.size() {", "while input.len() >= self.size() {")),
    ("N10 input_lazy: final `self.pos = input.len()` -> 0", True, BBF, sub1("        self.pos = input.len();", "        self.pos = 0;")),
    ("N11 input_block: flush condition loses `self.pos != 0`", True, BBF, sub1("if self.pos != 0 && input.len() >= r {", "if input.len() >= r {", 0)),
    ("N12 digest_pad: dropped `self.pos = 0` after the full-buffer flush", True, BBF, sub1("            f(&self.buffer);\n            self.pos = 0;\n        }\n        self.buffer[self.pos] = 0x80;", "            f(&self.buffer);\n        }\n        self.buffer[self.pos] = 0x80;")),
    ("N13 digest_pad: dropped `set_zero(&mut self.buffer[self.pos..])`", True, BBF, sub1("        set_zero(&mut self.buffer[self.pos..]);\n", "")),
    ("N14 pad_with: dropped `self.pos = 0`", True, BBF, sub1("        P::pad_block(&mut self.buffer[..], self.pos)?;\n        self.pos = 0;", "        P::pad_block(&mut self.buffer[..], self.pos)?;")),
    ("N15 Iso7816::pad_block: 0x80 -> 0x01", True, PADF, sub1("        block[pos] = 0x80;\n        set(&mut block[pos + 1..], 0);", "        block[pos] = 0x01;\n        set(&mut block[pos + 1..], 0);")),
    ("N16 ZeroPadding::pad_block: `pos > block.len()` -> `>=`", True, PADF, sub1("        if pos > block.len() {\n            Err(PadError)?\n        }\n        set(&mut block[pos..], 0);", "        if pos >= block.len() {\n            Err(PadError)?\n        }\n        set(&mut block[pos..], 0);")),
    ("N17 Iso7816::pad_block: zeroes from `pos` (overwrites the marker)", True, PADF, sub1("        block[pos] = 0x80;\n        set(&mut block[pos + 1..], 0);", "        block[pos] = 0x80;\n        set(&mut block[pos..], 0);")),
    ("N18 set_zero writes 1s", True, BBF, sub1("core::ptr::write_bytes(dst.as_mut_ptr(), 0, dst.len());", "core::ptr::write_bytes(dst.as_mut_ptr(), 1, dst.len());")),
    ("N19 remaining: off by one", True, BBF, sub1("        self.size() - self.pos\n", "        self.size() - self.pos - 1\n")),
    ("N20 len128_padding_be: digest_pad(16) -> digest_pad(8)", True, BBF, sub1("self.digest_pad(16, &mut f);", "self.digest_pad(8, &mut f);")),
    ("N21 input_block: small path `self.pos += n` -> wrapping_add (not in the reading table: translator error)", True, BBF, sub1("            self.pos += n;\n            return;", "            self.pos = self.pos.wrapping_add(n);\n            return;", 0)),
    ("N22 input_block: flush no longer calls the closure", True, BBF, sub1("            self.buffer[self.pos..].copy_from_slice(l);\n            f(&self.buffer);", "            self.buffer[self.pos..].copy_from_slice(l);", 0)),
    ("N23 input_lazy: `input = r` dropped in the loop", True, BBF, sub1("            let (block, r) = input.split_at(self.size());\n            input = r;", "            let (block, r) = input.split_at(self.size());")),
    ("N24 input_lazy: the loop hands `r` (the rest) to the closure", True, BBF, sub1("            f(block.try_into().unwrap());\n        }\n\n        self.buffer[..input.len()]", "            f(r.try_into().unwrap());\n        }\n\n        self.buffer[..input.len()]")),
    ("N25 input_block: small path dropped `return`", True, BBF, sub1("            self.pos += n;\n            return;\n        }\n        if self.pos != 0 && input.len() >= r {\n            let (l, r) = input.split_at(r);\n            input = r;\n            self.buffer[self.pos..].copy_from_slice(l);\n            f(&self.buffer);", "            self.pos += n;\n        }\n        if self.pos != 0 && input.len() >= r {\n            let (l, r) = input.split_at(r);\n            input = r;\n            self.buffer[self.pos..].copy_from_slice(l);\n            f(&self.buffer);")),
    ("N26 reset: cursor := 1", True, BBF, sub1("        self.pos = 0\n    }", "        self.pos = 1\n    }")),
    ("N27 a new method in impl BlockBuffer (inventory)", True, BBF, sub1("    /// Return current cursor position\n", "    pub fn set_position(&mut self, p: usize) { self.pos = p; }\n    /// Return current cursor position\n")),
    ("N28 digest_pad: spill zeroes `..self.pos - 1` only", True, BBF, sub1("set_zero(&mut self.buffer[..self.pos]);", "set_zero(&mut self.buffer[..self.pos - 1]);")),
    ("N29 input_block: small path copies to `self.pos + 1..`", True, BBF, sub1("self.buffer[self.pos..self.pos + n].copy_from_slice(input);", "self.buffer[self.pos + 1..self.pos + n + 1].copy_from_slice(input);", 0)),
    ("N30 len64_padding_be: length bytes one position early", True, BBF, sub1("        let b = data_len.to_be_bytes();\n        let n = self.buffer.len() - b.len();\n        self.buffer[n..].copy_from_slice(&b);", "        let b = data_len.to_be_bytes();\n        let n = self.buffer.len() - b.len() - 1;\n        self.buffer[n..n + 8].copy_from_slice(&b);", 0)),
    # harmless
    ("P01 input_block: locals renamed (`r` -> `room`, `n` -> `cnt`, `rem` -> `tail`)", False, BBF, chain(
        sub1("        let r = self.remaining();\n        if input.len() < r {\n            let n = input.len();\n            self.buffer[self.pos..self.pos + n].copy_from_slice(input);\n            self.pos += n;\n            return;\n        }\n        if self.pos != 0 && input.len() >= r {\n            let (l, r) = input.split_at(r);",
             "        let room = self.remaining();\n        if input.len() < room {\n            let cnt = input.len();\n            self.buffer[self.pos..self.pos + cnt].copy_from_slice(input);\n            self.pos += cnt;\n            return;\n        }\n        if self.pos != 0 && input.len() >= room {\n            let (l, r) = input.split_at(room);", 0),
        suball("let rem = chunks_iter.remainder();", "let tail = chunks_iter.remainder();"),
        suball("self.buffer[..rem.len()].copy_from_slice(rem);\n        self.pos = rem.len();", "self.buffer[..tail.len()].copy_from_slice(tail);\n        self.pos = tail.len();"))),
    ("P02 len64_padding_be: `f(&self.buffer); self.pos = 0;` exchanged (independent)", False, BBF, sub1("        f(&self.buffer);\n        self.pos = 0;\n", "        self.pos = 0;\n        f(&self.buffer);\n", 0)),
    ("P03 input_block: temporaries for the slice bounds", False, BBF, sub1(SMALL, "            let lo = self.pos;\n            let hi = lo + n;\n            self.buffer[lo..hi].copy_from_slice(input);\n", 0)),
    ("P04 comparisons written the other way round (`r > input.len()`, `r <= input.len()`)", False, BBF, chain(sub1("if input.len() < r {", "if r > input.len() {", 0), sub1("if self.pos != 0 && input.len() >= r {", "if self.pos != 0 && r <= input.len() {", 0))),
    ("P05 digest_pad: marker store after the cursor increment, through a temporary", False, BBF, sub1("        self.buffer[self.pos] = 0x80;\n        self.pos += 1;\n", "        let p = self.pos;\n        self.pos += 1;\n        self.buffer[p] = 128;\n")),
    ("P06 `self.pos += n` written `self.pos = n + self.pos`", False, BBF, sub1("            self.pos += n;", "            self.pos = n + self.pos;", 0)),
    ("P07 block-padding: parameter `block` renamed in Iso7816::pad_block, comments added", False, PADF, sub1("        if pos >= block.len() {\n            Err(PadError)?\n        }\n        block[pos] = 0x80;\n        set(&mut block[pos + 1..], 0);", "        /* full? */ if pos >= block.len() {\n            Err(PadError)?\n        }\n        // marker\n        block[pos] = 0x80;\n        let from = pos + 1;\n        set(&mut block[from..], 0);")),
    ("P08 input_lazy: the final two statements exchanged, loop locals renamed", False, BBF, chain(
        sub1("            let (block, r) = input.split_at(self.size());\n            input = r;\n            f(block.try_into().unwrap());", "            let (head, rest) = input.split_at(self.size());\n            f(head.try_into().unwrap());\n            input = rest;"),
        sub1("        self.buffer[..input.len()].copy_from_slice(input);\n        self.pos = input.len();", "        self.pos = input.len();\n        self.buffer[..input.len()].copy_from_slice(input);"))),
    ("P09 len128_padding_be: `n` inlined, `b` renamed", False, BBF, sub1("        let b = data_len.to_be_bytes();\n        let n = self.buffer.len() - b.len();\n        self.buffer[n..].copy_from_slice(&b);", "        let lenbytes = data_len.to_be_bytes();\n        self.buffer[self.buffer.len() - lenbytes.len()..].copy_from_slice(&lenbytes);", 1)),
]
TRAIT_CASES = [
    ("N40 digest blanket finalize_into_reset: `self.reset()` dropped", True, FIXF, sub1("        self.finalize_into_dirty(out);\n        self.reset();", "        self.finalize_into_dirty(out);")),
    ("N41 digest blanket finalize_into_reset: reset BEFORE the finalisation", True, FIXF, sub1("        self.finalize_into_dirty(out);\n        self.reset();", "        self.reset();\n        self.finalize_into_dirty(out);")),
    ("N42 Digest::finalize_reset: finalises in place instead of a clone", True, DIGF, sub1("let res = self.clone().finalize_fixed();\n        self.reset();", "let res = self.finalize_fixed_reset();")),
    ("N43 Digest::finalize_reset: `self.reset()` dropped", True, DIGF, sub1("let res = self.clone().finalize_fixed();\n        self.reset();", "let res = self.clone().finalize_fixed();")),
    ("N44 Digest::digest: the update is dropped", True, DIGF, sub1("        Update::update(&mut hasher, data);\n", "")),
    ("N45 StreamCipher::apply_keystream swallows the error (`.ok()`; not in the reading table)", True, STRF, sub1("self.try_apply_keystream(data).unwrap();", "self.try_apply_keystream(data).ok();")),
    ("N46 StreamCipherSeek::seek no longer unwraps", True, STRF, sub1("        self.try_seek(pos).unwrap()\n", "        let _ = self.try_seek(pos);\n")),
    ("N47 a required method gains a default body (Reset::reset) — inventory", True, ("digest", "src/lib.rs"), sub1("    fn reset(&mut self);", "    fn reset(&mut self) {}")),
    ("P20 Digest::finalize_reset: local renamed", False, DIGF, sub1("let res = self.clone().finalize_fixed();\n        self.reset();\n        res", "let digest = self.clone().finalize_fixed();\n        self.reset();\n        digest")),
    ("P21 FixedOutput::finalize_fixed: local renamed, explicit return", False, FIXF, sub1("        let mut out = Default::default();\n        self.finalize_into(&mut out);\n        out", "        let mut o = Default::default();\n        self.finalize_into(&mut o);\n        return o;")),
    ("P22 Digest::digest: UFCS call written as a method call on the bound", False, DIGF, sub1("Update::update(&mut hasher, data);", "<Self as Update>::update(&mut hasher, data);")),
]


def selected(cid, o):
    if o.endswith("*"):
        return cid.startswith(o[:-1])
    return cid == o


def run(cmd, **kw):
    return subprocess.run(cmd, stdout=subprocess.PIPE, stderr=subprocess.STDOUT, universal_newlines=True, **kw)


def main():
    global MODULE
    only = sys.argv[1:]
    real = {}
    for c in B.CRATES:
        real[c], _ = B.crate_dir(REPO, c)
    out = B.DEFAULT_OUT
    B.blockbuffer_regenerate(REPO)
    reference = open(out, encoding="utf-8").read()
    results = []
    try:
        for cid, breaking, (crate, rel), edit in CASES + TRAIT_CASES:
            if only and not any(selected(cid.split()[0], o) for o in only):
                continue
            shutil.rmtree(ROOT, ignore_errors=True)
            dirs = {}
            for c in B.CRATES:
                dirs[c] = os.path.join(ROOT, c)
                shutil.copytree(os.path.join(real[c], "src"), os.path.join(dirs[c], "src"))
            p = os.path.join(dirs[crate], rel)
            s = open(p).read()
            s2 = edit(s)
            assert s2 != s, cid
            open(p, "w").write(s2)
            inv, _ = B.blockbuffer_regenerate(REPO, crate_dirs=dirs)
            text = open(out, encoding="utf-8").read().replace("override", "VERSION")
            same = re.sub(r"(?m)^    (block-buffer|block-padding|digest|cipher) \S+$", r"    \1 VERSION", reference) == \
                re.sub(r"(?m)^    (block-buffer|block-padding|digest|cipher) \S+$", r"    \1 VERSION", text)
            if not breaking:
                ok = same
                print("%-11s %s | regenerated file %s | translator errors: %d" % (
                    "as expected" if ok else "UNEXPECTED", cid, "byte-identical" if same else "DIFFERS", len(inv["errors"])))
            else:
                t0 = time.time()
                MODULE = MODULES[crate]
                b = run(["lake", "build", MODULE], cwd=V + "/lean")
                failed = b.returncode != 0
                errs = [l for l in b.stdout.splitlines() if l.startswith("error:")]
                ok = failed and not same
                print("%-11s %s | file %s | translator errors: %d | lake build %s: %s (%.1fs) | %s" % (
                    "as expected" if ok else "UNEXPECTED", cid, "changed" if not same else "UNCHANGED", len(inv["errors"]), MODULE,
                    "FAILED" if failed else "OK", time.time() - t0, (inv["errors"][0][:120] if inv["errors"] else (errs[0][:120] if errs else ""))))
            sys.stdout.flush()
            results.append(ok)
        # a pinned version whose source is missing is a translation error, never a silent skip
        if not only or any(selected("N90", o) for o in only):
            shutil.rmtree(ROOT, ignore_errors=True)
            os.makedirs(ROOT)
            lock = open(os.path.join(REPO, "Cargo.lock")).read()
            lock2 = lock.replace('name = "block-buffer"\nversion = "', 'name = "block-buffer"\nversion = "99.')
            assert lock2 != lock
            open(os.path.join(ROOT, "Cargo.lock"), "w").write(lock2)
            inv, _ = B.blockbuffer_regenerate(ROOT)
            MODULE = "CC.Buffer.Src"
            b = run(["lake", "build", MODULE], cwd=V + "/lean")
            ok = b.returncode != 0 and any("not in the cargo registry" in e for e in inv["errors"])
            print("%-11s N90 Cargo.lock pins a block-buffer version whose source is not in the registry | translator errors: %d | lake build %s: %s | %s" % (
                "as expected" if ok else "UNEXPECTED", len(inv["errors"]), MODULE, "FAILED" if b.returncode else "OK", inv["errors"][0][:120] if inv["errors"] else ""))
            results.append(ok)
    finally:
        shutil.rmtree(ROOT, ignore_errors=True)
        B.blockbuffer_regenerate(REPO)
    restored = open(out, encoding="utf-8").read() == reference
    MODULE = "CC.Thm.C08"
    b = run(["lake", "build", MODULE], cwd=V + "/lean")
    print("restored from the real sources: %s; lake build %s: %s" % ("identical" if restored else "DIFFERENT", MODULE, "OK" if b.returncode == 0 else "FAILED"))
    nb = sum(1 for c in CASES + TRAIT_CASES if c[1]) + 1
    print("%s: %d cases run (%d breaking, %d harmless defined)" % (
        "ALL AS EXPECTED" if all(results) and restored and b.returncode == 0 else "SOME UNEXPECTED", len(results), nb, len(CASES + TRAIT_CASES) + 1 - nb))
    return 0 if all(results) else 1


if __name__ == "__main__":
    sys.exit(main())
