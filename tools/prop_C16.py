"""C16 — byte-slice APIs are alignment-independent and stay inside their buffers  (partial).

Proof side: CC.Thm.C16 (footprint model + source inventory).  `inventory()` regenerates
lean/CC/Gen/MemOps.lean from the tree under verification before the Lean build, so an edit that adds
or changes a raw-memory operation (`_mm_load_si128` on a caller pointer, a fifth `data.offset(4)`)
makes `inventory_accounted` fail.  Runtime side: `gen_C16` is the guard-page / alignment sweep — every
byte-slice API on slices that start right after or end right at a PROT_NONE page, at every start
alignment, all boundary lengths, every backend; the model side computes the same values ignoring the
placement.  A fault kills the harness: its output stops at the faulting op, which tools/check reports
as `VIOLATION … replay=<that op>`.  When the proof obligation fails and the sweep finds nothing,
tools/check prints `VIOLATION … no-failing-input-found`.
"""
import os, re, subprocess
import cclib, gens
import inventory_memops as inv

THEOREMS = [
    "in_bounds", "alignment_free", "only_storeBytes_panics", "storeBytes_wrong_length_panics",
    "storeBytes_leaf_no_access", "storeBytes_exact", "covers_exactly", "covers_exactly_count",
    "inventory_accounted", "no_aligned_forms", "accounted_classified", "load_offsets_match",
    "result_ignores_address", "source_footprint_match",
]

ALIGNS_QUICK = [0, 1, 15, 16, 31, 63]
ALIGNS_ALL = list(range(64))

# boundary catalogue: block sizes 32/64/128 (hash blocks, ChaCha block), 256 (ChaCha wide buffer),
# 16/32/64 (vector sizes) ± 1, and some multi-block lengths
HASH_LENS = [0, 1, 2, 15, 16, 17, 31, 32, 33, 55, 56, 63, 64, 65, 111, 112, 127, 128, 129, 191, 192, 193,
             255, 256, 257, 300, 383, 384, 385, 511, 512, 513, 600]
HASH_CORE = [0, 1, 63, 64, 65, 128, 129, 200, 257]          # all alignments even in the quick tier
CHACHA_LENS = gens.LENS
CHACHA_CORE = [0, 1, 63, 64, 65, 255, 256, 257, 321, 577]
SIMDLEN_LENS = [0, 1, 15, 16, 17, 31, 32, 33, 47, 48, 63, 64, 65, 96, 128]

HASHES = [("blake", ["224", "256", "384", "512"], True),
          ("groestl", ["224", "256", "384", "512"], False),
          ("jh", ["224", "256", "384", "512"], True),
          ("skein", ["256-32", "512-64", "1024-128", "512-32", "1024-64"], False)]
SIMD_TYPES = ["u32x4", "u64x2", "u128x1", "u32x4x2", "u64x2x2", "u64x4", "u128x2", "u32x4x4", "u64x2x4", "u128x4"]
SIMD_BYTES = {"u32x4": 16, "u64x2": 16, "u128x1": 16, "u32x4x2": 32, "u64x2x2": 32, "u64x4": 32, "u128x2": 32,
              "u32x4x4": 64, "u64x2x4": 64, "u128x4": 64}
SB_OPS = ["read_le", "read_be", "write_le", "write_be"]
X86 = ["sse2", "ssse3", "sse41", "avx", "avx2"]


def placements(rng, tier, core=True, primary=True):
    """[(place, align)]: `front` at the chosen alignments, `back` once (its start alignment is fixed
    by the length).  quick: 0,1,15,16,31,63 for the core lengths, one of them otherwise.
    thorough: all of 0..63 for the core lengths on the primary backends (first one and avx2), the
    quick set on the others; a few random alignments for the remaining lengths."""
    if tier == "quick":
        al = ALIGNS_QUICK if core else [rng.choice(ALIGNS_QUICK)]
    elif core:
        al = ALIGNS_ALL if primary else ALIGNS_QUICK
    else:
        al = sorted({rng.choice(ALIGNS_ALL) for _ in range(5 if primary else 2)})
    return [("front", a) for a in al] + [("back", 0)]


def gen_C16(rng, tier, cfg):
    quick = tier == "quick"
    nosimd = cfg.startswith("nosimd")
    bes_all = ["generic"] if nosimd else list(X86)
    bes_algo = ["generic"] if nosimd else (["sse2", "avx2"] if quick else list(X86))
    ops = []
    st = {"chacha": 0, "hash": {}, "tf": 0, "simd": 0, "simdlen": 0, "front": 0, "back": 0, "aligns": {},
          "start_alignments_mod64": {}, "backends": bes_all, "bytes": 0}

    def note(place, align, ln):
        st[place] += 1
        st["aligns"][align] = st["aligns"].get(align, 0) + 1
        sa = align if place == "front" else (-ln) % 64
        st["start_alignments_mod64"][sa] = st["start_alignments_mod64"].get(sa, 0) + 1
        st["bytes"] += ln

    # ---- ChaCha keystream application
    variants = ["chacha20", "ietf", "xchacha12"] if quick else gens.VARIANTS
    for be in bes_algo:
        ops.append("cfg backend %s" % be)
        primary = be in (bes_algo[0], "avx2")
        for v in variants:
            key = gens.hx(gens.struct_bytes(rng, 32))
            nonce = gens.hx(gens.struct_bytes(rng, gens.NONCE[v]))
            for ln in CHACHA_LENS:
                # positions: block start, inside a block (buffered bytes first), low-word carry
                pos = rng.choice([0, 5, 64 * 3 + 63, 64 * 7 + 1, (2**32 - 2) * 64 + 9])
                if pos + ln > gens.limit(v):
                    pos = 0
                seed = rng.below(1000)
                for (pl, al) in placements(rng, tier, ln in CHACHA_CORE, primary):
                    ops.append("mem chacha %s %s %s %d %d %d %s %d" % (v, key, nonce, pos, ln, seed, pl, al))
                    st["chacha"] += 1
                    note(pl, al, ln)
            if not quick and primary:
                # every start alignment with the slice ENDING at the guard page
                for k in range(64):
                    ln = 577 + k
                    ops.append("mem chacha %s %s %s %d %d %d back 0" % (v, key, nonce, 5, ln, k))
                    st["chacha"] += 1
                    note("back", 0, ln)

    # ---- hash update
    for fam, vs, dispatches in HASHES:
        for be in (bes_algo if dispatches else bes_algo[:1]):
            ops.append("cfg backend %s" % be)
            primary = be in (bes_algo[0], "avx2")
            for v in (vs[:3] if quick and fam == "skein" else vs):
                for ln in HASH_LENS:
                    seed = rng.below(1000)
                    for (pl, al) in placements(rng, tier, ln in HASH_CORE, primary):
                        ops.append("mem hash %s %s %d %d %s %d" % (fam, v, ln, seed, pl, al))
                        st["hash"][fam] = st["hash"].get(fam, 0) + 1
                        note(pl, al, ln)
                # every start alignment with the slice ending at the guard page (two blocks + tail)
                for k in (range(64) if (not quick and primary) else [rng.below(64) for _ in range(6)]):
                    ln = 257 + k
                    ops.append("mem hash %s %s %d %d back 0" % (fam, v, ln, k))
                    st["hash"][fam] = st["hash"].get(fam, 0) + 1
                    note("back", 0, ln)

    # ---- Threefish block encrypt / decrypt (block in guarded memory, in place)
    for size, n in (("256", 32), ("512", 64), ("1024", 128)):
        for _ in range(2 if quick else 6):
            key = gens.hx(gens.struct_bytes(rng, n))
            t0, t1 = rng.next(), rng.next()
            for d in ("enc", "dec"):
                seed = rng.below(1000)
                for (pl, al) in placements(rng, tier):
                    ops.append("mem tf %s %s %s %d %d %d %s %d" % (size, d, key, t0, t1, seed, pl, al))
                    st["tf"] += 1
                    note(pl, al, n)

    # ---- ppv-lite86 vector byte load / store on every backend
    for be in bes_all:
        for t in SIMD_TYPES:
            if be == "generic" and t.startswith("u128"):
                continue            # no StoreBytes for u128x*_generic
            for op in SB_OPS:
                seed = rng.below(1000)
                for (pl, al) in placements(rng, tier):
                    ops.append("mem simd %s %s %s %d %s %d" % (be, t, op, seed, pl, al))
                    st["simd"] += 1
                    note(pl, al, SIMD_BYTES[t])
            # any slice length: clean panic instead of an access when the length is wrong
            for op in SB_OPS:
                for ln in SIMDLEN_LENS:
                    seed = rng.below(1000)
                    for (pl, al) in [("back", 0), ("front", 0), ("front", rng.choice(ALIGNS_QUICK[1:]))]:
                        ops.append("mem simdlen %s %s %s %d %d %s %d" % (be, t, op, ln, seed, pl, al))
                        st["simdlen"] += 1
                        note(pl, al, ln)
    return ops, st


# --------------------------------------------------------------------------- inventory

_ITEM = re.compile(r'⟨"((?:[^"\\]|\\.)*)", "((?:[^"\\]|\\.)*)", \.(\w+), "((?:[^"\\]|\\.)*)", (\d+)⟩')


def _expected_items():
    p = os.path.join(cclib.LEAN, "CC", "Mem", "Footprint.lean")
    un = lambda s: s.replace('\\"', '"').replace("\\\\", "\\")
    return [(un(a), un(b), k, un(t), int(n)) for a, b, k, t, n in _ITEM.findall(open(p).read())]


def inventory(pid, tier):
    """Regenerate CC/Gen/MemOps.lean from the tree; report what was found and how it differs from the
    hand-reviewed list (the Lean obligation `inventory_accounted` is what decides)."""
    items = inv.memops_inventory(cclib.REPO)
    inv.write_memops_lean(items)
    kinds = {}
    for it in items:
        kinds[it[2]] = kinds.get(it[2], 0) + it[4]
    exp = _expected_items()
    new = [list(i) for i in items if i not in exp]
    gone = [list(i) for i in exp if i not in items]
    if new or gone:
        cclib.log("  C16 inventory differs from CC.Mem.expectedMemOps: %d new/changed, %d missing" % (len(new), len(gone)))
        for i in new[:10]:
            cclib.log("    + %s" % (i,))
        for i in gone[:10]:
            cclib.log("    - %s" % (i,))
        d = os.path.join(cclib.OUT, pid)
        os.makedirs(d, exist_ok=True)
        with open(os.path.join(d, "inventory-diff.txt"), "w") as f:
            f.write("# raw-memory operations in %s that CC.Mem.expectedMemOps does not account for (+) / no longer found (-)\n" % cclib.REPO)
            for i in new:
                f.write("+ %s\n" % "\t".join(map(str, i)))
            for i in gone:
                f.write("- %s\n" % "\t".join(map(str, i)))
    return {"coverage": {
        "inventory_items": len(items),
        "inventory_occurrences": sum(i[4] for i in items),
        "inventory_by_kind": kinds,
        "inventory_files": sorted({i[0] for i in items}),
        "inventory_unaccounted": new,
        "inventory_missing": gone,
        "inventory_cmd": "python3 tools/inventory.py memops",
    }}


# --------------------------------------------------------------------------- guard-page self-test

def extra(pid, tier, seed):
    """The sweep only means something if touching a guard page really kills the harness: probe one
    byte inside / outside the slice on every built configuration."""
    res = {}
    violations = []
    n = 0
    probes = [  # (op, must_survive)
        ("mem probe 16 back 0 15", True), ("mem probe 16 back 0 16", False),
        ("mem probe 16 front 0 0", True), ("mem probe 16 front 0 -1", False),
        ("mem probe 0 back 0 0", False), ("mem probe 4096 back 0 4096", False),
        ("mem probe 600 front 0 -1", False), ("mem probe 600 back 0 599", True),
    ]
    for cfg in PROP["cfgs_" + tier] if ("cfgs_" + tier) in PROP else PROP["cfgs_quick"]:
        ok, binp, _ = cclib.harness_build(cfg)
        if not ok:
            continue
        good = True
        for op, survive in probes:
            p = subprocess.run([binp], input="# before\n%s\n# after\n" % op, stdout=subprocess.PIPE,
                               stderr=subprocess.PIPE, text=True)
            lines = p.stdout.split("\n")
            alive = p.returncode == 0 and "# after" in lines
            died_by_signal = p.returncode < 0 and lines[:1] == ["# before"] and "# after" not in lines
            n += 1
            if survive != alive or (not survive and not died_by_signal):
                good = False
                rp = cclib.write_replay(pid, seed, "guard-selftest-" + cfg,
                                        "# cfg=%s\n# machinery: guard-page self-test failed: `%s` expected %s, rc=%s, out=%r\n" % (
                                            cfg, op, "survive" if survive else "SIGSEGV", p.returncode, p.stdout[-200:]))
                violations.append(("guard-page self-test failed in " + cfg, rp, True))
                break
        res[cfg] = good
    return {"coverage": {"guard_page_selftest": res}, "violations": violations, "evaluations": n}


# --------------------------------------------------------------------------- shrinking
# `mem` operations are self-contained (fresh object per op; only the last `cfg backend` line matters),
# so a disagreement is isolated directly instead of by cclib's generic line-removal loop (which re-runs
# the whole prefix up to 400 times).  Only applies when every line is a `mem` / `cfg backend` line;
# everything else goes to the original shrinker.
_generic_shrink = cclib.shrink


def _shrink(impl_bin, header, ops, idx):
    k = idx - len(header)
    if 0 <= k < len(ops) and all(o.startswith("mem ") or o.startswith("cfg backend ") for o in ops[:k + 1]):
        cand = [o for o in ops[:k] if o.startswith("cfg backend ")][-1:] + [ops[k]]
        d, a, b = cclib.disagree(impl_bin, header, cand)
        if d is not None and a is not None and b is not None:
            return cand
    return _generic_shrink(impl_bin, header, ops, idx)


cclib.shrink = _shrink


PROP = dict(
    theorems=THEOREMS,
    gen=gen_C16,
    inventory=inventory,
    extra=extra,
    cfgs_quick=["std-debug", "std-release", "nosimd-release", "std-o0-debug"],
    cfgs_thorough=["std-debug", "std-release", "nosimd-debug", "nosimd-release", "std-o0-debug"],
    strength="partial",
    partial_note="hardware faults, UB that does not fault and compiler behaviour are outside the Lean model; "
                 "the theorem is about the footprint model tied to a source inventory",
    trusted_extra=["tools/inventory.py (the scanner that extracts the raw-memory operations from the Rust sources)",
                   "Linux mmap/mprotect PROT_NONE guard pages and default SIGSEGV disposition (self-tested on every run)"],
)
GENS = {"C16": gen_C16}
