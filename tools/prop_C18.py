"""C18 — results are unaffected by concurrent first use and by interleaving of instances (partial).

Correspondence: every generated op is one *cold trial*

    conc <nthreads> <seed> <rounds>

The harness re-executes itself as a fresh process; `nthreads` threads released by a barrier make
their first calls into the library simultaneously (Grøstl first for thread 0 — racing the six
`lazy_static! IMPL` cells and std's CPU-feature cache —, JH first for thread 1, …), each on its own
instances, one-shot and then round-robin in pieces (harness/src/ops_conc.rs).  The Lean driver
computes the same lines sequentially with the models (lean/CC/Drv/Conc.lean).

`inventory` regenerates lean/CC/Gen/Shared.lean from /repo (tools/inventory.py shared); the theorem
`shared_state_accounted` then has to check against the fresh file.

`extra` amplifies schedules: the same trial is repeated many times on the implementation (a new
process each time) and every repetition is compared with the single model evaluation.
"""
import os
import cclib
import inventory_shared as _inv

THEOREMS = [
    "once_agree", "once_no_uninit_read", "once_init_at_most_once", "once_done_value", "once_wait_stutters",
    "cache_agree",
    "interleave_independent", "interleave_independent_proj", "interleavings_agree", "no_observation",
    "hash_interleave_independent", "hash_store_is_interleaving", "hash_interleaved_outputs",
    "inchash_interleaved_outputs",
    "chacha_interleave_independent", "chacha_interleaved_ok", "chacha_interleaved_from_new",
    "shared_state_accounted", "no_other_shared_state", "once_inits_are_ladders", "detect_features_known",
    "impl_cells_agree",
]

FIRST_ALGO = ['groestl224', 'skein512', 'xchacha20', 'jh256', 'ietf', 'blake512', 'chacha12', 'blake256', 'chacha8', 'groestl512', 'chacha20', 'groestl384', 'skein512-256', 'groestl256', 'skein512-32']          # item (7*tid) mod 15 of thread tid


def _trials(rng, tier):
    """list of (nthreads, seed, rounds)"""
    out = []
    if tier == "thorough":
        ns = [64] * 10 + [32] * 20 + [16] * 30 + [2, 3, 4, 5, 6, 7, 8, 11, 12, 13] * 14
        ns = ns[:200]
        for n in ns:
            out.append((n, rng.below(10**6), 1 + rng.below(4)))
    else:
        ns = [2, 4, 8, 16] + [rng.choice([2, 4, 8, 16]) for _ in range(2)]
        for n in ns:
            out.append((n, rng.below(10**6), 1 + rng.below(3)))
    return out


def gen_C18(rng, tier, cfg):
    trials = _trials(rng, tier)
    ops = ["conc %d %d %d" % t for t in trials]
    dist_n, dist_r = {}, {}
    first = set()
    for n, _, r in trials:
        dist_n[str(n)] = dist_n.get(str(n), 0) + 1
        dist_r[str(r)] = dist_r.get(str(r), 0) + 1
        for tid in range(n):
            first.add(FIRST_ALGO[tid % 15])
    stats = {
        "cold_trials": len(trials),
        "nthreads": dist_n,
        "rounds": dist_r,
        "thread_runs": sum(t[0] for t in trials),
        "results_compared": sum(t[0] for t in trials) * 30,
        "first_algorithm_of_some_thread": sorted(first),
    }
    return ops, stats


def inventory(pid, tier):
    items, sites, path = _inv.shared_regenerate(cclib.REPO)
    by = {}
    for it in items:
        by[it["cls"]] = by.get(it["cls"], 0) + 1
    # what the obligation `shared_state_accounted` is about, in readable form (named by the evidence;
    # useful when the obligation stops checking)
    d = os.path.join(cclib.OUT, pid)
    os.makedirs(d, exist_ok=True)
    with open(os.path.join(d, "shared-inventory.txt"), "w") as f:
        f.write("# shared-state inventory of %s (tools/inventory.py shared); obligation: CC.Thm.C18.shared_state_accounted\n" % cclib.REPO)
        f.write("# items classified `other` make the obligation fail: %d\n" % by.get("other", 0))
        for it in items:
            f.write("[%s] %s :: %s :: %s %s : %s = %s\n" % (it["cls"], it["file"], it["encl"], it["kind"], it["name"], it["ty"], it["init"]))
    return {"coverage": {"shared_inventory": {
        "generated": os.path.relpath(path, cclib.VERIF),
        "readable": os.path.relpath(os.path.join(d, "shared-inventory.txt"), cclib.VERIF),
        "sources_scanned": len(_inv.rust_sources(cclib.REPO)),
        "items": len(items),
        "by_class": by,
        "feature_detection_sites": len(sites),
        "list": ["%s :: %s :: %s %s [%s]" % (i["file"], i["encl"], i["kind"], i["name"], i["cls"]) for i in items],
    }}}


def extra(pid, tier, seed):
    """repeat cold trials on the implementation only; each repetition must equal the model's line."""
    rng = cclib.XorShift(seed * 7919 + 18)
    plan = [(8, 12), (32, 8)] if tier != "thorough" else [(2, 60), (4, 60), (8, 60), (16, 60), (32, 40), (64, 20)]
    cfgs = PROP["cfgs_" + tier] if ("cfgs_" + tier) in PROP else PROP["cfgs_quick"]
    violations, evals, reps_done = [], 0, {}
    for cfg in cfgs:
        bok, binp, _ = cclib.harness_build(cfg)
        if not bok:
            continue        # reported by the main correspondence loop
        header = ["cfg profile " + cclib.profile_of(cfg)]
        for n, reps in plan:
            op = "conc %d %d %d" % (n, rng.below(10**6), 1 + rng.below(3))
            model, _ = cclib.run_lines(cclib.DRV, header + [op])
            # the same trial repeated, plus FOCUSED variants: every thread's first call goes into one
            # algorithm (each of the 15 in turn), with and without warming the CPU-feature cache first —
            # the schedule in which one-time initialisation races; same expected results
            iops = [op] * reps + ["%s %d %d" % (op, f, w) for f in range(15) for w in (0, 1)] * (2 if tier != "thorough" else 6)
            reps = len(iops)
            impl, _ = cclib.run_lines(binp, header + iops)
            if model is None or impl is None or len(model) != 2 or len(impl) != 1 + reps:
                rp = cclib.write_replay(pid, seed, "repeat-machinery-" + cfg, "# cfg=%s\n# model or implementation gave no answer\n%s\n" % (cfg, op))
                violations.append(("repeated cold trials: no answer", rp, True))
                continue
            evals += reps
            reps_done["%s/n=%d" % (cfg, n)] = reps
            bad = [k for k in range(reps) if impl[1 + k] != model[1]]
            if bad:
                a, b = impl[1 + bad[0]].split(";"), model[1].split(";")
                d = next((i for i in range(min(len(a), len(b))) if a[i] != b[i]), min(len(a), len(b)))
                body = "# cfg=%s\n# property=%s seed=%d tier=%s\n# repetition %d of %d of the same cold trial differs from the model\n" % (cfg, pid, seed, tier, bad[0], reps)
                body += "# first differing (thread.item): implementation %s\n#                                 model          %s\n" % (
                    (a[d] if d < len(a) else "?")[:300], (b[d] if d < len(b) else "?")[:300])
                body += iops[bad[0]] + "\n"
                rp = cclib.write_replay(pid, seed, "repeat-" + cfg + "-n%d" % n, body)
                violations.append(("cold trial repetition disagrees with the model", rp, False))
    # ---- search DIRECTED by the broken obligation: when the regenerated shared-state inventory contains items the model
    # does not account for (class `other`: atomics, cells, `static mut`, …), the cold trials are concentrated on the
    # algorithm family whose sources contain them — every thread's first call goes into one item of that family, 12
    # threads behind the spin barrier, a fresh process per trial with a different stagger — for up to 75 s per
    # configuration (a first-use race window of a few nanoseconds is hit in a few percent of such processes)
    import time
    fam_of = lambda f: ("groestl" if "/groestl/" in f else "blake" if "/blake/" in f else "jh" if "/jh/" in f else
                        "skein" if "/skein/" in f or "/threefish/" in f else "chacha" if "/chacha/" in f else "*")
    ITEM_FAM = ["groestl"] * 4 + ["blake"] * 2 + ["jh"] + ["skein"] * 3 + ["chacha"] * 5
    suspects = sorted({fam_of("/" + it["file"]) for it in _inv.shared_inventory(cclib.REPO) if it["cls"] == "other"})
    directed = {}
    if suspects and not violations:
        focus = [i for i, f in enumerate(ITEM_FAM) if f in suspects or "*" in suspects]
        for cfg in cfgs:
            bok, binp, _ = cclib.harness_build(cfg)
            if not bok:
                continue
            header = ["cfg profile " + cclib.profile_of(cfg)]
            op = "conc 12 %d 1" % rng.below(10**6)
            model, _ = cclib.run_lines(cclib.DRV, header + [op])
            t0, done, hit = time.time(), 0, None
            while time.time() - t0 < 75 and hit is None and model and len(model) == 2:
                iops = ["%s %d %d" % (op, f, w) for f in focus for w in (0, 1)] * 2
                impl, _ = cclib.run_lines(binp, header + iops)
                if impl is None or len(impl) != 1 + len(iops):
                    break
                done += len(iops)
                bad = [k for k in range(len(iops)) if impl[1 + k] != model[1]]
                if bad:
                    hit = iops[bad[0]]
                    a, b = impl[1 + bad[0]].split(";"), model[1].split(";")
                    d = next((i for i in range(min(len(a), len(b))) if a[i] != b[i]), 0)
                    body = ("# cfg=%s\n# property=%s: directed cold trials on %s (unaccounted shared state there); trial %d differs from the model\n"
                            "# first differing (thread.item): implementation %s\n#                                 model          %s\n%s\n"
                            % (cfg, pid, ",".join(suspects), done, (a[d] if d < len(a) else "?")[:300], (b[d] if d < len(b) else "?")[:300], hit))
                    rp = cclib.write_replay(pid, seed, "directed-" + cfg, body)
                    violations.append(("directed cold trial disagrees with the model", rp, False))
            evals += done
            directed[cfg] = {"families": suspects, "trials": done, "hit": hit}
    return {"coverage": {"repeated_cold_trials": reps_done, "directed_cold_trials": directed}, "violations": violations, "known": [], "evaluations": evals}


PROP = dict(
    theorems=THEOREMS,
    gen=gen_C18,
    inventory=inventory,
    extra=extra,
    cfgs_quick=["std-debug", "std-release"],
    cfgs_thorough=["std-debug", "std-release"],
    strength="partial",
    partial_note="the Rust memory model and real data races are not modelled; the theorems are about the "
                 "once-cell protocol, instance isolation in the functional models, and the extracted "
                 "shared-state inventory",
    trusted_extra=["tools/inventory.py shared: lexical scanner for static / lazy_static! / thread_local! / "
                   "interior-mutability types over the workspace members' src/ trees (not a Rust parser)"],
)
