"""C03 — identical results on every backend, whether picked by run-time detection or at compile time
(no-std), with or without `no_simd`.

Proof side: `backend_eq_ref` / `backend_independent` (every backend record = the reference machine),
`dispatch_total` / `dispatch_sound` / `arms_sound` (the selection ladders), and the tie of the ladder model
to the source: `inventory` regenerates lean/CC/Gen/Dispatch.lean from `cclib.REPO` with
tools/inventory_dispatch.py on every run; `ladder_extracted`, `final_else_as_modelled`,
`machine_types_as_modelled`, `extraction_clean` then have to check against the fresh file.

Correspondence: the same operations through every way a backend gets selected
  * std builds: `cfg backend ref` = no override, i.e. the real `is_x86_feature_detected!` ladder of this host;
    `cfg backend sse2|ssse3|sse41|avx|avx2` = hook H1 (`VERIF_FORCE_BACKEND`) in the std arms,
  * `no_simd` builds: the generic machine,
  * no-std builds (`nostd-<backend>-release`: manifest variant `nostd` of tools/cclib.py, c2-chacha /
    blake-hash / jh-x86_64 with `default-features = false`, RUSTFLAGS `-C target-feature=+…`): the
    `cfg!(target_feature)` arms; the harness accepts `cfg backend` only for the compile-time backend and the
    model runs that backend's model (`gens.backends_for`).
The dispatching entry points exercised: ChaCha `init_chacha(_x)` (new), `refill_narrow` (requests < 256
bytes), `refill_wide` (≥ 256 bytes), `get/set_stream_param` (seek / pos / guts get, set), `guts refill /
refill4`; BLAKE-224/256/384/512 digests (`Compressor::put_block`, `finalize`); JH-224/256/384/512 digests
and `jh f8` on the dispatching `Compressor` path.  Plus the vector layer itself (`simd <backend> …`), one
model answer per backend, as before.
"""
import os, re
import cclib, gens
import inventory_dispatch as _inv
from cclib import XorShift
from gens import VARIANTS, NONCE, struct_bytes, hx, limit

THEOREMS = ["backend_eq_ref", "backend_independent", "dispatch_total", "dispatch_sound", "arms_sound",
            "ladder_extracted", "final_else_as_modelled", "machine_types_as_modelled", "extraction_clean"]

NARROW = [1, 63, 64, 65, 130, 255]          # < 256 bytes from a block boundary: refill_narrow only
WIDE = [256, 257, 320, 512, 577, 1100]      # ≥ 256 bytes: refill_wide (+ narrow tail)
BLAKE = {224: 64, 256: 64, 384: 128, 512: 128}
JH_SIZES = [224, 256, 384, 512]


def dispatch_backends(cfg, tier):
    """the `cfg backend` names the dispatching entry points are run under in this build"""
    if cfg.startswith("nosimd") or cfg.startswith("nostd-"):
        return gens.backends_for(cfg, tier)
    return ["ref", "sse2", "ssse3", "sse41", "avx", "avx2"]     # ref = the run-time detection ladder itself


def gen_C03(rng, tier, cfg):
    nostd = cfg.startswith("nostd-")
    quick = tier == "quick"
    bes = dispatch_backends(cfg, tier)
    ops = []
    stats = {"simd_backends": gens.simd_backends(cfg), "dispatch_backends": list(bes), "selection":
             "compile-time cfg!(target_feature)" if nostd else ("no_simd (generic)" if cfg.startswith("nosimd") else
                                                                 "run-time detection (ref) + H1 override"),
             "simd_ops": 0, "chacha_ops": 0, "chacha_narrow": 0, "chacha_wide": 0, "guts_ops": 0,
             "blake_digests": {}, "jh_digests": {}, "jh_f8_dispatch": 0}

    # ---- (1) the vector layer: the same operand through every backend type (direct instantiation; in a
    #      no-std build this is the code generated under the global `-C target-feature`)
    n = (3 if nostd else 6) if quick else (30 if nostd else 100)
    sbes = stats["simd_backends"]
    for t in gens.SIMD_TYPES:
        for op in gens.ALL_SIMD_OPS:
            if op not in gens.simd_provided(sbes[0], t):
                continue
            sub = XorShift(rng.next())
            for l in gens.simd_op_lines(sub, "@", t, op, n):
                for b in sbes:
                    if op in gens.simd_provided(b, t):
                        ops.append(l.replace("simd @", "simd " + b, 1))
                        stats["simd_ops"] += 1

    # ---- (2) ChaCha through the dispatching entry points, identical script per backend
    slot = 0
    nk = 1 if quick else 4
    for v in VARIANTS:
        for _ in range(nk):
            key = struct_bytes(rng, 32)
            nonce = struct_bytes(rng, NONCE[v])
            plan = []
            for p in [0, 64 * 3 + 5, rng.below(2**20), (2**32 - 2) * 64 + 9, 64 * rng.below(2**30)]:
                if p + 2400 < limit(v):
                    plan.append((p, rng.choice(NARROW), rng.choice(WIDE), rng.below(1000), hx(struct_bytes(rng, rng.choice([1, 17, 64, 100])))))
            for be in bes:
                ops.append("cfg backend %s" % be)
                ops.append("chacha new %d %s %s %s" % (slot, v, hx(key), hx(nonce)))
                for (p, ln, lw, sd, short) in plan:
                    ops.append("chacha seek %d u64 %d" % (slot, p))
                    ops.append("chacha applypat %d %d %d" % (slot, ln, sd))        # narrow
                    ops.append("chacha apply %d %s" % (slot, short))               # narrow, explicit data
                    ops.append("chacha pos %d u64" % slot)
                    ops.append("chacha applypat %d %d %d" % (slot, lw, sd + 1))    # wide (+ buffered head, narrow tail)
                    ops.append("chacha pos %d u64" % slot)
                    stats["chacha_ops"] += 6
                    stats["chacha_narrow"] += 2
                    stats["chacha_wide"] += 1
    # block API: refill (narrow) / refill4 (wide), stream parameters
    for _ in range(2 if quick else 20):
        key = struct_bytes(rng, 32)
        nonce = struct_bytes(rng, rng.choice([8, 12]))
        ctr = rng.choice([0, 2**32 - 2, 2**64 - 3, rng.below(2**64)])
        for be in bes:
            ops.append("cfg backend %s" % be)
            ops.append("guts new 0 %s %s" % (hx(key), hx(nonce)))
            ops.append("guts set 0 0 %d" % ctr)
            for dr in (4, 6, 10):
                ops.append("guts refill 0 %d" % dr)
                ops.append("guts refill4 0 %d" % dr)
                ops.append("guts get 0 0")
                ops.append("guts get 0 1")
                stats["guts_ops"] += 4

    # every counter at which a lane of the 4-block batch, or the position written back, carries out of the low
    # word or out of 64 bits: low word 2^32-8 … 2^32-1 and the full 64 bits 2^64-8 … 2^64-1 (a backend- or
    # feature-specific counter helper that carries one step early or late shows only at ONE of these)
    key = struct_bytes(rng, 32)
    nonce = struct_bytes(rng, 8)
    for hi in (0, 2**32 - 1):
        for lo in range(2**32 - 8, 2**32):
            ctr = (hi << 32) | lo
            for be in bes:
                ops.append("cfg backend %s" % be)
                ops.append("guts new 0 %s %s" % (hx(key), hx(nonce)))
                ops.append("guts set 0 0 %d" % ctr)
                ops.append("guts refill4 0 %d" % (4 if quick else rng.choice([4, 6, 10])))
                ops.append("guts get 0 0")
                ops.append("guts get 0 1")
                ops.append("guts refill 0 4")
                ops.append("guts get 0 0")
                stats["guts_ops"] += 5
    # the same through the cipher API: a 64-bit cipher and the IETF cipher reading across block 2^32 - k
    for v in ("chacha20", "ietf", "xchacha8"):
        nn = struct_bytes(rng, NONCE[v])
        for k in range(1, 9):
            start = (2**32 - k) * 64 - rng.choice([0, 5])
            for be in bes:
                ops.append("cfg backend %s" % be)
                ops.append("chacha new 0 %s %s %s" % (v, hx(key), hx(nn)))
                ops.append("chacha seek 0 u64 %d" % start)
                ops.append("chacha applypat 0 %d 4" % (k * 64 + 256 + 70 if v != "ietf" else min(k * 64, 600)))
                ops.append("chacha pos 0 u128")
                stats["chacha_ops"] += 4

    # ---- (3) BLAKE digests (dispatching `Compressor::put_block` / `finalize`), identical script per backend
    for bits, blk in BLAKE.items():
        base = [0, 1, blk - 9 if bits <= 256 else blk - 17, blk - 1, blk, blk + 1, 2 * blk, 3 * blk + 7]
        lens = base[:] if not quick else [base[0], rng.choice(base[1:4]), blk, rng.choice(base[5:])]
        lens += [rng.below(700) for _ in range(1 if quick else 12)]
        msgs = [(ln, rng.below(100000), rng.below(ln + 1)) for ln in lens]
        for be in bes:
            ops.append("cfg backend %s" % be)
            for (ln, sd, cut) in msgs:
                slot = (slot + 1) % 8
                ops.append("blake new %d %d" % (slot, bits))
                if cut in (0, ln):
                    ops.append("blake updpat %d %d %d" % (slot, ln, sd))
                else:
                    ops.append("blake updpat %d %d %d" % (slot, cut, sd))
                    ops.append("blake updpat %d %d %d" % (slot, ln - cut, sd + 1))
                ops.append("blake fin %d" % slot)
                stats["blake_digests"][str(bits)] = stats["blake_digests"].get(str(bits), 0) + 1

    # ---- (4) JH: the compression function on the dispatching `Compressor` path (`jh f8` while the backend
    #      name is `ref`; in a no-std build the harness always takes that path), and digests per backend
    f8 = [(hx(struct_bytes(rng, 128)), hx(struct_bytes(rng, 64))) for _ in range(4 if quick else 40)]
    f8 += [("00" * 128, "00" * 64), ("ff" * 128, "ff" * 64)]
    for be in (bes if nostd else ["ref"]):       # no_simd: `ref` = the generic.rs `dispatch!` (GenericMachine)
        ops.append("cfg backend %s" % be)
        for st, bl in f8:
            ops.append("jh f8 %s %s" % (st, bl))
            stats["jh_f8_dispatch"] += 1
    for size in JH_SIZES:
        base = [0, 1, 55, 63, 64, 65, 119, 128, 200]
        lens = base[:] if not quick else [0, rng.choice(base[1:4]), 64, rng.choice(base[5:])]
        lens += [rng.below(700) for _ in range(1 if quick else 12)]
        msgs = [(ln, rng.below(100000), rng.below(ln + 1)) for ln in lens]
        for be in bes:
            ops.append("cfg backend %s" % be)
            for (ln, sd, cut) in msgs:
                slot = (slot + 1) % 8
                ops.append("jh new %d %d" % (slot, size))
                if cut in (0, ln):
                    ops.append("jh updpat %d %d %d" % (slot, ln, sd))
                else:
                    ops.append("jh updpat %d %d %d" % (slot, cut, sd))
                    ops.append("jh updpat %d %d %d" % (slot, ln - cut, sd + 1))
                ops.append("jh fin %d" % slot)
                stats["jh_digests"][str(size)] = stats["jh_digests"].get(str(size), 0) + 1
    return ops, stats


def inventory(pid, tier):
    """regenerate lean/CC/Gen/Dispatch.lean from the repository under test (before the Lean build)"""
    inv, path = _inv.dispatch_regenerate(cclib.REPO)
    d = os.path.join(cclib.OUT, pid)
    os.makedirs(d, exist_ok=True)
    readable = os.path.join(d, "dispatch-inventory.txt")
    with open(readable, "w") as f:
        f.write("# repository: %s; obligations: CC.Thm.C03.ladder_extracted, final_else_as_modelled, machine_types_as_modelled, extraction_clean\n" % cclib.REPO)
        f.write(_inv.render_text(inv))
    return {"coverage": {"dispatch_inventory": {
        "generated": os.path.relpath(path, cclib.VERIF),
        "readable": os.path.relpath(readable, cclib.VERIF),
        "source": inv["source"],
        "arms": {"%s/%s" % (m, md): ["%s->%s[%s]:%s" % (a["guard"] or "else", a["fn"], ",".join(a["enabled"]), a["machine"])
                                     for a in inv["macros"][m][md]["arms"]] + ["else:" + inv["macros"][m][md]["final_else"]]
                 for m in inv["macros"] for md in inv["macros"][m]},
        "aliases": ["%s(S3=%d,S4=%d,avx2=%d)" % (a, s3, s4, a2) for a, s3, s4, a2 in inv["aliases"]],
        "problems": inv["problems"],
    }}}



def extra(pid, tier, seed):
    """Which `Machine` do the three dispatch macros really instantiate in each built configuration?  The harness
    crate has no `std` feature, so its own `dispatch!` / `dispatch_light128!` / `dispatch_light256!` invocations take
    the compile-time ladder under the configuration's static target features (`which <macro>` prints those features
    and the class of `type_name::<M>()`); the model's `CC.Simd.Dispatch.select · .nostd` (proved sound:
    `dispatch_sound`) is asked through the driver (`dispatch select <macro> <features>`).  A difference is a concrete
    failing configuration: that build runs code for an instruction set it was not compiled for (or a slower / other
    backend than the ladder the theorems are about)."""
    import subprocess
    cfgs = list(PROP["cfgs_" + tier] if ("cfgs_" + tier) in PROP else PROP["cfgs_quick"])
    if PROP.get("dynamic_cfgs"):
        cfgs += [c for c in PROP["dynamic_cfgs"](tier) if c not in cfgs]
    res, violations, n = {}, [], 0
    needs = {"generic": "00000", "sse2": "10000", "ssse3": "11000", "sse41": "11100", "avx2": "11111"}
    for cfg in cfgs:
        ok, binp, _ = cclib.harness_build(cfg)
        if not ok:
            continue
        ops = ["which dispatch", "which light128", "which light256"]
        impl = cclib.run_lines(binp, ops)[0]
        if impl is None or len(impl) < 3:
            continue
        row = {}
        for op, line in zip(ops, impl):
            n += 1
            m = re.match(r"feats=([01]{5}) sel=(\S+)$", line)
            mac = op.split()[1]
            if not m:
                rp = cclib.write_replay(pid, seed, "which-" + cfg, "# cfg=%s\n# harness answered %r to `%s`\n%s\n" % (cfg, line, op, op))
                violations.append(("dispatch selection unreadable in " + cfg, rp, True))
                continue
            feats, sel = m.group(1), m.group(2)
            if cfg.startswith("nosimd"):
                want = "sel=generic"
            else:
                out = cclib.run_lines(cclib.DRV, ["dispatch select %s %s" % (mac, feats)])[0]
                want = out[0] if out else "?"
            row[mac] = "%s %s" % (feats, sel)
            sound = sel in needs and all(f == "1" or r == "0" for f, r in zip(feats, needs[sel]))
            if "sel=" + sel != want or not sound:
                body = ("# cfg=%s\n# property=%s: %s! expanded without `std` under static target features sse2/ssse3/sse4.1/avx/avx2 = %s\n"
                        "# implementation instantiates the %s machine; model ladder (CC.Simd.Dispatch.select, dispatch_sound): %s%s\n%s\n"
                        % (cfg, pid, mac, feats, sel, want, "" if sound else "; the selected machine needs features this build does not enable", op))
                rp = cclib.write_replay(pid, seed, "which-" + cfg, body)
                violations.append(("compile-time dispatch selects another machine than the modelled ladder in " + cfg, rp, False))
        res[cfg] = row
    return {"coverage": {"compile_time_selection": res}, "violations": violations, "evaluations": n}


PROP = dict(
    theorems=THEOREMS,
    gen=gen_C03,
    inventory=inventory,
    extra=extra,
    cfgs_quick=["std-release", "nosimd-release", "nostd-ssse3-release", "nosimd-debug"],
    cfgs_thorough=list(cclib.NOSTD_CFGS) + ["std-debug", "std-release", "nosimd-debug", "nosimd-release"],
)
GENS = {"C03": gen_C03}
