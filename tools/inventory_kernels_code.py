#!/usr/bin/env python3
"""tools/inventory_kernels_code.py — phase 2 of the source-to-Lean translator (imported by inventory_kernels.py):
the code AROUND the straight-line kernels — block-level APIs with `&self` / `&mut` parameters, byte buffers,
scalar arithmetic and casts, counted loops, `if`, local `macro_rules!`, bodies of item macros
(`define_compressor!`, `impl_threefish!`, `unroll8!`) and `dispatch!` wrappers.

A function is evaluated SYMBOLICALLY (as in phase 1) into a hash-consed dataflow graph and printed as an SSA `let`
chain in canonical order; references are transparent (a `&mut` parameter is threaded: its final value is part of the
result), so reordering independent statements, temporaries and renamed locals do not change the generated text.
A loop that is not unrolled becomes a separate definition `<name>_loop<k>` (its body, over the tuple of the variables
it assigns) and one application of `iter` / `List.foldl` in the enclosing definition.

Everything assumed about Rust semantics is in the TRUSTED tables of this file (printed in the header of the generated
file by `trusted_table_lines2`).  Anything else is a translation error (never skipped).
"""
import re
import inventory_kernels as IK
from inventory_kernels import TErr, Tok, P, is_p, is_id, match_close, OPEN, lex, fmt_expr

# =========================================================================== parser

KEYWORDS_BAD = ("match", "loop", "while", "unsafe", "return", "break", "continue", "move", "fn", "struct", "impl",
                "use", "static")


class P2(P):
    """phase-2 parser: references, ranges, comparisons, `if`, blocks, `for`, item statements"""
    LEVELS = [["||"], ["&&"], ["==", "!=", "<", ">", "<=", ">="], ["|"], ["^"], ["&"], ["<<", ">>"], ["+", "-"],
              ["*", "/", "%"]]

    # ---- types
    def type_(self):
        if self.at_p("&") or self.at_p("&&"):
            self.i += 1
            if self.peek() is not None and self.peek().k == "life":
                self.i += 1
            mut = False
            if self.at_id("mut"):
                mut = True
                self.i += 1
            return ("ref", mut, self.type_())
        if self.at_id("impl") or self.at_id("dyn"):
            raise TErr("`impl Trait` / `dyn` type at `%s`" % self.ctx())
        if self.at_p("<"):
            # `<A as B>::C` : opaque
            depth, j = 0, self.i
            while True:
                t = self.t[j]
                if is_p(t, "<"):
                    depth += 1
                elif is_p(t, ">"):
                    depth -= 1
                elif is_p(t, ">>"):
                    depth -= 2
                j += 1
                if depth <= 0:
                    break
            while j < self.end and is_p(self.t[j], "::") and is_id(self.t[j + 1]):
                j += 2
            txt = "".join(x.s for x in self.t[self.i:j])
            self.i = j
            return ("opaque", txt)
        if self.at_p("("):
            self.i += 1
            items = []
            while not self.at_p(")"):
                items.append(self.type_())
                if self.at_p(","):
                    self.i += 1
            self.eat_p(")")
            return ("tuple", items)
        if self.at_p("["):
            self.i += 1
            el = self.type_()
            n = None
            if self.at_p(";"):
                self.i += 1
                n = self.expr()
            self.eat_p("]")
            return ("array", el, n)
        segs = [self.eat_id()]
        args = []
        while True:
            if self.at_p("::") and self.at_id(None, 1):
                self.i += 1
                segs.append(self.eat_id())
            elif self.at_p("::") and self.at_p("<", 1):
                self.i += 1
            elif self.at_p("<"):
                self.i += 1
                while not self.at_p(">") and not self.at_p(">>"):
                    if self.peek() is not None and self.peek().k == "life":
                        self.i += 1
                    else:
                        args.append(self.type_())
                    if self.at_p(","):
                        self.i += 1
                if self.at_p(">>"):
                    # split the token
                    self.t = list(self.t)
                    self.t[self.i:self.i + 1] = [Tok("p", ">"), Tok("p", ">")]
                    self.end += 1
                self.eat_p(">")
            else:
                break
        return ("path", segs, args)

    def pattern(self):
        if self.at_p("("):
            self.i += 1
            items = []
            while not self.at_p(")"):
                items.append(self.pattern())
                if self.at_p(","):
                    self.i += 1
            self.eat_p(")")
            return ("ptuple", items)
        if self.at_id("mut"):
            self.i += 1
        if self.at_p("&") or self.at_id("ref"):
            raise TErr("reference pattern at `%s`" % self.ctx())
        return ("pid", self.eat_id())

    # ---- expressions
    def expr(self, lvl=0):
        # range level
        if self.at_p("..") or self.at_p("..="):
            incl = self.peek().s == "..="
            self.i += 1
            hi = None if self._range_end() else self.binexpr(0)
            return ("range", None, hi, incl)
        e = self.binexpr(0)
        if self.at_p("..") or self.at_p("..="):
            incl = self.peek().s == "..="
            self.i += 1
            hi = None if self._range_end() else self.binexpr(0)
            return ("range", e, hi, incl)
        return e

    def _range_end(self):
        t = self.peek()
        return t is None or (t.k == "p" and t.s in ("]", ")", "{", ",", ";"))

    def binexpr(self, lvl):
        if lvl == len(self.LEVELS):
            return self.cast()
        e = self.binexpr(lvl + 1)
        while self.peek() is not None and self.peek().k == "p" and self.peek().s in self.LEVELS[lvl]:
            op = self.peek().s
            self.i += 1
            e = ("bin", op, e, self.binexpr(lvl + 1))
        return e

    def cast(self):
        e = self.unary()
        while self.at_id("as"):
            self.i += 1
            e = ("cast", e, self.type_())
        return e

    def unary(self):
        if self.at_p("!") or self.at_p("-"):
            op = self.peek().s
            self.i += 1
            return ("un", op, self.unary())
        if self.at_p("&") or self.at_p("&&"):
            n = 2 if self.peek().s == "&&" else 1
            self.i += 1
            mut = False
            if self.at_id("mut"):
                mut = True
                self.i += 1
            e = ("addr", mut, self.unary())
            return ("addr", False, e) if n == 2 else e
        if self.at_p("*"):
            self.i += 1
            return ("deref", self.unary())
        return self.postfix()

    def turbofish(self):
        """at `::<` : skip `::< types >` and return the types"""
        self.eat_p("::")
        self.eat_p("<")
        out = []
        while not self.at_p(">"):
            out.append(self.type_())
            if self.at_p(","):
                self.i += 1
        self.eat_p(">")
        return out

    def postfix(self):
        e = self.primary()
        while True:
            if self.at_p("."):
                t = self.peek(1)
                if t is not None and t.k == "int":
                    if t.suf:
                        raise TErr("suffixed tuple index")
                    self.i += 2
                    e = ("tfield", e, t.v)
                elif is_id(t):
                    self.i += 2
                    targs = []
                    if self.at_p("::"):
                        targs = self.turbofish()
                    if self.at_p("("):
                        e = ("mcall", e, t.s, self.args(), targs)
                    else:
                        e = ("field", e, t.s)
                else:
                    raise TErr("field or method expected at `%s`" % self.ctx())
            elif self.at_p("["):
                self.i += 1
                ix = self.expr()
                self.eat_p("]")
                e = ("index", e, ix)
            elif self.at_p("?"):
                raise TErr("`?` operator")
            else:
                return e

    def block(self):
        """at `{` -> ("block", stmts, tail)"""
        if not self.at_p("{"):
            raise TErr("`{` expected at `%s`" % self.ctx())
        e = match_close(self.t, self.i)
        q = P2(self.t, self.i + 1, e - 1)
        stmts, tail = q.block_body()
        self.i = e
        return ("block", stmts, tail)

    def if_expr(self):
        self.eat_id("if")
        if self.at_id("let"):
            raise TErr("`if let` is outside the language")
        c = self.expr()
        th = self.block()
        el = None
        if self.at_id("else"):
            self.i += 1
            el = ("block", [], self.if_expr()) if self.at_id("if") else self.block()
        return ("if", c, th, el)

    def primary(self):
        t = self.peek()
        if t is None:
            raise TErr("expression expected at end of input")
        if t.k == "int":
            self.i += 1
            return ("int", t.v, t.suf)
        if t.k == "str":
            self.i += 1
            return ("str", t.v)
        if t.k == "p" and t.s == "(":
            self.i += 1
            items, trailing = [], False
            while not self.at_p(")"):
                items.append(self.expr())
                trailing = False
                if self.at_p(","):
                    self.i += 1
                    trailing = True
                elif not self.at_p(")"):
                    raise TErr("`,` or `)` expected at `%s`" % self.ctx())
            self.eat_p(")")
            if len(items) == 1 and not trailing:
                return ("paren", items[0])
            return ("tuple", items)
        if t.k == "p" and t.s == "[":
            self.i += 1
            items = []
            while not self.at_p("]"):
                items.append(self.expr())
                if self.at_p(";"):
                    self.i += 1
                    n = self.expr()
                    self.eat_p("]")
                    return ("repeat", items[0], n)
                if self.at_p(","):
                    self.i += 1
                elif not self.at_p("]"):
                    raise TErr("`,` or `]` expected at `%s`" % self.ctx())
            self.eat_p("]")
            return ("array", items)
        if t.k == "p" and t.s == "{":
            return self.block()
        if t.k == "p" and t.s in ("|", "||"):
            raise TErr("closure at `%s` is outside the language" % self.ctx())
        if t.k == "id":
            if t.s == "if":
                return self.if_expr()
            if t.s in KEYWORDS_BAD or t.s in ("for", "let", "const"):
                raise TErr("`%s` is outside the language here (at `%s`)" % (t.s, self.ctx()))
            segs = [self.eat_id()]
            targs = []
            while self.at_p("::"):
                if self.at_p("<", 1):
                    targs += self.turbofish()
                    continue
                self.i += 1
                segs.append(self.eat_id())
            if self.at_p("!"):
                if self.at_p("=", 1):
                    return ("path", segs)
                self.i += 1
                if not (self.at_p("(") or self.at_p("[") or self.at_p("{")):
                    raise TErr("macro call without arguments at `%s`" % self.ctx())
                e = match_close(self.t, self.i)
                body = self.t[self.i + 1:e - 1]
                self.i = e
                return ("macro", segs[-1], body)
            if self.at_p("("):
                return ("call", segs, self.args(), targs)
            if self.at_p("{") and segs[-1][:1].isupper() and self._looks_like_struct_lit():
                self.i += 1
                fields = []
                while not self.at_p("}"):
                    f = self.eat_id()
                    if self.at_p(":"):
                        self.i += 1
                        fields.append((f, self.expr()))
                    else:
                        fields.append((f, ("path", [f])))
                    if self.at_p(","):
                        self.i += 1
                    elif not self.at_p("}"):
                        raise TErr("`,` or `}` expected in a struct literal at `%s`" % self.ctx())
                self.eat_p("}")
                return ("structlit", segs, fields)
            return ("path", segs)
        raise TErr("expression expected at `%s`" % self.ctx())

    # ---- statements
    ASSIGN_OPS = ("=", "+=", "^=", "&=", "|=", "-=", "*=", "<<=", ">>=", "/=", "%=")

    def block_body(self):
        stmts, tail = [], None
        while not self.done():
            if self.at_p(";"):
                self.i += 1
                continue
            if self.at_p("#"):
                raise TErr("attribute inside a body at `%s`" % self.ctx())
            if self.at_id("let"):
                self.i += 1
                pat = self.pattern()
                ty = None
                if self.at_p(":"):
                    self.i += 1
                    ty = self.type_()
                e = None
                if self.at_p("="):
                    self.i += 1
                    e = self.expr()
                self.eat_p(";")
                stmts.append(("let", pat, ty, e))
                continue
            if self.at_id("const") and self.at_id(None, 1) and self.at_p(":", 2):
                self.i += 1
                name = self.eat_id()
                self.eat_p(":")
                ty = self.type_()
                self.eat_p("=")
                e = self.expr()
                self.eat_p(";")
                stmts.append(("const", name, ty, e))
                continue
            if self.at_id("macro_rules") and self.at_p("!", 1):
                self.i += 2
                name = self.eat_id()
                e = match_close(self.t, self.i)
                stmts.append(("macrodef", name, self.t[self.i + 1:e - 1]))
                self.i = e
                continue
            if self.at_id("for"):
                self.i += 1
                pat = self.pattern()
                self.eat_id("in")
                it = self.expr()
                body = self.block()
                stmts.append(("for", pat, it, body))
                continue
            if self.at_id("if") or self.at_p("{"):
                e = self.if_expr() if self.at_id("if") else self.block()
                if self.done():
                    tail = e
                    break
                stmts.append(("expr", e))
                continue
            e = self.expr()
            t = self.peek()
            if t is None:
                tail = e
                break
            if t.k == "p" and t.s in self.ASSIGN_OPS:
                self.i += 1
                rhs = self.expr()
                self.eat_p(";")
                stmts.append(("assign", e, None if t.s == "=" else t.s[:-1], rhs))
                continue
            if t.k == "p" and t.s == ";":
                self.i += 1
                stmts.append(("expr", e))
                continue
            if e[0] == "macro":
                stmts.append(("expr", e))
                continue
            raise TErr("statement not understood at `%s`" % self.ctx())
        return stmts, tail


# =========================================================================== item macros (`macro_rules!` at file level)

class MacroDef(object):
    """one `macro_rules! name { (pattern) => { body } }` arm: pattern = `$x:frag` separated by commas"""

    def __init__(self, name, toks, cfg=None):
        self.name, self.cfg = name, cfg
        # toks = interior of the macro_rules braces / parens
        i = 0
        if not (toks and toks[0].k == "p" and toks[0].s in OPEN):
            raise TErr("macro %s: arm not understood" % name)
        e = match_close(toks, 0)
        pat = toks[1:e - 1]
        i = e
        if not is_p(toks[i], "=>"):
            raise TErr("macro %s: `=>` expected" % name)
        i += 1
        e2 = match_close(toks, i)
        self.body = toks[i + 1:e2 - 1]
        rest = [x for x in toks[e2:] if not is_p(x, ";")]
        if rest:
            raise TErr("macro %s has more than one arm" % name)
        self.params = []
        j = 0
        while j < len(pat):
            if is_p(pat[j], "$") and j + 3 < len(pat) + 1 and is_id(pat[j + 1]) and is_p(pat[j + 2], ":") and is_id(pat[j + 3]):
                self.params.append((pat[j + 1].s, pat[j + 3].s))
                j += 4
                if j < len(pat):
                    if not is_p(pat[j], ","):
                        raise TErr("macro %s: pattern not understood" % name)
                    j += 1
            else:
                raise TErr("macro %s: pattern not understood at `%s`" % (name, pat[j].s))

    def expand(self, args):
        """args: [token list] -> expanded body tokens"""
        if len(args) != len(self.params):
            raise TErr("macro %s!: %d arguments for %d parameters" % (self.name, len(args), len(self.params)))
        sub = {}
        for (n, frag), a in zip(self.params, args):
            if frag == "expr" and len(a) > 1:
                a = [Tok("p", "(")] + list(a) + [Tok("p", ")")]
            sub[n] = list(a)
        out, i, b = [], 0, self.body
        while i < len(b):
            if is_p(b[i], "$") and i + 1 < len(b) and is_id(b[i + 1]):
                if b[i + 1].s not in sub:
                    # a metavariable of a NESTED macro_rules! definition: passed through
                    out.extend(b[i:i + 2])
                else:
                    out.extend(sub[b[i + 1].s])
                i += 2
            elif is_p(b[i], "$"):
                raise TErr("macro %s: repetition `$(..)` is outside the language" % self.name)
            else:
                out.append(b[i])
                i += 1
        return out


def split_args(toks):
    args, cur, j = [], [], 0
    while j < len(toks):
        x = toks[j]
        if x.k == "p" and x.s in OPEN:
            k = match_close(toks, j)
            cur.extend(toks[j:k])
            j = k
            continue
        if is_p(x, ","):
            args.append(cur)
            cur = []
        else:
            cur.append(x)
        j += 1
    if cur:
        args.append(cur)
    return args


def cfg_text(toks, i):
    """toks[i] is `#`: text of the attribute"""
    e = IK.skip_attr(toks, i)
    return "".join(x.s for x in toks[i:e])


def drop_cfg(toks, dropped):
    """remove every item carrying one of the attributes in `dropped` (texts like `#[cfg(test)]`)"""
    out, i, n = [], 0, len(toks)
    while i < n:
        t = toks[i]
        if is_p(t, "#") and i + 1 < n and is_p(toks[i + 1], "["):
            if cfg_text(toks, i) in dropped:
                j = IK.skip_attr(toks, i)
                while j < n and is_p(toks[j], "#"):
                    j = IK.skip_attr(toks, j)
                # attributes BEFORE this one that belong to the same item were already emitted: remove them
                while out and is_p(out[-1], "]"):
                    k = len(out) - 1
                    depth = 0
                    while k >= 0:
                        if is_p(out[k], "]"):
                            depth += 1
                        elif is_p(out[k], "["):
                            depth -= 1
                            if depth == 0:
                                break
                        k -= 1
                    if k >= 1 and is_p(out[k - 1], "#"):
                        del out[k - 1:]
                    else:
                        break
                i = IK.item_end(toks, j)
                continue
        out.append(t)
        i += 1
    return out


class Unit(IK.Source):
    """a token-level compilation unit: one file, selected cfg alternatives dropped, optionally with ONE item-macro
    invocation expanded in place (its items are then ordinary items of the unit)"""

    def __init__(self, repo, rel, drop=(), expand=None, features=()):
        import os
        self.rel = rel
        path = os.path.join(repo, rel)
        if not os.path.exists(path):
            raise TErr("source file %s not found" % rel)
        toks = IK.drop_cfg_test(lex(open(path, encoding="utf-8", errors="replace").read()))
        toks = drop_cfg(toks, set(drop))
        self.toks = toks
        self._index()
        self.macros = self._macro_defs()
        if expand is not None:
            name, which = expand
            invs = [a for a in self._invocation_spans(name)]
            if which >= len(invs):
                raise TErr("invocation %d of %s! not found in %s" % (which, name, rel))
            a, b, args = invs[which]
            md = self.macros.get(name)
            if md is None:
                raise TErr("macro_rules! %s not found in %s" % (name, rel))
            self.toks = self.toks[:a] + md.expand(args) + self.toks[b:]
            self._index()
            self.macros = self._macro_defs()
            self.expansion = (name, ["".join(x.s for x in ar) for ar in args])

    siblings = ()

    def find_struct(self, name):
        try:
            return IK.Source.find_struct(self, name)
        except TErr:
            for u in self.siblings:
                try:
                    return u.find_struct(name)
                except TErr:
                    pass
            raise

    def _macro_defs(self):
        t = self.toks
        out = {}
        for (a, b) in self.macro_spans:
            name = t[a + 2].s
            try:
                out[name] = MacroDef(name, t[a + 4:b - 1])
            except TErr as e:
                out[name] = e
        return out

    def macro(self, name):
        m = self.macros.get(name)
        if m is None:
            raise TErr("macro %s! is not defined in %s" % (name, self.rel))
        if isinstance(m, TErr):
            raise m
        return m

    def _invocation_spans(self, name):
        t = self.toks
        out = []
        for i in range(len(t) - 2):
            if is_id(t[i], name) and is_p(t[i + 1], "!") and is_p(t[i + 2], "(") and not self.in_macro(i) \
                    and not (i > 0 and is_id(t[i - 1], "macro_rules")):
                e = match_close(t, i + 2)
                j = e + 1 if e < len(t) and is_p(t[e], ";") else e
                out.append((i, j, split_args(t[i + 3:e - 1])))
        return out

    def enclosing_dispatch(self, i):
        """`dispatch!(m, Mach, { .. fn at token i .. })` -> (machine value name, machine type name) | None"""
        t = self.toks
        best = None
        for j in range(len(t) - 2):
            if t[j].k == "id" and t[j].s.startswith("dispatch") and is_p(t[j + 1], "!") and is_p(t[j + 2], "("):
                e = match_close(t, j + 2)
                if j < i < e and (best is None or j > best[0]):
                    args = split_args(t[j + 3:e - 1])
                    if len(args) >= 2 and len(args[0]) == 1 and len(args[1]) == 1:
                        best = (j, t[j].s, args[0][0].s, args[1][0].s)
        return best


# =========================================================================== TRUSTED tables of phase 2

INT_BITS = IK.INT_BITS
W128 = ("u32x4", "u64x2", "u128x1", "vec128_storage")
W256 = ("u64x4", "u128x2", "u32x4x2", "u64x2x2", "vec256_storage")
W512 = ("u32x4x4", "u64x2x4", "u128x4", "vec512_storage")
VEC_WIDTH = dict([(t, 128) for t in W128] + [(t, 256) for t in W256] + [(t, 512) for t in W512])
SCALARS = ("u8", "u16", "u32", "u64")


def lean_ty(t):
    if isinstance(t, tuple):
        if t[0] == "list":
            x = lean_ty(t[1])
            return "List (%s)" % x if " " in x else "List %s" % x
        if t[0] == "tup":
            return " × ".join("(%s)" % lean_ty(x) if isinstance(x, tuple) and x[0] == "tup" else lean_ty(x) for x in t[1])
        raise TErr("type %r has no carrier" % (t,))
    if t in VEC_WIDTH:
        return "BitVec %d" % VEC_WIDTH[t]
    if t in SCALARS:
        return "BitVec %d" % INT_BITS[t]
    if t in ("v128", "v256", "v512"):
        return "BitVec " + t[1:]
    return {"bool": "Bool", "nat": "Nat", "bytes": "List (BitVec 8)", "profile": "Profile"}[t]


def carrier(t):
    """DAG type of a Rust type (vector types collapse to their storage width: `unpack` / `into` are the identity)"""
    if t in VEC_WIDTH:
        return "v%d" % VEC_WIDTH[t]
    return t


# (vector type, operator) -> template
VEC_BIN = dict(IK.BINOPS)
VEC_BIN.update({("u64x2", "+"): "M.add64 {0} {1}", ("u64x2x4", "+"): "M.add64x8 {0} {1}"})
del VEC_BIN[("u64", "^")]
VEC_UN = dict(IK.UNOPS)
# scalar (u8/u16/u32/u64 = BitVec) operators
SCALAR_BIN = {"|": "{0} ||| {1}", "&": "{0} &&& {1}", "^": "{0} ^^^ {1}"}
# vector methods: (receiver type, name regex, arg kinds) -> (template, result type); arg kinds: "int" literal pasted,
# a scalar type, or a vector type
VEC_METHODS = [
    ("u32x4", r"rotate_each_word_right(\d+)", [], "M.rotr32 {n} {0}", "u32x4"),
    ("u32x4x4", r"rotate_each_word_right(\d+)", [], "M.rotr32x16 {n} {0}", "u32x4x4"),
    ("u64x4", r"rotate_each_word_right(\d+)", [], "M.rotr64x4 {n} {0}", "u64x4"),
    ("u32x4", r"shuffle_lane_words(1230|2301|3012)", [], "M.shuf{n} {0}", "u32x4"),
    ("u32x4x4", r"shuffle_lane_words(1230|2301|3012)", [], "M.shufLane{n} {0}", "u32x4x4"),
    ("u32x4", r"shuffle(1230|2301|3012)", [], "M.shuf{n} {0}", "u32x4"),
    ("u64x4", r"shuffle(1230|2301|3012)", [], "M.shuf{n}q {0}", "u64x4"),
    ("u32x4", r"extract", ["int"], "M.extract32 {0} {1}", "u32"),
    ("u32x4", r"insert", ["u32", "int"], "M.insert32 {0} {1} {2}", "u32x4"),
]
# byte stores / loads: (vector type, method) -> (template, bytes)
VEC_STORE = {("u32x4", "write_le"): ("M.writeLe32x4 {0}", 16), ("u32x4x4", "write_le"): ("M.writeLe32x16 {0}", 64),
             ("u32x4", "write_be"): ("M.writeBe32x4 {0}", 16), ("u64x4", "write_be"): ("M.writeBe64x4 {0}", 32)}
VEC_LOAD = {("u32x4", "read_le"): ("M.readLe32x4 {0}", 16)}
# `m.vec([..])`: element type, count -> (vector type, template)
VEC_MAKE = {("u32", 4): ("u32x4", "M.vec32 {0} {1} {2} {3}"), ("u64", 2): ("u64x2", "M.vec64 {0} {1}"),
            ("u64", 4): ("u64x4", "M.vec64x4 {0} {1} {2} {3}")}
# `V::from_lanes([a, b, c, d])`, `v.to_lanes()`, `V::transpose4(a, b, c, d)`
FROM_LANES = {"u32x4x4": ("u32x4", "M.fromLanes512 {0} {1} {2} {3}"), "u64x2x4": ("u64x2", "M.fromLanes512 {0} {1} {2} {3}")}
TO_LANES = {"u32x4x4": ("u32x4", "M.toLanes512 {0}")}
TRANSPOSE4 = {"u32x4x4": "M.transpose4 {0} {1} {2} {3}"}
PROJ4 = ["{0}.1", "{0}.2.1", "{0}.2.2.1", "{0}.2.2.2"]
# `[u32; 4]` <-> vec128_storage (`.into()`): word i = lane i (little-endian packing)
LANES32 = ["CC.Simd.lane32 {0} 0", "CC.Simd.lane32 {0} 1", "CC.Simd.lane32 {0} 2", "CC.Simd.lane32 {0} 3"]
PACK32 = "CC.Simd.pack32 {0} {1} {2} {3}"


def trusted_table_lines2():
    L = ["  TRUSTED, phase 2 (block-level code around the kernels; tools/inventory_kernels_code.py):",
         "    references `&x`, `&mut x`, `*x`, `.clone()`, `m.unpack(x)`, `x.into()` between vector / storage types of one",
         "      width, `.try_into().unwrap()` on a slice of statically known length  ↦  the value itself;",
         "      a `&mut` parameter is threaded (its final value is part of the result, in parameter order, after the",
         "      returned value); Rust's exclusivity of `&mut` is assumed (raw pointers and blocks outside safe Rust are rejected)",
         "    `dispatch!(m, Mach, { fn f .. })` / `dispatch_light128!` / `dispatch_light256!`  ↦  f with the machine M",
         "      (the ladders are tied by tools/inventory_dispatch.py); `#[cfg(target_endian = \"big\")]` items dropped",
         "    scalars u8/u16/u32/u64 ↦ BitVec 8/16/32/64;  usize, loop indices, table entries used as indices ↦ Nat",
         "      (every Nat operation is checked by interval analysis: no overflow / underflow / division by zero)",
         "    a | b, a & b, a ^ b ↦ |||, &&&, ^^^;  a << k, a >> k (literal k < width) ↦ <<<, >>>;  a == b ↦ (a == b)",
         "    a && b (no effects in b) ↦ (a && b);  !a (bool) ↦ (!a);  !a (scalar) ↦ ~~~a",
         "    a.wrapping_add(b) ↦ a + b;  a.wrapping_sub(b) ↦ a - b;  a.rotate_left(r) ↦ BitVec.rotateLeft a r; rotate_right alike",
         "    a + b, a - b, a * b on scalars ↦ the wrapping result, with the GUARD `¬ overflow` in profile debug",
         "      (rustc overflow checks); a.overflowing_add(b) ↦ (a + b, decide (a.toNat + b.toNat ≥ 2^w))",
         "    x as u64 / u32 / u8 (from a scalar) ↦ BitVec.setWidth w x;  x as usize ↦ x.toNat;  n as u64 (n : Nat) ↦ BitVec.ofNat 64 n",
         "    u32::from(b) ↦ BitVec.setWidth 32 b;  W::from_le_bytes(s) ↦ CC.ofLeBytes w s;  W::from_be_bytes(s) ↦ CC.ofBeBytes w s",
         "    x.to_le_bytes() ↦ CC.toLe32 / CC.toLe64 x;  x.to_be_bytes() ↦ CC.toBeBytes x (w/8)",
         "    byte arrays / slices ↦ List (BitVec 8) of statically known length;  s[a..b] ↦ (s.drop a).take (b-a),",
         "      s[a..] ↦ s.drop a, s[..b] ↦ s.take b (bounds checked statically);  s[i] ↦ s.getD i 0 (i < len checked);",
         "      s.chunks_exact(k) ↦ the slices s[k·i .. k·i+k];  a store into s[a..b] replaces exactly those bytes",
         "    arrays of scalars ↦ List;  a[i] ↦ a.getD i 0 and a[i] = v ↦ a.set i v, with i < len proved by interval",
         "      analysis, otherwise (only where the definition returns `Out`) the GUARD i < len (\"index out of bounds\")",
         "    `for _ in 0..n { body }` ↦ iter body n;  `for i in 0..n` ↦ List.foldl body · (List.range n);  `(0..n).rev()` ↦",
         "      (List.range n).reverse;  `for x in &T[..n]` ↦ List.foldl body · (T.take n);  zipped iterator loops over",
         "      sequences of static length, and loops marked `unroll`, are unrolled;  the loop state is the tuple of the",
         "      variables assigned in the body, in declaration order",
         "    `if c { a } else { b }` ↦ if c then a else b (both sides effect-free apart from assignments, which are merged)",
         "    x.iter().fold(i, BitXor::bitxor) ↦ left fold of ^^^;  [u32;4] ↔ vec128_storage (`.into()`) ↦ lane32 / pack32",
         "    vec128_storage == vec128_storage ↦ (a == b) on BitVec 128",
         "    assert_eq!(s.len(), k) on a slice of static length ↦ checked statically",
         "    vector operations (in addition to the table above):"]
    for (t, op) in sorted(VEC_BIN):
        if (t, op) not in IK.BINOPS:
            L.append("      %-10s a %s b  ↦  %s" % (t, op, VEC_BIN[(t, op)].format("a", "b")))
    for (t, rx, args, tpl, res) in VEC_METHODS:
        if t == "u32x4" and rx in ("extract", "insert"):
            L.append("      %-10s a.%s(%s)  ↦  %s : %s" % (t, rx, ", ".join("v" if a != "int" else "i" for a in args),
                                                        tpl.format("a", *["v" if a != "int" else "i" for a in args]), res))
    for (t, m), (tpl, n) in sorted(VEC_STORE.items()):
        L.append("      %-10s a.%s(&mut s[..%d])  ↦  those %d bytes := %s" % (t, m, n, n, tpl.format("a")))
    for (t, m), (tpl, n) in sorted(VEC_LOAD.items()):
        L.append("      %-10s m.%s(s) (%d bytes)  ↦  %s" % (t, m, n, tpl.format("s")))
    for (e, n), (t, tpl) in sorted(VEC_MAKE.items()):
        L.append("      m.vec([%s; %d])  ↦  %s : %s" % (e, n, tpl.format("a", "b", "c", "d"), t))
    for t, (l, tpl) in sorted(FROM_LANES.items()):
        L.append("      %s::from_lanes([a, b, c, d])  ↦  %s" % (t, tpl.format("a", "b", "c", "d")))
    for t, (l, tpl) in sorted(TO_LANES.items()):
        L.append("      a.to_lanes()[i] (%s)  ↦  component i of %s" % (t, tpl.format("a")))
    for t, tpl in sorted(TRANSPOSE4.items()):
        L.append("      %s::transpose4(a, b, c, d)  ↦  %s (a 4-tuple)" % (t, tpl.format("a", "b", "c", "d")))
    return L


# =========================================================================== values, frames, environments

def is_node(v):
    return isinstance(v, tuple) and len(v) == 3 and v[0] == "n"


def is_int(v):
    return isinstance(v, tuple) and v and v[0] == "int"


def projs(k):
    """component selectors of a right-nested k-tuple"""
    if k == 1:
        return [""]
    return [".2" * i + ".1" for i in range(k - 1)] + [".2" * (k - 1)]


class Frame(object):
    """one dataflow graph (a definition or a loop body) with the static facts about its nodes"""

    def __init__(self, parent=None):
        self.dag = IK.Dag()
        self.parent = parent
        self.iv = {}        # nat node id -> (lo, hi)
        self.blen = {}      # bytes node id -> length
        self.shape = {}     # list node id -> tuple of lengths (outermost first)
        self.imports = {}   # parent node id -> leaf value of this frame


class Env(object):
    def __init__(self, parent=None):
        self.vars, self.order, self.parent, self.macros = {}, [], parent, {}

    def lookup(self, name):
        e = self
        while e is not None:
            if name in e.vars:
                return e.vars[name]
            e = e.parent
        return None

    def has(self, name):
        return self.lookup(name) is not None

    def define(self, name, v):
        if name not in self.vars:
            self.order.append(name)
        self.vars[name] = v

    def set(self, name, v):
        e = self
        while e is not None:
            if name in e.vars:
                e.vars[name] = v
                return
            e = e.parent
        raise TErr("assignment to unknown local %s" % name)

    def macro(self, name):
        e = self
        while e is not None:
            if name in e.macros:
                return e.macros[name]
            e = e.parent
        return None

    def chain(self):
        out, e = [], self
        while e is not None:
            out.append(e)
            e = e.parent
        return out[::-1]

    def fork(self):
        """copy of the whole chain (values are immutable)"""
        new = None
        for e in self.chain():
            n = Env(new)
            n.vars, n.order, n.macros = dict(e.vars), list(e.order), dict(e.macros)
            new = n
        return new

    def names(self):
        """visible variables, outermost declaration first (shadowed ones dropped)"""
        seen, out = set(), []
        for e in reversed(self.chain()):
            for n in reversed(e.order):
                if n not in seen:
                    seen.add(n)
                    out.append(n)
        return out[::-1]


def fmt_int(v, bits):
    return "%d#%d" % (v, bits) if v < 1024 else "0x%0*x#%d" % (bits // 4, v, bits)


class Ctx(object):
    """static context of a function body"""

    def __init__(self, unit, generics, selfname, machname=None):
        self.unit, self.generics, self.selfname, self.machname = unit, dict(generics), selfname, machname
        self.tsub = {}


# =========================================================================== the evaluator

class Code(object):
    def __init__(self, tr, spec):
        self.tr, self.spec = tr, spec          # tr: Translator (units, extern consts, emitted loop definitions)
        self.fr = Frame()
        self.depth = 0
        self.guards = []                       # [(path conditions, condition that must hold, message, debug only)]
        self.pathcond = []
        self.nloops = 0
        self.unroll = spec.get("unroll", False)
        self.uses_profile = False

    # ---- nodes
    def leaf(self, name, rty):
        v = self.fr.dag.leaf(name, carrier(rty))
        return ("n", v[1], rty)

    def app(self, tpl, args, rty):
        v = self.fr.dag.app(tpl, args, carrier(rty))
        return ("n", v[1], rty)

    def cty(self, v):
        return self.fr.dag.nodes[v[1]][-1]

    def const(self, val, ty):
        if ty == "nat" or ty == "usize":
            return ("int", val, "usize")
        if ty not in SCALARS:
            raise TErr("constant of type %s" % ty)
        if not (0 <= val < (1 << INT_BITS[ty])):
            raise TErr("literal %d does not fit %s" % (val, ty))
        return self.app(fmt_int(val, INT_BITS[ty]), [], ty)

    def as_node(self, v, ty=None):
        """a scalar value as a node (literals become typed constants)"""
        if is_node(v):
            return v
        if is_int(v):
            t = "nat" if v[2] == "usize" else v[2]
            ty = "nat" if ty == "usize" else ty
            if t is None:
                t = ty
            if t is None:
                raise TErr("untyped integer literal")
            if ty is not None and t != ty:
                raise TErr("literal of type %s where %s is expected" % (t, ty))
            if t == "nat":
                n = self.app(str(v[1]), [], "nat")
                self.fr.iv[n[1]] = (v[1], v[1])
                return n
            return self.const(v[1], t)
        raise TErr("scalar value expected")

    def nat_iv(self, v):
        if is_int(v):
            return (v[1], v[1])
        if is_node(v) and self.cty(v) == "nat":
            if v[1] not in self.fr.iv:
                raise TErr("no interval known for a Nat value")
            return self.fr.iv[v[1]]
        raise TErr("Nat value expected")

    def nat_txt(self, v):
        return str(v[1]) if is_int(v) else v

    def mk_nat(self, tpl, args, iv):
        if iv[0] < 0 or iv[1] >= 1 << 64:
            raise TErr("index arithmetic may leave the range of usize: [%d, %d]" % iv)
        n = self.app(tpl, [self.nat_txt(a) for a in args], "nat")
        self.fr.iv[n[1]] = iv
        return n

    def bytes_node(self, tpl, args, length):
        n = self.app(tpl, args, "bytes")
        self.fr.blen[n[1]] = length
        return n

    def list_node(self, tpl, args, elty, shape):
        n = self.app(tpl, args, ("list", elty))
        self.fr.shape[n[1]] = tuple(shape)
        return n

    # ---- types
    def rtype(self, ty, ctx):
        """resolve a type AST -> (type, is `&mut`).  types: leaf strings | ("arr", el, n|None) | ("tup", [..]) |
        ("rec", name, [type args]) | "mach" | None (unknown / inferred)"""
        if ty is None:
            return None, False
        k = ty[0]
        if k == "ref":
            t, _ = self.rtype(ty[2], ctx)
            return t, ty[1]
        if k == "opaque":
            return None, False
        if k == "tuple":
            return ("tup", [self.rtype(x, ctx)[0] for x in ty[1]]), False
        if k == "array":
            el, _ = self.rtype(ty[1], ctx)
            n = None
            if ty[2] is not None:
                n = self.const_int(ty[2], ctx)
            return ("arr", el, n), False
        segs, args = ty[1], ty[2]
        if segs == ["_"]:
            return None, False
        if len(segs) == 2 and (segs[0] in ctx.generics and "Machine" in ctx.generics[segs[0]]):
            if segs[1] not in VEC_WIDTH:
                raise TErr("vector type %s is not in the trusted table" % segs[1])
            return segs[1], False
        name = segs[-1]
        if name == "Self":
            if ctx.selfname is None:
                raise TErr("`Self` outside an impl")
            return ("rec", ctx.selfname, []), False
        if len(segs) == 1 and name in ctx.generics:
            if "Machine" in ctx.generics[name]:
                return "mach", False
            return ctx.tsub.get(name), False
        if name in VEC_WIDTH or name in SCALARS or name == "bool":
            return name, False
        if name == "usize":
            return "nat", False
        if name == "GenericArray" and len(args) == 2:
            el, _ = self.rtype(args[0], ctx)
            a = args[1]
            if a[0] == "path" and len(a[1]) == 1 and re.match(r"^U\d+$", a[1][0]):
                return ("arr", el, int(a[1][0][1:])), False
            return ("arr", el, None), False
        try:
            ctx.unit.find_struct(name)
        except TErr:
            raise TErr("type %s not understood" % "::".join(segs))
        return ("rec", name, [self.rtype(a, ctx)[0] for a in args]), False

    def const_int(self, e, ctx):
        v = self.ev(e, Env(), ctx)
        if not is_int(v):
            raise TErr("constant integer expected: %s" % fmt_expr(e))
        return v[1]

    def struct_fields(self, name, targs, ctx):
        gens, fields = ctx.unit.find_struct(name)
        c2 = Ctx(ctx.unit, {}, name, ctx.machname)
        tp = [g for g in gens if not g[0].startswith("'")]
        for i, (g, b) in enumerate(tp):
            c2.generics[g] = b
            if i < len(targs) and targs[i] is not None:
                c2.tsub[g] = targs[i]
        q = []
        for f, fty in fields:
            q.append((f, self.rtype(self.reparse_type(fty), c2)[0]))
        return q

    def reparse_type(self, ty):
        return ty   # IK.P and P2 type ASTs agree on the forms structs use

    def fresh(self, ty, name, leaves, ctx, lens=None):
        """a value of type ty made of fresh leaves"""
        if ty == "mach":
            return ("mach",)
        if ty is None:
            raise TErr("parameter %s: type not understood" % name)
        if isinstance(ty, str):
            v = self.leaf(name, ty)
            if ty == "nat":
                raise TErr("parameter %s: a usize parameter needs an instantiation" % name)
            leaves.append((name, ty))
            return v
        if ty[0] == "tup":
            return ("tup", [self.fresh(t, "%s_%d" % (name, i), leaves, ctx) for i, t in enumerate(ty[1])])
        if ty[0] == "rec":
            return ("rec", ty[1], [(f, self.fresh(t, "%s_%s" % (name, f), leaves, ctx))
                                   for f, t in self.struct_fields(ty[1], ty[2], ctx)])
        if ty[0] == "arr":
            el, n = ty[1], ty[2]
            if n is None:
                n = (self.spec.get("lens") or {}).get(name)
                if n is None:
                    raise TErr("parameter %s: slice of unknown length (the kernel needs an instantiation `lens`)" % name)
            if el == "u8":
                v = self.leaf(name, "bytes")
                self.fr.blen[v[1]] = n
                leaves.append((name, "bytes"))
                return v
            if el in SCALARS:
                v = self.leaf(name, ("list", el))
                self.fr.shape[v[1]] = (n,)
                leaves.append((name, ("list", el)))
                return v
            if isinstance(el, tuple) and el[0] == "arr" and el[1] in SCALARS and el[2] is not None:
                v = self.leaf(name, ("list", ("list", el[1])))
                self.fr.shape[v[1]] = (n, el[2])
                leaves.append((name, ("list", ("list", el[1]))))
                return v
            return ("arr", [self.fresh(el, "%s_%d" % (name, i), leaves, ctx) for i in range(n)])
        raise TErr("parameter %s: type not understood" % name)

    def coerce(self, v, ty):
        """resolve pending pieces of v against the declared type ty (None = unknown)"""
        if ty is None or v is None:
            return v
        if is_node(v):
            if ty in VEC_WIDTH and self.cty(v) == carrier(ty):
                return ("n", v[1], ty)
            return v
        if is_int(v) and isinstance(ty, str):
            if ty in SCALARS or ty == "nat":
                if v[2] not in (None, ty, "usize" if ty == "nat" else ty):
                    return v
                return ("int", v[1], "usize" if ty == "nat" else ty)
            return v
        if v[0] == "pvec" and ty in VEC_WIDTH:
            return self.make_vec(v[1], ty)
        if v[0] == "parr":
            return self.coerce(v[1], ty) if ty in W128 else v
        if v[0] == "tup" and isinstance(ty, tuple) and ty[0] == "tup" and len(ty[1]) == len(v[1]):
            return ("tup", [self.coerce(x, t) for x, t in zip(v[1], ty[1])])
        if v[0] == "arr" and isinstance(ty, tuple) and ty[0] == "arr":
            return ("arr", [self.coerce(x, ty[1]) for x in v[1]])
        if v[0] == "rec" and isinstance(ty, tuple) and ty[0] == "rec" and ty[1] == v[1] and ty[2]:
            fts = dict(self.struct_fields(ty[1], ty[2], Ctx(self.tr.cur_unit, {}, None)))
            return ("rec", v[1], [(f, self.coerce(x, fts.get(f))) for f, x in v[2]])
        if v[0] == "arr" and ty in W128 and len(v[1]) == 4:
            xs = [self.as_node(x, "u32") for x in v[1]]
            if all(self.cty(x) == "u32" for x in xs):
                return self.app(PACK32, xs, ty)
        return v

    def make_vec(self, elems, ty=None):
        """`m.vec([..])`"""
        ety = None
        for x in elems:
            if is_node(x):
                ety = self.cty(x)
            elif is_int(x) and x[2] is not None:
                ety = x[2]
        if ety is None and ty is not None:
            for (e, n), (t, _tpl) in VEC_MAKE.items():
                if t == ty and n == len(elems):
                    ety = e
        if ety is None:
            return ("pvec", list(elems))
        key = (ety, len(elems))
        if key not in VEC_MAKE:
            raise TErr("`vec([%s; %d])` is not in the trusted table" % key)
        t, tpl = VEC_MAKE[key]
        if ty is not None and ty != t and not (ty in VEC_WIDTH and VEC_WIDTH[ty] == VEC_WIDTH[t]):
            raise TErr("`vec([%s; %d])` used as %s" % (ety, len(elems), ty))
        return self.app(tpl, [self.as_node(x, ety) for x in elems], t)

    # ---- byte buffers: ("buf", n, [(bytes node, off, len)])
    def buf_of(self, v):
        if is_node(v) and self.cty(v) == "bytes":
            n = self.fr.blen[v[1]]
            return ("buf", n, [(v, 0, n)])
        if isinstance(v, tuple) and v and v[0] == "buf":
            return v
        if isinstance(v, tuple) and v and v[0] == "arr" and all(is_int(x) or (is_node(x) and self.cty(x) == "u8") for x in v[1]):
            segs = []
            for x in v[1]:
                nd = self.bytes_node("[{0}]", [self.as_node(x, "u8")], 1)
                segs.append((nd, 0, 1))
            return ("buf", len(segs), segs)
        raise TErr("byte buffer expected")

    def is_bytes(self, v):
        return (is_node(v) and self.cty(v) == "bytes") or (isinstance(v, tuple) and v and v[0] == "buf")

    def buf_slice(self, b, lo, hi):
        b = self.buf_of(b)
        n = b[1]
        lo = 0 if lo is None else lo
        hi = n if hi is None else hi
        if not (0 <= lo <= hi <= n):
            raise TErr("slice [%d..%d] of a %d-byte buffer is out of range" % (lo, hi, n))
        segs, pos = [], 0
        for (nd, off, ln) in b[2]:
            a, z = max(lo, pos), min(hi, pos + ln)
            if a < z:
                segs.append((nd, off + a - pos, z - a))
            pos += ln
        return ("buf", hi - lo, segs)

    def buf_slice_form(self, b, lo, hi):
        """`b[lo..hi]` / `b[lo..]` / `b[..hi]` (None = absent) of a buffer: when b is one whole node the slice is
        written the way the Rust forms it"""
        bb = self.buf_of(b)
        n = bb[1]
        if len(bb[2]) == 1 and bb[2][0][1] == 0 and bb[2][0][2] == self.fr.blen[bb[2][0][0][1]]:
            nd = bb[2][0][0]
            l0, h0 = (0 if lo is None else lo), (n if hi is None else hi)
            if not (0 <= l0 <= h0 <= n):
                raise TErr("slice [%d..%d] of a %d-byte buffer is out of range" % (l0, h0, n))
            if lo is None and hi is None:
                return nd
            if hi is None:
                return self.bytes_node("List.drop %d {0}" % lo, [nd], n - lo)
            if lo is None:
                return self.bytes_node("List.take %d {0}" % hi, [nd], hi)
            d = self.bytes_node("List.drop %d {0}" % lo, [nd], n - lo)
            return self.bytes_node("List.take %d {0}" % (hi - lo), [d], hi - lo)
        return self.buf_slice(bb, lo, hi)

    def buf_splice(self, b, lo, new):
        b, new = self.buf_of(b), self.buf_of(new)
        hi = lo + new[1]
        if hi > b[1]:
            raise TErr("store of %d bytes at offset %d into a %d-byte buffer" % (new[1], lo, b[1]))
        return ("buf", b[1], self.buf_slice(b, 0, lo)[2] + new[2] + self.buf_slice(b, hi, b[1])[2])

    def buf_node(self, b):
        """the buffer as ONE bytes node (concatenation of its segments)"""
        if is_node(b):
            return b
        parts = []
        for (nd, off, ln) in b[2]:
            full = self.fr.blen[nd[1]]
            x = nd
            if off:
                x = self.bytes_node("List.drop %d {0}" % off, [x], full - off)
            if off + ln < full:
                x = self.bytes_node("List.take %d {0}" % ln, [x], ln)
            parts.append(x)
        if not parts:
            return self.bytes_node("([] : List (BitVec 8))", [], 0)
        if len(parts) == 1:
            return parts[0]
        tpl = " ++ ".join("{%d}" % i for i in range(len(parts)))
        return self.bytes_node(tpl, parts, b[1])

    def buf_byte(self, b, i):
        b = self.buf_of(b)
        if not (0 <= i < b[1]):
            raise TErr("byte index %d of a %d-byte buffer" % (i, b[1]))
        pos = 0
        for (nd, off, ln) in b[2]:
            if i < pos + ln:
                return self.app("{0}.getD %d 0" % (off + i - pos), [nd], "u8")
            pos += ln

    # ---- lists (arrays of scalars)
    def to_list(self, v, elty=None):
        """an array value as ONE list node"""
        if is_node(v):
            return v
        if v[0] != "arr":
            raise TErr("array expected")
        if v[1] and all(isinstance(x, tuple) and x[0] == "arr" for x in v[1]):
            rows = [self.to_list(x, elty) for x in v[1]]
            el = self.cty(rows[0])
            return self.list_node("[" + ", ".join("{%d}" % i for i in range(len(rows))) + "]", rows, el,
                                  (len(rows),) + self.fr.shape[rows[0][1]])
        for x in v[1]:
            if is_node(x):
                elty = self.cty(x)
            elif is_int(x) and x[2] not in (None,):
                elty = "nat" if x[2] == "usize" else x[2]
        if elty is None:
            raise TErr("array of untyped literals")
        xs = [self.as_node(x, elty) for x in v[1]]
        return self.list_node("[" + ", ".join("{%d}" % i for i in range(len(xs))) + "]", xs, elty, (len(xs),))

    def list_get(self, l, idx, guard_ok=True):
        """l[idx] for a list node"""
        ty = self.cty(l)
        shape = self.fr.shape[l[1]]
        lo, hi = self.nat_iv(idx)
        if hi >= shape[0]:
            self.index_guard(idx, shape[0])
        el = ty[1]
        dflt = "[]" if isinstance(el, tuple) else "0"
        n = self.app("{0}.getD {1} %s" % dflt, [l, self.nat_txt(idx)], el)
        if isinstance(el, tuple):
            self.fr.shape[n[1]] = shape[1:]
        if el == "nat":
            self.fr.iv[n[1]] = self.table_iv(l)
        return n

    def index_guard(self, idx, n):
        if not self.spec.get("out"):
            raise TErr("index may be out of bounds: interval [%d, %d] against length %d" % (self.nat_iv(idx) + (n,)))
        c = self.app("decide ({0} < %d)" % n, [self.nat_txt(idx)], "bool")
        g = (tuple(self.pathcond), c, "index out of bounds", False)
        if g not in self.guards:
            self.guards.append(g)

    def list_set(self, l, idx, val):
        shape = self.fr.shape[l[1]]
        lo, hi = self.nat_iv(idx)
        if hi >= shape[0]:
            self.index_guard(idx, shape[0])
        el = self.cty(l)[1]
        return self.list_node("{0}.set {1} {2}", [l, self.nat_txt(idx), self.as_node(val, el)], el, shape)

    # ---- lvalues
    def lv_get(self, lv, env, ctx):
        return self.ev(lv, env, ctx)

    def lv_set(self, lv, val, env, ctx):
        k = lv[0]
        if k in ("paren", "deref", "addr"):
            return self.lv_set(lv[-1], val, env, ctx)
        if k == "path" and len(lv[1]) == 1:
            name = lv[1][0]
            old = env.lookup(name)
            if old is None:
                raise TErr("assignment to unknown local %s" % name)
            if isinstance(old, tuple) and old and old[0] == "place":
                return self.lv_set(old[1], val, env, ctx)
            env.set(name, self.conform(old, val, lv))
            return
        if k in ("field", "tfield"):
            base = self.lv_get(lv[1], env, ctx)
            name = str(lv[2])
            if isinstance(base, tuple) and base[0] == "rec":
                if name not in [f for f, _ in base[2]]:
                    raise TErr("no field %s in struct %s" % (name, base[1]))
                new = ("rec", base[1], [(f, self.conform(v, val, lv) if f == name else v) for f, v in base[2]])
            elif isinstance(base, tuple) and base[0] == "tup" and k == "tfield" and lv[2] < len(base[1]):
                new = ("tup", [self.conform(v, val, lv) if i == lv[2] else v for i, v in enumerate(base[1])])
            else:
                raise TErr("field assignment not understood: %s" % fmt_expr(lv))
            return self.lv_set(lv[1], new, env, ctx)
        if k == "index":
            base = self.lv_get(lv[1], env, ctx)
            ix = lv[2]
            if ix[0] == "range":
                lo = None if ix[1] is None else self.need_int(self.ev(ix[1], env, ctx))
                hi = None if ix[2] is None else self.need_int(self.ev(ix[2], env, ctx)) + (1 if ix[3] else 0)
                if self.is_bytes(base):
                    b = self.buf_of(base)
                    lo = 0 if lo is None else lo
                    hi = b[1] if hi is None else hi
                    nv = self.buf_of(val)
                    if nv[1] != hi - lo:
                        raise TErr("store of %d bytes into a slice of %d" % (nv[1], hi - lo))
                    return self.lv_set(lv[1], self.buf_splice(b, lo, nv), env, ctx)
                if isinstance(base, tuple) and base[0] == "arr":
                    lo = 0 if lo is None else lo
                    hi = len(base[1]) if hi is None else hi
                    if not (isinstance(val, tuple) and val[0] == "arr" and len(val[1]) == hi - lo):
                        raise TErr("slice assignment of a different length")
                    return self.lv_set(lv[1], ("arr", base[1][:lo] + list(val[1]) + base[1][hi:]), env, ctx)
                raise TErr("slice assignment not understood: %s" % fmt_expr(lv))
            i = self.ev(ix, env, ctx)
            if isinstance(base, tuple) and base[0] == "arr":
                if not is_int(i):
                    base = self.to_list(base)
                else:
                    if not (0 <= i[1] < len(base[1])):
                        raise TErr("index %d out of range of an array of %d" % (i[1], len(base[1])))
                    return self.lv_set(lv[1], ("arr", [self.conform(v, val, lv) if j == i[1] else v
                                                        for j, v in enumerate(base[1])]), env, ctx)
            if is_node(base) and isinstance(self.cty(base), tuple) and self.cty(base)[0] == "list":
                if isinstance(self.cty(base)[1], tuple):
                    raise TErr("assignment to a row of a nested list")
                return self.lv_set(lv[1], self.list_set(base, i, val), env, ctx)
            if self.is_bytes(base) and is_int(i):
                nd = self.bytes_node("[{0}]", [self.as_node(val, "u8")], 1)
                return self.lv_set(lv[1], self.buf_splice(base, i[1], nd), env, ctx)
            raise TErr("indexed assignment not understood: %s" % fmt_expr(lv))
        raise TErr("assignment target not understood: %s" % fmt_expr(lv))

    def conform(self, old, new, where):
        """the new value of a location must have the old one's shape; pending pieces take the old type"""
        if old is None:
            return new
        if is_node(old):
            if is_int(new):
                return self.as_node(new, self.cty(old))
            if isinstance(new, tuple) and new and new[0] == "pvec" and old[2] in VEC_WIDTH:
                return self.make_vec(new[1], old[2])
            if isinstance(new, tuple) and new and new[0] == "parr" and old[2] in W128:
                return self.coerce(new[1], old[2])
            if isinstance(new, tuple) and new and new[0] == "buf" and self.cty(old) == "bytes":
                return new
            if isinstance(new, tuple) and new and new[0] == "arr" and isinstance(self.cty(old), tuple):
                return self.to_list(new, self.cty(old)[1])
            if not is_node(new) or self.cty(new) != self.cty(old):
                raise TErr("assignment changes the type at %s" % fmt_expr(where))
            return new if new[2] is not None else ("n", new[1], old[2])
        if is_int(old) or old[0] in ("pvec",):
            return new
        if old[0] == "buf":
            if self.is_bytes(new) and self.buf_of(new)[1] == old[1]:
                return new
            raise TErr("assignment changes the length of a byte buffer at %s" % fmt_expr(where))
        if old[0] == "arr" and is_node(new) and isinstance(self.cty(new), tuple) and self.cty(new)[0] == "list":
            if self.fr.shape[new[1]][0] != len(old[1]):
                raise TErr("assignment changes the length of an array at %s" % fmt_expr(where))
            return new
        if is_node(new) or new[0] != old[0]:
            raise TErr("assignment changes the shape at %s" % fmt_expr(where))
        if old[0] == "tup" or old[0] == "arr":
            if len(old[1]) != len(new[1]):
                raise TErr("assignment changes the shape at %s" % fmt_expr(where))
            return (old[0], [self.conform(a, b, where) for a, b in zip(old[1], new[1])])
        if old[0] == "rec":
            if old[1] != new[1]:
                raise TErr("assignment changes the struct type at %s" % fmt_expr(where))
            return ("rec", old[1], [(f, self.conform(a, dict(new[2])[f], where)) for f, a in old[2]])
        return new

    def need_int(self, v):
        if not is_int(v):
            raise TErr("a statically known integer is needed here")
        return v[1]

    # ---- operators
    def binop(self, op, a, b):
        # concrete integers
        if is_int(a) and is_int(b):
            return self.int_binop(op, a, b)
        if isinstance(a, tuple) and a and a[0] == "bool" and isinstance(b, tuple) and b and b[0] == "bool":
            if op == "&&":
                return ("bool", a[1] and b[1])
            if op == "||":
                return ("bool", a[1] or b[1])
        # pending vector literals take the other side's type
        if isinstance(a, tuple) and a and a[0] == "pvec" and is_node(b) and b[2] in VEC_WIDTH:
            a = self.make_vec(a[1], b[2])
        if isinstance(b, tuple) and b and b[0] == "pvec" and is_node(a) and a[2] in VEC_WIDTH:
            b = self.make_vec(b[1], a[2])
        if is_node(a) and is_int(b):
            b = self.lit_for(b, a)
        elif is_node(b) and is_int(a):
            a = self.lit_for(a, b)
        if (is_node(a) and self.cty(a) == "nat" and is_int(b)) or (is_node(b) and self.cty(b) == "nat" and is_int(a)):
            return self.nat_binop(op, a, b)
        if not (is_node(a) and is_node(b)):
            if isinstance(a, tuple) and a and a[0] == "bool" or isinstance(b, tuple) and b and b[0] == "bool":
                # constant side of && / ||
                ca, other = (a, b) if (isinstance(a, tuple) and a[0] == "bool") else (b, a)
                if op == "&&":
                    return other if ca[1] else ("bool", False)
                if op == "||":
                    return ("bool", True) if ca[1] else other
            raise TErr("operator %s on aggregate values" % op)
        ta, tb = self.cty(a), self.cty(b)
        # Nat arithmetic with intervals
        if ta == "nat" and tb == "nat":
            return self.nat_binop(op, a, b)
        if ta in ("v128", "v256", "v512"):
            ra, rb = a[2], b[2]
            if ta != tb:
                raise TErr("operator %s on vectors of different width" % op)
            if op == "==" and ra in ("vec128_storage", None) and rb in ("vec128_storage", None):
                return self.app("({0} == {1})", [a, b], "bool")
            r = ra if ra is not None and not ra.endswith("_storage") else rb
            if r is None or r.endswith("_storage"):
                raise TErr("operator %s on vectors of undetermined type" % op)
            if (r, op) not in VEC_BIN:
                raise TErr("operator `%s` on %s is not in the trusted table" % (op, r))
            return self.app(VEC_BIN[(r, op)], [a, b], r)
        if ta != tb:
            raise TErr("operator %s on different types %s, %s" % (op, ta, tb))
        if ta == "bool":
            if op == "&&":
                return self.app("({0} && {1})", [a, b], "bool")
            if op == "||":
                return self.app("({0} || {1})", [a, b], "bool")
            if op == "|":
                return self.app("({0} || {1})", [a, b], "bool")
            if op == "==":
                return self.app("({0} == {1})", [a, b], "bool")
            raise TErr("operator %s on bool" % op)
        if ta in SCALARS:
            if op in SCALAR_BIN:
                return self.app(SCALAR_BIN[op], [a, b], ta)
            if op == "==":
                return self.app("({0} == {1})", [a, b], "bool")
            if op == "!=":
                return self.app("({0} != {1})", [a, b], "bool")
            if op in ("+", "-", "*"):
                return self.checked_arith(op, a, b, ta)
            raise TErr("operator `%s` on %s is not in the trusted table" % (op, ta))
        raise TErr("operator `%s` on %s is not in the trusted table" % (op, ta))

    def lit_for(self, lit, node):
        t = self.cty(node)
        if t == "nat":
            return lit
        if t in SCALARS:
            if lit[2] not in (None, t):
                raise TErr("literal of type %s against %s" % (lit[2], t))
            return self.const(lit[1], t)
        raise TErr("integer literal against a value of type %s" % (t,))

    def checked_arith(self, op, a, b, ty):
        w = INT_BITS[ty]
        sym = {"+": "+", "-": "-", "*": "*"}[op]
        if not self.spec.get("out"):
            raise TErr("checked arithmetic `%s` on %s needs a definition that returns `Out` (spec `out`)" % (op, ty))
        if op == "-":
            ok = self.app("decide ({1}.toNat ≤ {0}.toNat)", [a, b], "bool")
            msg = "attempt to subtract with overflow"
        else:
            ok = self.app("decide ({0}.toNat %s {1}.toNat < 2 ^ %d)" % (sym, w), [a, b], "bool")
            msg = "attempt to add with overflow" if op == "+" else "attempt to multiply with overflow"
        self.guards.append((tuple(self.pathcond), ok, msg, True))
        self.uses_profile = True
        return self.app("{0} %s {1}" % sym, [a, b], ty)

    def int_binop(self, op, a, b):
        x, y = a[1], b[1]
        ty = a[2] or b[2]
        if op in ("/", "%") and y == 0:
            raise TErr("division by zero")
        if op in ("==", "!=", "<", ">", "<=", ">="):
            return ("bool", {"==": x == y, "!=": x != y, "<": x < y, ">": x > y, "<=": x <= y, ">=": x >= y}[op])
        r = {"+": lambda: x + y, "-": lambda: x - y, "*": lambda: x * y, "/": lambda: x // y, "%": lambda: x % y,
             "<<": lambda: x << y, ">>": lambda: x >> y, "&": lambda: x & y, "|": lambda: x | y, "^": lambda: x ^ y}
        if op not in r:
            raise TErr("operator %s on integer constants" % op)
        v = r[op]()
        bits = INT_BITS.get(ty or "usize", 64)
        if op in ("<<", ">>"):
            ty = a[2]
            bits = INT_BITS.get(ty or "usize", 64)
            if y >= bits:
                raise TErr("shift by %d of a %d-bit constant" % (y, bits))
            if op == "<<":
                v &= (1 << bits) - 1
        if not (0 <= v < (1 << bits)):
            raise TErr("constant arithmetic overflows: %d %s %d" % (x, op, y))
        return ("int", v, ty)

    def nat_binop(self, op, a, b):
        (al, ah), (bl, bh) = self.nat_iv(a), self.nat_iv(b)
        if op == "+":
            return self.mk_nat("{0} + {1}", [a, b], (al + bl, ah + bh))
        if op == "*":
            return self.mk_nat("{0} * {1}", [a, b], (al * bl, ah * bh))
        if op == "-":
            if al < bh:
                raise TErr("index subtraction may underflow: [%d,%d] - [%d,%d]" % (al, ah, bl, bh))
            return self.mk_nat("{0} - {1}", [a, b], (al - bh, ah - bl))
        if op == "/":
            if bl == 0:
                raise TErr("index division by a value that may be zero")
            return self.mk_nat("{0} / {1}", [a, b], (al // bh, ah // bl))
        if op == "%":
            if bl == 0:
                raise TErr("index remainder by a value that may be zero")
            return self.mk_nat("{0} % {1}", [a, b], (0, min(ah, bh - 1)))
        if op in ("==", "!=", "<", ">", "<=", ">="):
            if op == "==":
                return self.app("({0} == {1})", [self.nat_txt(a), self.nat_txt(b)], "bool")
            if op == "!=":
                return self.app("({0} != {1})", [self.nat_txt(a), self.nat_txt(b)], "bool")
            return self.app("decide ({0} %s {1})" % {"<": "<", ">": ">", "<=": "≤", ">=": "≥"}[op],
                            [self.nat_txt(a), self.nat_txt(b)], "bool")
        raise TErr("operator %s on index values" % op)

    def shift(self, op, a, k):
        if is_int(a) and is_int(k):
            return self.int_binop(op, a, k)
        if not is_int(k):
            raise TErr("shift by a non-literal amount")
        if not is_node(a) or self.cty(a) not in SCALARS:
            raise TErr("shift of a non-scalar")
        t = self.cty(a)
        if k[1] >= INT_BITS[t]:
            raise TErr("shift of %s by %d (overflow)" % (t, k[1]))
        return self.app("{0} %s %d" % ("<<<" if op == "<<" else ">>>", k[1]), [a], t)

    def cast(self, v, ty):
        if ty == "nat":
            if is_int(v):
                return ("int", v[1], "usize")
            if isinstance(v, tuple) and v and v[0] == "bool":
                return ("int", 1 if v[1] else 0, "usize")
            t = self.cty(v)
            if t == "nat":
                return v
            if t in SCALARS:
                n = self.app("{0}.toNat", [v], "nat")
                self.fr.iv[n[1]] = (0, (1 << INT_BITS[t]) - 1)
                return n
            raise TErr("cast of %s to usize" % (t,))
        if ty in SCALARS:
            w = INT_BITS[ty]
            if is_int(v):
                return ("int", v[1] & ((1 << w) - 1), ty)
            if isinstance(v, tuple) and v and v[0] == "bool":
                return ("int", 1 if v[1] else 0, ty)
            t = self.cty(v)
            if t == ty:
                return v
            if t in SCALARS:
                return self.app("BitVec.setWidth %d {0}" % w, [v], ty)
            if t == "nat":
                return self.app("BitVec.ofNat %d {0}" % w, [v], ty)
            if t == "bool":
                return self.app("(if {0} then %s else %s)" % (fmt_int(1, w), fmt_int(0, w)), [v], ty)
            raise TErr("cast of %s to %s" % (t, ty))
        raise TErr("cast to %s is not in the trusted table" % (ty,))

    # ---- expressions
    def ev(self, e, env, ctx, want=None):
        k = e[0]
        if k == "paren":
            return self.ev(e[1], env, ctx, want)
        if k == "int":
            ty = e[2]
            if ty == "usize":
                ty = "usize"
            return ("int", e[1], ty)
        if k == "path":
            return self.ev_path(e[1], env, ctx)
        if k == "addr":
            return self.ev(e[2], env, ctx, want)
        if k == "deref":
            return self.ev(e[1], env, ctx, want)
        if k == "tuple":
            ws = want[1] if isinstance(want, tuple) and want[0] == "tup" and len(want[1]) == len(e[1]) else [None] * len(e[1])
            return ("tup", [self.coerce(self.ev(x, env, ctx, w), w) for x, w in zip(e[1], ws)])
        if k == "array":
            w = want[1] if isinstance(want, tuple) and want[0] == "arr" else None
            return ("arr", [self.coerce(self.ev(x, env, ctx, w), w) for x in e[1]])
        if k == "repeat":
            n = self.need_int(self.ev(e[2], env, ctx))
            x = self.ev(e[1], env, ctx)
            return ("arr", [x] * n)
        if k == "structlit":
            name = e[1][-1] if e[1] != ["Self"] else ctx.selfname
            fields = self.struct_fields(name, [], ctx)
            given = {}
            for f, x in e[2]:
                fty = dict(fields).get(f)
                given[f] = self.coerce(self.ev(x, env, ctx, fty), fty)
            if sorted(given) != sorted(f for f, _ in fields):
                raise TErr("struct literal %s: fields %s given, %s declared" % (name, sorted(given), [f for f, _ in fields]))
            return ("rec", name, [(f, given[f]) for f, _ in fields])
        if k in ("field", "tfield"):
            b = self.ev(e[1], env, ctx)
            return self.get_field(b, e[2], k, e)
        if k == "index":
            return self.ev_index(e, env, ctx)
        if k == "cast":
            ty, _ = self.rtype(e[2], ctx)
            return self.cast(self.ev(e[1], env, ctx), ty)
        if k == "bin":
            op = e[1]
            if op in ("<<", ">>"):
                return self.shift(op, self.ev(e[2], env, ctx), self.ev(e[3], env, ctx))
            a = self.ev(e[2], env, ctx)
            if op in ("&&", "||") and isinstance(a, tuple) and a and a[0] == "bool":
                if (op == "&&" and not a[1]) or (op == "||" and a[1]):
                    return a
                return self.ev(e[3], env, ctx)
            ng = len(self.guards)
            b = self.ev(e[3], env, ctx)
            if op in ("&&", "||") and len(self.guards) != ng:
                raise TErr("the right operand of %s can panic" % op)
            return self.binop(op, a, b)
        if k == "un":
            a = self.ev(e[2], env, ctx)
            if e[1] == "!":
                if isinstance(a, tuple) and a and a[0] == "bool":
                    return ("bool", not a[1])
                if is_int(a):
                    bits = INT_BITS.get(a[2] or "", None)
                    if bits is None:
                        raise TErr("`!` on an untyped literal")
                    return ("int", a[1] ^ ((1 << bits) - 1), a[2])
                if is_node(a):
                    t = self.cty(a)
                    if t == "bool":
                        return self.app("(!{0})", [a], "bool")
                    if t in SCALARS:
                        return self.app("~~~{0}", [a], t)
                    if (a[2], "!") in VEC_UN:
                        return self.app(VEC_UN[(a[2], "!")], [a], a[2])
            raise TErr("unary `%s` is not in the trusted table here" % e[1])
        if k == "call":
            return self.ev_call(e, env, ctx, want)
        if k == "mcall":
            return self.ev_mcall(e, env, ctx, want)
        if k == "macro":
            return self.ev_macro(e, env, ctx, want)
        if k == "if":
            return self.ev_if(e, env, ctx, want)
        if k == "block":
            return self.exec_block(e, Env(env), ctx, want)
        if k == "range":
            lo = None if e[1] is None else self.ev(e[1], env, ctx)
            hi = None if e[2] is None else self.ev(e[2], env, ctx)
            return ("range", lo, hi, e[3])
        if k == "str":
            raise TErr("string literal in code")
        raise TErr("expression form `%s` is outside the language: %s" % (k, fmt_expr(e)))

    def get_field(self, b, name, k, e):
        if isinstance(b, tuple) and b and b[0] == "place":
            raise TErr("field of a place")
        if isinstance(b, tuple) and b and b[0] == "rec":
            d = dict(b[2])
            if str(name) not in d:
                raise TErr("no field %s in struct %s" % (name, b[1]))
            return d[str(name)]
        if k == "tfield" and isinstance(b, tuple) and b and b[0] == "tup" and name < len(b[1]):
            return b[1][name]
        if k == "tfield" and is_node(b) and isinstance(self.cty(b), tuple) and self.cty(b)[0] == "tup":
            tys = self.cty(b)[1]
            return self.app("{0}" + projs(len(tys))[name], [b], tys[name])
        raise TErr("field access not understood: %s" % fmt_expr(e))

    def ev_path(self, segs, env, ctx):
        if len(segs) == 1:
            v = env.lookup(segs[0])
            if v is not None:
                if isinstance(v, tuple) and v and v[0] == "place":
                    return self.ev(v[1], env, ctx)
                return v
            if segs[0] == "self":
                raise TErr("`self` is not bound")
        name = segs[-1]
        c = self.tr.const_value(ctx.unit, name)
        if c is not None:
            return c
        if segs[-2:] == ["BitXor", "bitxor"]:
            return ("fnref", "bitxor")
        raise TErr("unknown name %s" % "::".join(segs))

    def ev_index(self, e, env, ctx):
        base = self.ev(e[1], env, ctx)
        ix = e[2]
        if ix[0] == "range":
            lo = None if ix[1] is None else self.need_int(self.ev(ix[1], env, ctx))
            hi = None if ix[2] is None else self.need_int(self.ev(ix[2], env, ctx)) + (1 if ix[3] else 0)
            if self.is_bytes(base):
                return self.buf_slice_form(base, lo, hi)
            if lo is None and hi is None:
                return base
            if isinstance(base, tuple) and base and base[0] == "arr":
                n = len(base[1])
                lo, hi = (0 if lo is None else lo), (n if hi is None else hi)
                if not (0 <= lo <= hi <= n):
                    raise TErr("slice [%d..%d] of an array of %d" % (lo, hi, n))
                return ("arr", base[1][lo:hi])
            if isinstance(base, tuple) and base and base[0] == "ctab":
                n = len(base[2])
                lo, hi = (0 if lo is None else lo), (n if hi is None else hi)
                if not (0 <= lo <= hi <= n):
                    raise TErr("slice [%d..%d] of a table of %d" % (lo, hi, n))
                if lo != 0:
                    raise TErr("table slice not starting at 0")
                return ("ctab", "(%s.take %d)" % (base[1], hi), base[2][:hi], base[3])
            raise TErr("slice of this value is not understood: %s" % fmt_expr(e))
        i = self.ev(ix, env, ctx)
        if isinstance(base, tuple) and base and base[0] == "ctab":
            return self.ctab_get(base, i)
        if isinstance(base, tuple) and base and base[0] == "arr":
            if is_int(i):
                if not (0 <= i[1] < len(base[1])):
                    raise TErr("index %d out of range of an array of %d" % (i[1], len(base[1])))
                return base[1][i[1]]
            base = self.to_list(base)
        if isinstance(base, tuple) and base and base[0] == "tup" and is_int(i):
            raise TErr("indexing a tuple")
        if self.is_bytes(base):
            return self.buf_byte(base, self.need_int(i))
        if is_node(base) and isinstance(self.cty(base), tuple) and self.cty(base)[0] == "list":
            return self.list_get(base, i)
        raise TErr("indexing not understood: %s" % fmt_expr(e))

    def ctab_get(self, tab, i):
        """tab = ("ctab", lean expr text, python value, render[, view])"""
        _, lean, val, render = tab[:4]
        if is_int(i):
            if not (0 <= i[1] < len(val)):
                raise TErr("index %d out of range of table %s" % (i[1], lean))
            x = val[i[1]]
            if isinstance(x, list):
                return ("ctab", "(%s.getD %d [])" % (lean, i[1]), x, render[1])
            return self.tab_entry(x, render[1])
        lo, hi = self.nat_iv(i)
        if hi >= len(val):
            raise TErr("index [%d,%d] may be out of range of table %s (%d)" % (lo, hi, lean, len(val)))
        if isinstance(val[0], list):
            # a row selected by a symbolic index: a list node
            node = self.row_node("(%s.getD {0} [])" % lean, [self.nat_txt(i)], val, render)
            return node
        return self.tab_sym_entry("%s.getD {0} 0" % lean, [self.nat_txt(i)], val, render[1])

    def tab_entry(self, x, r):
        if r == "nat":
            return ("int", x, "usize")
        if r[0] == "bv":
            return ("int", x, {8: "u8", 16: "u16", 32: "u32", 64: "u64"}[r[1]])
        raise TErr("table entry rendering")

    def tab_sym_entry(self, tpl, args, vals, r):
        if r == "nat":
            n = self.app(tpl, args, "nat")
            self.fr.iv[n[1]] = (min(vals), max(vals))
            return n
        if r[0] == "bv":
            return self.app(tpl, args, {8: "u8", 16: "u16", 32: "u32", 64: "u64"}[r[1]])
        raise TErr("table entry rendering")

    def row_node(self, tpl, args, rows, render):
        """a node standing for SOME row of `rows` (a table of rows): remembers the rows for interval analysis"""
        el = "nat" if render[1][1] == "nat" else {8: "u8", 16: "u16", 32: "u32", 64: "u64"}[render[1][1][1]]
        n = self.list_node(tpl, args, el, (min(len(r) for r in rows),))
        self.rowvals = getattr(self, "rowvals", {})
        self.rowvals[(id(self.fr), n[1])] = rows
        return n

    def table_iv(self, l):
        rows = getattr(self, "rowvals", {}).get((id(self.fr), l[1]))
        if rows is None:
            raise TErr("Nat-valued list without a known range")
        return (min(min(r) for r in rows), max(max(r) for r in rows))

    # ---- calls
    def word_of_bytes(self, segs, arg, env, ctx):
        w = segs[0]
        if w not in SCALARS:
            raise TErr("%s is not in the trusted table" % "::".join(segs))
        b = self.buf_of(arg)
        if b[1] * 8 != INT_BITS[w]:
            raise TErr("%s on %d bytes" % ("::".join(segs), b[1]))
        fn = "CC.ofLeBytes" if segs[1] == "from_le_bytes" else "CC.ofBeBytes"
        return self.app("%s %d {0}" % (fn, INT_BITS[w]), [self.buf_node(b)], w)

    def ev_call(self, e, env, ctx, want):
        segs = e[1]
        targs = e[3] if len(e) > 3 else []
        name = segs[-1]
        if len(segs) == 2 and segs[0] in SCALARS and name == "from":
            a = self.ev(e[2][0], env, ctx)
            if is_int(a):
                return ("int", a[1], segs[0])
            if isinstance(a, tuple) and a and a[0] == "bool":
                return ("int", 1 if a[1] else 0, segs[0])
            t = self.cty(a)
            if t in SCALARS and INT_BITS[t] <= INT_BITS[segs[0]]:
                return self.cast(a, segs[0])
            if t == "bool":
                return self.cast(a, segs[0])
            raise TErr("%s::from(%s)" % (segs[0], t))
        if len(segs) == 2 and name in ("from_le_bytes", "from_be_bytes"):
            return self.word_of_bytes(segs, self.ev(e[2][0], env, ctx), env, ctx)
        if name == "size_of" and len(targs) == 1:
            t, _ = self.rtype(targs[0], ctx)
            return ("int", self.size_of(t), "usize")
        if len(segs) >= 2 and segs[-2] in FROM_LANES and name == "from_lanes":
            lt, tpl = FROM_LANES[segs[-2]]
            arr = self.ev(e[2][0], env, ctx, ("arr", lt, 4))
            if not (isinstance(arr, tuple) and arr[0] == "arr" and len(arr[1]) == 4):
                raise TErr("from_lanes: array of 4 lanes expected")
            xs = [self.coerce(x, lt) for x in arr[1]]
            for x in xs:
                if not is_node(x) or self.cty(x) != "v128":
                    raise TErr("from_lanes: 128-bit lanes expected")
            return self.app(tpl, xs, segs[-2])
        if len(segs) >= 2 and segs[-2] in TRANSPOSE4 and name == "transpose4":
            xs = [self.ev(x, env, ctx) for x in e[2]]
            if len(xs) != 4 or not all(is_node(x) and x[2] == segs[-2] for x in xs):
                raise TErr("transpose4: four %s expected" % segs[-2])
            t = self.app(TRANSPOSE4[segs[-2]], xs, ("tup", (segs[-2],) * 4))
            return ("tup", [self.app(p, [t], segs[-2]) for p in PROJ4])
        if name == "default" and not e[2]:
            raise TErr("`Default::default()` is outside the language")
        # tuple-struct constructor / function of this unit
        owner = None
        if len(segs) >= 2:
            owner = segs[-2] if segs[-2] != "Self" else ctx.selfname
        if len(segs) == 1:
            try:
                _g, fields = ctx.unit.find_struct(name if name != "Self" else ctx.selfname)
            except TErr:
                fields = None
            if fields is not None and all(f.isdigit() for f, _ in fields):
                args = [self.ev(x, env, ctx) for x in e[2]]
                if len(args) != len(fields):
                    raise TErr("constructor %s: %d arguments" % (name, len(args)))
                return ("rec", name, [(f, a) for (f, _), a in zip(fields, args)])
        f = self.tr.find_fn(ctx.unit, name, owner)
        if name in (self.spec.get("calls") or {}):
            return self.opaque_call(f, self.spec["calls"][name], e[2], env, ctx)
        return self.call_fn(f, None, e[2], env, ctx)

    def opaque_call(self, f, lean, arg_exprs, env, ctx):
        """a call of a function that is translated as a definition of its own (`calls` of the spec): one application"""
        fctx = self.tr.fn_ctx(f)
        if len(arg_exprs) != len(f.params):
            raise TErr("fn %s called with %d arguments for %d parameters" % (f.name, len(arg_exprs), len(f.params)))
        args = []
        for (pat, ty), x in zip(f.params, arg_exprs):
            if pat[0] == "self":
                raise TErr("non-inlined call of a method")
            t, mut = self.rtype(ty, fctx)
            if mut:
                raise TErr("non-inlined call of fn %s with a `&mut` parameter" % f.name)
            if t == "mach":
                continue
            v = self.coerce(self.ev(x, env, ctx, t), t)
            if self.is_bytes(v):
                v = self.buf_node(self.buf_of(v))
            elif isinstance(t, str) and t in SCALARS:
                v = self.as_node(v, t)
            if not is_node(v):
                raise TErr("non-inlined call of fn %s: argument is not a single value" % f.name)
            args.append(v)
        rt, _ = self.rtype(f.ret, fctx)
        if not (isinstance(rt, str) and (rt in SCALARS or rt in VEC_WIDTH)):
            raise TErr("non-inlined call of fn %s: result type" % f.name)
        m = " M" if any(self.rtype(ty, fctx)[0] == "mach" for (pat, ty) in f.params if pat[0] != "self") else ""
        return self.app("%s%s%s" % (lean, m, "".join(" {%d}" % i for i in range(len(args)))), args, rt)

    def size_of(self, t):
        if t in SCALARS:
            return INT_BITS[t] // 8
        if isinstance(t, tuple) and t[0] == "arr" and t[2] is not None:
            return t[2] * self.size_of(t[1])
        raise TErr("size_of of this type")

    def call_fn(self, f, recv_expr, arg_exprs, env, ctx):
        """call a function item of the unit: arguments are evaluated in env; `&mut` parameters are written back"""
        self.depth += 1
        if self.depth > 12:
            raise TErr("call depth exceeded (recursion?) in fn %s" % f.name)
        fctx = self.tr.fn_ctx(f)
        params = f.params
        exprs = ([recv_expr] if recv_expr is not None else []) + list(arg_exprs)
        if len(exprs) != len(params):
            raise TErr("fn %s called with %d arguments for %d parameters" % (f.name, len(exprs), len(params)))
        fenv = Env()
        if getattr(fctx, "machvar", None):
            fenv.define(fctx.machvar, ("mach",))
        back = []
        for (pat, ty), x in zip(params, exprs):
            if pat[0] == "self":
                v = self.ev(x, env, ctx)
                fenv.define("self", v)
                if pat[1]:
                    back.append(("self", x))
                continue
            t, mut = self.rtype(ty, fctx)
            if t == "mach":
                v = self.ev(x, env, ctx)
                if v != ("mach",):
                    raise TErr("fn %s: machine argument expected" % f.name)
                if pat[0] != "pid":
                    raise TErr("fn %s: machine parameter pattern" % f.name)
                fenv.define(pat[1], v)
                continue
            v = self.coerce(self.ev(x, env, ctx, t), t)
            if is_int(v) and v[2] is None:
                raise TErr("fn %s: untyped literal for a parameter of unknown type" % f.name)
            if is_int(v) and t in SCALARS:
                v = self.const(v[1], t)
            self.bind(pat, v, fenv)
            if mut:
                if pat[0] != "pid":
                    raise TErr("fn %s: pattern on a `&mut` parameter" % f.name)
                back.append((pat[1], x))
        rt, _ = self.rtype(f.ret, fctx) if f.ret is not None else (None, False)
        a, b = f.body
        stmts, tail = P2(fctx.unit.toks, a, b).block_body()
        r = self.exec_block(("block", stmts, tail), fenv, fctx, rt)
        r = self.coerce(r, rt)
        for name, x in back:
            self.lv_set(x, fenv.lookup(name), env, ctx)
        self.depth -= 1
        return r

    def bind(self, pat, val, env):
        if pat[0] == "pid":
            if pat[1] != "_":
                env.define(pat[1], val)
            return
        if is_node(val) and isinstance(self.cty(val), tuple) and self.cty(val)[0] == "tup":
            tys = self.cty(val)[1]
            val = ("tup", [self.app("{0}" + p, [val], t) for p, t in zip(projs(len(tys)), tys)])
        if not (isinstance(val, tuple) and val[0] == "tup" and len(val[1]) == len(pat[1])):
            raise TErr("tuple pattern against a value that is not a tuple of %d" % len(pat[1]))
        for p, v in zip(pat[1], val[1]):
            self.bind(p, v, env)

    # ---- methods
    def ev_mcall(self, e, env, ctx, want):
        rx, name, argx = e[1], e[2], e[3]
        # iterator chains are only understood as loop headers and `.iter().fold(..)`
        if name == "fold" and rx[0] == "mcall" and rx[2] == "iter":
            arr = self.ev(rx[1], env, ctx)
            if is_node(arr) and isinstance(self.cty(arr), tuple):
                arr = ("arr", [self.list_get(arr, ("int", i, "usize")) for i in range(self.fr.shape[arr[1]][0])])
            if not (isinstance(arr, tuple) and arr[0] == "arr"):
                raise TErr("fold over something that is not an array")
            init = self.ev(argx[0], env, ctx)
            fn = self.ev(argx[1], env, ctx)
            if fn != ("fnref", "bitxor"):
                raise TErr("fold with a function other than BitXor::bitxor")
            acc = init
            for x in arr[1]:
                acc = self.binop("^", acc, x)
            return acc
        recv = self.ev(rx, env, ctx)
        if recv == ("mach",):
            return self.mach_method(name, argx, env, ctx, want)
        if isinstance(recv, tuple) and recv and recv[0] == "rec":
            f = self.tr.find_fn(ctx.unit, name, recv[1], optional=True)
            if f is not None:
                return self.call_fn(f, rx, argx, env, ctx)
        if name in ("into", "clone", "try_into", "unwrap", "as_ref", "as_slice", "to_owned"):
            if argx:
                raise TErr("method %s with arguments" % name)
            if name == "into":
                return self.into(recv, want)
            return recv
        if name == "len" and not argx:
            if self.is_bytes(recv):
                return ("int", self.buf_of(recv)[1], "usize")
            if isinstance(recv, tuple) and recv and recv[0] in ("arr", "ctab"):
                return ("int", len(recv[1] if recv[0] == "arr" else recv[2]), "usize")
            if is_node(recv) and isinstance(self.cty(recv), tuple) and self.cty(recv)[0] == "list":
                return ("int", self.fr.shape[recv[1]][0], "usize")
            raise TErr("len() of this value")
        if name in ("to_le_bytes", "to_be_bytes") and not argx:
            v = self.as_scalar(recv)
            t = self.cty(v)
            n = INT_BITS[t] // 8
            if name == "to_le_bytes" and t in ("u32", "u64"):
                return self.bytes_node("CC.toLe%d {0}" % INT_BITS[t], [v], n)
            if name == "to_be_bytes":
                return self.bytes_node("CC.toBeBytes {0} %d" % n, [v], n)
            raise TErr("%s on %s" % (name, t))
        if name in ("wrapping_add", "wrapping_sub") and len(argx) == 1:
            a = self.as_scalar(recv)
            b = self.ev(argx[0], env, ctx)
            b = self.as_node(b, self.cty(a))
            if self.cty(b) != self.cty(a):
                raise TErr("%s on different types" % name)
            return self.app("{0} %s {1}" % ("+" if name == "wrapping_add" else "-"), [a, b], self.cty(a))
        if name == "overflowing_add" and len(argx) == 1:
            a = self.as_scalar(recv)
            t = self.cty(a)
            ng = len(self.guards)
            b = self.as_node(self.ev(argx[0], env, ctx), t)
            s = self.app("{0} + {1}", [a, b], t)
            c = self.app("decide ({0}.toNat + {1}.toNat ≥ 2 ^ %d)" % INT_BITS[t], [a, b], "bool")
            return ("tup", [s, c])
        if name in ("rotate_left", "rotate_right") and len(argx) == 1:
            a = self.as_scalar(recv)
            r = self.ev(argx[0], env, ctx)
            if is_node(r) and self.cty(r) != "nat":
                raise TErr("rotation by a value that is not an index / literal")
            return self.app("BitVec.%s {0} {1}" % ("rotateLeft" if name == "rotate_left" else "rotateRight"),
                            [a, self.nat_txt(r)], self.cty(a))
        if name == "copy_from_slice" and len(argx) == 1:
            src = self.ev(argx[0], env, ctx)
            self.lv_set(rx, src, env, ctx)
            return ("unit",)
        if is_node(recv) and self.cty(recv) in ("v128", "v256", "v512"):
            return self.vec_method(recv, name, argx, env, ctx, e)
        raise TErr("method `%s` is not understood on this value: %s" % (name, fmt_expr(e)))

    def as_scalar(self, v):
        if is_int(v):
            if v[2] in SCALARS:
                return self.const(v[1], v[2])
            raise TErr("scalar method on an untyped literal")
        if is_node(v) and self.cty(v) in SCALARS:
            return v
        raise TErr("scalar value expected")

    def into(self, v, want):
        if is_node(v) and self.cty(v) == ("list", "u32") and self.fr.shape[v[1]] == (4,):
            v = ("arr", [self.list_get(v, ("int", i, "usize")) for i in range(4)])
        if is_node(v) and self.cty(v) == "v128" and isinstance(want, tuple) and want[0] == "arr" and want[1] == "u32":
            return ("arr", [self.app(t, [v], "u32") for t in LANES32])
        if isinstance(v, tuple) and v and v[0] == "arr" and len(v[1]) == 4 and want in W128:
            return self.coerce(v, want)
        if isinstance(v, tuple) and v and v[0] == "arr" and len(v[1]) == 4 and want is None:
            return ("parr", v)          # `[u32; 4].into()` of undetermined target: resolved by coerce
        if is_node(v) and self.cty(v) in ("v128", "v256", "v512"):
            if want in VEC_WIDTH and carrier(want) == self.cty(v):
                return ("n", v[1], want)
            return ("n", v[1], None)
        raise TErr("`.into()` on this value is not in the trusted table")

    def mach_method(self, name, argx, env, ctx, want):
        if name == "unpack" and len(argx) == 1:
            v = self.ev(argx[0], env, ctx)
            if isinstance(v, tuple) and v and v[0] == "parr":
                v = self.coerce(v[1], "vec128_storage")
            if not (is_node(v) and self.cty(v) in ("v128", "v256", "v512")):
                raise TErr("unpack of a value that is not vector storage")
            if want in VEC_WIDTH and carrier(want) == self.cty(v):
                return ("n", v[1], want)
            return ("n", v[1], None)
        if name == "vec" and len(argx) == 1:
            arr = self.ev(argx[0], env, ctx)
            if not (isinstance(arr, tuple) and arr[0] == "arr"):
                raise TErr("vec: array literal expected")
            return self.make_vec(arr[1], want if want in VEC_WIDTH else None)
        if name == "read_le" and len(argx) == 1:
            b = self.ev(argx[0], env, ctx)
            if want is None or (want, "read_le") not in VEC_LOAD:
                raise TErr("read_le: result type undetermined / not in the trusted table")
            tpl, n = VEC_LOAD[(want, "read_le")]
            bb = self.buf_of(b)
            if bb[1] != n:
                raise TErr("read_le of %d bytes into %s" % (bb[1], want))
            return self.app(tpl, [self.buf_node(bb)], want)
        raise TErr("machine method `%s` is not in the trusted table" % name)

    def vec_method(self, recv, name, argx, env, ctx, e):
        rty = recv[2]
        if rty is None:
            raise TErr("method %s on a vector of undetermined type" % name)
        if (rty, name) in VEC_STORE and len(argx) == 1:
            tpl, n = VEC_STORE[(rty, name)]
            nd = self.bytes_node(tpl, [recv], n)
            self.lv_set(argx[0], nd, env, ctx)
            return ("unit",)
        if name == "to_lanes" and rty in TO_LANES and not argx:
            lt, tpl = TO_LANES[rty]
            t = self.app(tpl, [recv], ("tup", (lt,) * 4))
            return ("arr", [self.app(p, [t], lt) for p in PROJ4])
        for (t, rx, atys, tpl, res) in VEC_METHODS:
            m = re.match("^" + rx + "$", name)
            if t != rty or not m:
                continue
            if len(argx) != len(atys):
                raise TErr("method %s.%s: %d arguments for %d" % (rty, name, len(argx), len(atys)))
            ops = [recv]
            for x, at in zip(argx, atys):
                a = self.ev(x, env, ctx)
                if at == "int":
                    ops.append(str(self.need_int(a)))
                else:
                    a = self.as_node(a, at)
                    if self.cty(a) != at:
                        raise TErr("method %s.%s: argument of type %s expected" % (rty, name, at))
                    ops.append(a)
            t2 = tpl.replace("{n}", m.group(1)) if m.groups() else tpl
            return self.app(t2, ops, res)
        raise TErr("method `%s` on %s is not in the trusted table" % (name, rty))

    # ---- macros, if, blocks
    def ev_macro(self, e, env, ctx, want):
        name, toks = e[1], e[2]
        local = env.macro(name)
        if local is not None:
            out = local.expand(split_args(toks))
            p = P2(out)
            x = p.expr()
            if not p.done():
                raise TErr("local macro %s!: expansion is not one expression" % name)
            return self.ev(x, env, ctx, want)
        if name in ("assert_eq", "debug_assert_eq", "assert", "debug_assert"):
            args = split_args(toks)
            vals = []
            for a in args[:2 if name.endswith("_eq") else 1]:
                p = P2(list(a))
                vals.append(self.ev(p.expr(), env, ctx))
            ok = None
            if name.endswith("_eq") and len(vals) == 2 and is_int(vals[0]) and is_int(vals[1]):
                ok = vals[0][1] == vals[1][1]
            elif len(vals) == 1 and isinstance(vals[0], tuple) and vals[0] and vals[0][0] == "bool":
                ok = vals[0][1]
            if ok is None:
                raise TErr("%s! whose condition is not statically known" % name)
            if not ok:
                raise TErr("%s! fails statically" % name)
            return ("unit",)
        md = ctx.unit.macros.get(name)
        if md is not None:
            md = self.tr.select_macro(ctx.unit, name, self.spec)
            out = md.expand(split_args(toks))
            stmts, tail = P2(out).block_body()
            return self.exec_block(("block", stmts, tail), env, ctx, want, newscope=False)
        raise TErr("macro %s! is not understood" % name)

    def ev_if(self, e, env, ctx, want):
        ng = len(self.guards)
        c = self.ev(e[1], env, ctx)
        if isinstance(c, tuple) and c and c[0] == "bool":
            if c[1]:
                return self.exec_block(e[2], Env(env), ctx, want)
            if e[3] is None:
                return ("unit",)
            return self.exec_block(e[3], Env(env), ctx, want)
        if not (is_node(c) and self.cty(c) == "bool"):
            raise TErr("`if` condition is not a bool")
        # symbolic: both sides on forks, then merge
        base = env
        e1, e2 = base.fork(), base.fork()
        self.pathcond.append((c, True))
        r1 = self.exec_block(e[2], Env(e1), ctx, want)
        self.pathcond.pop()
        self.pathcond.append((c, False))
        r2 = self.exec_block(e[3], Env(e2), ctx, want) if e[3] is not None else ("unit",)
        self.pathcond.pop()
        # merge variables
        for lvl, l1, l2 in zip(base.chain(), e1.chain(), e2.chain()):
            for n in lvl.order:
                a, b = l1.vars[n], l2.vars[n]
                if a is not b and a != b:
                    lvl.vars[n] = self.ite(c, a, b)
        if r1 == ("unit",) and r2 == ("unit",):
            return ("unit",)
        return self.ite(c, r1, r2, whole=True)

    def ite(self, c, a, b, whole=False):
        if a == b:
            return a
        if is_node(a) or is_node(b) or is_int(a) or is_int(b):
            if is_int(a) and is_node(b):
                a = self.lit_for(a, b)
            if is_int(b) and is_node(a):
                b = self.lit_for(b, a)
            if is_int(a) and is_int(b):
                t = a[2] or b[2]
                if t in (None, "usize"):
                    lo, hi = min(a[1], b[1]), max(a[1], b[1])
                    n = self.app("(if {0} then %d else %d)" % (a[1], b[1]), [c], "nat")
                    self.fr.iv[n[1]] = (lo, hi)
                    return n
                a, b = self.const(a[1], t), self.const(b[1], t)
            if not (is_node(a) and is_node(b)) or self.cty(a) != self.cty(b):
                raise TErr("`if` branches of different types")
            n = self.app("(if {0} then {1} else {2})", [c, a, b], a[2] if a[2] is not None else b[2])
            for side in (self.fr.blen, self.fr.shape):
                if a[1] in side:
                    side[n[1]] = side[a[1]]
            if self.cty(a) == "nat":
                (l1, h1), (l2, h2) = self.nat_iv(a), self.nat_iv(b)
                self.fr.iv[n[1]] = (min(l1, l2), max(h1, h2))
            return n
        if a[0] == "tup" and b[0] == "tup" and len(a[1]) == len(b[1]):
            if whole and all(is_node(x) or is_int(x) for x in a[1] + b[1]):
                # a tuple-valued `if`: ONE tuple node (as the Rust writes it), then projections
                xs, ys = [], []
                for x, y in zip(a[1], b[1]):
                    if is_int(x) and is_node(y):
                        x = self.lit_for(x, y)
                    if is_int(y) and is_node(x):
                        y = self.lit_for(y, x)
                    if not (is_node(x) and is_node(y)) or self.cty(x) != self.cty(y):
                        raise TErr("`if` branches of different types")
                    xs.append(x)
                    ys.append(y)
                tys = tuple(self.cty(x) for x in xs)
                k = len(xs)
                tpl = "(if {0} then (%s) else (%s))" % (", ".join("{%d}" % (i + 1) for i in range(k)),
                                                        ", ".join("{%d}" % (i + 1 + k) for i in range(k)))
                t = self.app(tpl, [c] + xs + ys, ("tup", tys))
                return ("tup", [self.app("{0}" + p, [t], ty) for p, ty in zip(projs(k), tys)])
            return ("tup", [self.ite(c, x, y) for x, y in zip(a[1], b[1])])
        if a[0] == "arr" and b[0] == "arr" and len(a[1]) == len(b[1]):
            return ("arr", [self.ite(c, x, y) for x, y in zip(a[1], b[1])])
        if a[0] == "rec" and b[0] == "rec" and a[1] == b[1]:
            return ("rec", a[1], [(f, self.ite(c, x, dict(b[2])[f])) for f, x in a[2]])
        if a[0] == "buf" or b[0] == "buf":
            return self.ite(c, self.buf_node(a), self.buf_node(b))
        raise TErr("`if` branches of different shapes")

    def exec_block(self, blk, env, ctx, want=None, newscope=True):
        stmts, tail = blk[1], blk[2]
        for st in stmts:
            self.exec_stmt(st, env, ctx)
        if tail is None:
            return ("unit",)
        return self.ev(tail, env, ctx, want)

    def exec_stmt(self, st, env, ctx):
        k = st[0]
        if k == "let":
            ty, _ = self.rtype(st[2], ctx) if st[2] is not None else (None, False)
            if st[3] is None:
                raise TErr("`let` without initializer")
            v = self.coerce(self.ev(st[3], env, ctx, ty), ty)
            if isinstance(v, tuple) and v and v[0] == "parr":
                raise TErr("`.into()` of undetermined target type")
            self.bind(st[1], v, env)
        elif k == "const":
            ty, _ = self.rtype(st[2], ctx)
            v = self.ev(st[3], env, ctx, ty)
            env.define(st[1], v)
        elif k == "macrodef":
            env.macros[st[1]] = MacroDef(st[1], st[2])
        elif k == "assign":
            rhs = self.ev(st[3], env, ctx, self.type_hint(st[1], env, ctx))
            if st[2] is not None:
                cur = self.lv_get(st[1], env, ctx)
                rhs = self.shift(st[2], cur, rhs) if st[2] in ("<<", ">>") else self.binop(st[2], cur, rhs)
            self.lv_set(st[1], rhs, env, ctx)
        elif k == "expr":
            v = self.ev(st[1], env, ctx)
        elif k == "for":
            self.exec_for(st, env, ctx)
        else:
            raise TErr("statement form %s" % k)

    def type_hint(self, lv, env, ctx):
        """the vector / storage type of the current value of an lvalue (expected type of the right-hand side)"""
        ng = len(self.guards)
        try:
            cur = self.lv_get(lv, env, ctx)
        except TErr:
            return None
        finally:
            del self.guards[ng:]
        if is_node(cur) and cur[2] in VEC_WIDTH:
            return cur[2]
        if is_node(cur) and self.cty(cur) in SCALARS:
            return self.cty(cur)
        if isinstance(cur, tuple) and cur and cur[0] == "arr" and cur[1] and all(is_node(x) for x in cur[1]):
            t = self.cty(cur[1][0])
            if t in SCALARS:
                return ("arr", t, len(cur[1]))
        return None

    # ---- loops
    def iter_items(self, it, env, ctx):
        """an iterator expression over a sequence of STATIC length -> [item], item = ("val", v) | ("place", lvalue expr)"""
        if it[0] == "paren":
            return self.iter_items(it[1], env, ctx)
        if it[0] == "mcall":
            rx, name, argx = it[1], it[2], it[3]
            if name == "zip" and len(argx) == 1:
                a, b = self.iter_items(rx, env, ctx), self.iter_items(argx[0], env, ctx)
                n = min(len(a), len(b))
                return [("zip", x, y) for x, y in zip(a[:n], b[:n])]
            if name in ("iter_mut", "iter") and not argx:
                return self.iter_items(rx, env, ctx) if name == "iter_mut" else \
                    [("val", self.ev(x[1], env, ctx)) if x[0] == "place" else x for x in self.iter_items(rx, env, ctx)]
            if name in ("chunks_exact", "chunks_exact_mut") and len(argx) == 1:
                k = self.need_int(self.ev(argx[0], env, ctx))
                base = self.ev(rx, env, ctx)
                if not self.is_bytes(base) or k <= 0:
                    raise TErr("%s on something that is not a byte buffer" % name)
                n = self.buf_of(base)[1]
                out = []
                for i in range(n // k):
                    sl = ("index", rx, ("range", ("int", k * i, None), ("int", k * i + k, None), False))
                    out.append(("place", sl) if name.endswith("_mut") else ("val", self.ev(sl, env, ctx)))
                return out
            if name == "enumerate" and not argx:
                return [("zip", ("val", ("int", i, "usize")), x) for i, x in enumerate(self.iter_items(rx, env, ctx))]
        if it[0] == "addr":
            return self.iter_items(it[2], env, ctx)
        v = self.ev(it, env, ctx)
        if isinstance(v, tuple) and v and v[0] == "arr":
            return [("place", ("index", it, ("int", i, None))) for i in range(len(v[1]))]
        if is_node(v) and isinstance(self.cty(v), tuple) and self.cty(v)[0] == "list":
            return [("place", ("index", it, ("int", i, None))) for i in range(self.fr.shape[v[1]][0])]
        raise TErr("iterator expression not understood: %s" % fmt_expr(it))

    def bind_item(self, pat, item, env, ctx):
        if item[0] == "zip":
            if pat[0] != "ptuple" or len(pat[1]) != 2:
                raise TErr("zip item against a pattern that is not a pair")
            self.bind_item(pat[1][0], item[1], env, ctx)
            self.bind_item(pat[1][1], item[2], env, ctx)
        elif item[0] == "val":
            self.bind(pat, item[1], env)
        else:
            if pat[0] != "pid":
                raise TErr("pattern against a place")
            if pat[1] != "_":
                env.define(pat[1], ("place", item[1]))

    def exec_for(self, st, env, ctx):
        pat, it, body = st[1], st[2], st[3]
        head = it
        while head[0] == "paren":
            head = head[1]
        rev = False
        if head[0] == "mcall" and head[2] == "rev" and not head[3]:
            rev = True
            head = head[1]
            while head[0] == "paren":
                head = head[1]
        if head[0] == "range":
            lo = self.ev(head[1], env, ctx) if head[1] is not None else None
            hi = self.ev(head[2], env, ctx) if head[2] is not None else None
            if lo is None or hi is None:
                raise TErr("unbounded range in `for`")
            if not (is_int(lo) and lo[1] == 0):
                raise TErr("`for` range not starting at 0")
            if head[3]:
                hi = self.binop("+", hi, ("int", 1, None)) if is_int(hi) else self.nat_binop("+", hi, ("int", 1, "usize"))
            if is_int(hi) and self.unroll:
                idx = list(range(hi[1]))
                for i in (idx[::-1] if rev else idx):
                    sc = Env(env)
                    self.bind(pat, ("int", i, "usize"), sc)
                    self.exec_block(body, sc, ctx)
                return
            return self.sym_loop(("range", hi, rev), pat, body, env, ctx)
        if rev:
            raise TErr("`.rev()` on an iterator that is not a range")
        # a table (all rows alike): `for row in &TABLE[..n]`
        h2 = head[2] if head[0] == "addr" else head
        try:
            tv = self.ev(h2, env, ctx) if h2[0] in ("path", "index") else None
        except TErr:
            tv = None
        if isinstance(tv, tuple) and tv and tv[0] == "ctab":
            if self.unroll:
                for i in range(len(tv[2])):
                    sc = Env(env)
                    self.bind(pat, self.ctab_get(tv, ("int", i, "usize")), sc)
                    self.exec_block(body, sc, ctx)
                return
            return self.sym_loop(("table", tv), pat, body, env, ctx)
        items = self.iter_items(it, env, ctx)
        for item in items:
            sc = Env(env)
            self.bind_item(pat, item, sc, ctx)
            self.exec_block(body, sc, ctx)

    def assigned_roots(self, node, out):
        """names that a body may assign (syntactic over-approximation: roots of assignment targets, `&mut x`, receivers
        of calls)"""
        if isinstance(node, (list, tuple)):
            if node and node[0] == "assign":
                self.root_of(node[1], out)
            if node and node[0] == "addr" and node[1]:
                self.root_of(node[2], out)
            if node and node[0] == "mcall":
                if node[2] in ("copy_from_slice", "write_le", "write_be", "iter_mut", "chunks_exact_mut"):
                    self.root_of(node[1], out)
                    for a in node[3]:
                        self.root_of(a, out)
                elif node[2] not in ("clone", "into", "len", "iter", "extract", "insert", "wrapping_add", "wrapping_sub",
                                     "rotate_left", "rotate_right", "unpack", "vec", "to_lanes", "to_le_bytes",
                                     "to_be_bytes", "try_into", "unwrap", "zip", "chunks_exact", "fold", "rev") \
                        and not re.match(r"^(rotate_each_word_right\d+|shuffle(_lane_words)?\d+)$", node[2]):
                    self.root_of(node[1], out)        # a user method may take `&mut self`
            if node and node[0] == "macro":
                md = self.tr.cur_unit.macros.get(node[1]) if getattr(self.tr, "cur_unit", None) else None
                if isinstance(md, MacroDef):
                    try:
                        stmts, tail = P2(md.expand(split_args(node[2]))).block_body()
                        self.assigned_roots(stmts, out)
                        if tail is not None:
                            self.assigned_roots(tail, out)
                        return
                    except TErr:
                        pass
                for t in node[2]:
                    if t.k == "id":
                        out.add(t.s)                   # over-approximation: every identifier of a macro argument
                return
            for x in node:
                if isinstance(x, (list, tuple)):
                    self.assigned_roots(x, out)

    def root_of(self, lv, out):
        while lv[0] in ("field", "tfield", "index", "deref", "paren", "addr"):
            lv = lv[-1] if lv[0] in ("deref", "paren", "addr") else lv[1]
        if lv[0] == "path" and len(lv[1]) == 1:
            out.add(lv[1][0])

    def flat(self, v, out):
        if is_node(v):
            out.append(v)
        elif isinstance(v, tuple) and v and v[0] in ("tup", "arr"):
            for x in v[1]:
                self.flat(x, out)
        elif isinstance(v, tuple) and v and v[0] == "rec":
            for _, x in v[2]:
                self.flat(x, out)
        elif isinstance(v, tuple) and v and v[0] == "buf":
            raise TErr("byte buffer with pending stores in a loop state")
        else:
            raise TErr("value in a loop state / result that is not made of nodes (%s)" % (v[0] if isinstance(v, tuple) and v else v))
        return out

    def rebuild(self, v, it):
        if is_node(v):
            return next(it)
        if v[0] in ("tup", "arr"):
            return (v[0], [self.rebuild(x, it) for x in v[1]])
        if v[0] == "rec":
            return ("rec", v[1], [(f, self.rebuild(x, it)) for f, x in v[2]])
        raise TErr("rebuild")

    def listify(self, v):
        """arrays of scalars become ONE list node (so that a loop body can index them symbolically)"""
        if isinstance(v, tuple) and v and v[0] == "arr" and v[1]:
            if all(is_node(x) and self.cty(x) in SCALARS for x in v[1]) or \
                    (all(is_int(x) or (is_node(x) and self.cty(x) in SCALARS) for x in v[1]) and
                     any((is_int(x) and x[2] in SCALARS) or is_node(x) for x in v[1])):
                return self.to_list(v)
            if all(isinstance(x, tuple) and x and x[0] == "arr" for x in v[1]):
                rows = [self.listify(x) for x in v[1]]
                if all(is_node(r) for r in rows):
                    return self.to_list(("arr", rows))
            return ("arr", [self.listify(x) for x in v[1]])
        if isinstance(v, tuple) and v and v[0] == "tup":
            return ("tup", [self.listify(x) for x in v[1]])
        if isinstance(v, tuple) and v and v[0] == "rec":
            return ("rec", v[1], [(f, self.listify(x)) for f, x in v[2]])
        if isinstance(v, tuple) and v and v[0] == "buf":
            return self.buf_node(v)
        return v

    def import_value(self, v, child, parent):
        """a value of the parent frame as seen from the child frame (nodes become captured leaves)"""
        if is_node(v):
            if v[1] not in child.imports:
                nd = child.dag.leaf("cap#%d" % v[1], parent.dag.nodes[v[1]][-1])
                child.imports[v[1]] = nd[1]
                for side_p, side_c in ((parent.iv, child.iv), (parent.blen, child.blen), (parent.shape, child.shape)):
                    if v[1] in side_p:
                        side_c[nd[1]] = side_p[v[1]]
                rv = getattr(self, "rowvals", {})
                if (id(parent), v[1]) in rv:
                    rv[(id(child), nd[1])] = rv[(id(parent), v[1])]
            return ("n", child.imports[v[1]], v[2])
        if isinstance(v, tuple) and v and v[0] in ("tup", "arr"):
            return (v[0], [self.import_value(x, child, parent) for x in v[1]])
        if isinstance(v, tuple) and v and v[0] == "rec":
            return ("rec", v[1], [(f, self.import_value(x, child, parent)) for f, x in v[2]])
        if isinstance(v, tuple) and v and v[0] == "pvec":
            return ("pvec", [self.import_value(x, child, parent) for x in v[1]])
        return v

    def sym_loop(self, kind, pat, body, env, ctx):
        if self.guards and False:
            pass
        parent = self.fr
        roots = set()
        self.assigned_roots(body, roots)
        names = [n for n in env.names() if n in roots]
        # the state: visible variables the body may assign, in declaration order
        state = []
        for n in names:
            v = env.lookup(n)
            if v == ("mach",) or (isinstance(v, tuple) and v and v[0] in ("ctab", "place", "fnref")):
                continue
            v = self.listify(self.concretize(v))
            env.set(n, v)
            state.append((n, v))
        init = []
        for n, v in state:
            self.flat(v, init)
        if not init:
            raise TErr("loop without state")
        # the child frame
        child = Frame(parent)
        cenv = env.fork()
        for lvl in cenv.chain():
            for n in lvl.order:
                v = lvl.vars[n]
                if isinstance(v, tuple) and v and v[0] == "place":
                    continue
                lvl.vars[n] = self.import_value(self.listify(self.concretize(v, soft=True)), child, parent)
        self.fr = child
        snapshot = [dict(lvl.vars) for lvl in cenv.chain()]
        sel = projs(len(init))
        leaves = []
        for i, x in enumerate(init):
            nd = child.dag.leaf("s" + sel[i], parent.dag.nodes[x[1]][-1])
            for side_p, side_c in ((parent.iv, child.iv), (parent.blen, child.blen), (parent.shape, child.shape)):
                if x[1] in side_p:
                    side_c[nd[1]] = side_p[x[1]]
            leaves.append(("n", nd[1], x[2]))
        it = iter(leaves)
        for n, v in state:
            cenv.set(n, self.rebuild(v, it))
        sc = Env(cenv)
        # the loop variable
        var = None
        if kind[0] == "range":
            hi = kind[1]
            if pat != ("pid", "_"):
                if is_int(hi):
                    top = hi[1] - 1
                else:
                    top = self.hi_of(hi, parent) - 1
                var = child.dag.leaf("i", "nat")
                child.iv[var[1]] = (0, max(top, 0))
                self.bind(pat, ("n", var[1], "nat"), sc)
        else:
            tv = kind[1]
            rows = tv[2]
            el = "nat" if tv[3][1][1] == "nat" else {8: "u8", 16: "u16", 32: "u32", 64: "u64"}[tv[3][1][1][1]]
            var = child.dag.leaf("x", ("list", el))
            child.shape[var[1]] = (min(len(r) for r in rows),)
            self.rowvals = getattr(self, "rowvals", {})
            self.rowvals[(id(child), var[1])] = rows
            self.bind(pat, ("n", var[1], None), sc)
        ng = len(self.guards)
        self.exec_block(body, sc, ctx)
        if len(self.guards) != ng:
            raise TErr("a loop body that can panic is outside the language")
        # soundness: every variable the body changed must be part of the loop state (the syntactic scan that chose the
        # state is only a heuristic; this comparison is the check)
        snames = set(n for n, _ in state)
        for lvl, before in zip(cenv.chain(), snapshot):
            for n in lvl.order:
                if n not in snames and n in before and lvl.vars[n] != before[n]:
                    raise TErr("the loop body changes `%s`, which was not recognized as loop state" % n)
        outs = []
        it2 = iter(leaves)
        for n, v in state:
            tmpl = self.rebuild(v, it2)
            nv = self.conform(tmpl, self.listify(self.concretize(cenv.lookup(n))), ("path", [n]))
            self.flat(nv, outs)
        if [child.dag.nodes[o[1]][-1] for o in outs] != [parent.dag.nodes[x[1]][-1] for x in init]:
            raise TErr("the loop body changes the type of its state")
        self.nloops += 1
        lname = "%s_loop%d" % (self.spec["lean"], self.nloops)
        caps = self.tr.emit_loop(self, child, lname, leaves, var, outs, kind)
        self.fr = parent
        # the application in the parent frame
        sty = tuple(parent.dag.nodes[x[1]][-1] for x in init)
        capargs = [("n", pid, None) for pid in caps]
        k0 = len(capargs)
        fn = "%s%s%s" % (lname, " M" if self.spec.get("mach", True) else "", "".join(" {%d}" % i for i in range(k0)))
        tup = "(" + ", ".join("{%d}" % (k0 + 1 + i) for i in range(len(init))) + ")" if len(init) > 1 else "{%d}" % (k0 + 1)
        if kind[0] == "range":
            hi = kind[1]
            if is_node(hi) and self.cty(hi) in SCALARS:
                cnt = "{%d}.toNat" % k0
            else:
                cnt = "{%d}" % k0
            hi_arg = self.nat_txt(hi) if not (is_node(hi) and self.cty(hi) in SCALARS) else hi
            if var is None:
                tpl = "iter (%s) %s %s" % (fn, cnt, tup)
            else:
                rng = "(List.range %s)" % cnt
                if kind[2]:
                    rng = "(List.range %s).reverse" % cnt
                tpl = "List.foldl (%s) %s %s" % (fn, tup, rng)
            args = capargs + [hi_arg] + init
        else:
            tpl = "List.foldl (%s) %s %s" % (fn, tup.replace("{%d}" % (k0 + 1), "{%d}" % (k0 + 1)), kind[1][1])
            # no count argument: shift the state placeholders down by one
            tup2 = "(" + ", ".join("{%d}" % (k0 + i) for i in range(len(init))) + ")" if len(init) > 1 else "{%d}" % k0
            tpl = "List.foldl (%s) %s %s" % (fn, tup2, kind[1][1])
            args = capargs + init
        res = self.app(tpl, args, ("tup", sty) if len(init) > 1 else sty[0])
        if len(init) == 1:
            for side in (parent.blen, parent.shape, parent.iv):
                if init[0][1] in side:
                    side[res[1]] = side[init[0][1]]
            newleaves = [("n", res[1], init[0][2])]
        else:
            newleaves = []
            for p, x in zip(sel, init):
                nd = self.app("{0}" + p, [res], x[2] if x[2] is not None else parent.dag.nodes[x[1]][-1])
                nd = ("n", nd[1], x[2])
                for side in (parent.blen, parent.shape):
                    if x[1] in side:
                        side[nd[1]] = side[x[1]]
                newleaves.append(nd)
        it = iter(newleaves)
        for n, v in state:
            env.set(n, self.rebuild(v, it))

    def hi_of(self, hi, frame):
        if is_int(hi):
            return hi[1]
        t = frame.dag.nodes[hi[1]][-1]
        if t == "nat":
            return frame.iv[hi[1]][1]
        if t in SCALARS:
            return (1 << INT_BITS[t]) - 1
        raise TErr("loop bound of type %s" % (t,))

    def concretize(self, v, soft=False):
        """typed integer literals inside aggregates become constants (so that a loop state is made of nodes)"""
        if is_int(v):
            if v[2] in SCALARS:
                return self.const(v[1], v[2])
            return v
        if isinstance(v, tuple) and v and v[0] in ("tup", "arr"):
            return (v[0], [self.concretize(x, soft) for x in v[1]])
        if isinstance(v, tuple) and v and v[0] == "rec":
            return ("rec", v[1], [(f, self.concretize(x, soft)) for f, x in v[2]])
        return v


# =========================================================================== translator: units, items, printing

class FnItem2(object):
    def __init__(self, name, generics, params, ret, body, impl, pos):
        self.name, self.generics, self.params, self.ret, self.body, self.impl, self.pos = \
            name, generics, params, ret, body, impl, pos


class Translator(object):
    def __init__(self, repo):
        self.repo = repo
        self.units = {}
        self.consts = {}
        self.loops = []          # texts of loop-body definitions, in emission order (per kernel, reset by translate)
        self.registry = {}       # (file, const name) -> (lean name, render)
        for tb in IK.TABLES:
            self.registry[(tb["file"], tb["const"])] = (tb["lean"], tb["render"])

    def unit(self, rel, expand=None, drop=()):
        key = (rel, expand, tuple(drop))
        if key not in self.units:
            try:
                self.units[key] = Unit(self.repo, rel, drop=("#[cfg(target_endian=\"big\")]",) + tuple(drop), expand=expand)
            except TErr as e:
                self.units[key] = e
            except Exception as e:
                self.units[key] = TErr("%s: %s: %s" % (rel, type(e).__name__, e))
        if isinstance(self.units[key], TErr):
            raise self.units[key]
        return self.units[key]

    # ---- items
    def find_fn(self, unit, name, owner=None, optional=False):
        t = unit.toks
        hits = []
        for i in range(len(t) - 1):
            if is_id(t[i], "fn") and is_id(t[i + 1], name) and not unit.in_macro(i):
                im = unit.enclosing_impl(i)
                hits.append((i, im))
        sel = [h for h in hits if (h[1] is not None and h[1][3] == owner)] if owner is not None else []
        if not sel:
            sel = [h for h in hits if h[1] is None]
        where = "%s%s in %s" % (owner + "::" if owner else "", name, unit.rel)
        if not sel:
            for u in unit.siblings:
                f = self.find_fn(u, name, owner, optional=True)
                if f is not None:
                    return f
            if optional:
                return None
            raise TErr("fn %s not found" % where)
        if len(sel) > 1:
            raise TErr("fn %s is defined %d times" % (where, len(sel)))
        i, im = sel[0]
        p = P2(t, i + 2)
        gens = p.generics()
        p.eat_p("(")
        params = []
        while not p.at_p(")"):
            if p.at_p("#"):
                raise TErr("attribute on a parameter of fn %s" % where)
            if p.at_p("&") and (p.at_id("self", 1) or (p.at_id("mut", 1) and p.at_id("self", 2))):
                mut = p.at_id("mut", 1)
                p.i += 3 if mut else 2
                params.append((("self", mut), None))
            elif p.at_id("self") or (p.at_id("mut") and p.at_id("self", 1)):
                p.i += 2 if p.at_id("mut") else 1
                params.append((("self", False), None))
            else:
                pat = p.pattern()
                p.eat_p(":")
                params.append((pat, p.type_()))
            if p.at_p(","):
                p.i += 1
            elif not p.at_p(")"):
                raise TErr("parameter list of fn %s not understood at `%s`" % (where, p.ctx()))
        p.eat_p(")")
        ret = None
        if p.at_p("->"):
            p.i += 1
            ret = p.type_()
        if p.at_id("where"):
            while not p.at_p("{"):
                p.i += 1
        if not p.at_p("{"):
            raise TErr("body of fn %s not found" % where)
        e = match_close(t, p.i)
        f = FnItem2(name, gens, params, ret, (p.i + 1, e - 1), im, i)
        f.unit = unit
        return f

    def fn_ctx(self, f):
        g = {}
        if f.impl is not None:
            for name, b in f.impl[2]:
                g[name] = b
        for name, b in f.generics:
            g[name] = b
        ctx = Ctx(f.unit, g, f.impl[3] if f.impl else None)
        d = f.unit.enclosing_dispatch(f.pos)
        ctx.machvar = None
        if d is not None:
            ctx.generics[d[3]] = "Machine"
            ctx.machvar = d[2]
        return ctx

    def const_value(self, unit, name):
        key = ("C", unit.rel, id(unit))
        if key not in self.consts:
            self.consts[key] = IK.Consts(unit)
        C = self.consts[key]
        src_rel, CC = unit.rel, C
        if name not in C.items:
            # constants of the sibling files registered in TABLES (`use consts::{..}`)
            cands = [(f, c) for (f, c) in self.registry if c == name and f.split("/")[:2] == unit.rel.split("/")[:2]]
            if len(cands) != 1:
                return None
            src_rel = cands[0][0]
            k2 = ("C", src_rel)
            if k2 not in self.consts:
                self.consts[k2] = IK.Consts(IK.Source(self.repo, src_rel))
            CC = self.consts[k2]
        v = CC.value(name)
        ty = CC.const_type(name)
        if isinstance(v, int):
            t = ty[1][0]
            return ("int", v, t)
        reg = self.registry.get((src_rel, name))
        if reg is None:
            # a local alias of a registered table (`const U: [u32; 16] = BLAKE256_U;`)
            _, et = CC.lookup(name)
            if len(et) == 1 and et[0].k == "id":
                return self.const_value(unit, et[0].s)
            raise TErr("table %s is not one of the generated tables" % name)
        lean, render = reg
        if render == "bytes":
            raise TErr("byte table %s used in code" % name)
        return ("ctab", lean, [list(x) if isinstance(x, (list, bytes)) else x for x in v], render)

    def select_macro(self, unit, name, spec):
        return unit.macro(name)

    # ---- printing
    def order_of(self, frame, outs):
        order, seen = [], set()
        caps = []

        def visit(i):
            if i in seen:
                return
            seen.add(i)
            nd = frame.dag.nodes[i]
            if nd[0] == "app":
                for a in nd[2]:
                    if isinstance(a, int):
                        visit(a)
                order.append(i)
            elif nd[1].startswith("cap#"):
                caps.append(i)
        for o in outs:
            visit(o[1])
        return order, caps

    def body_lines(self, frame, outs, rename, extra=()):
        order, caps = self.order_of(frame, list(outs) + list(extra))
        tname = {}
        for i in order:
            tname[i] = "t%d" % (len(tname) + 1)

        def ref(a):
            if isinstance(a, str):
                return a
            nd = frame.dag.nodes[a]
            if nd[0] == "leaf":
                return rename.get(a, nd[1])
            return tname[a]
        L = []
        for i in order:
            nd = frame.dag.nodes[i]
            L.append("  let %s := %s" % (tname[i], nd[1].format(*[ref(a) for a in nd[2]])))
        res = ", ".join(ref(o[1]) for o in outs)
        return L, ("(%s)" % res if len(outs) > 1 else res), ref

    def emit_loop(self, code, child, lname, leaves, var, outs, kind):
        """print the loop-body definition; -> parent node ids of the captured values, in parameter order"""
        order, caps = self.order_of(child, outs)
        rename = {}
        inv = dict((v, k) for k, v in child.imports.items())
        for j, c in enumerate(caps):
            rename[c] = "c%d" % (j + 1)
        if var is not None:
            rename[var[1]] = "i" if kind[0] == "range" else "x"
        L, res, _ = self.body_lines(child, outs, rename)
        sty = " × ".join(lean_ty(child.dag.nodes[x[1]][-1]) for x in leaves)
        sig = "(M : Mach) " if code.spec.get("mach", True) else ""
        for c in caps:
            sig += "(%s : %s) " % (rename[c], lean_ty(child.dag.nodes[c][-1]))
        sig += "(s : %s)" % sty
        if var is not None:
            sig += " (%s : %s)" % (rename[var[1]], lean_ty(child.dag.nodes[var[1]][-1]))
        what = "body of loop %d of %s" % (code.nloops, code.spec["lean"])
        txt = ["/-- %s -/" % what, "def %s %s :" % (lname, sig), "    %s :=" % sty] + L + ["  " + res]
        self.loops.append("\n".join(txt))
        return [inv[c] for c in caps]

    def translate(self, spec):
        """-> text of the definition(s) for one kernel spec"""
        self.loops = []
        unit = self.unit(spec["file"], spec.get("expand"), spec.get("drop", ()))
        self.cur_unit = unit
        unit.siblings = [self.unit(r) for r in spec.get("with", ())]
        f = self.find_fn(unit, spec["fn"], spec.get("impl"))
        code = Code(self, spec)
        ctx = self.fn_ctx(f)
        env = Env()
        if ctx.machvar:
            env.define(ctx.machvar, ("mach",))
        leaves, muts = [], []
        for pat, ty in f.params:
            if pat[0] == "self":
                v = code.fresh(("rec", ctx.selfname, []), "self", leaves, ctx)
                env.define("self", v)
                if pat[1]:
                    muts.append("self")
                continue
            t, mut = code.rtype(ty, ctx)
            if pat[0] != "pid":
                if not (isinstance(t, tuple) and t[0] == "tup" and pat[0] == "ptuple" and len(pat[1]) == len(t[1])
                        and all(q[0] == "pid" for q in pat[1])):
                    raise TErr("parameter pattern not understood")
                v = ("tup", [code.fresh(tt, q[1], leaves, ctx) for q, tt in zip(pat[1], t[1])])
                code.bind(pat, v, env)
                continue
            v = code.fresh(t, pat[1], leaves, ctx)
            env.define(pat[1], v)
            if mut:
                muts.append(pat[1])
        initial = dict((n, env.lookup(n)) for n in muts)
        rt, _ = code.rtype(f.ret, ctx) if f.ret is not None else (None, False)
        a, b = f.body
        stmts, tail = P2(unit.toks, a, b).block_body()
        r = code.coerce(code.exec_block(("block", stmts, tail), env, ctx, rt), rt)
        results, names = [], []
        if r != ("unit",):
            results.append(r)
            names.append("result")
        unchanged = []
        for n in muts:
            fin = env.lookup(n)
            if fin == initial[n]:
                unchanged.append(n)
            else:
                results.append(fin)
                names.append(n)
        outs = []
        for v in results:
            self.flat_out(code, v, outs)
        if not outs:
            raise TErr("the function has no result and changes nothing")
        # text
        extra = []
        for (pcs, g, msg, dbg) in code.guards:
            extra += [c for c, _pol in pcs] + [g]
        L, res, ref = self.body_lines(code.fr, outs, {}, extra)
        params, cur = [], None
        for n, t in leaves:
            lt = lean_ty(carrier(t) if isinstance(t, str) else t)
            if cur is not None and cur[1] == lt:
                cur[0].append(n)
            else:
                cur = ([n], lt)
                params.append(cur)
        sig = " ".join("(%s : %s)" % (" ".join(ns), lt) for ns, lt in params)
        rty = " × ".join(lean_ty(code.fr.dag.nodes[o[1]][-1]) for o in outs)
        head = "def %s %s%s%s :" % (spec["lean"], "(M : Mach) " if spec.get("mach", True) else "",
                                    "(p : Profile) " if code.uses_profile else "", sig)
        if code.guards or spec.get("out"):
            txt = [head, "    Out (%s) :=" % rty] + L
            for (pcs, g, msg, dbg) in code.guards:
                conds = (["p = .debug"] if dbg else [])
                for (c, pol) in pcs:
                    conds.append("%s = %s" % (ref(c[1]), "true" if pol else "false"))
                conds.append("%s = false" % ref(g[1]))
                txt.append("  if %s then .panic %s else" % (" ∧ ".join(conds), IK._lean_str(msg)))
            txt.append("  .ok %s" % res)
        else:
            txt = [head, "    %s :=" % rty] + L + ["  " + res]
        doc = "result: %s" % ", ".join(names)
        if unchanged:
            doc += "; unchanged `&mut` parameters (not returned): %s" % ", ".join(unchanged)
        # phase 3 (kept calls of this definition) needs its signature
        self.last = dict(spec=spec, code=code, f=f, ctx=ctx, leaves=leaves, results=results, names=names, outs=outs)
        return self.loops + ["\n".join(txt)], doc

    def ref_of(self, code, v, outs, L):
        raise TErr("guards: not yet supported in this position")

    def flat_out(self, code, v, outs):
        if is_node(v):
            outs.append(v)
        elif isinstance(v, tuple) and v and v[0] == "buf":
            outs.append(code.buf_node(v))
        elif isinstance(v, tuple) and v and v[0] == "arr" and v[1] and all(is_node(x) and code.cty(x) in SCALARS or is_int(x) for x in v[1]):
            outs.append(code.to_list(v))
        elif isinstance(v, tuple) and v and v[0] == "arr" and v[1] and all(
                isinstance(r, tuple) and r and r[0] == "arr" and r[1] and
                all(is_node(x) and code.cty(x) in SCALARS or is_int(x) for x in r[1]) for r in v[1]):
            outs.append(code.to_list(("arr", [code.concretize(r) for r in v[1]])))
        elif isinstance(v, tuple) and v and v[0] in ("tup", "arr"):
            for x in v[1]:
                self.flat_out(code, x, outs)
        elif isinstance(v, tuple) and v and v[0] == "rec":
            for _, x in v[2]:
                self.flat_out(code, x, outs)
        elif is_int(v) and v[2] in SCALARS:
            outs.append(code.const(v[1], v[2]))
        else:
            raise TErr("result contains a value that cannot be returned (%s)" % (v[0] if isinstance(v, tuple) and v else v))
