#!/usr/bin/env python3
"""tools/inventory_simdeq.py — translator for the EQUALITY implementations of ppv-lite86 (the one family
`tools/inventory_simdx86.py` lists in its `skipped_rows`) and the derived `PartialEq` of the ChaCha state.

    x86_64/sse2.rs   eq128_s2, eq128_s4, `impl PartialEq for u32x4_sse2 / u64x2_sse2 / x2<W, G>`
    x86_64/mod.rs    `impl PartialEq for vec128_storage / vec256_storage / vec512_storage`
    generic.rs       `#[derive(PartialEq)]` on u32x4_generic / u64x2_generic / u128x1_generic / vec256_storage /
                     vec512_storage (the hand-written `vec128_storage::eq` is translated by inventory_simdport.py)
    soft.rs          the derive lists of x2 / x4 (no PartialEq there)
    chacha/guts.rs   `#[derive(PartialEq)]` on `ChaCha` and `State<V>`

-> lean/CC/Gen/SimdEqSrc.lean (definitions only).  The x86 bodies are evaluated with the symbolic evaluator of
inventory_simdx86.py (imported; extended here by `==`, `!=`, `&&`, `||`, `!` on booleans and the two compare
intrinsics), per concrete vector type of every `Machine` and per (S3, S4) flag combination, into a hash-consed
dataflow graph: renamed locals, extra temporaries and reformatting regenerate a byte-identical file; a changed
operator, operand, intrinsic, immediate, lane index or a dropped conjunct changes it.  Anything not understood is a
translation error (`simdeq_errors`, obligation `= []`).  Standard library only, deterministic."""
import os
import re
import sys

_HERE = os.path.dirname(os.path.abspath(__file__))
if _HERE not in sys.path:
    sys.path.insert(0, _HERE)
import inventory_kernels as K          # noqa: E402
import inventory_simdx86 as X          # noqa: E402
import inventory_simdport as SP        # noqa: E402

TErr = K.TErr
_LEAN = os.path.join(os.path.dirname(_HERE), "lean")
DEFAULT_OUT = os.path.join(_LEAN, "CC", "Gen", "SimdEqSrc.lean")
GENERIC = "utils-simd/ppv-lite86/src/generic.rs"
SOFT = "utils-simd/ppv-lite86/src/soft.rs"
GUTS = "stream-ciphers/chacha/src/guts.rs"

# the compare intrinsics (models in lean/CC/X86/Intrin.lean; validated against the CPU by the `intrin` ops)
EQ_INTRIN = {
    "_mm_cmpeq_epi8": ("m128 m128", "__m128i"), "_mm_cmpeq_epi16": ("m128 m128", "__m128i"),
    "_mm_cmpeq_epi32": ("m128 m128", "__m128i"), "_mm_cmpeq_epi64": ("m128 m128", "__m128i"),
    "_mm_movemask_epi8": ("m128", "i32"),
}
EQ_LV = [["||"], ["&&"], ["==", "!="]]

# every concrete vector type a `Machine` of x86_64/mod.rs can name, and the three storage unions
X86_TYPES = ["u32x4_sse2", "u64x2_sse2", "u128x1_sse2", "u32x4x2_sse2", "u64x2x2_sse2", "u64x4_sse2", "u128x2_sse2",
             "u32x4x4_sse2", "u64x2x4_sse2", "u128x4_sse2", "u32x4x2_avx2", "u32x4x4_avx2",
             "vec128_storage", "vec256_storage", "vec512_storage"]

TRUSTED = """\
  TRUSTED READING TABLE (in addition to the table of CC.Gen.SimdX86Src, whose evaluator is reused)
    `a == b`      on `uN` / `iN` values ↦ `a == b` (BEq of BitVec N); an integer literal operand is given the other operand's
                  type (`-1` of type i64 ↦ 0xffffffffffffffff#64); on arrays `[T; k]` ↦ the conjunction of the element
                  comparisons in index order (core's `impl PartialEq for [T; N]`); on a struct / union value ↦ the inlined body
                  of the UNIQUE `fn eq` whose impl header matches the operand type under the flags (none: the type has no
                  `PartialEq`, listed in `eq_missing_rows`); on `__m128i` / `__m256i` ↦ error (no `PartialEq` in core::arch)
    `a != b`      ↦ `!(a == b)`;   `p && q` ↦ `p && q`, `p || q` ↦ `p || q`, `!p` ↦ `!p` on `bool` (both operands are pure)
    intrinsics    `_mm_cmpeq_epi8/16/32/64`, `_mm_movemask_epi8` ↦ CC.X86.<name>
    per type      every definition `<type>[_flags]_eq` is the `==` of that concrete Rust type, evaluated under each
                  (S3, S4) ∈ {YesS3, NoS3} × {YesS4, NoS4}; the name carries the flags an impl header consulted (none: one definition);
                  `<Machine>_<assoc>[_flags]_eq` is the `==` of the type `impl Machine for <Machine>` gives `type <assoc>`
                  (`eq_machine_rows`); for GenericMachine the associated type (aliases expanded) is a struct with a derived
                  `PartialEq`, or an `x2<..>` / `x4<..>`, which has none in a build without the x86 module
    derive        `#[derive(PartialEq)]` on a struct ↦ the conjunction, in declaration order, of `==` on the fields (the documented
                  expansion of the built-in derive; ASSUMED, rustc's expansion is not read); a field `[uN; k]` ↦ element comparisons
                  of the N-bit words of the carrier (little endian), `[vec128_storage; k]` in generic.rs ↦
                  CC.Gen.SimdPortSrc.vec128_storage_eq on the 128-bit parts, a field of type `vec128_storage` / of the
                  struct's type parameter ↦ the parameter `veq`; a struct WITHOUT the derive has no definition (`derive_rows` lists
                  every struct's derive list, so adding or dropping one changes the file)
"""


class BoolV(object):
    def __init__(self, node):
        self.ty, self.node = X.T("bool"), node


class EqEval(X.Eval):
    """inventory_simdx86.Eval + booleans"""

    def intrinsic(self, name, argvals):
        if name in EQ_INTRIN and name not in X.INTRIN:
            X.INTRIN[name] = EQ_INTRIN[name]
            try:
                return X.Eval.intrinsic(self, name, argvals)
            finally:
                del X.INTRIN[name]
        return X.Eval.intrinsic(self, name, argvals)

    def ev_call(self, segs, args, env, expected, selfty):
        if len(segs) == 1 and segs[0] in EQ_INTRIN:
            return self.intrinsic(segs[0], [self.ev(a, env, None, selfty) for a in args])
        return X.Eval.ev_call(self, segs, args, env, expected, selfty)

    def carrier(self, v):
        if isinstance(v, BoolV):
            return v.node
        return X.Eval.carrier(self, v)

    def eq_vals(self, a, b):
        if isinstance(a, X.IntC) and isinstance(b, X.IntC):
            return BoolV(self.dag.lit("true" if a.val == b.val else "false"))
        if isinstance(b, X.V) and isinstance(a, X.IntC):
            a = X.V(b.ty, self.lit(b.ty[1], self.coerce_int(a, b.ty).val)) if b.ty[1] in X.INT_BITS else a
        if isinstance(a, X.V):
            if a.ty[1] not in X.INT_BITS:
                raise TErr("`==` on %s: core::arch vectors have no PartialEq" % X.tstr(a.ty))
            if isinstance(b, X.IntC):
                b = X.V(a.ty, self.lit(a.ty[1], self.coerce_int(b, a.ty).val))
            if not (isinstance(b, X.V) and b.ty == a.ty):
                raise TErr("`==` on operands of types %s, %s" % (X.tstr(a.ty), X.tstr(getattr(b, "ty", None))))
            return BoolV(self.dag.app("{0} == {1}", a.node, b.node))
        if isinstance(a, BoolV) and isinstance(b, BoolV):
            return BoolV(self.dag.app("{0} == {1}", a.node, b.node))
        if isinstance(a, X.ArrV) and isinstance(b, X.ArrV):
            if len(a.items) != len(b.items) or not a.items:
                raise TErr("`==` on arrays of different (or zero) length")
            parts = [self.eq_vals(x, y) for x, y in zip(a.items, b.items)]
            acc = parts[0]
            for p in parts[1:]:
                acc = BoolV(self.dag.app("{0} && {1}", acc.node, p.node))
            return acc
        if isinstance(a, (X.StructV, X.UnionV)) and isinstance(b, (X.StructV, X.UnionV)):
            im, f, sub = self.resolve(a.ty, "eq", [b])
            r = self.call_fn(im, f, sub, a, [b])
            if not isinstance(r, BoolV):
                raise TErr("`eq` of %s does not return a bool" % X.tstr(a.ty))
            return r
        raise TErr("`==` on values of kind %s, %s" % (type(a).__name__, type(b).__name__))

    def ev(self, e, env, expected, selfty):
        k = e[0]
        if k == "bin" and e[1] in ("==", "!=", "&&", "||"):
            a = self.ev(e[2], env, None, selfty)
            b = self.ev(e[3], env, None, selfty)
            if e[1] in ("&&", "||"):
                if not (isinstance(a, BoolV) and isinstance(b, BoolV)):
                    raise TErr("`%s` on non-boolean operands" % e[1])
                return BoolV(self.dag.app("{0} %s {1}" % e[1], a.node, b.node))
            r = self.eq_vals(a, b)
            return r if e[1] == "==" else BoolV(self.dag.app("!{0}", r.node))
        if k == "un" and e[1] == "!":
            v = self.ev(e[2], env, None, selfty)
            if isinstance(v, BoolV):
                return BoolV(self.dag.app("!{0}", v.node))
            if isinstance(v, X.StructV):
                im, f, sub = self.resolve(v.ty, "not", [])
                return self.call_fn(im, f, sub, v, [])
            raise TErr("unary `!` on %s" % X.tstr(getattr(v, "ty", None)))
        if k == "path" and len(e[1]) == 1 and e[1][0] in ("true", "false") and not env.has(e[1][0]):
            return BoolV(self.dag.lit(e[1][0]))
        return X.Eval.ev(self, e, env, expected, selfty)


class Def(object):
    def __init__(self, name, doc, text=None, error=None):
        self.name, self.doc, self.text, self.error = name, doc, text, error


def _deftext(name, binders, ev, root):
    lines, res = X.render(ev.dag, root)
    return "def %s %s: Bool :=%s\n" % (name, "".join("(%s : %s) " % b for b in binders), X.fun_text(binders, lines, res, "Bool", False))


NO_IMPL = "no impl provides `eq`"


def x86_part(repo, defs, errors):
    """-> (provided rows, missing rows, machine rows)"""
    old_lv = X.XP.LV
    X.XP.LV = EQ_LV + [lv for lv in old_lv if lv not in EQ_LV]
    try:
        items = X.Items()
        for rel in X.FILES:
            try:
                items.load(repo, rel)
            except TErr as ex:
                errors.append("%s: %s" % (rel, ex))
        errors.extend(items.errors)
        types = X.Types(items)
        # --- the free comparison functions
        for fname in sorted(n for n in items.free if n.startswith("eq")):
            f = items.free[fname]
            doc = "sse2.rs: fn %s" % fname
            try:
                ev = EqEval(items, types, {"S3": "YesS3", "S4": "YesS4", "NI": "NoNI"})
                binders, argvals = [], []
                for j, (pat, pty) in enumerate(f.params):
                    pt = types.norm(pty, {}, None)
                    argvals.append(ev.from_carrier(pt, ev.dag.leaf("a%d" % j)))
                    binders.append(("a%d" % j, types.lean(pt)))
                out = ev.call_fn(None, f, {}, None, argvals)
                if not isinstance(out, BoolV):
                    raise TErr("the result is not a bool")
                defs.append(Def(fname, doc, _deftext(fname, binders, ev, out.node)))
            except (TErr, X.Diverge) as ex:
                errors.append("%s: %s" % (doc, ex))
                defs.append(Def(fname, doc, error="%s: %s" % (doc, ex)))
        # --- `==` of every concrete type
        provided, missing, seen = [], [], {}
        combos = [{"S3": a, "S4": b, "NI": "NoNI"} for a in X.FLAGVALS["S3"] for b in X.FLAGVALS["S4"]]
        for tname in X86_TYPES:
            if tname not in items.structs and tname not in items.aliases:
                errors.append("type %s is not declared in x86_64/{mod,sse2}.rs" % tname)
                continue
            for flags in combos:
                doc = "`==` of %s" % tname
                try:
                    ev = EqEval(items, types, flags)
                    ty = ev.flag_args(tname)
                    ev.consulted = set()
                    a = ev.from_carrier(ty, ev.dag.leaf("a0"))
                    b = ev.from_carrier(ty, ev.dag.leaf("a1"))
                    try:
                        im, f, sub = ev.resolve(ty, "eq", [b])
                        out = ev.call_fn(im, f, sub, a, [b])
                    except TErr as ex:
                        if str(ex).startswith(NO_IMPL):
                            if tname not in missing:
                                missing.append(tname)
                            continue
                        raise
                    if not isinstance(out, BoolV):
                        raise TErr("`eq` does not return a bool")
                    if "NI" in ev.consulted:
                        raise TErr("an impl header is specialised on NI")
                    fl = "_".join(flags[kd] for kd in ("S3", "S4") if kd in ev.consulted)
                    name = "_".join(x for x in (tname, fl, "eq") if x)
                    lty = types.lean(ty)
                    text = _deftext(name, [("a0", lty), ("a1", lty)], ev, out.node)
                    if name in seen:
                        if seen[name] != text:
                            raise TErr("internal: two evaluations named %s differ" % name)
                        continue
                    seen[name] = text
                    defs.append(Def(name, "%s (impl `%s`)" % (doc, X.toks_flat(im.header)), text))
                    provided.append((tname, name, X.toks_flat(im.header)))
                except (TErr, X.Diverge) as ex:
                    msg = "%s under <%s, %s>: %s" % (doc, flags["S3"], flags["S4"], ex)
                    if msg not in errors:
                        errors.append(msg)
            if tname in missing and any(p[0] == tname for p in provided):
                errors.append("%s has `PartialEq` under some flags only" % tname)
        # --- `==` of the associated vector types of every `impl Machine` (what `<M as Machine>::u32x4x2 == ..` runs)
        mrows = []
        for im in items.impls:
            trait = im.trait[1][-1] if im.trait is not None and im.trait[0] == "path" else None
            if trait != "Machine":
                continue
            mname = im.selfty[1][-1] if im.selfty[0] == "path" else "?"
            for an, aty in im.assoc:
                names = []
                for flags in combos:
                    doc = "`==` of <%s as Machine>::%s" % (mname, an)
                    try:
                        ev = EqEval(items, types, flags)
                        ty = types.norm(aty, dict((g, X.T(flags[g]) if g in X.FLAGVALS else X.T(g)) for g in im.gens))
                        ev.consulted = set()
                        a = ev.from_carrier(ty, ev.dag.leaf("a0"))
                        b = ev.from_carrier(ty, ev.dag.leaf("a1"))
                        try:
                            im2, f, sub = ev.resolve(ty, "eq", [b])
                            out = ev.call_fn(im2, f, sub, a, [b])
                        except TErr as ex:
                            if str(ex).startswith(NO_IMPL):
                                names.append("")
                                continue
                            raise
                        if not isinstance(out, BoolV):
                            raise TErr("`eq` does not return a bool")
                        fl = "_".join(flags[kd] for kd in ("S3", "S4") if kd in ev.consulted)
                        name = "_".join(x for x in (mname, an, fl, "eq") if x)
                        lty = types.lean(ty)
                        text = _deftext(name, [("a0", lty), ("a1", lty)], ev, out.node)
                        names.append(name)
                        if name in seen:
                            if seen[name] != text:
                                raise TErr("internal: two evaluations named %s differ" % name)
                            continue
                        seen[name] = text
                        defs.append(Def(name, "%s = %s (impl `%s`)" % (doc, X.tstr(ty).split("<")[0] if ty[1] not in ("x2", "x4") else X.mangle(ty), X.toks_flat(im2.header)), text))
                    except (TErr, X.Diverge) as ex:
                        msg = "%s under <%s, %s>: %s" % (doc, flags["S3"], flags["S4"], ex)
                        if msg not in errors:
                            errors.append(msg)
                uniq = sorted(set(names))
                if len(uniq) > 1 and "" in uniq:
                    errors.append("<%s as Machine>::%s has `PartialEq` under some flags only" % (mname, an))
                mrows.append((mname, an, [n for n in uniq]))
        return provided, missing, mrows
    finally:
        X.XP.LV = old_lv


# =========================================================================== derives

def derive_scan(repo, rel):
    """[(struct name, kind, generics, [(field, type text)], sorted derive list)] in source order; cfg(test) items dropped"""
    path = os.path.join(repo, rel)
    if not os.path.exists(path):
        raise TErr("source file %s not found" % rel)
    toks = K.drop_cfg_test(K.lex(open(path, encoding="utf-8", errors="replace").read()))
    out, pending, i = [], [], 0
    n = len(toks)
    while i < n:
        t = toks[i]
        if t.k == "p" and t.s == "#" and i + 1 < n and toks[i + 1].s == "[":
            e = K.skip_attr(toks, i)
            inner = toks[i + 2:e - 1]
            if inner and inner[0].s == "derive":
                pending += [x.s for x in inner[2:-1] if x.k != "p"]
            i = e
            continue
        if t.k == "id" and t.s in ("struct", "union") and i + 1 < n and toks[i + 1].k == "id":
            name = toks[i + 1].s
            j = i + 2
            gens = []
            if toks[j].s == "<":
                depth = 0
                while True:
                    if toks[j].s == "<":
                        depth += 1
                    elif toks[j].s == ">":
                        depth -= 1
                        if depth == 0:
                            j += 1
                            break
                    elif depth == 1 and toks[j].k == "id" and toks[j - 1].s in ("<", ","):
                        gens.append(toks[j].s)
                    j += 1
            fields = []
            if toks[j].s in ("(", "{"):
                tup = toks[j].s == "("
                e = X.match_close(toks, j) if hasattr(X, "match_close") else K.match_close(toks, j)
                body = toks[j + 1:e - 1]
                parts, cur, depth = [], [], 0
                for x in body:
                    if x.s in ("(", "[", "<", "{"):
                        depth += 1
                    elif x.s in (")", "]", ">", "}"):
                        depth -= 1
                    if x.s == "," and depth == 0:
                        parts.append(cur)
                        cur = []
                    else:
                        cur.append(x)
                if cur:
                    parts.append(cur)
                for k, p in enumerate(parts):
                    while p and p[0].s == "#":
                        p = p[K.skip_attr(p, 0):]
                    if p and p[0].s == "pub":
                        p = p[1:]
                        if p and p[0].s == "(":
                            p = p[X.match_close(p, 0) if hasattr(X, "match_close") else K.match_close(p, 0):]
                    if not p:
                        continue
                    if tup:
                        fields.append((str(k), " ".join(x.s for x in p)))
                    else:
                        fields.append((p[0].s, " ".join(x.s for x in p[2:])))
            out.append((name, t.s, gens, fields, sorted(pending)))
            pending = []
            i = j
            continue
        if t.k == "id" and t.s in ("fn", "impl", "enum", "trait", "type", "mod", "const", "static", "use"):
            pending = []
        i += 1
    return out


_ARR = re.compile(r"^\[ (\w+) ; (\d+) \]$")
_INT = {"u8": 8, "u16": 16, "u32": 32, "u64": 64, "u128": 128}
_STOR = {"vec128_storage": 128, "vec256_storage": 256, "vec512_storage": 512}


def derived_eq(tag, name, gens, fields, port):
    """Lean text of the derived `eq` of one struct.  port: fields are parts of a BitVec carrier (generic.rs);
    otherwise the struct is a tuple of fields compared by the parameter `veq`"""
    if not port:
        if len(fields) < 2:
            raise TErr("struct %s: at least two fields expected" % name)
        for f, ty in fields:
            if not (ty in gens or ty == "vec128_storage"):
                raise TErr("struct %s: field %s of type %s is neither the type parameter nor vec128_storage" % (name, f, ty))
        if len(set(ty for _, ty in fields)) != 1:
            raise TErr("struct %s: fields of different types" % name)
        n = len(fields)

        def proj(v, k):
            if k == n - 1:
                return v + "".join(".2" for _ in range(k))
            return v + "".join(".2" for _ in range(k)) + ".1"
        el = "BitVec 128" if fields[0][1] == "vec128_storage" else "α"
        tup = " × ".join([el] * n)
        body = " && ".join("veq %s %s" % (proj("a0", k), proj("a1", k)) for k in range(n))
        head = "def %s_%s_eq %s(veq : %s → %s → Bool) (a0 a1 : %s) : Bool :=\n  " % (
            tag, name, "{α : Type} " if el == "α" else "", el, el, tup)
        return "%s_%s_eq" % (tag, name), head + body + "\n"
    off, conj = 0, []
    for f, ty in fields:
        m = _ARR.match(ty)
        if not m:
            raise TErr("struct %s: field %s of type `%s` is not an array" % (name, f, ty))
        el, cnt = m.group(1), int(m.group(2))
        if el in _INT:
            w = _INT[el]
            for i in range(cnt):
                conj.append("a0.extractLsb' %d %d == a1.extractLsb' %d %d" % (off, w, off, w))
                off += w
        elif el == "vec128_storage":
            for i in range(cnt):
                conj.append("CC.Gen.SimdPortSrc.vec128_storage_eq (a0.extractLsb' %d 128) (a1.extractLsb' %d 128)" % (off, off))
                off += 128
        else:
            raise TErr("struct %s: array of `%s`" % (name, el))
    if off not in (128, 256, 512):
        raise TErr("struct %s: %d bits" % (name, off))
    head = "def %s_%s_eq (a0 a1 : BitVec %d) : Bool :=\n  " % (tag, name, off)
    return "%s_%s_eq" % (tag, name), head + " && ".join("(%s)" % c if "==" in c else c for c in conj) + "\n"


def derive_part(repo, defs, errors):
    rows = []
    for tag, rel, port in (("generic", GENERIC, True), ("soft", SOFT, None), ("guts", GUTS, False)):
        try:
            scan = derive_scan(repo, rel)
        except TErr as ex:
            errors.append("%s: %s" % (rel, ex))
            continue
        for name, kind, gens, fields, ders in scan:
            rows.append((tag, name, kind, ders))
            if "PartialEq" not in ders:
                continue
            doc = "%s: #[derive(PartialEq)] %s %s" % (os.path.basename(rel), kind, name)
            try:
                if port is None:
                    raise TErr("a derived PartialEq in soft.rs is not modelled (x2's impl lives in x86_64/sse2.rs)")
                if kind != "struct":
                    raise TErr("derive on a %s" % kind)
                dn, text = derived_eq(tag, name, gens, fields, port)
                defs.append(Def(dn, doc, text))
            except TErr as ex:
                errors.append("%s: %s" % (doc, ex))
    # a hand-written PartialEq in generic.rs / guts.rs other than vec128_storage's (translated by inventory_simdport) is an error
    for tag, rel in (("generic", GENERIC), ("soft", SOFT), ("guts", GUTS)):
        try:
            toks = K.drop_cfg_test(K.lex(open(os.path.join(repo, rel), encoding="utf-8", errors="replace").read()))
        except (OSError, TErr):
            continue
        for i, t in enumerate(toks):
            if t.k == "id" and t.s == "PartialEq" and i > 0 and toks[i - 1].s != "," and toks[i - 1].s != "(":
                j = i
                while j > 0 and toks[j].s not in ("impl", ";", "}", "{"):
                    j -= 1
                if toks[j].s != "impl":
                    continue
                k = i
                while toks[k].s != "{":
                    k += 1
                hdr = " ".join(x.s for x in toks[j:k])
                if not (tag == "generic" and re.search(r"for vec128_storage$", hdr)):
                    errors.append("%s: hand-written `%s` is not translated here" % (os.path.basename(rel), X.toks_flat(hdr)))
    return rows


# =========================================================================== output

def generic_machine_rows(repo, derive_rows, errors):
    """(machine, associated type, [definition of its `==`] or [""]) for `impl Machine for GenericMachine`: the associated type
    (aliases expanded) is a struct of generic.rs with a derived PartialEq, or an `x2<..>` / `x4<..>` of soft.rs — no
    `PartialEq` in a build without the x86 module (soft.rs derives none; the `impl PartialEq for x2` lives in x86_64/sse2.rs)"""
    out = []
    try:
        f = SP.File(repo, "generic", GENERIC)
    except TErr as ex:
        errors.append("%s: %s" % (GENERIC, ex))
        return out
    derived = set(n for tag, n, kind, ders in derive_rows if tag == "generic" and "PartialEq" in ders)
    soft_eq = set(n for tag, n, kind, ders in derive_rows if tag == "soft" and "PartialEq" in ders)
    aliases = dict((k, SP.ty_text(v)) for k, v in f.aliases.items())
    for im in f.impls:
        if im.trait is None or SP.ty_text(im.trait) != "Machine":
            continue
        mname = SP.ty_text(im.selfty)
        for a in im.assoc:
            m = re.match(r"^type (\w+) = (.+)$", a)
            if not m:
                errors.append("generic.rs impl Machine: `%s` not understood" % a)
                continue
            an, t = m.group(1), m.group(2).strip()
            k = 0
            while t in aliases and k < 8:
                t, k = aliases[t], k + 1
            head = t.split("<")[0].strip()
            if t in derived:
                out.append((mname, an, ["generic_%s_eq" % t]))
            elif head in ("x2", "x4") and head not in soft_eq:
                out.append((mname, an, [""]))
            else:
                errors.append("generic.rs <%s as Machine>::%s = %s: cannot tell whether it has a PartialEq" % (mname, an, t))
    return out


def simdeq_inventory(repo="/repo"):
    defs, errors = [], []
    provided, missing, mrows = x86_part(repo, defs, errors)
    rows = derive_part(repo, defs, errors)
    mrows = mrows + generic_machine_rows(repo, rows, errors)
    return dict(defs=defs, errors=errors, provided=provided, missing=missing, derive_rows=rows, machine_rows=mrows)


def render_lean(inv):
    S = K._lean_str
    L = ["/-",
         "  CC.Gen.SimdEqSrc — GENERATED by tools/inventory_simdeq.py from utils-simd/ppv-lite86/src/{x86_64/sse2.rs, x86_64/mod.rs,",
         "  generic.rs, soft.rs} and stream-ciphers/chacha/src/guts.rs.  Do not edit; regenerated by tools/regen on every run.",
         "  Definitions only; the obligations (hand-written model lean/CC/Simd/Impl/Eq.lean = every definition) and the theorems",
         "  `eq a b = true ↔ a = b` are in lean/CC/Simd/SrcEq.lean.",
         "",
         TRUSTED.rstrip("\n"),
         "-/",
         "import CC.X86.Intrin",
         "import CC.Gen.SimdX86Src",
         "import CC.Gen.SimdPortSrc",
         "set_option linter.unusedVariables false",
         "namespace CC.Gen.SimdEqSrc",
         "open CC.X86 CC.Gen.SimdX86Src",
         ""]
    for d in inv["defs"]:
        L.append("/-- %s -/" % d.doc.replace("-/", "- /"))
        if d.error is not None:
            L.append("def %s : String := %s\n" % (d.name, S("translation error: " + d.error)))
        else:
            L.append(d.text)
    L.append("/-- translation errors (obligation: `= []`) -/")
    L.append("def simdeq_errors : List String :=\n  [%s]\n" % ",\n   ".join(S(e) for e in inv["errors"]))
    L.append("/-- the x86 types that have `==`: (type, definition, the impl header that provides it) -/")
    L.append("def eq_provided_rows : List (String × String × String) :=\n  [%s]\n" % ",\n   ".join(
        "(%s, %s, %s)" % (S(a), S(b), S(c)) for a, b, c in inv["provided"]))
    L.append("/-- the x86 vector types WITHOUT `PartialEq` (no impl header matches, or the element type has none) -/")
    L.append("def eq_missing_rows : List String :=\n  [%s]\n" % ", ".join(S(a) for a in inv["missing"]))
    L.append("/-- every struct / union of generic.rs, soft.rs, guts.rs with its derive list: (file, name, kind, derives) -/")
    L.append("def derive_rows : List (String × String × String × List String) :=\n  [%s]\n" % ",\n   ".join(
        "(%s, %s, %s, [%s])" % (S(a), S(b), S(c), ", ".join(S(x) for x in d)) for a, b, c, d in inv["derive_rows"]))
    L.append("/-- `impl Machine for ..`: (machine, associated vector type, the definition(s) above that are its `==`; \"\" = the Rust type has no `PartialEq`) -/")
    L.append("def eq_machine_rows : List (String × String × List String) :=\n  [%s]\n" % ",\n   ".join(
        "(%s, %s, [%s])" % (S(a), S(b), ", ".join(S(x) for x in c)) for a, b, c in inv["machine_rows"]))
    L.append("/-- the names of all definitions above, in order -/")
    L.append("def def_rows : List String :=\n  [%s]\n" % ", ".join(S(d.name) for d in inv["defs"]))
    L.append("end CC.Gen.SimdEqSrc")
    return "\n".join(L) + "\n"


def simdeq_regenerate(repo="/repo", out=None):
    text = render_lean(simdeq_inventory(repo))
    out = out or DEFAULT_OUT
    old = open(out, encoding="utf-8").read() if os.path.exists(out) else None
    if old != text:
        os.makedirs(os.path.dirname(out), exist_ok=True)
        open(out, "w", encoding="utf-8").write(text)
    return text


def main(argv):
    repo, out, pr = "/repo", None, False
    i = 0
    while i < len(argv):
        if argv[i] == "--repo":
            repo = argv[i + 1]
            i += 2
        elif argv[i] == "--out":
            out = argv[i + 1]
            i += 2
        elif argv[i] == "--print":
            pr = True
            i += 1
        else:
            raise SystemExit("usage: inventory_simdeq.py [--repo DIR] [--out FILE | --print]")
    if pr:
        sys.stdout.write(render_lean(simdeq_inventory(repo)))
    else:
        simdeq_regenerate(repo, out)


if __name__ == "__main__":
    main(sys.argv[1:])
