#!/usr/bin/env python3
"""tools/inventory_kernels_selftest.py — negative / positive tests of tools/inventory_kernels.py: copies the translated
Rust files of /repo into a temporary tree, applies ONE mutation per case, regenerates lean/CC/Gen/Kernels.lean from it,
builds the family's obligation module (`lake build CC.<Family>.Src`) and checks that it FAILS (N cases) resp. still
builds (P cases: harmless rewrites).  Restores the generated file from /repo at the end.  Not a registered check.
Cases N01–N40 / P01–P09: phase 1 (kernels, tables); N41–N84 / P10–P18: phase 2 (the code around the kernels).
    python3 tools/inventory_kernels_selftest.py [case-id-prefix ...]"""
import os, re, shutil, subprocess, sys, time
K = os.path.dirname(os.path.dirname(os.path.abspath(__file__)))
sys.path.insert(0, K + "/tools")
import inventory_kernels as IK
FILES = [IK.GUTS, IK.RCI, IK.BLAKE_LIB, IK.BLAKE_CONSTS, IK.JH_COMP, IK.JH_CONSTS, IK.JH_LIB, IK.TF_LIB, IK.TF_CONSTS,
         IK.SKEIN_LIB, IK.GROESTL_COMP]
import tempfile
ROOT = os.path.join(tempfile.gettempdir(), "kernels_selftest_%d" % os.getpid())
MOD = {"chacha": "CC.ChaCha.Src", "blake": "CC.Blake.Src", "jh": "CC.JH.Src", "threefish": "CC.Threefish.Src",
       "skein": "CC.Skein.Src", "groestl": "CC.Groestl.Src"}

def sub1(old, new, count=1, nth=None):
    def f(s):
        assert old in s, old
        if nth is None:
            return s.replace(old, new, count)
        parts = s.split(old)
        assert len(parts) > nth + 1
        return old.join(parts[:nth + 1]) + new + old.join(parts[nth + 1:])
    return f

CASES = [
  # (id, expect build ok?, family, file, mutation)
  ("N01 round: right20 -> right12", False, "chacha", IK.GUTS, sub1("rotate_each_word_right20", "rotate_each_word_right12")),
  ("N02 round: operand x.c -> x.a in `x.b ^ x.c` (first)", False, "chacha", IK.GUTS, sub1("(x.b ^ x.c)", "(x.b ^ x.a)")),
  ("N03 round: commutative swap `(x.d ^ x.a)` -> `(x.a ^ x.d)` (conservative: fails although equal in value)", False, "chacha", IK.GUTS, sub1("(x.d ^ x.a)", "(x.a ^ x.d)")),
  ("N04 diagonalize: x.c shuffle 3012 -> 1230", False, "chacha", IK.GUTS, sub1("x.c = x.c.shuffle_lane_words3012();", "x.c = x.c.shuffle_lane_words1230();")),
  ("N05 round: two DEPENDENT statements swapped", False, "chacha", IK.GUTS, sub1("    x.c += x.d;\n    x.b = (x.b ^ x.c).rotate_each_word_right20();", "    x.b = (x.b ^ x.c).rotate_each_word_right20();\n    x.c += x.d;")),
  ("N06 k word changed in refill_wide_impl", False, "chacha", IK.GUTS, sub1("0x6b20_6574", "0x6b20_6575", nth=1)),
  ("N07 unknown method rotate_each_word_left16 (translator must fail loudly)", False, "chacha", IK.GUTS, sub1("rotate_each_word_right16", "rotate_each_word_left16")),
  ("N08 statement outside the language (`if`) in round", False, "chacha", IK.GUTS, sub1("    x.a += x.b;\n", "    if true { x.a += x.b; }\n")),
  ("N09 XChaCha20 alias rounds U10 -> U6", False, "chacha", IK.RCI, sub1("pub type XChaCha20 = ChaChaAny<U24, U10, X>;", "pub type XChaCha20 = ChaChaAny<U24, U6, X>;")),
  ("N10 BUFBLOCKS: LOG2_BUFBLOCKS 2 -> 3", False, "chacha", IK.GUTS, sub1("const LOG2_BUFBLOCKS: u64 = 2;", "const LOG2_BUFBLOCKS: u64 = 3;")),
  ("N11 blake round64: right11 -> right7", False, "blake", IK.BLAKE_LIB, sub1("rotate_each_word_right11", "rotate_each_word_right7")),
  ("N12 blake round32: `a += m1` -> `a += m0`", False, "blake", IK.BLAKE_LIB, sub1("    a += m1;", "    a += m0;")),
  ("N13 blake undiagonalize: c.shuffle1230 -> c.shuffle3012", False, "blake", IK.BLAKE_LIB, sub1("(a.shuffle3012(), b, c.shuffle1230(), d.shuffle2301())", "(a.shuffle3012(), b, c.shuffle3012(), d.shuffle2301())")),
  ("N14 SIGMA: one entry (row 3: 7, 9 -> 9, 7)", False, "blake", IK.BLAKE_CONSTS, sub1("[7, 9, 3, 1,", "[9, 7, 3, 1,")),
  ("N15 BLAKE512_U one digit", False, "blake", IK.BLAKE_CONSTS, sub1("0xb8e1_afed_6a26_7e96", "0xb8e1_afed_6a26_7e97")),
  ("N16 BLAKE384_IV one digit", False, "blake", IK.BLAKE_CONSTS, sub1("0x9159_015a_3070_dd17", "0x9159_015a_3070_dd16")),
  ("N17 PADDING first byte \\x80 -> \\x81", False, "blake", IK.BLAKE_CONSTS, sub1('b"\\x80', 'b"\\x81')),
  ("N18 define_compressor rounds 14 -> 12", False, "blake", IK.BLAKE_LIB, sub1("BLAKE256_U, 14, round32", "BLAKE256_U, 12, round32")),
  ("N19 JH round constant: one byte (row 17)", False, "jh", IK.JH_COMP, sub1("e5c905fdf7ae090f", "e5c905fdf7ae0a0f")),
  ("N20 JH ss: `m.3 & m.2` -> `m.3 | m.2`", False, "jh", IK.JH_COMP, sub1("m.0 ^= m.3 & m.2;", "m.0 ^= m.3 | m.2;")),
  ("N21 JH ss: andnot operands swapped", False, "jh", IK.JH_COMP, sub1("m.3 ^= m.1.andnot(m.2);", "m.3 ^= m.2.andnot(m.1);")),
  ("N22 JH l: `y.7 ^= y.0` -> `y.7 ^= y.1`", False, "jh", IK.JH_COMP, sub1("y.7 ^= y.0;", "y.7 ^= y.1;")),
  ("N23 JH unzip: c.extract(1) -> c.extract(0)", False, "jh", IK.JH_COMP, sub1("c.extract(1)", "c.extract(0)")),
  ("N24 JH256_H0 one nibble", False, "jh", IK.JH_CONSTS, sub1("eb98a3412c20d3eb", "eb98a3412c20d3ea")),
  ("N25 JH f8_impl: arm 3 => swap8 -> swap16", False, "jh", IK.JH_COMP, sub1("3 => M::u128x1::swap8", "3 => M::u128x1::swap16")),
  ("N26 JH define_hasher Jh384 uses JH512_H0", False, "jh", IK.JH_LIB, sub1("define_hasher!(Jh384, consts::JH384_H0, U48);", "define_hasher!(Jh384, consts::JH512_H0, U48);")),
  ("N27 Threefish R_512[2][1] 49 -> 48", False, "threefish", IK.TF_CONSTS, sub1("[17, 49, 36, 39]", "[17, 48, 36, 39]")),
  ("N28 Threefish P_512 two entries swapped", False, "threefish", IK.TF_CONSTS, sub1("[6, 1, 0, 7, 2, 5, 4, 3]", "[6, 1, 0, 7, 2, 5, 3, 4]")),
  ("N29 Threefish C240 one digit", False, "threefish", IK.TF_CONSTS, sub1("0x1BD1_1BDA_A9FC_1A22", "0x1BD1_1BDA_A9FC_1A23")),
  ("N30 Threefish mix: rotate_left -> rotate_right", False, "threefish", IK.TF_LIB, sub1("x.1.rotate_left(r) ^ y0", "x.1.rotate_right(r) ^ y0")),
  ("N31 Threefish inv_mix: y.0 - x1 -> y.1 - x1", False, "threefish", IK.TF_LIB, sub1("y.0.wrapping_sub(x1)", "y.1.wrapping_sub(x1)")),
  ("N32 Threefish512 rounds 72 -> 80", False, "threefish", IK.TF_LIB, sub1("impl_threefish!(Threefish512, 72,", "impl_threefish!(Threefish512, 80,")),
  ("N33 Skein T1_FLAG_FIRST 1<<62 -> 1<<61", False, "skein", IK.SKEIN_LIB, sub1("const T1_FLAG_FIRST: u64 = 1 << 62;", "const T1_FLAG_FIRST: u64 = 1 << 61;")),
  ("N34 Skein T1_BLK_TYPE_OUT 63 -> 62", False, "skein", IK.SKEIN_LIB, sub1("63 << 56", "62 << 56")),
  ("N35 Skein512 on Threefish256", False, "skein", IK.SKEIN_LIB, sub1("define_hasher!(Skein512, Threefish512, U64, 512);", "define_hasher!(Skein512, Threefish256, U64, 512);")),
  ("N36 Skein fails when a Threefish table changes (R_256)", False, "skein", IK.TF_CONSTS, sub1("[14, 16]", "[14, 17]")),
  ("N37 Groestl round mask literal", False, "groestl", IK.GROESTL_COMP, sub1("0x0702_090c_0f06_0108", "0x0702_090c_0f06_0109")),
  ("N38 Groestl rounds_q xor pattern", False, "groestl", IK.GROESTL_COMP, sub1("0x0f1f_2f3f_4f5f_6f7f", "0x0f1f_2f3f_4f5f_6f7e")),
  ("N39 Groestl mul2 0x1b.. -> 0x1d..", False, "groestl", IK.GROESTL_COMP, sub1("0x1b1b_1b1b_1b1b_1b1b", "0x1d1b_1b1b_1b1b_1b1b")),
  ("N40 Groestl transpose mask in transpose_inv only", False, "groestl", IK.GROESTL_COMP, sub1("0x0f07_0b03_0e06_0a02", "0x0f07_0b03_0e06_0a03", nth=2)),
  # harmless rewrites: must still build
  ("P01 diagonalize: three independent statements reordered", True, "chacha", IK.GUTS, sub1("    x.a = x.a.shuffle_lane_words1230();\n    x.c = x.c.shuffle_lane_words3012();\n    x.d = x.d.shuffle_lane_words2301();", "    x.d = x.d.shuffle_lane_words2301();\n    x.a = x.a.shuffle_lane_words1230();\n    x.c = x.c.shuffle_lane_words3012();")),
  ("P02 round: `x.d = (x.d ^ x.a).rot16()` split into `x.d ^= x.a; x.d = x.d.rot16();`", True, "chacha", IK.GUTS, sub1("    x.d = (x.d ^ x.a).rotate_each_word_right16();", "    x.d ^= x.a;\n    x.d = x.d.rotate_each_word_right16();")),
  ("P03 round: temporaries `let t = x.d ^ x.a; let mut u = t; x.d = u.rot16()`", True, "chacha", IK.GUTS, sub1("    x.d = (x.d ^ x.a).rotate_each_word_right16();", "    let t = x.d ^ x.a;\n    let mut u = t;\n    x.d = u.rotate_each_word_right16();")),
  ("P04 blake round32: `d ^= a; d = d.rot16();` merged", True, "blake", IK.BLAKE_LIB, sub1("    d ^= a;\n    d = d.rotate_each_word_right16();", "    d = (d ^ a).rotate_each_word_right16();")),
  ("P05 JH l: independent `y.1 ^= y.2;` / `y.3 ^= y.4;` swapped, `y.5 ^= y.6 ^ y.0` kept", True, "jh", IK.JH_COMP, sub1("    y.1 ^= y.2;\n    y.3 ^= y.4;", "    y.3 ^= y.4;\n    y.1 ^= y.2;")),
  ("P06 JH ss: `let mut m = state.zip();` via explicit temp + comment + block comment with code", True, "jh", IK.JH_COMP, sub1("    let mut m = state.zip();", "    let z = state.zip(); /* m.0 ^= m.1; /* nested */ */\n    let mut m = z; // m.3 = m.2;")),
  ("P07 cfg(test) module with a conflicting fn round / const, string constant with code text", True, "chacha", IK.GUTS, lambda s: s + '\n#[cfg(test)]\nmod kern_tests {\n    const BLOCK: usize = 65;\n    fn round(x: u32) -> u32 { x.rotate_left(3) }\n    #[test]\n    fn t() { let k = m.vec([1, 2, 3, 4]); }\n}\npub const NOTE: &str = "x.a += x.b; // not code \\" const BLOCK: usize = 1;";\n'),
  ("P08 Threefish mix: `let y0 = x.0.wrapping_add(x.1)` with reordered independent lets in inv_mix impossible; whitespace/underscore rewrite of a table", True, "threefish", IK.TF_CONSTS, sub1("pub const P_256: [usize; 4] = [0, 3, 2, 1];", "pub const P_256: [usize; 4] = [\n    0x0, 3_usize,\n    2, /* one */ 1,\n];")),
  ("P09 Skein: `1 << 62` written as `0x4000_0000_0000_0000`", True, "skein", IK.SKEIN_LIB, sub1("const T1_FLAG_FIRST: u64 = 1 << 62;", "const T1_FLAG_FIRST: u64 = 0x4000_0000_0000_0000;")),
  # ---------------------------------------------------------------- phase 2: the code around the kernels
  ("N41 refill_wide_impl: `for _ in 0..drounds` -> `1..drounds` (translator: range not starting at 0)", False, "chacha", IK.GUTS, sub1("for _ in 0..drounds {", "for _ in 1..drounds {")),
  ("N42 refill_narrow_rounds: `0..drounds` -> `0..drounds / 2 * 2` (translator: operator not in the table)", False, "chacha", IK.GUTS, sub1("for _ in 0..drounds {", "for _ in 0..drounds / 2 * 2 {", nth=1)),
  ("N43 inc_block_ct: `pos.wrapping_add(1)` -> `wrapping_add(2)`", False, "chacha", IK.GUTS, sub1("        pos = pos.wrapping_add(1);\n        let d1 = d0.insert((pos >> 32) as u32, 1).insert(pos as u32, 0);\n        self.d", "        pos = pos.wrapping_add(2);\n        let d1 = d0.insert((pos >> 32) as u32, 1).insert(pos as u32, 0);\n        self.d")),
  ("N44 refill_wide_impl: stores of results.1 / results.2 go to each other's slice", False, "chacha", IK.GUTS, lambda s: s.replace("results.1.write_le(&mut out[64..128]);", "results.X.write_le(&mut out[64..128]);").replace("results.2.write_le(&mut out[128..192]);", "results.1.write_le(&mut out[128..192]);").replace("results.X.", "results.2.")),
  ("N45 refill_wide_impl: `add_pos(.., 4)` -> `add_pos(.., 3)`", False, "chacha", IK.GUTS, sub1("add_pos(m, sd.to_lanes()[0], 4)", "add_pos(m, sd.to_lanes()[0], 3)")),
  ("N46 seek64: `(blockct >> 32) as u32` -> `>> 31`", False, "chacha", IK.GUTS, sub1(".insert((blockct >> 32) as u32, 1)", ".insert((blockct >> 31) as u32, 1)")),
  ("N47 pos64: `<< 32` -> `<< 31`", False, "chacha", IK.GUTS, sub1("((d.extract(1) as u64) << 32) | d.extract(0) as u64", "((d.extract(1) as u64) << 31) | d.extract(0) as u64")),
  ("N48 stream32_eq compares word 0 instead of word 1", False, "chacha", IK.GUTS, sub1("self_d[1] == rhs_d[1]", "self_d[0] == rhs_d[0]")),
  ("N49 set_stream_param: low word stored at p0", False, "chacha", IK.GUTS, sub1("d[p1] = value as u32;", "d[p0] = value as u32;")),
  ("N50 output_narrow: row b adds self.c", False, "chacha", IK.GUTS, sub1("(x.b + m.unpack(self.b))", "(x.b + m.unpack(self.c))")),
  ("N51 d0123: lane 2 increment in the high half", False, "chacha", IK.GUTS, sub1("m.vec([2, 0])", "m.vec([0, 2])")),
  ("N52 rustcrypto_impl init_chacha_x: `state.b = x.a` -> `x.b`", False, "chacha", IK.RCI, sub1("state.b = x.a;", "state.b = x.b;")),
  ("N53 ChaCha::new: `&key[4..8]` -> `&key[4..7]` (read_u32le's assert fails statically)", False, "chacha", IK.GUTS, sub1("read_u32le(&key[4..8])", "read_u32le(&key[4..7])")),
  ("N54 init_chacha: nonce words read one byte early", False, "chacha", IK.RCI, sub1("nonce[nonce.len() - 8..nonce.len() - 4]", "nonce[nonce.len() - 9..nonce.len() - 5]")),
  ("N55 refill_narrow_rounds: row d loaded from state.c", False, "chacha", IK.GUTS, sub1("            d: m.unpack(state.d),\n        };\n        for _", "            d: m.unpack(state.c),\n        };\n        for _")),
  ("N56 refill_wide_impl: last store into out[192..255] (length mismatch, loud)", False, "chacha", IK.GUTS, sub1("&mut out[192..256]", "&mut out[192..255]")),
  ("N57 refill_narrow: a `while` statement (outside the language, loud)", False, "chacha", IK.GUTS, sub1("        state.inc_block_ct(m);\n", "        while false {}\n        state.inc_block_ct(m);\n")),
  ("N58 get_stream_param: `<< 32` -> `<< 31`", False, "chacha", IK.GUTS, sub1("((d[p0] as u64) << 32) | d[p1] as u64", "((d[p0] as u64) << 31) | d[p1] as u64")),
  ("N59 refill_wide_impl: `x.d + sd` -> `x.d + sc` in the feed-forward", False, "chacha", IK.GUTS, sub1("x.c + sc, x.d + sd)", "x.c + sc, x.d + sc)")),
  ("N60 blake put_block: column step m0 lanes 0 and 1 swapped", False, "blake", IK.BLAKE_LIB, sub1("mach.vec([m0!(0), m0!(2), m0!(4), m0!(6)])", "mach.vec([m0!(2), m0!(0), m0!(4), m0!(6)])")),
  ("N61 blake m0!: `U[sigma[$e + 1]]` -> `U[sigma[$e]]`", False, "blake", IK.BLAKE_LIB, sub1("(m[sigma[$e] as usize] ^ U[sigma[$e + 1] as usize])", "(m[sigma[$e] as usize] ^ U[sigma[$e] as usize])")),
  ("N62 blake put_block: the `t` xor dropped", False, "blake", IK.BLAKE_LIB, sub1("                xs.3 ^= mach.vec([t.0, t.0, t.1, t.1]);\n", "")),
  ("N63 blake put_block: `[t.0, t.0, t.1, t.1]` -> `[t.0, t.1, t.0, t.1]`", False, "blake", IK.BLAKE_LIB, sub1("mach.vec([t.0, t.0, t.1, t.1])", "mach.vec([t.0, t.1, t.0, t.1])")),
  ("N64 blake put_block: from_be_bytes -> from_le_bytes", False, "blake", IK.BLAKE_LIB, sub1("$word::from_be_bytes(", "$word::from_le_bytes(")),
  ("N65 blake put_block: final xor uses xs.3 for h[0]", False, "blake", IK.BLAKE_LIB, sub1("(h.0 ^ xs.0 ^ xs.2)", "(h.0 ^ xs.0 ^ xs.3)")),
  ("N66 blake put_block: `&SIGMA[..$rounds]` -> `&SIGMA[1..$rounds]` (loud)", False, "blake", IK.BLAKE_LIB, sub1("&SIGMA[..$rounds]", "&SIGMA[1..$rounds]")),
  ("N67 blake increase_count: `count * 8` -> `count * 4`", False, "blake", IK.BLAKE_LIB, sub1("t.0.overflowing_add(count * 8)", "t.0.overflowing_add(count * 4)")),
  ("N68 blake increase_count: carry condition negated", False, "blake", IK.BLAKE_LIB, sub1("if carry {", "if !carry {")),
  ("N69 blake put_block: u.0 / u.1 exchanged in the initial rows", False, "blake", IK.BLAKE_LIB, sub1("mach.unpack(state.h[1]), u.0, u.1);", "mach.unpack(state.h[1]), u.1, u.0);")),
  ("N70 blake increase_count: `t.1 += 1` made wrapping (no debug panic any more)", False, "blake", IK.BLAKE_LIB, sub1("t.1 += 1;", "t.1 = t.1.wrapping_add(1);")),
  ("N71 threefish with_tweak: `t[s % 3]` -> `t[s % 2]`", False, "threefish", IK.TF_LIB, sub1("t[s % 3]", "t[s % 2]")),
  ("N72 threefish with_tweak: `i == $n_w - 1` -> `$n_w - 2`", False, "threefish", IK.TF_LIB, sub1("} else if i == $n_w - 1 {", "} else if i == $n_w - 2 {")),
  ("N73 threefish with_tweak: `% ($n_w + 1)` -> `% ($n_w)`", False, "threefish", IK.TF_LIB, sub1("k[(s + i) % ($n_w + 1)]", "k[(s + i) % ($n_w)]")),
  ("N74 threefish encrypt: second key word index 2*j+1 used for e0", False, "threefish", IK.TF_LIB, sub1("(v0.wrapping_add(self.sk[2 * i + d / 4][2 * j]),", "(v0.wrapping_add(self.sk[2 * i + d / 4][2 * j + 1]),")),
  ("N75 threefish encrypt: `if d % 4 == 0` -> `== 1`", False, "threefish", IK.TF_LIB, sub1("if d % 4 == 0 {", "if d % 4 == 1 {")),
  ("N76 threefish decrypt: outer loop not reversed", False, "threefish", IK.TF_LIB, sub1("for i in (0..$rounds/8).rev() {", "for i in 0..$rounds/8 {")),
  ("N77 threefish with_tweak: fold starts from 0 instead of C240", False, "threefish", IK.TF_LIB, sub1("fold(C240, BitXor::bitxor)", "fold(0, BitXor::bitxor)")),
  ("N78 threefish unroll8! (no_unroll shape only): `0..8` -> `0..7`", False, "threefish", IK.TF_LIB, sub1("for $var in 0..8 $body", "for $var in 0..7 $body")),
  ("N79 threefish unroll8_rev! (unrolled shape only): d = 7 and 6 exchanged", False, "threefish", IK.TF_LIB, sub1("        { const $var: usize = 7; $body; }\n        { const $var: usize = 6; $body; }", "        { const $var: usize = 6; $body; }\n        { const $var: usize = 7; $body; }")),
  ("N80 threefish encrypt: final key addition uses sk[$rounds / 8]", False, "threefish", IK.TF_LIB, sub1("v[i] = v[i].wrapping_add(self.sk[$rounds / 4][i]);", "v[i] = v[i].wrapping_add(self.sk[$rounds / 8][i]);")),
  ("N81 threefish encrypt: `$perm[2 * j + 1]` -> `$perm[2 * j]` for pi1", False, "threefish", IK.TF_LIB, sub1("($perm[2 * j], $perm[2 * j + 1]);\n                            v[pi0] = f0;", "($perm[2 * j], $perm[2 * j]);\n                            v[pi0] = f0;")),
  ("N82 threefish decrypt: `$rot[d % 8][j]` -> `$rot[d % 4][j]` (second occurrence)", False, "threefish", IK.TF_LIB, sub1("let r = $rot[d % 8][j];", "let r = $rot[d % 4][j];", nth=1)),
  ("N83 threefish write_u64v_le: to_le_bytes -> to_be_bytes", False, "threefish", IK.TF_LIB, sub1("c.copy_from_slice(&n.to_le_bytes());", "c.copy_from_slice(&n.to_be_bytes());")),
  ("N84 threefish encrypt: index out of range `v_tmp[2 * j + 2]` (interval analysis, loud)", False, "threefish", IK.TF_LIB, sub1("(v_tmp[2 * j], v_tmp[2 * j + 1]);", "(v_tmp[2 * j], v_tmp[2 * j + 2]);")),
  # harmless
  ("P10 refill_wide_impl: independent lets `b`, `c` reordered", True, "chacha", IK.GUTS, sub1("    let b = m.unpack(state.b);\n    let c = m.unpack(state.c);\n    let mut x = State {", "    let c = m.unpack(state.c);\n    let b = m.unpack(state.b);\n    let mut x = State {")),
  ("P11 refill_wide_impl: local `kk` renamed, `sd` computed before `sb`", True, "chacha", IK.GUTS, lambda s: s.replace("let kk = Mach::u32x4x4::from_lanes([k, k, k, k]);", "let sd = d0123(m, state.d);\n    let k4 = Mach::u32x4x4::from_lanes([k, k, k, k]);").replace("    let sd = d0123(m, state.d);\n    let results", "    let results").replace("x.a + kk,", "x.a + k4,")),
  ("P12 refill_wide_impl: the four stores in another order (same targets)", True, "chacha", IK.GUTS, sub1("    results.0.write_le(&mut out[0..64]);\n    results.1.write_le(&mut out[64..128]);", "    results.1.write_le(&mut out[64..128]);\n    results.0.write_le(&mut out[0..64]);")),
  ("P13 inc_block_ct: temporary for the increment, state update before the comment", True, "chacha", IK.GUTS, sub1("        pos = pos.wrapping_add(1);\n        let d1 = d0.insert((pos >> 32) as u32, 1).insert(pos as u32, 0);\n        self.d = d1.into();", "        let one: u64 = 1;\n        pos = pos.wrapping_add(one);\n        let hi = (pos >> 32) as u32;\n        let d1 = d0.insert(hi, 1).insert(pos as u32, 0);\n        self.d = d1.into();")),
  ("P14 refill_narrow: inc_block_ct before output_narrow is NOT harmless in general, but `state.d` is read by output_narrow: kept as is; instead reorder x's fields in the struct literal", True, "chacha", IK.GUTS, sub1("            a: m.unpack(x.a),\n            b: m.unpack(x.b),", "            b: m.unpack(x.b),\n            a: m.unpack(x.a),")),
  ("P15 blake put_block: `let m0` / `let m1` of the column step reordered", True, "blake", IK.BLAKE_LIB, sub1("                    let m0 = mach.vec([m0!(0), m0!(2), m0!(4), m0!(6)]);\n                    let m1 = mach.vec([m1!(0), m1!(2), m1!(4), m1!(6)]);", "                    let m1 = mach.vec([m1!(0), m1!(2), m1!(4), m1!(6)]);\n                    let m0 = mach.vec([m0!(0), m0!(2), m0!(4), m0!(6)]);")),
  ("P16 blake put_block: loop variable `sigma` renamed, `h` computed before the loop", True, "blake", IK.BLAKE_LIB, lambda s: s.replace("sigma", "sg").replace("                let h: (M::$X4, M::$X4) = (mach.unpack(state.h[0]), mach.unpack(state.h[1]));\n", "").replace("                for sg in &SIGMA[..$rounds] {", "                let h: (M::$X4, M::$X4) = (mach.unpack(state.h[0]), mach.unpack(state.h[1]));\n                for sg in &SIGMA[..$rounds] {")),
  ("P17 threefish: `v_tmp` renamed, `let r` moved before the key addition (encrypt)", True, "threefish", IK.TF_LIB, lambda s: s.replace("v_tmp", "vt").replace("                            let (e0, e1) =\n                                if d % 4 == 0 {\n                                    (v0.wrapping_add", "                            let r = $rot[d % 8][j];\n                            let (e0, e1) =\n                                if d % 4 == 0 {\n                                    (v0.wrapping_add").replace("                                };\n                            let r = $rot[d % 8][j];\n                            let (f0, f1) = mix(r, (e0, e1));", "                                };\n                            let (f0, f1) = mix(r, (e0, e1));")),
  ("P18 threefish with_tweak: the three `else if` tests written with a temporary, `t` built after `sk`", True, "threefish", IK.TF_LIB, lambda s: s.replace("                let t = [tweak0, tweak1, tweak0 ^ tweak1];\n                let mut sk = [[0u64; $n_w]; $rounds / 4 + 1];", "                let mut sk = [[0u64; $n_w]; $rounds / 4 + 1];\n                let tw2 = tweak0 ^ tweak1;\n                let t = [tweak0, tweak1, tw2];")),
]

def run(cmd, **kw):
    return subprocess.run(cmd, stdout=subprocess.PIPE, stderr=subprocess.STDOUT, universal_newlines=True, **kw)

def main():
    results = []
    only = sys.argv[1:]
    for cid, expect_ok, fam, rel, mut in CASES:
        if only and not any(cid.startswith(o) for o in only):
            continue
        shutil.rmtree(ROOT, ignore_errors=True)
        for f in FILES:
            os.makedirs(os.path.dirname(os.path.join(ROOT, f)), exist_ok=True)
            shutil.copy(os.path.join("/repo", f), os.path.join(ROOT, f))
        p = os.path.join(ROOT, rel)
        s = open(p).read()
        s2 = mut(s)
        assert s2 != s, cid
        open(p, "w").write(s2)
        env = dict(os.environ, VERIF_REPO=ROOT)
        r = run([sys.executable, K + "/tools/inventory_kernels.py"], env=env)
        terr = [l for l in r.stdout.splitlines() if l.startswith("TRANSLATION ERROR")]
        t0 = time.time()
        b = run(["lake", "build", MOD[fam]], cwd=K + "/lean")
        ok = b.returncode == 0
        errs = [l for l in b.stdout.splitlines() if l.startswith("error:")]
        first = errs[0][:150] if errs else ""
        verdict = "as expected" if ok == expect_ok else "UNEXPECTED"
        print("%-9s %s | translator errors: %d | lake build %s: %s (%.1fs) | %s %s" % (
            verdict, cid, len(terr), MOD[fam], "OK" if ok else "FAILED", time.time() - t0, first, (terr[0][:140] if terr else "")))
        sys.stdout.flush()
        results.append(ok == expect_ok)
    shutil.rmtree(ROOT, ignore_errors=True)
    # restore from the real repository
    r = run([sys.executable, K + "/tools/inventory_kernels.py", "--repo", "/repo"])
    print(r.stdout.strip().splitlines()[0])
    print("ALL AS EXPECTED" if all(results) else "SOME UNEXPECTED", len(results), "cases")

main()
