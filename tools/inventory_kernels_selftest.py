#!/usr/bin/env python3
"""tools/inventory_kernels_selftest.py — negative / positive tests of tools/inventory_kernels.py: copies the translated
Rust files of /repo into a temporary tree, applies ONE mutation per case, regenerates lean/CC/Gen/Kernels.lean from it,
builds the family's obligation module (`lake build CC.<Family>.Src`) and checks that it FAILS (N cases) resp. still
builds (P cases: harmless rewrites).  Restores the generated file from /repo at the end.  Not a registered check.
Cases N01–N40 / P01–P09: phase 1 (kernels, tables); N41–N84 / P10–P18: phase 2 (the code around the kernels);
N85–N150 / P19–P36: phase 3 (the glue: rustcrypto_impl.rs bookkeeping, hasher impls, trait impls) — the breaking edits are
the independently seeded changes of DESIGN §0.5 that live in the glue, plus one edit per translated statement group.
    python3 tools/inventory_kernels_selftest.py [case id | range like N85-N152 | prefix* ...]"""
import os, re, shutil, subprocess, sys, time
K = os.path.dirname(os.path.dirname(os.path.abspath(__file__)))
sys.path.insert(0, K + "/tools")
import inventory_kernels as IK
GROESTL_LIB = "hashes/groestl/src/lib.rs"
FILES = [IK.GUTS, IK.RCI, IK.BLAKE_LIB, IK.BLAKE_CONSTS, IK.JH_COMP, IK.JH_CONSTS, IK.JH_LIB, IK.TF_LIB, IK.TF_CONSTS,
         IK.SKEIN_LIB, IK.GROESTL_COMP, GROESTL_LIB]
import tempfile
ROOT = os.path.join(tempfile.gettempdir(), "kernels_selftest_%d" % os.getpid())
MOD = {"chacha": "CC.ChaCha.Src", "blake": "CC.Blake.Src", "jh": "CC.JH.Src", "threefish": "CC.Threefish.Src",
       "skein": "CC.Skein.Src", "groestl": "CC.Groestl.Src"}

def sub1(old, new, count=1, nth=None):
    def f(s):
        assert old in s, old
        if nth is None:
            return s.replace(old, new, count)
        parts = s.split(old)
        assert len(parts) > nth + 1
        return old.join(parts[:nth + 1]) + new + old.join(parts[nth + 1:])
    return f

CASES = [
  # (id, expect build ok?, family, file, mutation)
  ("N01 round: right20 -> right12", False, "chacha", IK.GUTS, sub1("rotate_each_word_right20", "rotate_each_word_right12")),
  ("N02 round: operand x.c -> x.a in `x.b ^ x.c` (first)", False, "chacha", IK.GUTS, sub1("(x.b ^ x.c)", "(x.b ^ x.a)")),
  ("N03 round: commutative swap `(x.d ^ x.a)` -> `(x.a ^ x.d)` (conservative: fails although equal in value)", False, "chacha", IK.GUTS, sub1("(x.d ^ x.a)", "(x.a ^ x.d)")),
  ("N04 diagonalize: x.c shuffle 3012 -> 1230", False, "chacha", IK.GUTS, sub1("x.c = x.c.shuffle_lane_words3012();", "x.c = x.c.shuffle_lane_words1230();")),
  ("N05 round: two DEPENDENT statements swapped", False, "chacha", IK.GUTS, sub1("    x.c += x.d;\n    x.b = (x.b ^ x.c).rotate_each_word_right20();", "    x.b = (x.b ^ x.c).rotate_each_word_right20();\n    x.c += x.d;")),
  ("N06 k word changed in refill_wide_impl", False, "chacha", IK.GUTS, sub1("0x6b20_6574", "0x6b20_6575", nth=1)),
  ("N07 unknown method rotate_each_word_left16 (translator must fail loudly)", False, "chacha", IK.GUTS, sub1("rotate_each_word_right16", "rotate_each_word_left16")),
  ("N08 statement outside the language (`if`) in round", False, "chacha", IK.GUTS, sub1("    x.a += x.b;\n", "    if true { x.a += x.b; }\n")),
  ("N09 XChaCha20 alias rounds U10 -> U6", False, "chacha", IK.RCI, sub1("pub type XChaCha20 = ChaChaAny<U24, U10, X>;", "pub type XChaCha20 = ChaChaAny<U24, U6, X>;")),
  ("N10 BUFBLOCKS: LOG2_BUFBLOCKS 2 -> 3", False, "chacha", IK.GUTS, sub1("const LOG2_BUFBLOCKS: u64 = 2;", "const LOG2_BUFBLOCKS: u64 = 3;")),
  ("N11 blake round64: right11 -> right7", False, "blake", IK.BLAKE_LIB, sub1("rotate_each_word_right11", "rotate_each_word_right7")),
  ("N12 blake round32: `a += m1` -> `a += m0`", False, "blake", IK.BLAKE_LIB, sub1("    a += m1;", "    a += m0;")),
  ("N13 blake undiagonalize: c.shuffle1230 -> c.shuffle3012", False, "blake", IK.BLAKE_LIB, sub1("(a.shuffle3012(), b, c.shuffle1230(), d.shuffle2301())", "(a.shuffle3012(), b, c.shuffle3012(), d.shuffle2301())")),
  ("N14 SIGMA: one entry (row 3: 7, 9 -> 9, 7)", False, "blake", IK.BLAKE_CONSTS, sub1("[7, 9, 3, 1,", "[9, 7, 3, 1,")),
  ("N15 BLAKE512_U one digit", False, "blake", IK.BLAKE_CONSTS, sub1("0xb8e1_afed_6a26_7e96", "0xb8e1_afed_6a26_7e97")),
  ("N16 BLAKE384_IV one digit", False, "blake", IK.BLAKE_CONSTS, sub1("0x9159_015a_3070_dd17", "0x9159_015a_3070_dd16")),
  ("N17 PADDING first byte \\x80 -> \\x81", False, "blake", IK.BLAKE_CONSTS, sub1('b"\\x80', 'b"\\x81')),
  ("N18 define_compressor rounds 14 -> 12", False, "blake", IK.BLAKE_LIB, sub1("BLAKE256_U, 14, round32", "BLAKE256_U, 12, round32")),
  ("N19 JH round constant: one byte (row 17)", False, "jh", IK.JH_COMP, sub1("e5c905fdf7ae090f", "e5c905fdf7ae0a0f")),
  ("N20 JH ss: `m.3 & m.2` -> `m.3 | m.2`", False, "jh", IK.JH_COMP, sub1("m.0 ^= m.3 & m.2;", "m.0 ^= m.3 | m.2;")),
  ("N21 JH ss: andnot operands swapped", False, "jh", IK.JH_COMP, sub1("m.3 ^= m.1.andnot(m.2);", "m.3 ^= m.2.andnot(m.1);")),
  ("N22 JH l: `y.7 ^= y.0` -> `y.7 ^= y.1`", False, "jh", IK.JH_COMP, sub1("y.7 ^= y.0;", "y.7 ^= y.1;")),
  ("N23 JH unzip: c.extract(1) -> c.extract(0)", False, "jh", IK.JH_COMP, sub1("c.extract(1)", "c.extract(0)")),
  ("N24 JH256_H0 one nibble", False, "jh", IK.JH_CONSTS, sub1("eb98a3412c20d3eb", "eb98a3412c20d3ea")),
  ("N25 JH f8_impl: arm 3 => swap8 -> swap16", False, "jh", IK.JH_COMP, sub1("3 => M::u128x1::swap8", "3 => M::u128x1::swap16")),
  ("N26 JH define_hasher Jh384 uses JH512_H0", False, "jh", IK.JH_LIB, sub1("define_hasher!(Jh384, consts::JH384_H0, U48);", "define_hasher!(Jh384, consts::JH512_H0, U48);")),
  ("N27 Threefish R_512[2][1] 49 -> 48", False, "threefish", IK.TF_CONSTS, sub1("[17, 49, 36, 39]", "[17, 48, 36, 39]")),
  ("N28 Threefish P_512 two entries swapped", False, "threefish", IK.TF_CONSTS, sub1("[6, 1, 0, 7, 2, 5, 4, 3]", "[6, 1, 0, 7, 2, 5, 3, 4]")),
  ("N29 Threefish C240 one digit", False, "threefish", IK.TF_CONSTS, sub1("0x1BD1_1BDA_A9FC_1A22", "0x1BD1_1BDA_A9FC_1A23")),
  ("N30 Threefish mix: rotate_left -> rotate_right", False, "threefish", IK.TF_LIB, sub1("x.1.rotate_left(r) ^ y0", "x.1.rotate_right(r) ^ y0")),
  ("N31 Threefish inv_mix: y.0 - x1 -> y.1 - x1", False, "threefish", IK.TF_LIB, sub1("y.0.wrapping_sub(x1)", "y.1.wrapping_sub(x1)")),
  ("N32 Threefish512 rounds 72 -> 80", False, "threefish", IK.TF_LIB, sub1("impl_threefish!(Threefish512, 72,", "impl_threefish!(Threefish512, 80,")),
  ("N33 Skein T1_FLAG_FIRST 1<<62 -> 1<<61", False, "skein", IK.SKEIN_LIB, sub1("const T1_FLAG_FIRST: u64 = 1 << 62;", "const T1_FLAG_FIRST: u64 = 1 << 61;")),
  ("N34 Skein T1_BLK_TYPE_OUT 63 -> 62", False, "skein", IK.SKEIN_LIB, sub1("63 << 56", "62 << 56")),
  ("N35 Skein512 on Threefish256", False, "skein", IK.SKEIN_LIB, sub1("define_hasher!(Skein512, Threefish512, U64, 512);", "define_hasher!(Skein512, Threefish256, U64, 512);")),
  ("N36 Skein fails when a Threefish table changes (R_256)", False, "skein", IK.TF_CONSTS, sub1("[14, 16]", "[14, 17]")),
  ("N37 Groestl round mask literal", False, "groestl", IK.GROESTL_COMP, sub1("0x0702_090c_0f06_0108", "0x0702_090c_0f06_0109")),
  ("N38 Groestl rounds_q xor pattern", False, "groestl", IK.GROESTL_COMP, sub1("0x0f1f_2f3f_4f5f_6f7f", "0x0f1f_2f3f_4f5f_6f7e")),
  ("N39 Groestl mul2 0x1b.. -> 0x1d..", False, "groestl", IK.GROESTL_COMP, sub1("0x1b1b_1b1b_1b1b_1b1b", "0x1d1b_1b1b_1b1b_1b1b")),
  ("N40 Groestl transpose mask in transpose_inv only", False, "groestl", IK.GROESTL_COMP, sub1("0x0f07_0b03_0e06_0a02", "0x0f07_0b03_0e06_0a03", nth=2)),
  # harmless rewrites: must still build
  ("P01 diagonalize: three independent statements reordered", True, "chacha", IK.GUTS, sub1("    x.a = x.a.shuffle_lane_words1230();\n    x.c = x.c.shuffle_lane_words3012();\n    x.d = x.d.shuffle_lane_words2301();", "    x.d = x.d.shuffle_lane_words2301();\n    x.a = x.a.shuffle_lane_words1230();\n    x.c = x.c.shuffle_lane_words3012();")),
  ("P02 round: `x.d = (x.d ^ x.a).rot16()` split into `x.d ^= x.a; x.d = x.d.rot16();`", True, "chacha", IK.GUTS, sub1("    x.d = (x.d ^ x.a).rotate_each_word_right16();", "    x.d ^= x.a;\n    x.d = x.d.rotate_each_word_right16();")),
  ("P03 round: temporaries `let t = x.d ^ x.a; let mut u = t; x.d = u.rot16()`", True, "chacha", IK.GUTS, sub1("    x.d = (x.d ^ x.a).rotate_each_word_right16();", "    let t = x.d ^ x.a;\n    let mut u = t;\n    x.d = u.rotate_each_word_right16();")),
  ("P04 blake round32: `d ^= a; d = d.rot16();` merged", True, "blake", IK.BLAKE_LIB, sub1("    d ^= a;\n    d = d.rotate_each_word_right16();", "    d = (d ^ a).rotate_each_word_right16();")),
  ("P05 JH l: independent `y.1 ^= y.2;` / `y.3 ^= y.4;` swapped, `y.5 ^= y.6 ^ y.0` kept", True, "jh", IK.JH_COMP, sub1("    y.1 ^= y.2;\n    y.3 ^= y.4;", "    y.3 ^= y.4;\n    y.1 ^= y.2;")),
  ("P06 JH ss: `let mut m = state.zip();` via explicit temp + comment + block comment with code", True, "jh", IK.JH_COMP, sub1("    let mut m = state.zip();", "    let z = state.zip(); /* m.0 ^= m.1; /* nested */ */\n    let mut m = z; // m.3 = m.2;")),
  ("P07 cfg(test) module with a conflicting fn round / const, string constant with code text", True, "chacha", IK.GUTS, lambda s: s + '\n#[cfg(test)]\nmod kern_tests {\n    const BLOCK: usize = 65;\n    fn round(x: u32) -> u32 { x.rotate_left(3) }\n    #[test]\n    fn t() { let k = m.vec([1, 2, 3, 4]); }\n}\npub const NOTE: &str = "x.a += x.b; // not code \\" const BLOCK: usize = 1;";\n'),
  ("P08 Threefish mix: `let y0 = x.0.wrapping_add(x.1)` with reordered independent lets in inv_mix impossible; whitespace/underscore rewrite of a table", True, "threefish", IK.TF_CONSTS, sub1("pub const P_256: [usize; 4] = [0, 3, 2, 1];", "pub const P_256: [usize; 4] = [\n    0x0, 3_usize,\n    2, /* one */ 1,\n];")),
  ("P09 Skein: `1 << 62` written as `0x4000_0000_0000_0000`", True, "skein", IK.SKEIN_LIB, sub1("const T1_FLAG_FIRST: u64 = 1 << 62;", "const T1_FLAG_FIRST: u64 = 0x4000_0000_0000_0000;")),
  # ---------------------------------------------------------------- phase 2: the code around the kernels
  ("N41 refill_wide_impl: `for _ in 0..drounds` -> `1..drounds` (translator: range not starting at 0)", False, "chacha", IK.GUTS, sub1("for _ in 0..drounds {", "for _ in 1..drounds {")),
  ("N42 refill_narrow_rounds: `0..drounds` -> `0..drounds / 2 * 2` (translator: operator not in the table)", False, "chacha", IK.GUTS, sub1("for _ in 0..drounds {", "for _ in 0..drounds / 2 * 2 {", nth=1)),
  ("N43 inc_block_ct: `pos.wrapping_add(1)` -> `wrapping_add(2)`", False, "chacha", IK.GUTS, sub1("        pos = pos.wrapping_add(1);\n        let d1 = d0.insert((pos >> 32) as u32, 1).insert(pos as u32, 0);\n        self.d", "        pos = pos.wrapping_add(2);\n        let d1 = d0.insert((pos >> 32) as u32, 1).insert(pos as u32, 0);\n        self.d")),
  ("N44 refill_wide_impl: stores of results.1 / results.2 go to each other's slice", False, "chacha", IK.GUTS, lambda s: s.replace("results.1.write_le(&mut out[64..128]);", "results.X.write_le(&mut out[64..128]);").replace("results.2.write_le(&mut out[128..192]);", "results.1.write_le(&mut out[128..192]);").replace("results.X.", "results.2.")),
  ("N45 refill_wide_impl: `add_pos(.., 4)` -> `add_pos(.., 3)`", False, "chacha", IK.GUTS, sub1("add_pos(m, sd.to_lanes()[0], 4)", "add_pos(m, sd.to_lanes()[0], 3)")),
  ("N46 seek64: `(blockct >> 32) as u32` -> `>> 31`", False, "chacha", IK.GUTS, sub1(".insert((blockct >> 32) as u32, 1)", ".insert((blockct >> 31) as u32, 1)")),
  ("N47 pos64: `<< 32` -> `<< 31`", False, "chacha", IK.GUTS, sub1("((d.extract(1) as u64) << 32) | d.extract(0) as u64", "((d.extract(1) as u64) << 31) | d.extract(0) as u64")),
  ("N48 stream32_eq compares word 0 instead of word 1", False, "chacha", IK.GUTS, sub1("self_d[1] == rhs_d[1]", "self_d[0] == rhs_d[0]")),
  ("N49 set_stream_param: low word stored at p0", False, "chacha", IK.GUTS, sub1("d[p1] = value as u32;", "d[p0] = value as u32;")),
  ("N50 output_narrow: row b adds self.c", False, "chacha", IK.GUTS, sub1("(x.b + m.unpack(self.b))", "(x.b + m.unpack(self.c))")),
  ("N51 d0123: lane 2 increment in the high half", False, "chacha", IK.GUTS, sub1("m.vec([2, 0])", "m.vec([0, 2])")),
  ("N52 rustcrypto_impl init_chacha_x: `state.b = x.a` -> `x.b`", False, "chacha", IK.RCI, sub1("state.b = x.a;", "state.b = x.b;")),
  ("N53 ChaCha::new: `&key[4..8]` -> `&key[4..7]` (read_u32le's assert fails statically)", False, "chacha", IK.GUTS, sub1("read_u32le(&key[4..8])", "read_u32le(&key[4..7])")),
  ("N54 init_chacha: nonce words read one byte early", False, "chacha", IK.RCI, sub1("nonce[nonce.len() - 8..nonce.len() - 4]", "nonce[nonce.len() - 9..nonce.len() - 5]")),
  ("N55 refill_narrow_rounds: row d loaded from state.c", False, "chacha", IK.GUTS, sub1("            d: m.unpack(state.d),\n        };\n        for _", "            d: m.unpack(state.c),\n        };\n        for _")),
  ("N56 refill_wide_impl: last store into out[192..255] (length mismatch, loud)", False, "chacha", IK.GUTS, sub1("&mut out[192..256]", "&mut out[192..255]")),
  ("N57 refill_narrow: a `while` statement (outside the language, loud)", False, "chacha", IK.GUTS, sub1("        state.inc_block_ct(m);\n", "        while false {}\n        state.inc_block_ct(m);\n")),
  ("N58 get_stream_param: `<< 32` -> `<< 31`", False, "chacha", IK.GUTS, sub1("((d[p0] as u64) << 32) | d[p1] as u64", "((d[p0] as u64) << 31) | d[p1] as u64")),
  ("N59 refill_wide_impl: `x.d + sd` -> `x.d + sc` in the feed-forward", False, "chacha", IK.GUTS, sub1("x.c + sc, x.d + sd)", "x.c + sc, x.d + sc)")),
  ("N60 blake put_block: column step m0 lanes 0 and 1 swapped", False, "blake", IK.BLAKE_LIB, sub1("mach.vec([m0!(0), m0!(2), m0!(4), m0!(6)])", "mach.vec([m0!(2), m0!(0), m0!(4), m0!(6)])")),
  ("N61 blake m0!: `U[sigma[$e + 1]]` -> `U[sigma[$e]]`", False, "blake", IK.BLAKE_LIB, sub1("(m[sigma[$e] as usize] ^ U[sigma[$e + 1] as usize])", "(m[sigma[$e] as usize] ^ U[sigma[$e] as usize])")),
  ("N62 blake put_block: the `t` xor dropped", False, "blake", IK.BLAKE_LIB, sub1("                xs.3 ^= mach.vec([t.0, t.0, t.1, t.1]);\n", "")),
  ("N63 blake put_block: `[t.0, t.0, t.1, t.1]` -> `[t.0, t.1, t.0, t.1]`", False, "blake", IK.BLAKE_LIB, sub1("mach.vec([t.0, t.0, t.1, t.1])", "mach.vec([t.0, t.1, t.0, t.1])")),
  ("N64 blake put_block: from_be_bytes -> from_le_bytes", False, "blake", IK.BLAKE_LIB, sub1("$word::from_be_bytes(", "$word::from_le_bytes(")),
  ("N65 blake put_block: final xor uses xs.3 for h[0]", False, "blake", IK.BLAKE_LIB, sub1("(h.0 ^ xs.0 ^ xs.2)", "(h.0 ^ xs.0 ^ xs.3)")),
  ("N66 blake put_block: `&SIGMA[..$rounds]` -> `&SIGMA[1..$rounds]` (loud)", False, "blake", IK.BLAKE_LIB, sub1("&SIGMA[..$rounds]", "&SIGMA[1..$rounds]")),
  ("N67 blake increase_count: `count * 8` -> `count * 4`", False, "blake", IK.BLAKE_LIB, sub1("t.0.overflowing_add(count * 8)", "t.0.overflowing_add(count * 4)")),
  ("N68 blake increase_count: carry condition negated", False, "blake", IK.BLAKE_LIB, sub1("if carry {", "if !carry {")),
  ("N69 blake put_block: u.0 / u.1 exchanged in the initial rows", False, "blake", IK.BLAKE_LIB, sub1("mach.unpack(state.h[1]), u.0, u.1);", "mach.unpack(state.h[1]), u.1, u.0);")),
  ("N70 blake increase_count: `t.1 += 1` made wrapping (no debug panic any more)", False, "blake", IK.BLAKE_LIB, sub1("t.1 += 1;", "t.1 = t.1.wrapping_add(1);")),
  ("N71 threefish with_tweak: `t[s % 3]` -> `t[s % 2]`", False, "threefish", IK.TF_LIB, sub1("t[s % 3]", "t[s % 2]")),
  ("N72 threefish with_tweak: `i == $n_w - 1` -> `$n_w - 2`", False, "threefish", IK.TF_LIB, sub1("} else if i == $n_w - 1 {", "} else if i == $n_w - 2 {")),
  ("N73 threefish with_tweak: `% ($n_w + 1)` -> `% ($n_w)`", False, "threefish", IK.TF_LIB, sub1("k[(s + i) % ($n_w + 1)]", "k[(s + i) % ($n_w)]")),
  ("N74 threefish encrypt: second key word index 2*j+1 used for e0", False, "threefish", IK.TF_LIB, sub1("(v0.wrapping_add(self.sk[2 * i + d / 4][2 * j]),", "(v0.wrapping_add(self.sk[2 * i + d / 4][2 * j + 1]),")),
  ("N75 threefish encrypt: `if d % 4 == 0` -> `== 1`", False, "threefish", IK.TF_LIB, sub1("if d % 4 == 0 {", "if d % 4 == 1 {")),
  ("N76 threefish decrypt: outer loop not reversed", False, "threefish", IK.TF_LIB, sub1("for i in (0..$rounds/8).rev() {", "for i in 0..$rounds/8 {")),
  ("N77 threefish with_tweak: fold starts from 0 instead of C240", False, "threefish", IK.TF_LIB, sub1("fold(C240, BitXor::bitxor)", "fold(0, BitXor::bitxor)")),
  ("N78 threefish unroll8! (no_unroll shape only): `0..8` -> `0..7`", False, "threefish", IK.TF_LIB, sub1("for $var in 0..8 $body", "for $var in 0..7 $body")),
  ("N79 threefish unroll8_rev! (unrolled shape only): d = 7 and 6 exchanged", False, "threefish", IK.TF_LIB, sub1("        { const $var: usize = 7; $body; }\n        { const $var: usize = 6; $body; }", "        { const $var: usize = 6; $body; }\n        { const $var: usize = 7; $body; }")),
  ("N80 threefish encrypt: final key addition uses sk[$rounds / 8]", False, "threefish", IK.TF_LIB, sub1("v[i] = v[i].wrapping_add(self.sk[$rounds / 4][i]);", "v[i] = v[i].wrapping_add(self.sk[$rounds / 8][i]);")),
  ("N81 threefish encrypt: `$perm[2 * j + 1]` -> `$perm[2 * j]` for pi1", False, "threefish", IK.TF_LIB, sub1("($perm[2 * j], $perm[2 * j + 1]);\n                            v[pi0] = f0;", "($perm[2 * j], $perm[2 * j]);\n                            v[pi0] = f0;")),
  ("N82 threefish decrypt: `$rot[d % 8][j]` -> `$rot[d % 4][j]` (second occurrence)", False, "threefish", IK.TF_LIB, sub1("let r = $rot[d % 8][j];", "let r = $rot[d % 4][j];", nth=1)),
  ("N83 threefish write_u64v_le: to_le_bytes -> to_be_bytes", False, "threefish", IK.TF_LIB, sub1("c.copy_from_slice(&n.to_le_bytes());", "c.copy_from_slice(&n.to_be_bytes());")),
  ("N84 threefish encrypt: index out of range `v_tmp[2 * j + 2]` (interval analysis, loud)", False, "threefish", IK.TF_LIB, sub1("(v_tmp[2 * j], v_tmp[2 * j + 1]);", "(v_tmp[2 * j], v_tmp[2 * j + 2]);")),
  # harmless
  ("P10 refill_wide_impl: independent lets `b`, `c` reordered", True, "chacha", IK.GUTS, sub1("    let b = m.unpack(state.b);\n    let c = m.unpack(state.c);\n    let mut x = State {", "    let c = m.unpack(state.c);\n    let b = m.unpack(state.b);\n    let mut x = State {")),
  ("P11 refill_wide_impl: local `kk` renamed, `sd` computed before `sb`", True, "chacha", IK.GUTS, lambda s: s.replace("let kk = Mach::u32x4x4::from_lanes([k, k, k, k]);", "let sd = d0123(m, state.d);\n    let k4 = Mach::u32x4x4::from_lanes([k, k, k, k]);").replace("    let sd = d0123(m, state.d);\n    let results", "    let results").replace("x.a + kk,", "x.a + k4,")),
  ("P12 refill_wide_impl: the four stores in another order (same targets)", True, "chacha", IK.GUTS, sub1("    results.0.write_le(&mut out[0..64]);\n    results.1.write_le(&mut out[64..128]);", "    results.1.write_le(&mut out[64..128]);\n    results.0.write_le(&mut out[0..64]);")),
  ("P13 inc_block_ct: temporary for the increment, state update before the comment", True, "chacha", IK.GUTS, sub1("        pos = pos.wrapping_add(1);\n        let d1 = d0.insert((pos >> 32) as u32, 1).insert(pos as u32, 0);\n        self.d = d1.into();", "        let one: u64 = 1;\n        pos = pos.wrapping_add(one);\n        let hi = (pos >> 32) as u32;\n        let d1 = d0.insert(hi, 1).insert(pos as u32, 0);\n        self.d = d1.into();")),
  ("P14 refill_narrow: inc_block_ct before output_narrow is NOT harmless in general, but `state.d` is read by output_narrow: kept as is; instead reorder x's fields in the struct literal", True, "chacha", IK.GUTS, sub1("            a: m.unpack(x.a),\n            b: m.unpack(x.b),", "            b: m.unpack(x.b),\n            a: m.unpack(x.a),")),
  ("P15 blake put_block: `let m0` / `let m1` of the column step reordered", True, "blake", IK.BLAKE_LIB, sub1("                    let m0 = mach.vec([m0!(0), m0!(2), m0!(4), m0!(6)]);\n                    let m1 = mach.vec([m1!(0), m1!(2), m1!(4), m1!(6)]);", "                    let m1 = mach.vec([m1!(0), m1!(2), m1!(4), m1!(6)]);\n                    let m0 = mach.vec([m0!(0), m0!(2), m0!(4), m0!(6)]);")),
  ("P16 blake put_block: loop variable `sigma` renamed, `h` computed before the loop", True, "blake", IK.BLAKE_LIB, lambda s: s.replace("sigma", "sg").replace("                let h: (M::$X4, M::$X4) = (mach.unpack(state.h[0]), mach.unpack(state.h[1]));\n", "").replace("                for sg in &SIGMA[..$rounds] {", "                let h: (M::$X4, M::$X4) = (mach.unpack(state.h[0]), mach.unpack(state.h[1]));\n                for sg in &SIGMA[..$rounds] {")),
  ("P17 threefish: `v_tmp` renamed, `let r` moved before the key addition (encrypt)", True, "threefish", IK.TF_LIB, lambda s: s.replace("v_tmp", "vt").replace("                            let (e0, e1) =\n                                if d % 4 == 0 {\n                                    (v0.wrapping_add", "                            let r = $rot[d % 8][j];\n                            let (e0, e1) =\n                                if d % 4 == 0 {\n                                    (v0.wrapping_add").replace("                                };\n                            let r = $rot[d % 8][j];\n                            let (f0, f1) = mix(r, (e0, e1));", "                                };\n                            let (f0, f1) = mix(r, (e0, e1));")),
  ("P18 threefish with_tweak: the three `else if` tests written with a temporary, `t` built after `sk`", True, "threefish", IK.TF_LIB, lambda s: s.replace("                let t = [tweak0, tweak1, tweak0 ^ tweak1];\n                let mut sk = [[0u64; $n_w]; $rounds / 4 + 1];", "                let mut sk = [[0u64; $n_w]; $rounds / 4 + 1];\n                let tw2 = tweak0 ^ tweak1;\n                let t = [tweak0, tweak1, tw2];")),
  # ---------------------------------------------------------------- phase 3: the glue
  # ChaCha: rustcrypto_impl.rs
  ("N85 lazy fill: `self.len.wrapping_sub(1)` -> `self.len - 1` (R4-C01: a debug-only panic; checked vs wrapping is distinguished)", False, "chacha", IK.RCI, sub1("self.len = self.len.wrapping_sub(1);", "self.len = self.len - 1;")),
  ("N86 `self.fresh &= blocks_needed == 0` -> `self.fresh = false` (R3-C02)", False, "chacha", IK.RCI, sub1("self.fresh &= blocks_needed == 0;", "self.fresh = false;")),
  ("N87 overflow check: `if o && !self.fresh` -> `if o`", False, "chacha", IK.RCI, sub1("if o && !self.fresh {", "if o {")),
  ("N88 tail loop: `have = BLOCK - dd.len()` hoisted out of the loop (R4-C16)", False, "chacha", IK.RCI, sub1("            have = BLOCK - dd.len();\n        }", "        }\n        have = BLOCK - data.len() % BLOCK;")),
  ("N89 try_current_pos: `NonceSize::U32 != 12 &&` dropped (R4-C02)", False, "chacha", IK.RCI, sub1("if NonceSize::U32 != 12 && self.state.len == 0 && !self.state.fresh {", "if self.state.len == 0 && !self.state.fresh {")),
  ("N90 try_seek guard in block units (R3-C11)", False, "chacha", IK.RCI, sub1("ct > SMALL_LEN * BLOCK64", "ct / BLOCK64 > SMALL_LEN")),
  ("N91 IETF wrapper: nonce word not restored on the error path (C02 / C11 / R2-C01)", False, "chacha", IK.RCI, sub1("        let ctr = self.state.state.get_stream_param(0) & 0xffff_ffff;", "        if res.is_err() { return res; }\n        let ctr = self.state.state.get_stream_param(0) & 0xffff_ffff;")),
  ("N92 IETF wrapper: saved nonce word taken from the low half", False, "chacha", IK.RCI, sub1("let nonce0 = self.state.state.get_stream_param(0) >> 32;", "let nonce0 = self.state.state.get_stream_param(0) & 0xffff_ffff;")),
  ("N93 seek64: `buf.fresh = blockct == 0` -> `ct == 0`", False, "chacha", IK.RCI, sub1("buf.fresh = blockct == 0;", "buf.fresh = ct == 0;")),
  ("N94 seek32: the assert dropped", False, "chacha", IK.RCI, sub1("        assert!(blockct < SMALL_LEN || (blockct == SMALL_LEN && ct % BLOCK64 == 0));\n", "")),
  ("N96 ChaChaAny::new: `fresh: nonce_len != 12` -> `fresh: true`", False, "chacha", IK.RCI, sub1("fresh: nonce_len != 12,", "fresh: true,")),
  ("N97 ChaChaAny::new (X): `len: BIG_LEN` -> `len: SMALL_LEN`", False, "chacha", IK.RCI, sub1("                len: BIG_LEN,\n                fresh: true,", "                len: SMALL_LEN,\n                fresh: true,")),
  ("N98 wide loop over `chunks_mut` instead of `chunks_exact_mut`", False, "chacha", IK.RCI, sub1("for dd in d0.chunks_exact_mut(BUFSZ) {", "for dd in d0.chunks_mut(BUFSZ) {")),
  ("N99 drain: key bytes `&self.out[(BLOCK - have)..]` -> `&self.out[..have]`", False, "chacha", IK.RCI, sub1("zip(&self.out[(BLOCK - have)..])", "zip(&self.out[..have])")),
  ("N100 drain: `have -= have_ready;` dropped", False, "chacha", IK.RCI, sub1("        have -= have_ready;\n", "")),
  ("N101 wide split at a BLOCK multiple instead of a BUFSZ multiple", False, "chacha", IK.RCI, sub1("data.len() & !(BUFSZ - 1)", "data.len() & !(BLOCK - 1)")),
  ("N102 epilogue: `self.have = have as i8` -> `self.have = 0`", False, "chacha", IK.RCI, sub1("self.have = have as i8;", "self.have = 0;")),
  ("N103 lazy fill: `self.have += BLOCK as i8` made wrapping (no debug check)", False, "chacha", IK.RCI, sub1("self.have += BLOCK as i8;", "self.have = self.have.wrapping_add(BLOCK as i8);")),
  ("N104 wide loop body xors the stale block buffer instead of the fresh 256 bytes", False, "chacha", IK.RCI, sub1("for (data_b, key_b) in dd.iter_mut().zip(buf.iter()) {", "for (data_b, key_b) in dd.iter_mut().zip(self.out.iter()) {")),
  ("N105 StreamCipher::try_apply_keystream bypasses the nonce restore (calls the buffer directly)", False, "chacha", IK.RCI, sub1("Self::try_apply_keystream(self, data).map_err(|_| LoopError)", "self.state.try_apply_keystream::<WideEnabled>(data, Rounds::U32).map_err(|_| LoopError)")),
  ("N106 hand-written `impl Clone for Buffer` that forgets `fresh` (loud)", False, "chacha", IK.RCI, sub1("#[derive(Clone)]\npub struct Buffer {", "impl Clone for Buffer {\n    fn clone(&self) -> Self {\n        Buffer { state: self.state.clone(), out: self.out, have: self.have, len: self.len, fresh: false }\n    }\n}\npub struct Buffer {")),
  ("N107 StreamCipher impl overrides a provided method (`apply_keystream`): the trait-impl inventory changes", False, "chacha", IK.RCI, sub1("    fn try_apply_keystream(&mut self, data: &mut [u8]) -> Result<(), LoopError> {\n        Self::try_apply_keystream(self, data).map_err(|_| LoopError)\n    }", "    fn try_apply_keystream(&mut self, data: &mut [u8]) -> Result<(), LoopError> {\n        Self::try_apply_keystream(self, data).map_err(|_| LoopError)\n    }\n    fn apply_keystream(&mut self, data: &mut [u8]) {\n        let _ = self.state.try_apply_keystream::<WideEnabled>(data, Rounds::U32);\n    }")),
  ("N108 try_current_pos: `blocks - 1` -> `blocks.wrapping_sub(1)` and byte offset from `BLOCK as u8 - have as u8` -> `have as u8`", False, "chacha", IK.RCI, sub1("T::from_block_byte(blocks - 1, BLOCK as u8 - have as u8, BLOCK as u8)", "T::from_block_byte(blocks - 1, have as u8, BLOCK as u8)")),
  ("N109 try_seek calls seek64 for the 12-byte nonce too", False, "chacha", IK.RCI, sub1("        if NonceSize::U32 != 12 {\n            seek64(&mut self.state, ct);", "        if NonceSize::U32 != 13 {\n            seek64(&mut self.state, ct);")),
  # BLAKE: lib.rs
  ("N110 blake finalize: `t = (0, 0)` -> `t.0 = 0` (R3-C17)", False, "blake", IK.BLAKE_LIB, sub1("t = (0, 0);", "t.0 = 0;")),
  ("N111 blake finalize: `extra_block` test `>` -> `>=` (the 55/56-byte boundary, R4-C04)", False, "blake", IK.BLAKE_LIB, sub1("let extra_block = buffer.position() + footerlen > $buf;", "let extra_block = buffer.position() + footerlen >= $buf;")),
  ("N112 blake finalize: exactfit bits swapped", False, "blake", IK.BLAKE_LIB, sub1("                    0x00\n                } else {\n                    0x80\n                };", "                    0x80\n                } else {\n                    0x00\n                };")),
  ("N113 blake finalize: msglen halves exchanged", False, "blake", IK.BLAKE_LIB, lambda s: s.replace("msglen[..$buf / 16].copy_from_slice(&t.1.to_be_bytes());", "msglen[..$buf / 16].copy_from_slice(&t.0.to_be_bytes());").replace("msglen[$buf / 16..].copy_from_slice(&t.0.to_be_bytes());", "msglen[$buf / 16..].copy_from_slice(&t.1.to_be_bytes());")),
  ("N114 blake finalize: padding-only test on the ORIGINAL position", False, "blake", IK.BLAKE_LIB, sub1("                if buffer.position() == 0 {\n                    // don't xor t", "                if extra_block {\n                    // don't xor t")),
  ("N115 blake update: counter increment per block `* 16` -> `* 8`", False, "blake", IK.BLAKE_LIB, sub1("(mem::size_of::<$word>() * 16) as $word", "(mem::size_of::<$word>() * 8) as $word")),
  ("N116 blake update: compress BEFORE the counter update (C17 carry-after-compress)", False, "blake", IK.BLAKE_LIB, sub1("                    Self::increase_count(t, (mem::size_of::<$word>() * 16) as $word);\n                    compressor.put_block(block, *t);", "                    compressor.put_block(block, *t);\n                    Self::increase_count(t, (mem::size_of::<$word>() * 16) as $word);")),
  ("N117 blake reset skipped when nothing is buffered", False, "blake", IK.BLAKE_LIB, sub1("                *self = Self::default()\n", "                if self.buffer.position() != 0 { *self = Self::default() }\n")),
  ("N118 blake Default: `t: (0, 0)` -> `t: (0, 1)`", False, "blake", IK.BLAKE_LIB, sub1("                    t: (0, 0),", "                    t: (0, 1),")),
  ("N119 blake finalize: counts `buffer.position()` twice", False, "blake", IK.BLAKE_LIB, sub1("Self::increase_count(&mut t, buffer.position() as $word);", "Self::increase_count(&mut t, buffer.position() as $word * 2);")),
  ("N120 blake: hand-written Clone that drops the counter (loud)", False, "blake", IK.BLAKE_LIB, sub1("        #[derive(Clone)]\n        pub struct $name {", "        impl Clone for $name {\n            fn clone(&self) -> Self { $name { compressor: self.compressor, buffer: self.buffer.clone(), t: (0, 0) } }\n        }\n        pub struct $name {")),
  ("N121 blake finalize: output truncated one byte short", False, "blake", IK.BLAKE_LIB, sub1("&compressor.finalize()[..$Bytes::to_usize()]", "&compressor.finalize()[..$Bytes::to_usize() - 1]")),
  # JH: lib.rs
  ("N122 jh reset skipped when datalen is zero (C06 seeded)", False, "jh", IK.JH_LIB, sub1("                *self = Self::default();", "                if self.datalen != 0 { *self = Self::default(); }")),
  ("N123 jh length field: `* 8` -> `<< 3` (no overflow check; R4-C06 kind)", False, "jh", IK.JH_LIB, sub1("let len = self.datalen as u64 * 8;", "let len = (self.datalen as u64) << 3;")),
  ("N124 jh finalize: branch on datalen instead of the buffer position", False, "jh", IK.JH_LIB, sub1("if buffer.position() == 0 {", "if self.datalen % 64 == 0 && buffer.position() == 0 || self.datalen == 0 {")),
  ("N125 jh finalize: length stored at `last[48..56]`", False, "jh", IK.JH_LIB, sub1("last[56..].copy_from_slice(&len.to_be_bytes());", "last[48..56].copy_from_slice(&len.to_be_bytes());")),
  ("N126 jh finalize: output is the FIRST $OutputBytes of the state", False, "jh", IK.JH_LIB, sub1("&finalized[(128 - $OutputBytes::to_usize())..]", "&finalized[..$OutputBytes::to_usize()]")),
  ("N127 jh update: datalen not updated for an empty buffer", False, "jh", IK.JH_LIB, sub1("                self.datalen += data.len();", "                if data.len() > 1 { self.datalen += data.len(); }")),
  ("N128 jh Default: `datalen: 0` -> `datalen: 1`", False, "jh", IK.JH_LIB, sub1("datalen: 0,", "datalen: 1,")),
  ("N129 jh: hand-written Clone that resets datalen (loud)", False, "jh", IK.JH_LIB, sub1("        #[derive(Clone)]\n        pub struct $name {", "        impl Clone for $name {\n            fn clone(&self) -> Self { $name { state: self.state, buffer: self.buffer.clone(), datalen: 0 } }\n        }\n        pub struct $name {")),
  ("N130 jh finalize: Iso7816 padding replaced by ZeroPadding", False, "jh", IK.JH_LIB, lambda s: s.replace("use block_buffer::block_padding::Iso7816;", "use block_buffer::block_padding::ZeroPadding;").replace("buffer.pad_with::<Iso7816>()", "buffer.pad_with::<ZeroPadding>()")),
  # Skein: lib.rs
  ("N131 skein process_block: `state.t.1 &= !T1_FLAG_FIRST` dropped", False, "skein", IK.SKEIN_LIB, sub1("                state.t.1 &= !T1_FLAG_FIRST;\n", "")),
  ("N132 skein finalize: FINAL flag not set", False, "skein", IK.SKEIN_LIB, sub1("                self.state.t.1 |= T1_FLAG_FINAL;\n", "")),
  ("N133 skein output loop: counter truncated to u8 (C05 seeded)", False, "skein", IK.SKEIN_LIB, sub1("&(i as u64).to_le_bytes()", "&(i as u8 as u64).to_le_bytes()")),
  ("N134 skein output loop: word-wise copy drops the tail (R3-C05)", False, "skein", IK.SKEIN_LIB, sub1("let n = chunk.len();", "let n = chunk.len() / 8 * 8;")),
  ("N135 skein reset skipped after an empty finalize (C08 seeded)", False, "skein", IK.SKEIN_LIB, sub1("                *self = Self::default();", "                if self.buffer.position() != 0 || self.state.t.0 != 0 { *self = Self::default(); }")),
  ("N136 skein default: `state.t.1 = FIRST | MSG` -> `|=` (keeps FINAL; R2-C05)", False, "skein", IK.SKEIN_LIB, sub1("state.t.1 = T1_FLAG_FIRST | T1_BLK_TYPE_MSG;", "state.t.1 |= T1_FLAG_FIRST | T1_BLK_TYPE_MSG;")),
  ("N137 skein update: `input_lazy` -> `input_block` (R4-C05: a full lazy buffer is flushed early)", False, "skein", IK.SKEIN_LIB, sub1("buffer.input_lazy(data.as_ref(), |block| {", "buffer.input_block(data.as_ref(), |block| {")),
  ("N138 skein: hand-written Clone that drops the byte counter (R3-C08; loud)", False, "skein", IK.SKEIN_LIB, sub1("#[derive(Clone)]\nstruct State<X> {", "impl<X: Clone> Clone for State<X> {\n    fn clone(&self) -> Self { State { t: (0, self.t.1), x: self.x.clone() } }\n}\nstruct State<X> {")),
  ("N139 skein process_block: byte counter add made wrapping", False, "skein", IK.SKEIN_LIB, sub1("state.t.0 += byte_count_add as u64;", "state.t.0 = state.t.0.wrapping_add(byte_count_add as u64);")),
  ("N140 skein update: closure counts half a block", False, "skein", IK.SKEIN_LIB, sub1("Self::process_block(state, block, $state_bits / 8)", "Self::process_block(state, block, $state_bits / 16)")),
  ("N141 skein default: config block says N bytes instead of bits", False, "skein", IK.SKEIN_LIB, sub1("&(N::to_u64() * 8).to_le_bytes()", "&(N::to_u64()).to_le_bytes()")),
  ("N142 skein finalize: last block counted as a full block", False, "skein", IK.SKEIN_LIB, sub1("Self::process_block(&mut self.state, final_block, pos);", "Self::process_block(&mut self.state, final_block, $state_bits / 8);")),
  # Groestl: lib.rs
  ("N143 groestl final count: `remaining() <= 8` -> `< 8`", False, "groestl", GROESTL_LIB, sub1("(buffer.remaining() <= 8) as u64", "(buffer.remaining() < 8) as u64")),
  ("N144 groestl block counter through u32 (C07 seeded kind)", False, "groestl", GROESTL_LIB, sub1("*block_counter += 1;", "*block_counter = (*block_counter as u32 + 1) as u64;")),
  ("N145 groestl reset fast path when the buffer is empty (R2-C07)", False, "groestl", GROESTL_LIB, sub1("                *self = $groestl::default();", "                if self.buffer.position() == 0 { return; }\n                *self = $groestl::default();")),
  ("N146 groestl: hand-written Clone that drops the block counter (R3-C07; loud)", False, "groestl", GROESTL_LIB, sub1("        #[derive(Clone)]\n        pub struct $groestl {", "        impl Clone for $groestl {\n            fn clone(&self) -> Self { $groestl { buffer: self.buffer.clone(), block_counter: 0, compressor: self.compressor.clone() } }\n        }\n        pub struct $groestl {")),
  ("N147 Groestl224 output: `result[4] >> 32` -> low half", False, "groestl", GROESTL_LIB, sub1("((result[4] >> 32) as u32)", "(result[4] as u32)")),
  ("N148 groestl new_truncated: `.to_be()` -> `.to_le()`", False, "groestl", GROESTL_LIB, sub1("u64::from(bits).to_be()", "u64::from(bits).to_le()")),
  ("N149 Groestl224::reset re-initialises as Groestl256", False, "groestl", GROESTL_LIB, sub1("self.0 = Groestl256::new_truncated(224);", "self.0 = Groestl256::new_truncated(256);")),
  ("N150 groestl finalize_into_dirty: output taken from the first half of the state", False, "groestl", GROESTL_LIB, sub1("zip(&result[$bits::USIZE / 128..])", "zip(&result[..$bits::USIZE / 128])")),
  # Threefish trait impls
  ("N151 threefish `new` = with_tweak(key, 0, 1)", False, "threefish", IK.TF_LIB, sub1("Self::with_tweak(key, 0, 0)", "Self::with_tweak(key, 0, 1)")),
  ("N152 threefish: BlockDecrypt overrides `decrypt_blocks` (R3-C10): the trait-impl inventory changes", False, "threefish", IK.TF_LIB, sub1("        impl BlockDecrypt for $name {\n            fn decrypt_block(", "        impl BlockDecrypt for $name {\n            fn decrypt_blocks(&self, blocks: &mut [GenericArray<u8, Self::BlockSize>]) {\n                for b in blocks { self.encrypt_block(b); }\n            }\n            fn decrypt_block(")),
  # harmless rewrites of the glue: byte-identical output
  ("P19 try_apply: `self.len = l;` and `self.fresh &= ..;` exchanged", True, "chacha", IK.RCI, sub1("        self.len = l;\n        self.fresh &= blocks_needed == 0;", "        self.fresh &= blocks_needed == 0;\n        self.len = l;")),
  ("P20 try_apply: locals `have_ready`, `blocks_needed`, `datalen` renamed", True, "chacha", IK.RCI, lambda s: s.replace("have_ready", "hr").replace("blocks_needed", "need").replace("datalen", "dl")),
  ("P21 try_apply: temporary for `data.len() - have_ready`", True, "chacha", IK.RCI, sub1("let datalen = (data.len() - have_ready) as u64;", "let rem = data.len() - have_ready;\n        let datalen = rem as u64;")),
  ("P22 seek64: the three field assignments reordered", True, "chacha", IK.RCI, sub1("        buf.len = BIG_LEN.wrapping_sub(blockct);\n        buf.fresh = blockct == 0;\n        buf.have = -((ct % BLOCK64) as i8);", "        buf.have = -((ct % BLOCK64) as i8);\n        buf.fresh = blockct == 0;\n        buf.len = BIG_LEN.wrapping_sub(blockct);")),
  ("P23 try_current_pos: `have > 0` written `0 < have`, `let have` moved up", True, "chacha", IK.RCI, lambda s: s.replace("        let have = self.state.have;\n        if have > 0 {", "        if have0 > 0 {").replace("        let total = if NonceSize::U32 != 12 {", "        let have0 = self.state.have;\n        let have = have0;\n        let total = if NonceSize::U32 != 12 {").replace("if have0 > 0 {", "if 0 < have0 {")),
  ("P24 IETF wrapper: `ctr` computed through a temporary", True, "chacha", IK.RCI, sub1("let ctr = self.state.state.get_stream_param(0) & 0xffff_ffff;", "let cur = self.state.state.get_stream_param(0);\n        let ctr = cur & 0xffff_ffff;")),
  ("P25 blake finalize: `footerlen` / `isfull` lines exchanged, `magic` renamed", True, "blake", IK.BLAKE_LIB, lambda s: s.replace("magic", "mg")),
  ("P26 blake update: the two `let` aliases exchanged", True, "blake", IK.BLAKE_LIB, sub1("                let compressor = &mut self.compressor;\n                let t = &mut self.t;", "                let t = &mut self.t;\n                let compressor = &mut self.compressor;")),
  ("P27 jh update: alias line moved before the counter update", True, "jh", IK.JH_LIB, sub1("                self.datalen += data.len();\n                let state = &mut self.state;", "                let state = &mut self.state;\n                self.datalen += data.len();")),
  ("P28 jh finalize: `len` renamed", True, "jh", IK.JH_LIB, lambda s: s.replace("let len = self.datalen as u64 * 8;", "let bitlen = self.datalen as u64 * 8;").replace("len64_padding_be(len,", "len64_padding_be(bitlen,").replace("&len.to_be_bytes()", "&bitlen.to_be_bytes()")),
  ("P29 skein update: alias lines exchanged", True, "skein", IK.SKEIN_LIB, sub1("                let buffer = &mut self.buffer;\n                let state = &mut self.state;", "                let state = &mut self.state;\n                let buffer = &mut self.buffer;")),
  ("P30 skein process_block: `fish` renamed, `x` cloned through a temporary", True, "skein", IK.SKEIN_LIB, lambda s: s.replace("let fish = $threefish::with_tweak", "let tf = $threefish::with_tweak").replace("fish.encrypt_block(x.as_byte_array_mut());", "tf.encrypt_block(x.as_byte_array_mut());").replace("let mut x = block.clone();", "let b2 = block.clone();\n                let mut x = b2;")),
  ("P31 groestl update: counter increment after the compression (same dataflow)", True, "groestl", GROESTL_LIB, sub1("                    *block_counter += 1;\n                    compressor.input(b)", "                    compressor.input(b);\n                    *block_counter += 1;")),
  ("P32 groestl finalize_dirty: alias lines exchanged", True, "groestl", GROESTL_LIB, sub1("                let buffer = &mut self.buffer;\n                let compressor = &mut self.compressor;\n                let count", "                let compressor = &mut self.compressor;\n                let buffer = &mut self.buffer;\n                let count")),
  ("P34 seek32: `SMALL_LEN - blockct` -> wrapping_sub: the generated text changes (no debug guard) but the obligation is still PROVED — under the assert the subtraction cannot overflow (the tie is semantic, not textual)", True, "chacha", IK.RCI, sub1("buf.len = SMALL_LEN - blockct;", "buf.len = SMALL_LEN.wrapping_sub(blockct);")),
  ("P33 threefish new: literal tweaks through constants", True, "threefish", IK.TF_LIB, sub1("Self::with_tweak(key, 0, 0)", "Self::with_tweak(key, 0x0, 0u64)")),
]

def selected(cid, o):
    if o.endswith("*"):
        return cid.startswith(o[:-1])
    m = re.match(r"^([NP])(\d+)-\1(\d+)$", o)
    if m:
        return cid[0] == m.group(1) and int(m.group(2)) <= int(cid[1:]) <= int(m.group(3))
    return cid == o

def run(cmd, **kw):
    return subprocess.run(cmd, stdout=subprocess.PIPE, stderr=subprocess.STDOUT, universal_newlines=True, **kw)

def main():
    results = []
    only = sys.argv[1:]
    for cid, expect_ok, fam, rel, mut in CASES:
        if only and not any(selected(cid.split()[0], o) for o in only):
            continue
        shutil.rmtree(ROOT, ignore_errors=True)
        for f in FILES:
            os.makedirs(os.path.dirname(os.path.join(ROOT, f)), exist_ok=True)
            shutil.copy(os.path.join("/repo", f), os.path.join(ROOT, f))
        p = os.path.join(ROOT, rel)
        s = open(p).read()
        s2 = mut(s)
        assert s2 != s, cid
        open(p, "w").write(s2)
        env = dict(os.environ, VERIF_REPO=ROOT)
        r = run([sys.executable, K + "/tools/inventory_kernels.py"], env=env)
        terr = [l for l in r.stdout.splitlines() if l.startswith("TRANSLATION ERROR")]
        t0 = time.time()
        b = run(["lake", "build", MOD[fam]], cwd=K + "/lean")
        ok = b.returncode == 0
        errs = [l for l in b.stdout.splitlines() if l.startswith("error:")]
        first = errs[0][:150] if errs else ""
        verdict = "as expected" if ok == expect_ok else "UNEXPECTED"
        print("%-9s %s | translator errors: %d | lake build %s: %s (%.1fs) | %s %s" % (
            verdict, cid, len(terr), MOD[fam], "OK" if ok else "FAILED", time.time() - t0, first, (terr[0][:140] if terr else "")))
        sys.stdout.flush()
        results.append(ok == expect_ok)
    shutil.rmtree(ROOT, ignore_errors=True)
    # restore from the real repository
    r = run([sys.executable, K + "/tools/inventory_kernels.py", "--repo", "/repo"])
    print(r.stdout.strip().splitlines()[0])
    print("ALL AS EXPECTED" if all(results) else "SOME UNEXPECTED", len(results), "cases")

main()
