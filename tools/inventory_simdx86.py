#!/usr/bin/env python3
"""tools/inventory_simdx86.py — source-to-Lean TRANSLATOR for the x86 backend of ppv-lite86
(utils-simd/ppv-lite86/src/x86_64/sse2.rs incl. `mod avx2`, and the storage unions of x86_64/mod.rs).

    simdx86_regenerate(repo)      (CLI: python3 tools/inventory_simdx86.py [--repo DIR] [--out FILE | --print])

For every impl block of the vector types (macro invocations expanded with the invocation's arguments) and
every method, the body is evaluated SYMBOLICALLY under every (S3, S4) flag combination the impl header admits;
trait methods called inside are resolved like rustc does (the unique impl whose header matches the concrete
type) and inlined.  The result is a hash-consed dataflow graph over the intrinsic models of
lean/CC/X86/Intrin.lean, printed in canonical order as `def <type>[_<flags that selected an impl>]_<method>`
into lean/CC/Gen/SimdX86Src.lean, together with the literal rows of the macro invocation lists.
lean/CC/Simd/SrcX86.lean states that the hand-written model (lean/CC/Simd/Impl/X86.lean, X86Wide.lean) equals
every one of them (`CC.Thm.C12.source_x86_match`, `CC.Thm.C13.source_x86_match`).

Anything not understood is a translation ERROR (the definition becomes a `String`, the message goes into
`simdx86_errors`, whose obligation is `= []`).  Standard library only; deterministic.
"""
import os, sys

_HERE = os.path.dirname(os.path.abspath(__file__))
sys.path.insert(0, _HERE)
import inventory_kernels as K

TErr = K.TErr
is_p, is_id, match_close = K.is_p, K.is_id, K.match_close
_LEAN = os.path.join(os.path.dirname(_HERE), "lean")
DEFAULT_OUT = os.path.join(_LEAN, "CC", "Gen", "SimdX86Src.lean")
FILES = ["utils-simd/ppv-lite86/src/x86_64/mod.rs", "utils-simd/ppv-lite86/src/x86_64/sse2.rs"]


# =========================================================================== tokens

def split_shr(toks):
    """`>>` becomes two `>` tokens (the first marked `joint`) so that nested generics parse; the expression
    parser reads a joint pair as the shift operator"""
    out = []
    for t in toks:
        if t.k == "p" and t.s == ">>":
            out.append(K.Tok("p", ">", None, "joint"))
            out.append(K.Tok("p", ">"))
        else:
            out.append(t)
    return out


def toks_text(toks):
    return " ".join(t.s for t in toks)


def arg_text(toks):
    """macro argument as text, integer literals in canonical spelling"""
    return " ".join((("0x%x" % t.v if t.v > 255 else str(t.v)) + (t.suf or "")) if t.k == "int" else t.s for t in toks)


# =========================================================================== parser

class XP(K.P):
    LV = [["|"], ["^"], ["&"], ["<<", ">>"], ["+", "-"], ["*", "/", "%"]]

    # ---- types
    def type_(self):
        if self.at_p("&"):
            self.i += 1
            if self.peek() is not None and self.peek().k == "life":
                self.i += 1
            m = False
            if self.at_id("mut"):
                self.i += 1
                m = True
            return ("ref", m, self.type_())
        if self.at_p("*"):
            self.i += 1
            if self.at_id("const") or self.at_id("mut"):
                self.i += 1
            else:
                raise TErr("raw pointer type not understood at `%s`" % self.ctx())
            return ("ptr", self.type_())
        if self.at_id("_"):
            self.i += 1
            return ("infer",)
        if self.at_p("["):
            self.i += 1
            el = self.type_()
            n = None
            if self.at_p(";"):
                self.i += 1
                n = self.expr()
            self.eat_p("]")
            return ("array", el, n)
        return K.P.type_(self)

    # ---- patterns
    def pattern(self):
        if self.at_p("("):
            self.i += 1
            items = []
            while not self.at_p(")"):
                items.append(self.pattern())
                if self.at_p(","):
                    self.i += 1
            self.eat_p(")")
            return ("ptuple", items)
        if self.at_p("["):
            self.i += 1
            items = []
            while not self.at_p("]"):
                items.append(self.pattern())
                if self.at_p(","):
                    self.i += 1
            self.eat_p("]")
            return ("pslice", items)
        if self.at_id("mut"):
            self.i += 1
        if self.at_p("&") or self.at_id("ref"):
            raise TErr("reference pattern at `%s`" % self.ctx())
        return ("pid", self.eat_id())

    # ---- expressions
    def _binop(self, lvl):
        t = self.peek()
        if t is None or t.k != "p":
            return None, 0
        if t.s == ">" and t.suf == "joint" and is_p(self.peek(1), ">"):
            return (">>", 2) if ">>" in self.LV[lvl] else (None, 0)
        if t.s == "|" and is_p(self.peek(1), "|"):
            return None, 0
        if t.s in self.LV[lvl] and t.s != ">>":
            return t.s, 1
        return None, 0

    def expr(self, lvl=0):
        if lvl == len(self.LV):
            return self.cast()
        e = self.expr(lvl + 1)
        while True:
            op, w = self._binop(lvl)
            if op is None:
                return e
            self.i += w
            e = ("bin", op, e, self.expr(lvl + 1))

    def unary(self):
        if self.at_p("!") or self.at_p("-"):
            op = self.peek().s
            self.i += 1
            return ("un", op, self.unary())
        if self.at_p("&"):
            self.i += 1
            if self.at_id("mut"):
                self.i += 1
            return ("ref", self.unary())
        if self.at_p("*"):
            self.i += 1
            return ("deref", self.unary())
        return self.postfix()

    def block(self):
        """at `{`: -> ("block", stmts, result)"""
        e = match_close(self.t, self.i)
        q = XP(self.t, self.i + 1, e - 1)
        stmts, result = q.block_body()
        self.i = e
        return ("block", stmts, result)

    def primary(self):
        t = self.peek()
        if t is None:
            raise TErr("expression expected at end of input")
        if t.k == "p" and t.s == "{":
            return self.block()
        if t.k == "id" and t.s == "unsafe" and self.at_p("{", 1):
            self.i += 1
            return self.block()
        if t.k == "id" and t.s == "match":
            self.i += 1
            scrut = self.expr_nostruct()
            if not self.at_p("{"):
                raise TErr("`{` expected after the match scrutinee at `%s`" % self.ctx())
            e = match_close(self.t, self.i)
            q = XP(self.t, self.i + 1, e - 1)
            arms = []
            while not q.done():
                pats = []
                while True:
                    if q.at_id("_"):
                        q.i += 1
                        pats.append(("wild",))
                    elif q.peek() is not None and q.peek().k == "int":
                        pats.append(("int", q.peek().v))
                        q.i += 1
                    else:
                        raise TErr("match pattern not understood at `%s`" % q.ctx())
                    if q.at_p("|"):
                        q.i += 1
                        continue
                    break
                q.eat_p("=>")
                body = q.expr()
                if q.at_p("="):
                    q.i += 1
                    body = ("assignexpr", body, q.expr())
                arms.append((pats, body))
                if q.at_p(","):
                    q.i += 1
                elif not q.done() and body[0] not in ("block", "match"):
                    raise TErr("`,` expected after a match arm at `%s`" % q.ctx())
            self.i = e
            return ("match", scrut, arms)
        if t.k == "id" and t.s not in ("if", "loop", "while", "for", "return", "break", "continue", "move", "let",
                                       "fn", "struct", "impl", "use", "const", "static", "unsafe"):
            segs = [self.eat_id()]
            while self.at_p("::"):
                self.i += 1
                if self.at_p("<"):
                    raise TErr("turbofish at `%s`" % self.ctx())
                segs.append(self.eat_id())
            if self.at_p("!"):
                self.i += 1
                if not (self.at_p("(") or self.at_p("[") or self.at_p("{")):
                    raise TErr("macro call without arguments at `%s`" % self.ctx())
                e = match_close(self.t, self.i)
                body = self.t[self.i + 1:e - 1]
                self.i = e
                return ("macro", segs[-1], body)
            if self.at_p("("):
                return ("call", segs, self.args())
            if self.at_p("{") and not getattr(self, "nostruct", False) and self._looks_like_struct_lit():
                self.i += 1
                fields = []
                while not self.at_p("}"):
                    f = self.eat_id()
                    if self.at_p(":"):
                        self.i += 1
                        fields.append((f, self.expr()))
                    else:
                        fields.append((f, ("path", [f])))
                    if self.at_p(","):
                        self.i += 1
                    elif not self.at_p("}"):
                        raise TErr("`,` or `}` expected in a struct literal at `%s`" % self.ctx())
                self.eat_p("}")
                return ("structlit", segs, fields)
            return ("path", segs)
        return K.P.primary(self)

    def expr_nostruct(self):
        old = getattr(self, "nostruct", False)
        self.nostruct = True
        try:
            return self.expr()
        finally:
            self.nostruct = old

    ASSIGN = ("=", "+=", "^=", "&=", "|=", "-=")

    def block_body(self):
        stmts, result = [], None
        while not self.done():
            if self.at_p(";"):
                self.i += 1
                continue
            if self.at_p("#"):
                raise TErr("attribute inside a body at `%s`" % self.ctx())
            if self.at_id("let"):
                self.i += 1
                pat = self.pattern()
                ty = None
                if self.at_p(":"):
                    self.i += 1
                    ty = self.type_()
                self.eat_p("=")
                e = self.expr()
                self.eat_p(";")
                stmts.append(("let", pat, ty, e))
                continue
            if self.at_id("const"):
                self.i += 1
                name = self.eat_id()
                self.eat_p(":")
                ty = self.type_()
                self.eat_p("=")
                e = self.expr()
                self.eat_p(";")
                stmts.append(("const", name, ty, e))
                continue
            e = self.expr()
            t = self.peek()
            if t is None:
                result = e
                break
            if t.k == "p" and t.s in self.ASSIGN:
                self.i += 1
                rhs = self.expr()
                self.eat_p(";")
                stmts.append(("assign", e, None if t.s == "=" else t.s[:-1], rhs))
                continue
            if t.k == "p" and t.s == ";":
                self.i += 1
                stmts.append(("expr", e))
                continue
            if e[0] in ("block", "match"):
                stmts.append(("expr", e))
                continue
            raise TErr("statement not understood at `%s`" % self.ctx())
        return stmts, result


# =========================================================================== items

class Fn(object):
    def __init__(self, name, selfkind, params, ret, toks, lo, hi, via):
        self.name, self.selfkind, self.params, self.ret = name, selfkind, params, ret
        self.toks, self.lo, self.hi, self.via = toks, lo, hi, via
        self._body = None

    def body(self):
        if self._body is None:
            q = XP(self.toks, self.lo, self.hi)
            st, res = q.block_body()
            self._body = ("block", st, res)
        return self._body


class Impl(object):
    def __init__(self, gens, trait, selfty, header, via, mod, rel):
        self.gens, self.trait, self.selfty, self.header, self.via, self.mod, self.rel = gens, trait, selfty, header, via, mod, rel
        self.fns, self.order, self.assoc = {}, [], []


class Macro(object):
    def __init__(self, name, rules):
        self.name, self.rules = name, rules        # rules: [(params [(name, frag)] | None, body toks)]


class Items(object):
    """all items of the translated files, macro invocations expanded"""

    def __init__(self):
        self.impls, self.free, self.structs, self.aliases = [], {}, {}, {}
        self.macros, self.invocations, self.errors = {}, [], []
        self.fn_rows = []          # (impl, fn name, macro | "fn", [int args]) for fns inside impl blocks

    def load(self, repo, rel):
        path = os.path.join(repo, rel)
        if not os.path.exists(path):
            raise TErr("source file %s not found" % rel)
        toks = split_shr(K.drop_cfg_test(K.lex(open(path, encoding="utf-8", errors="replace").read())))
        self.rel = rel
        self.parse_items(toks, 0, len(toks), None, None, "")

    def err(self, msg):
        self.errors.append("%s: %s" % (self.rel, msg))

    # ---- macro_rules
    def parse_macro(self, toks, i):
        """toks[i] = macro_rules; returns index past it"""
        name = toks[i + 2].s
        j = i + 3
        e = match_close(toks, j)
        rules, k = [], j + 1
        while k < e - 1:
            if is_p(toks[k], ";"):
                k += 1
                continue
            me = match_close(toks, k)
            matcher = toks[k + 1:me - 1]
            if not is_p(toks[me], "=>"):
                raise TErr("macro_rules %s: `=>` expected" % name)
            be = match_close(toks, me + 1)
            body = toks[me + 2:be - 1]
            params, simple, q = [], True, 0
            while q < len(matcher):
                if is_p(matcher[q], "$"):
                    if q + 3 < len(matcher) + 1 and is_id(matcher[q + 1]) and is_p(matcher[q + 2], ":") and is_id(matcher[q + 3]):
                        params.append((matcher[q + 1].s, matcher[q + 3].s))
                        q += 4
                        continue
                    simple = False
                    break
                if not is_p(matcher[q], ","):
                    simple = False
                    break
                q += 1
            rules.append((params if simple else None, body))
            k = be
        self.macros[name] = Macro(name, rules)
        return e

    @staticmethod
    def split_args(toks):
        args, cur, j = [], [], 0
        while j < len(toks):
            x = toks[j]
            if x.k == "p" and x.s in K.OPEN:
                k = match_close(toks, j)
                cur.extend(toks[j:k])
                j = k
                continue
            if is_p(x, ","):
                args.append(cur)
                cur = []
            else:
                cur.append(x)
            j += 1
        if cur:
            args.append(cur)
        return args

    def expand(self, name, argtoks):
        m = self.macros.get(name)
        if m is None:
            raise TErr("macro %s! is not defined in the translated files" % name)
        args = self.split_args(argtoks)
        for params, body in m.rules:
            if params is None or len(params) != len(args):
                continue
            sub = {}
            for (pn, frag), a in zip(params, args):
                if frag == "expr" and len(a) > 1:
                    a = [K.Tok("p", "(")] + a + [K.Tok("p", ")")]
                elif frag not in ("expr", "ident", "ty"):
                    raise TErr("macro %s!: fragment `%s` not supported" % (name, frag))
                sub[pn] = a
            out, q = [], 0
            while q < len(body):
                if is_p(body[q], "$") and q + 1 < len(body) and is_id(body[q + 1]) and body[q + 1].s in sub:
                    out.extend(sub[body[q + 1].s])
                    q += 2
                elif is_p(body[q], "$"):
                    raise TErr("macro %s!: `$%s` not understood" % (name, body[q + 1].s if q + 1 < len(body) else ""))
                else:
                    out.append(body[q])
                    q += 1
            return out, args
        raise TErr("macro %s!: no rule with %d plain arguments" % (name, len(args)))

    # ---- items
    def parse_fn(self, toks, i, via):
        """toks[i] = fn; -> (Fn, index past)"""
        name = toks[i + 1].s
        p = XP(toks, i + 2)
        p.generics()
        p.eat_p("(")
        params, selfkind = [], None
        while not p.at_p(")"):
            if p.at_p("#"):
                raise TErr("attribute on a parameter of fn %s" % name)
            j = p.i
            amp = False
            if p.at_p("&"):
                amp = True
                p.i += 1
                if p.peek() is not None and p.peek().k == "life":
                    p.i += 1
            mut = False
            if p.at_id("mut"):
                mut = True
                p.i += 1
            if p.at_id("self") and not p.at_p(":", 1):
                p.i += 1
                selfkind = "mutref" if (amp and mut) else "ref" if amp else "val"
            else:
                p.i = j
                pat = p.pattern()
                p.eat_p(":")
                params.append((pat, p.type_()))
            if p.at_p(","):
                p.i += 1
            elif not p.at_p(")"):
                raise TErr("parameter list of fn %s not understood at `%s`" % (name, p.ctx()))
        p.eat_p(")")
        ret = None
        if p.at_p("->"):
            p.i += 1
            ret = p.type_()
        while not p.at_p("{"):
            if p.done() or p.at_p(";"):
                raise TErr("body of fn %s not found" % name)
            p.i += 1
        e = match_close(toks, p.i)
        return Fn(name, selfkind, params, ret, toks, p.i + 1, e - 1, via), e

    def parse_decl(self, toks, i):
        kind, name = toks[i].s, toks[i + 1].s
        p = XP(toks, i + 2)
        gens = [g for g, _ in p.generics()]
        fields = []
        if p.at_p("{"):
            e = match_close(toks, p.i)
            q = XP(toks, p.i + 1, e - 1)
            while not q.done():
                while q.at_p("#"):
                    q.i = K.skip_attr(toks, q.i)
                if q.at_id("pub"):
                    q.i += 1
                    if q.at_p("("):
                        q.i = match_close(toks, q.i)
                f = q.eat_id()
                q.eat_p(":")
                fields.append((f, q.type_()))
                if q.at_p(","):
                    q.i += 1
            end = e
        elif p.at_p("("):
            e = match_close(toks, p.i)
            q = XP(toks, p.i + 1, e - 1)
            k = 0
            while not q.done():
                if q.at_id("pub"):
                    q.i += 1
                fields.append((str(k), q.type_()))
                k += 1
                if q.at_p(","):
                    q.i += 1
            end = e
            if is_p(toks[end], ";"):
                end += 1
        elif p.at_p(";"):
            end = p.i + 1
        else:
            raise TErr("%s %s: body not understood" % (kind, name))
        if name in self.structs:
            raise TErr("%s %s declared twice" % (kind, name))
        self.structs[name] = (kind, gens, fields)
        return end

    def parse_items(self, toks, lo, hi, via, impl, mod):
        i = lo
        cfg_pending = None
        while i < hi:
            t = toks[i]
            try:
                if is_p(t, "#"):
                    e = K.skip_attr(toks, i)
                    txt = "".join(x.s for x in toks[i:e])
                    if txt.startswith("#[cfg(") or txt.startswith("#![cfg("):
                        cfg_pending = txt
                    i = e
                    continue
                if is_p(t, ";"):
                    i += 1
                    continue
                if is_id(t, "pub"):
                    i += 1
                    if is_p(toks[i], "("):
                        i = match_close(toks, i)
                    continue
                if is_id(t, "use") or is_id(t, "static") or is_id(t, "const") and not is_id(toks[i + 1], "fn"):
                    while not is_p(toks[i], ";"):
                        i = match_close(toks, i) if (toks[i].k == "p" and toks[i].s in K.OPEN) else i + 1
                    i += 1
                    cfg_pending = None
                    continue
                if cfg_pending is not None:
                    self.err("item under %s: which alternative is compiled is not modelled (`%s …`)" % (cfg_pending, toks_text(toks[i:i + 4])))
                    cfg_pending = None
                if is_id(t, "macro_rules") and is_p(toks[i + 1], "!"):
                    i = self.parse_macro(toks, i)
                    continue
                if is_id(t, "mod"):
                    if is_p(toks[i + 2], ";"):
                        i += 3
                        continue
                    e = match_close(toks, i + 2)
                    saved = dict(self.macros)
                    self.parse_items(toks, i + 3, e - 1, via, None, toks[i + 1].s)
                    self.macros = saved
                    i = e
                    continue
                if is_id(t, "unsafe") and (is_id(toks[i + 1], "fn") or is_id(toks[i + 1], "impl")):
                    i += 1
                    continue
                if is_id(t, "impl"):
                    p = XP(toks, i + 1)
                    gens = [g for g, _ in p.generics()]
                    t1 = p.type_()
                    trait = None
                    if p.at_id("for"):
                        p.i += 1
                        trait, t1 = t1, p.type_()
                    j = p.i
                    while not is_p(toks[j], "{"):
                        j += 1
                    e = match_close(toks, j)
                    im = Impl(gens, trait, t1, toks_text(toks[i:p.i]), via, mod, self.rel)
                    self.impls.append(im)
                    self.parse_items(toks, j + 1, e - 1, via, im, mod)
                    i = e
                    continue
                if is_id(t, "fn"):
                    f, e = self.parse_fn(toks, i, via)
                    if impl is not None:
                        if f.name in impl.fns:
                            raise TErr("fn %s defined twice in `%s`" % (f.name, impl.header))
                        impl.fns[f.name] = f
                        impl.order.append(f.name)
                    else:
                        if f.name in self.free:
                            raise TErr("free fn %s defined twice" % f.name)
                        self.free[f.name] = f
                    i = e
                    continue
                if is_id(t, "struct") or is_id(t, "union"):
                    i = self.parse_decl(toks, i)
                    continue
                if is_id(t, "type"):
                    j = i
                    while not is_p(toks[j], ";"):
                        j += 1
                    p = XP(toks, i + 2)
                    gens = [g for g, _ in p.generics()]
                    p.eat_p("=")
                    if impl is None:
                        self.aliases[toks[i + 1].s] = (gens, p.type_())
                    else:
                        impl.assoc.append((toks[i + 1].s, p.type_()))
                    i = j + 1
                    continue
                if is_id(t):
                    j = i
                    segs = [toks[j].s]
                    while is_p(toks[j + 1], "::") and is_id(toks[j + 2]):
                        segs.append(toks[j + 2].s)
                        j += 2
                    if is_p(toks[j + 1], "!") and toks[j + 2].k == "p" and toks[j + 2].s in K.OPEN:
                        e = match_close(toks, j + 2)
                        inner = toks[j + 3:e - 1]
                        name = segs[-1]
                        if name == "cryptocorrosion_derive_traits":
                            self.parse_items(inner, 0, len(inner), via, impl, mod)
                        else:
                            body, args = self.expand(name, inner)
                            row = (name, [arg_text(a) for a in args])
                            if impl is None:
                                self.invocations.append((mod, via[0] if via else "", row[0], row[1]))
                            self.parse_items(body, 0, len(body), row, impl, mod)
                        i = e
                        continue
                raise TErr("item not understood at `%s`" % toks_text(toks[i:i + 6]))
            except TErr as ex:
                self.err(str(ex))
                # resynchronise: skip to the end of this item
                i = K.item_end(toks, i + 1)


# =========================================================================== types

FLAGVALS = {"S3": ("YesS3", "NoS3"), "S4": ("YesS4", "NoS4"), "NI": ("YesNI", "NoNI")}
FLAGKIND = dict((v, k) for k, vs in FLAGVALS.items() for v in vs)
INT_BITS = {"u8": 8, "i8": 8, "u16": 16, "i16": 16, "u32": 32, "i32": 32, "u64": 64, "i64": 64, "u128": 128,
            "i128": 128, "usize": 64, "isize": 64}
VEC_BITS = {"__m128i": 128, "__m256i": 256}
WILD = ("path", "_", ())


def T(name, *args):
    return ("path", name, tuple(args))


def tstr(ty):
    if ty is None:
        return "?"
    k = ty[0]
    if k == "path":
        return ty[1] + ("<%s>" % ", ".join(tstr(a) for a in ty[2]) if ty[2] else "")
    if k == "array":
        return "[%s; %s]" % (tstr(ty[1]), ty[2])
    if k == "slice":
        return "&%s[%s]" % ("mut " if ty[2] else "", tstr(ty[1]))
    if k == "tuple":
        return "(%s)" % ", ".join(tstr(a) for a in ty[1])
    if k == "ref":
        return "&" + tstr(ty[1])
    return k


class Types(object):
    def __init__(self, items):
        self.it = items

    def norm(self, ty, subst=None, selfty=None):
        """parsed type -> canonical hashable type (aliases expanded, generics substituted, module paths dropped)"""
        subst = subst or {}
        k = ty[0]
        if k == "path":
            segs, args = ty[1], ty[2]
            if segs[0] == "Self":
                if selfty is None:
                    raise TErr("`Self` outside an impl")
                return selfty                        # Self, Self::Output
            name = segs[-1]
            nargs = tuple(self.norm(a, subst, selfty) for a in args)
            if not args and name in subst:
                return subst[name]
            if name in self.it.aliases:
                gens, body = self.it.aliases[name]
                if len(gens) == len(nargs):
                    return self.norm(body, dict(zip(gens, nargs)), None)
                if not nargs:
                    return self.norm(body, dict((g, WILD) for g in gens), None)
                raise TErr("type alias %s used with %d arguments" % (name, len(nargs)))
            return ("path", name, nargs)
        if k == "array":
            if ty[2] is None:
                return ("slice", self.norm(ty[1], subst, selfty), False)
            n = ty[2]
            if n[0] != "int":
                raise TErr("array length is not a literal")
            return ("array", self.norm(ty[1], subst, selfty), n[1])
        if k == "tuple":
            return ("tuple", tuple(self.norm(a, subst, selfty) for a in ty[1]))
        if k == "ref":
            inner = self.norm(ty[2], subst, selfty)
            if inner[0] == "slice":
                return ("slice", inner[1], ty[1])
            return ("ref", inner)
        if k == "ptr":
            return ("ptr",)
        if k == "infer":
            return WILD
        raise TErr("type form `%s` not understood" % k)

    def bits(self, ty):
        k = ty[0]
        if k == "ref":
            return self.bits(ty[1])
        if k == "array":
            return ty[2] * self.bits(ty[1])
        if k == "path":
            n = ty[1]
            if n in INT_BITS:
                return INT_BITS[n]
            if n in VEC_BITS:
                return VEC_BITS[n]
            if n == "x2":
                return 2 * self.bits(ty[2][0])
            if n == "x4":
                return 4 * self.bits(ty[2][0])
            if n in self.it.structs:
                kind, gens, fields = self.it.structs[n]
                real = [(f, t) for f, t in fields if not (t[0] == "path" and t[1][-1] == "PhantomData")]
                sub = dict(zip(gens, ty[2]))
                if kind == "union":
                    bs = set(self.bits(self.norm(t, sub)) for f, t in real)
                    if len(bs) != 1:
                        raise TErr("union %s: views of different sizes %s" % (n, sorted(bs)))
                    return bs.pop()
                return sum(self.bits(self.norm(t, sub)) for f, t in real)
        raise TErr("size of type %s unknown" % tstr(ty))

    def lean(self, ty):
        k = ty[0]
        if k == "ref":
            return self.lean(ty[1])
        if k == "array" or k == "slice":
            return "List (%s)" % self.lean(ty[1])
        if k == "tuple":
            return " × ".join(self.lean(a) for a in ty[1])
        return "BitVec %d" % self.bits(ty)


# =========================================================================== dataflow graph and values

class Dag(object):
    def __init__(self):
        self.nodes, self.memo = [], {}

    def mk(self, key):
        if key not in self.memo:
            self.memo[key] = len(self.nodes)
            self.nodes.append(key)
        return self.memo[key]

    def leaf(self, name):
        return self.mk(("leaf", name))

    def lit(self, text):
        return self.mk(("lit", text))

    def app(self, tpl, *args):
        return self.mk(("app", tpl, tuple(args)))


class V(object):            # a vector register or a symbolic scalar
    def __init__(self, ty, node):
        self.ty, self.node = ty, node


class IntC(object):         # a compile-time integer (mathematical value); ty None = untyped literal
    def __init__(self, ty, val):
        self.ty, self.val = ty, val


class StructV(object):
    def __init__(self, ty, fields, whole=None):
        self.ty, self.fields, self.whole = ty, fields, whole


class UnionV(object):
    def __init__(self, ty, node):
        self.ty, self.node = ty, node


class ArrV(object):
    def __init__(self, elty, items, node=None):
        self.elty, self.items, self.node = elty, items, node

    @property
    def ty(self):
        return ("array", self.elty, len(self.items))


class TupV(object):
    def __init__(self, items):
        self.items = items
        self.ty = ("tuple", tuple(getattr(x, "ty", None) for x in items))


class SliceV(object):
    def __init__(self, name, node, mut):
        self.name, self.node, self.mut, self.known_len, self.content = name, node, mut, None, None
        self.ty = ("slice", T("u8"), mut)


class PtrV(object):
    def __init__(self, sl):
        self.sl, self.ty = sl, ("ptr",)


class LenV(object):
    def __init__(self, sl):
        self.sl, self.ty = sl, T("usize")


class IdxV(object):         # the symbolic index parameter of extract / insert
    def __init__(self, node):
        self.node, self.ty = node, T("u32")


class UnitV(object):
    ty = ("tuple", ())


class PhantomV(object):
    ty = T("PhantomData")


UNIT = UnitV()


class Diverge(Exception):
    pass


class NeedIndex(Exception):
    def __init__(self, pats):
        Exception.__init__(self, "match on a symbolic index")
        self.pats = pats


class Env(object):
    def __init__(self, parent=None):
        self.d, self.parent = {}, parent

    def get(self, n):
        e = self
        while e is not None:
            if n in e.d:
                return e.d[n]
            e = e.parent
        raise TErr("unknown name `%s`" % n)

    def has(self, n):
        e = self
        while e is not None:
            if n in e.d:
                return True
            e = e.parent
        return False

    def set(self, n, v):
        e = self
        while e is not None:
            if n in e.d:
                e.d[n] = v
                return
            e = e.parent
        raise TErr("assignment to unknown name `%s`" % n)


# =========================================================================== TRUSTED: intrinsics, operators, views

# intrinsic -> (argument kinds, result type); kinds: m128 m256 imm i8 i32 i64 load store
INTRIN = {
    "_mm_add_epi32": ("m128 m128", "__m128i"), "_mm_add_epi64": ("m128 m128", "__m128i"),
    "_mm_and_si128": ("m128 m128", "__m128i"), "_mm_or_si128": ("m128 m128", "__m128i"),
    "_mm_xor_si128": ("m128 m128", "__m128i"), "_mm_andnot_si128": ("m128 m128", "__m128i"),
    "_mm_srli_epi16": ("m128 imm", "__m128i"), "_mm_slli_epi16": ("m128 imm", "__m128i"),
    "_mm_srli_epi32": ("m128 imm", "__m128i"), "_mm_slli_epi32": ("m128 imm", "__m128i"),
    "_mm_srli_epi64": ("m128 imm", "__m128i"), "_mm_slli_epi64": ("m128 imm", "__m128i"),
    "_mm_srli_si128": ("m128 imm", "__m128i"), "_mm_slli_si128": ("m128 imm", "__m128i"),
    "_mm_shuffle_epi32": ("m128 imm", "__m128i"), "_mm_shufflelo_epi16": ("m128 imm", "__m128i"),
    "_mm_shufflehi_epi16": ("m128 imm", "__m128i"), "_mm_shuffle_epi8": ("m128 m128", "__m128i"),
    "_mm_unpacklo_epi8": ("m128 m128", "__m128i"), "_mm_unpackhi_epi8": ("m128 m128", "__m128i"),
    "_mm_packus_epi16": ("m128 m128", "__m128i"), "_mm_alignr_epi8": ("m128 m128 imm", "__m128i"),
    "_mm_set_epi64x": ("i64 i64", "__m128i"), "_mm_set_epi32": ("i32 i32 i32 i32", "__m128i"),
    "_mm_set1_epi8": ("i8", "__m128i"), "_mm_set1_epi64x": ("i64", "__m128i"), "_mm_setzero_si128": ("", "__m128i"),
    "_mm_cvtsi64_si128": ("i64", "__m128i"), "_mm_cvtsi128_si64": ("m128", "i64"), "_mm_cvtsi32_si128": ("i32", "__m128i"),
    "_mm_extract_epi64": ("m128 imm", "i64"), "_mm_insert_epi64": ("m128 i64 imm", "__m128i"),
    "_mm_insert_epi32": ("m128 i32 imm", "__m128i"), "_mm_move_epi64": ("m128", "__m128i"),
    "_mm_loadu_si128": ("load", "__m128i"), "_mm_storeu_si128": ("store m128", None),
    "_mm256_add_epi32": ("m256 m256", "__m256i"), "_mm256_and_si256": ("m256 m256", "__m256i"),
    "_mm256_or_si256": ("m256 m256", "__m256i"), "_mm256_xor_si256": ("m256 m256", "__m256i"),
    "_mm256_andnot_si256": ("m256 m256", "__m256i"), "_mm256_srli_epi32": ("m256 imm", "__m256i"),
    "_mm256_slli_epi32": ("m256 imm", "__m256i"), "_mm256_shuffle_epi8": ("m256 m256", "__m256i"),
    "_mm256_shuffle_epi32": ("m256 imm", "__m256i"), "_mm256_permute2x128_si256": ("m256 m256 imm", "__m256i"),
    "_mm256_extracti128_si256": ("m256 imm", "__m128i"), "_mm256_inserti128_si256": ("m256 m128 imm", "__m256i"),
    "_mm256_setr_m128i": ("m128 m128", "__m256i"), "_mm256_set1_epi8": ("i8", "__m256i"),
    "_mm256_set_epi64x": ("i64 i64 i64 i64", "__m256i"),
    "_mm256_loadu_si256": ("load", "__m256i"), "_mm256_storeu_si256": ("store m256", None),
}
OP_METHOD = {"^": "bitxor", "&": "bitand", "|": "bitor", "+": "add"}
SCALAR_BIN = {"|": "{0} ||| {1}", "&": "{0} &&& {1}", "^": "{0} ^^^ {1}"}
# traits that are deliberately NOT translated (no counterpart in the model; not used by the algorithms)
SKIP_TRAITS = {
    "Debug": "formatting only", "PartialEq": "test/debug comparison (`_mm_cmpeq_*` are not modelled)", "Eq": "marker",
    "Machine": "`instance()` only; the associated types are listed in machine_type_rows",
}
PRELUDE = """\
/-- `x2<W, G>([W; 2])` / `x4<W>([W; 4])` / the `[vec128_storage; n]`, `[vec256_storage; 2]` views: element 0 in the low bits -/
def lo128 (v : BitVec 256) : BitVec 128 := v.extractLsb' 0 128
def hi128 (v : BitVec 256) : BitVec 128 := v.extractLsb' 128 128
def pack256 (a b : BitVec 128) : BitVec 256 := b ++ a
def lo256 (v : BitVec 512) : BitVec 256 := v.extractLsb' 0 256
def hi256 (v : BitVec 512) : BitVec 256 := v.extractLsb' 256 256
def pack512w (a b : BitVec 256) : BitVec 512 := b ++ a
def q128 (v : BitVec 512) (i : Nat) : BitVec 128 := v.extractLsb' (128 * i) 128
def pack512 (a b c d : BitVec 128) : BitVec 512 := d ++ c ++ b ++ a
/-- a union's `[uW; k]` view of its `n` storage bits / `transmute!` to `[uW; k]` (little endian: word `i` = bits `[W·i, W·i+W)`) -/
def words (w k : Nat) {n : Nat} (v : BitVec n) : List (BitVec w) := (List.range k).map fun i => v.extractLsb' (w * i) w
/-- a union built from its `[uW; k]` view -/
def ofWords {w : Nat} (n : Nat) (xs : List (BitVec w)) : BitVec n := xs.foldr (fun x acc => (acc <<< w) ||| x.setWidth n) 0
"""
TRUSTED = """\
  TRUSTED READING TABLE (Rust form ↦ Lean term over CC.X86.*)
    carriers      `__m128i`, `$vec<S3,S4,NI>` (one non-PhantomData field `x`), `vec128_storage`, `u128`  ↦ BitVec 128;
                  `__m256i`, `u32x4x2_avx2<NI>`, `vec256_storage`, `x2<128-bit W, G>`  ↦ BitVec 256; `x4<W>`, `x2<256-bit W, G>`,
                  `vec512_storage` ↦ BitVec 512; `uN` / `iN` ↦ BitVec N; `[T; k]` ↦ List; tuples ↦ products; `&[u8]` ↦ List (BitVec 8)
    identity      `unsafe { .. }`, `&e`, `*e`, `Self::new(e)` / `$vec { x, PhantomData.. }` / `.x`, `#[repr(transparent)]` wrappers,
                  a union literal / field read through a view of the SAME size whose type is a vector or another union
                  (`vec128_storage { sse2: x }`, `p.sse2`, `p.avx`), `zerocopy::cryptocorrosion_derive_traits!{..}`, `as *const _` / `as *mut _`
    x2 / x4       `x2::new([a, b])` ↦ pack256 a b (pack512w for 256-bit elements), `v.0[0]` / `v.0[1]` of a parameter ↦ lo128 v / hi128 v
                  (lo256 / hi256); `x4::new([a, b, c, d])` ↦ pack512 a b c d, `v.0[i]` ↦ q128 v i   (soft.rs; repr(transparent) array, little endian)
    union views   `u { uWxK: xs }` ↦ ofWords n xs, `u.uWxK` ↦ words W K u; `[vec128_storage; k]` / `[vec256_storage; 2]` views ↦ pack / lo / hi / q128;
                  `transmute!(v)` to `[u32; 16]` ↦ words 32 16 v
    intrinsics    `_mm*_name(a, .., IMM)` ↦ CC.X86._mm*_name a .. IMM  for the names of the table INTRIN of the translator (vector
                  arguments ↦ BitVec 128 / 256, `i8`/`i32`/`i64` arguments ↦ BitVec 8/32/64 two's complement, immediates must be
                  compile-time integers after macro substitution and are printed in decimal; any other `_mm*` name is an error)
    memory        `_mm_loadu_si128(s.as_ptr() as *const _)` after `assert_eq!(s.len(), 16)` ↦ _mm_loadu_si128 s (32 for `_mm256_loadu_si256`);
                  `_mm_storeu_si128(out.as_mut_ptr() as *mut _, v)` after `assert_eq!(out.len(), 16)` ↦ the new content of `out` is
                  _mm_storeu_si128 v; a definition with a `&mut [u8]` parameter returns that content; the assertions are listed in `assert_rows`
    integers      literals and `const K: T = ..` are compile-time integers, range-checked against their type (`-1i64` ↦ 0xffffffffffffffff#64);
                  `+ - * << >> | & ^` on them are evaluated (overflow of the type is an error); on symbolic words `|` `&` `^` ↦ ||| &&& ^^^,
                  `<< k` / `>> k` (k < width) ↦ <<< k / >>> k (unsigned), `as` between equal widths ↦ identity, to a wider type from an
                  unsigned one ↦ BitVec.setWidth (zero extension), to a narrower one ↦ BitVec.setWidth (truncation)
    arrays        `xs[k]` of a parameter ↦ xs.getD k 0; `a[i as usize]` with the symbolic index ↦ [a0, ..].getD i 0 (in range: i < len)
    operators     `a ^ b`, `a & b`, `a | b`, `a + b` on vector types ↦ the inlined body of the type's `bitxor` / `bitand` / `bitor` / `add`
    calls         `recv.m(..)`, `T::f(..)`, `Self::f(..)`, `.into()` ↦ the inlined body of the UNIQUE impl in these files whose header matches the
                  concrete receiver / argument types under the flags being evaluated (none or several: error); elided type arguments of
                  `$vec::f(..)` are the flags being evaluated; free fns (`swap16_s2`, `bswap32_s2`) and expression macros (`swapi!`) are inlined
    flags         every impl is evaluated under each (S3, S4) ∈ {YesS3, NoS3} × {YesS4, NoS4} its header admits, NI = NoNI (no impl is
                  specialised on NI: a header naming YesNI / NoNI is an error); the definition's name carries exactly the flags that some
                  impl header consulted during that evaluation (`u32x4_sse2_YesS3_bswap`; none: `u32x4_sse2_bitxor`)
    index match   `match i { 0 => a, 1 | 2 => b, _ => unreachable!() | panic!() }` on the index parameter of `Vec2/Vec4::{extract, insert}` ↦
                  the list [(0, fun .. => a), (1, fun .. => b[i:=1]), (2, ..)] and `<def>_default : String` (the diverging macro)
    `&mut self`   a method taking `&mut self` returns the final value of `*self`
    parameters    are named a0, a1, .. by position (self first); shared subterms are `let t<k>` in post-order from the result
    machines      `impl Machine for M { type u32x4 = T; .. }` ↦ rows (M, u32x4, T with aliases expanded and the S3 / S4 / NI arguments taken out,
                  S3 argument, S4 argument) in `machine_type_rows`; `pub type SSE2 = SseMachine<..>` ↦ `machine_alias_rows`
  NOT translated  (listed in `skipped_rows`): Debug, PartialEq / Eq (`eq128_s2`), `Machine::instance()`
"""


# =========================================================================== symbolic evaluation

def int_range(ty):
    b = INT_BITS[ty]
    return (-(1 << (b - 1)), (1 << (b - 1)) - 1) if ty[0] == "i" else (0, (1 << b) - 1)


class Eval(object):
    def __init__(self, items, types, flags):
        self.it, self.ty, self.flags = items, types, flags     # flags: {"S3": "YesS3", ..}
        self.dag = Dag()
        self.consulted = set()
        self.asserts = []
        self.depth = 0

    # ---- flags / unification
    def flag_args(self, name):
        """concrete type of a flag-parameterised struct named without arguments"""
        if name in self.it.structs:
            kind, gens, fields = self.it.structs[name]
            if gens and all(g in FLAGVALS for g in gens):
                return ("path", name, tuple(T(self.flags[g]) for g in gens))
            if not gens:
                return T(name)
        if name in self.it.aliases:
            gens, body = self.it.aliases[name]
            if all(g in FLAGVALS for g in gens):
                return self.ty.norm(body, dict((g, T(self.flags[g])) for g in gens))
        raise TErr("type `%s` named without arguments: cannot infer them" % name)

    def unify(self, pat, ty, gens, sub):
        """match the impl-side type `pat` (generic names `gens`) against the concrete `ty`"""
        if ty is None or ty == WILD or pat == WILD:
            return True
        if pat[0] == "ref":
            pat = pat[1]
        if ty[0] == "ref":
            ty = ty[1]
        if pat[0] == "path" and not pat[2] and pat[1] in gens:
            if pat[1] in sub and sub[pat[1]] != WILD:
                return self._eq(sub[pat[1]], ty)
            sub[pat[1]] = ty
            return True
        if pat[0] != ty[0]:
            return False
        if pat[0] == "path":
            if pat[1] in FLAGKIND and ty[1] in FLAGKIND and FLAGKIND[pat[1]] == FLAGKIND[ty[1]]:
                self.consulted.add(FLAGKIND[pat[1]])
            if pat[1] != ty[1] or len(pat[2]) != len(ty[2]):
                return False
            ok = True
            for a, b in zip(pat[2], ty[2]):
                ok = self.unify(a, b, gens, sub) and ok          # no short cut: every flag position is looked at
            return ok
        if pat[0] == "array":
            return pat[2] == ty[2] and self.unify(pat[1], ty[1], gens, sub)
        if pat[0] == "slice":
            return self.unify(pat[1], ty[1], gens, sub)
        if pat[0] == "tuple":
            return len(pat[1]) == len(ty[1]) and all(self.unify(a, b, gens, sub) for a, b in zip(pat[1], ty[1]))
        return pat == ty

    def _eq(self, a, b):
        if a == WILD or b == WILD:
            return True
        if a[0] != b[0]:
            return False
        if a[0] == "path":
            return a[1] == b[1] and len(a[2]) == len(b[2]) and all(self._eq(x, y) for x, y in zip(a[2], b[2]))
        if a[0] == "array":
            return a[2] == b[2] and self._eq(a[1], b[1])
        return a == b

    def impl_types(self, im):
        if not hasattr(im, "_norm"):
            gsub = dict((g, T(g)) for g in im.gens)
            st = self.ty.norm(im.selfty, gsub)
            tr = self.ty.norm(im.trait, gsub) if im.trait is not None else None
            im._norm = (st, tr)
        return im._norm

    def resolve(self, recv_ty, name, argvals, want_self=None):
        """the unique (impl, fn, subst) with `fn name` whose header matches; `want_self`: required Self (for `.into()`)"""
        hits = []
        for im in self.it.impls:
            if name not in im.fns:
                continue
            st, tr = self.impl_types(im)
            sub = {}
            if want_self is not None:
                if not self.unify(st, want_self, im.gens, sub):
                    continue
            elif not self.unify(st, recv_ty, im.gens, sub):
                continue
            f = im.fns[name]
            selfc = self.subst(st, sub)
            ok = True
            if len(f.params) != len(argvals):
                ok = False
            else:
                for (pat, pty), av in zip(f.params, argvals):
                    try:
                        pt = self.ty.norm(pty, dict((g, T(g)) for g in im.gens), st)
                    except TErr:
                        continue
                    at = getattr(av, "ty", None)
                    if isinstance(av, (IntC, IdxV)):
                        if not (pt[0] == "path" and (pt[1] in INT_BITS or pt[1] in im.gens)):
                            ok = False
                        continue
                    if not self.unify(pt, at, im.gens, sub):
                        ok = False
            if ok:
                hits.append((im, f, sub))
        if not hits:
            raise TErr("no impl provides `%s` for %s under %s" % (name, tstr(want_self or recv_ty), self.flagtxt()))
        if len(hits) > 1:
            raise TErr("`%s` for %s is ambiguous: %s" % (name, tstr(want_self or recv_ty), " / ".join(h[0].header for h in hits)))
        return hits[0]

    def flagtxt(self):
        return "<%s>" % ", ".join(self.flags[k] for k in ("S3", "S4", "NI"))

    def subst(self, ty, sub):
        k = ty[0]
        if k == "path":
            if not ty[2] and ty[1] in sub:
                return sub[ty[1]]
            return ("path", ty[1], tuple(self.subst(a, sub) for a in ty[2]))
        if k == "array":
            return ("array", self.subst(ty[1], sub), ty[2])
        if k == "slice":
            return ("slice", self.subst(ty[1], sub), ty[2])
        if k == "ref":
            return ("ref", self.subst(ty[1], sub))
        if k == "tuple":
            return ("tuple", tuple(self.subst(a, sub) for a in ty[1]))
        return ty

    # ---- values <-> carriers
    def struct_field(self, ty):
        """(field name, field type) of the single non-phantom field of the struct type `ty`"""
        kind, gens, fields = self.it.structs[ty[1]]
        real = [(f, t) for f, t in fields if not (t[0] == "path" and t[1][-1] == "PhantomData")]
        if kind != "struct" or len(real) != 1:
            raise TErr("struct %s: exactly one non-PhantomData field expected" % ty[1])
        return real[0][0], self.ty.norm(real[0][1], dict(zip(gens, ty[2])))

    def from_carrier(self, ty, node):
        """the value of type `ty` carried by `node`"""
        k = ty[0]
        if k == "ref":
            return self.from_carrier(ty[1], node)
        if k == "path":
            n = ty[1]
            if n in INT_BITS or n in VEC_BITS:
                return V(ty, node)
            if n == "x2":
                w = ty[2][0]
                lo, hi = ("lo128 {0}", "hi128 {0}") if self.ty.bits(w) == 128 else ("lo256 {0}", "hi256 {0}")
                if self.ty.bits(w) not in (128, 256):
                    raise TErr("x2 over %s" % tstr(w))
                items = [self.from_carrier(w, self.dag.app(lo, node)), self.from_carrier(w, self.dag.app(hi, node))]
                return StructV(ty, {"0": ArrV(w, items)}, node)
            if n == "x4":
                w = ty[2][0]
                if self.ty.bits(w) != 128:
                    raise TErr("x4 over %s" % tstr(w))
                items = [self.from_carrier(w, self.dag.app("q128 {0} %d" % i, node)) for i in range(4)]
                return StructV(ty, {"0": ArrV(w, items)}, node)
            if n in self.it.structs:
                if self.it.structs[n][0] == "union":
                    return UnionV(ty, node)
                f, ft = self.struct_field(ty)
                return StructV(ty, {f: self.from_carrier(ft, node)}, node)
        if k == "array":
            el, cnt = ty[1], ty[2]
            if el[0] == "path" and el[1] in INT_BITS:
                items = [V(el, self.dag.app("{0}.getD %d 0" % i, node)) for i in range(cnt)]
            else:
                items = [self.from_carrier(el, self.dag.app("{0}.getD %d 0" % i, node)) for i in range(cnt)]
            return ArrV(el, items, node)
        raise TErr("no carrier reading for type %s" % tstr(ty))

    def lit(self, ty, val):
        lo, hi = int_range(ty)
        if not (lo <= val <= hi):
            raise TErr("integer %d does not fit %s" % (val, ty))
        b = INT_BITS[ty]
        return self.dag.lit("0x%0*x#%d" % (b // 4, val % (1 << b), b))

    def carrier(self, v):
        if isinstance(v, (V, UnionV, IdxV)):
            return v.node
        if isinstance(v, IntC):
            if v.ty is None:
                raise TErr("untyped integer literal used as a value")
            return self.lit(v.ty, v.val)
        if isinstance(v, StructV):
            if v.whole is not None:
                return v.whole
            if v.ty[1] in ("x2", "x4"):
                parts = [self.carrier(x) for x in v.fields["0"].items]
                if v.ty[1] == "x4":
                    return self.dag.app("pack512 {0} {1} {2} {3}", *parts)
                b = self.ty.bits(v.ty[2][0])
                return self.dag.app("pack256 {0} {1}" if b == 128 else "pack512w {0} {1}", *parts)
            f, ft = self.struct_field(v.ty)
            return self.carrier(v.fields[f])
        if isinstance(v, ArrV):
            if v.node is not None:
                return v.node
            parts = [self.carrier(x) for x in v.items]
            return self.dag.app("[" + ", ".join("{%d}" % i for i in range(len(parts))) + "]", *parts)
        if isinstance(v, TupV):
            parts = [self.carrier(x) for x in v.items]
            return self.dag.app("(" + ", ".join("{%d}" % i for i in range(len(parts))) + ")", *parts)
        if isinstance(v, SliceV):
            return v.content if v.content is not None else v.node
        raise TErr("value of kind %s has no carrier" % type(v).__name__)

    # ---- union views
    def view_read(self, u, fty):
        """`u.field` for a union value with carrier u.node, field type fty"""
        if self.ty.bits(fty) != self.ty.bits(u.ty):
            raise TErr("union view of a different size")
        if fty[0] == "path":
            return self.from_carrier(fty, u.node)
        el, cnt = fty[1], fty[2]
        if el[0] == "path" and el[1] in INT_BITS:
            w = INT_BITS[el[1]]
            if cnt == 1:
                return ArrV(el, [V(el, u.node)])
            node = self.dag.app("words %d %d {0}" % (w, cnt), u.node)
            return self.from_carrier(fty, node)
        eb = self.ty.bits(el)
        parts = {(128, 2): ["lo128 {0}", "hi128 {0}"], (256, 2): ["lo256 {0}", "hi256 {0}"],
                 (128, 4): ["q128 {0} %d" % i for i in range(4)]}.get((eb, cnt))
        if parts is None:
            raise TErr("union view %s not understood" % tstr(fty))
        return ArrV(el, [self.from_carrier(el, self.dag.app(p, u.node)) for p in parts])

    def view_write(self, uty, fty, val):
        if self.ty.bits(fty) != self.ty.bits(uty):
            raise TErr("union view of a different size")
        if fty[0] == "path":
            return UnionV(uty, self.carrier(val))
        if not isinstance(val, ArrV) or len(val.items) != fty[2]:
            raise TErr("union literal: array of %d elements expected" % fty[2])
        el, cnt = fty[1], fty[2]
        if el[0] == "path" and el[1] in INT_BITS:
            items = [self.coerce_int(x, el) for x in val.items]
            if cnt == 1:
                return UnionV(uty, self.carrier(items[0]))
            val = ArrV(el, items, val.node)
            return UnionV(uty, self.dag.app("ofWords %d {0}" % self.ty.bits(uty), self.carrier(val)))
        eb = self.ty.bits(el)
        tpl = {(128, 2): "pack256 {0} {1}", (256, 2): "pack512w {0} {1}", (128, 4): "pack512 {0} {1} {2} {3}"}.get((eb, cnt))
        if tpl is None:
            raise TErr("union view %s not understood" % tstr(fty))
        return UnionV(uty, self.dag.app(tpl, *[self.carrier(x) for x in val.items]))

    def coerce_int(self, v, ty):
        if isinstance(v, IntC) and v.ty is None and ty[0] == "path" and ty[1] in INT_BITS:
            lo, hi = int_range(ty[1])
            if not (lo <= v.val <= hi):
                raise TErr("integer literal %d does not fit %s" % (v.val, ty[1]))
            return IntC(ty[1], v.val)
        return v

    # ---- calls
    def call_fn(self, im, f, sub, selfval, argvals):
        self.depth += 1
        if self.depth > 40:
            raise TErr("call depth exceeded (recursion?)")
        try:
            st, tr = self.impl_types(im) if im is not None else (None, None)
            full = dict((g, sub.get(g, WILD)) for g in (im.gens if im is not None else []))
            selfty = self.subst(st, full) if st is not None else None
            env = Env()
            if f.selfkind is not None:
                env.d["self"] = selfval
            for (pat, pty), av in zip(f.params, argvals):
                pt = self.ty.norm(pty, full, selfty)
                self.bind(pat, self.coerce_int(av, pt), env)
            ret = self.ty.norm(f.ret, full, selfty) if f.ret is not None else None
            out = self.ev_block(f.body(), env, ret, selfty, scope=False)
            if f.selfkind == "mutref":
                if not isinstance(out, UnitV):
                    raise TErr("`&mut self` method with a result")
                return env.get("self")
            return out
        finally:
            self.depth -= 1

    def bind(self, pat, val, env):
        if pat[0] == "pid":
            env.d[pat[1]] = val
        elif pat[0] == "ptuple":
            if not isinstance(val, TupV) or len(val.items) != len(pat[1]):
                raise TErr("tuple pattern does not match the value")
            for p, v in zip(pat[1], val.items):
                self.bind(p, v, env)
        elif pat[0] == "pslice":
            if not isinstance(val, ArrV) or len(val.items) != len(pat[1]):
                raise TErr("array pattern does not match the value")
            for p, v in zip(pat[1], val.items):
                self.bind(p, v, env)
        else:
            raise TErr("pattern not understood")

    def intrinsic(self, name, argvals):
        kinds, res = INTRIN[name]
        kinds = kinds.split()
        if len(kinds) != len(argvals):
            raise TErr("%s: %d arguments expected" % (name, len(kinds)))
        parts, lits, store_to = [], [], None
        tpl = name
        for k, a in zip(kinds, argvals):
            if k in ("m128", "m256"):
                want = "__m128i" if k == "m128" else "__m256i"
                if not (isinstance(a, V) and a.ty == T(want)):
                    raise TErr("%s: argument of type %s expected, got %s" % (name, want, tstr(getattr(a, "ty", None))))
                tpl += " {%d}" % len(parts)
                parts.append(a.node)
            elif k == "imm":
                if not isinstance(a, IntC):
                    raise TErr("%s: the immediate is not a compile-time integer" % name)
                if a.ty not in (None, "i32") or not (0 <= a.val <= 255):
                    raise TErr("%s: immediate %s out of the range 0..255 or not an i32" % (name, a.val))
                tpl += " %d" % a.val
            elif k in ("i8", "i32", "i64"):
                if isinstance(a, IntC):
                    if a.ty is not None and a.ty != k:
                        raise TErr("%s: argument of type %s expected, got %s" % (name, k, a.ty))
                    tpl += " {%d}" % len(parts)
                    parts.append(self.lit(k, a.val))
                elif isinstance(a, V) and a.ty == T(k):
                    tpl += " {%d}" % len(parts)
                    parts.append(a.node)
                else:
                    raise TErr("%s: argument of type %s expected, got %s" % (name, k, tstr(getattr(a, "ty", None))))
            elif k == "load":
                n = 16 if res == "__m128i" else 32
                if not isinstance(a, PtrV) or a.sl.known_len != n:
                    raise TErr("%s: pointer to a slice asserted to have %d bytes expected" % (name, n))
                tpl += " {%d}" % len(parts)
                parts.append(self.carrier(a.sl))
            elif k == "store":
                n = 16 if kinds[1] == "m128" else 32
                if not isinstance(a, PtrV) or a.sl.known_len != n or not a.sl.mut:
                    raise TErr("%s: pointer to a `&mut [u8]` asserted to have %d bytes expected" % (name, n))
                store_to = a.sl
        node = self.dag.app(tpl, *parts)
        if store_to is not None:
            store_to.content = node
            return UNIT
        return V(T(res), node)

    def type_of_name(self, segs, selfty):
        """the concrete type named by the path prefix of an associated call"""
        name = segs[-1]
        if name == "Self":
            if selfty is None:
                raise TErr("`Self` outside an impl")
            return selfty
        if name in ("x2", "x4"):
            return T(name)
        return self.flag_args(name)

    def ev_call(self, segs, args, env, expected, selfty):
        argvals = [self.ev(a, env, None, selfty) for a in args]
        if len(segs) == 1:
            name = segs[0]
            if name in INTRIN:
                return self.intrinsic(name, argvals)
            if name.startswith("_mm"):
                raise TErr("intrinsic %s is not in the translator's table (no model in CC.X86)" % name)
            if name in self.it.free:
                f = self.it.free[name]
                if len(f.params) != len(argvals):
                    raise TErr("fn %s: %d arguments expected" % (name, len(f.params)))
                return self.call_fn(None, f, {}, None, argvals)
            raise TErr("call of unknown function `%s`" % name)
        ty = self.type_of_name(segs[:-1], selfty)
        name = segs[-1]
        if ty[1] in ("x2", "x4") and name == "new":
            a = argvals[0]
            n = 2 if ty[1] == "x2" else 4
            if len(argvals) != 1 or not isinstance(a, ArrV) or len(a.items) != n:
                raise TErr("%s::new: an array of %d elements expected" % (ty[1], n))
            args_ = (a.elty, WILD) if ty[1] == "x2" else (a.elty,)
            if ty[2] and ty != selfty:
                args_ = ty[2]
            if ty == selfty:
                return StructV(selfty, {"0": ArrV(a.elty, list(a.items))})
            return StructV(("path", ty[1], tuple(args_)), {"0": ArrV(a.elty, list(a.items))})
        im, f, sub = self.resolve_assoc(ty, name, argvals)
        if f.selfkind is not None:
            return self.call_fn(im, f, sub, argvals[0], argvals[1:])
        return self.call_fn(im, f, sub, None, argvals)

    def resolve_assoc(self, ty, name, argvals):
        # `T::f(self_value, ..)` for a method with a receiver: the first argument is the receiver
        try:
            return self.resolve(ty, name, argvals)
        except TErr as first:
            if argvals:
                try:
                    return self.resolve(ty, name, argvals[1:])
                except TErr:
                    pass
            raise first

    def ev_method(self, recv, name, args, env, expected, selfty):
        r = self.ev(recv, env, None, selfty)
        if isinstance(r, SliceV):
            if args:
                raise TErr("slice method %s with arguments" % name)
            if name in ("as_ptr", "as_mut_ptr"):
                if name == "as_mut_ptr" and not r.mut:
                    raise TErr("as_mut_ptr of a shared slice")
                return PtrV(r)
            if name == "len":
                return LenV(r)
            raise TErr("slice method `%s` not understood" % name)
        argvals = [self.ev(a, env, None, selfty) for a in args]
        if name == "into" and not argvals:
            if expected is None:
                raise TErr("`.into()` without a known target type")
            im, f, sub = self.resolve(None, "from", [r], want_self=expected)
            return self.call_fn(im, f, sub, None, [r])
        if name == "clone" and not argvals:
            return r
        rty = getattr(r, "ty", None)
        if rty is None or isinstance(r, (IntC, V, IdxV)):
            raise TErr("method `%s` on a value of type %s" % (name, tstr(rty)))
        im, f, sub = self.resolve(rty, name, argvals)
        if f.selfkind is None:
            raise TErr("`%s` is not a method" % name)
        return self.call_fn(im, f, sub, r, argvals)

    # ---- integers
    def int_bin(self, op, a, b):
        ty = a.ty if a.ty is not None else b.ty
        if a.ty is not None and b.ty is not None and a.ty != b.ty and op not in ("<<", ">>"):
            raise TErr("integer operands of different types %s, %s" % (a.ty, b.ty))
        if op in ("<<", ">>"):
            ty = a.ty
        x, y = a.val, b.val
        if op == "+":
            r = x + y
        elif op == "-":
            r = x - y
        elif op == "*":
            r = x * y
        elif op == "|":
            r = x | y
        elif op == "&":
            r = x & y
        elif op == "^":
            r = x ^ y
        elif op == "<<":
            r = x << y
        elif op == ">>":
            r = x >> y
        else:
            raise TErr("integer operator `%s` not understood" % op)
        if ty is not None:
            lo, hi = int_range(ty)
            if not (lo <= r <= hi):
                raise TErr("`%d %s %d` overflows %s" % (x, op, y, ty))
        return IntC(ty, r)

    def ev_cast(self, v, ty):
        if ty == ("ptr",):
            if not isinstance(v, PtrV):
                raise TErr("cast of a non-pointer to a pointer")
            return v
        if not (ty[0] == "path" and ty[1] in INT_BITS):
            raise TErr("cast to %s not understood" % tstr(ty))
        tn = ty[1]
        if isinstance(v, IdxV):
            return v
        if isinstance(v, IntC):
            if v.ty is None:
                lo, hi = int_range(tn)
                if not (lo <= v.val <= hi):
                    raise TErr("integer literal %d does not fit %s" % (v.val, tn))
                return IntC(tn, v.val)
            b = INT_BITS[tn]
            r = v.val % (1 << b)
            if tn[0] == "i" and r >= 1 << (b - 1):
                r -= 1 << b
            return IntC(tn, r)
        if isinstance(v, V) and v.ty[0] == "path" and v.ty[1] in INT_BITS:
            sb, db = INT_BITS[v.ty[1]], INT_BITS[tn]
            if sb == db:
                return V(ty, v.node)
            if db > sb and v.ty[1][0] == "i":
                return V(ty, self.dag.app("BitVec.signExtend %d {0}" % db, v.node))
            return V(ty, self.dag.app("BitVec.setWidth %d {0}" % db, v.node))
        raise TErr("cast of a value of type %s to %s" % (tstr(getattr(v, "ty", None)), tn))

    # ---- expressions
    def ev(self, e, env, expected, selfty):
        k = e[0]
        if k == "int":
            return IntC(e[2], e[1])
        if k == "path":
            segs = e[1]
            if len(segs) == 1:
                if segs[0] == "PhantomData":
                    return PhantomV()
                return env.get(segs[0])
            raise TErr("path `%s` not understood" % "::".join(segs))
        if k == "un":
            v = self.ev(e[2], env, None, selfty)
            if e[1] == "-" and isinstance(v, IntC):
                return IntC(v.ty, -v.val) if v.ty is None or int_range(v.ty)[0] <= -v.val else self._raise("negation overflows")
            if e[1] == "!" and isinstance(v, StructV):
                im, f, sub = self.resolve(v.ty, "not", [])
                return self.call_fn(im, f, sub, v, [])
            raise TErr("unary `%s` on %s" % (e[1], tstr(getattr(v, "ty", None))))
        if k == "bin":
            a = self.ev(e[2], env, None, selfty)
            b = self.ev(e[3], env, None, selfty)
            op = e[1]
            if isinstance(a, IntC) and isinstance(b, IntC):
                return self.int_bin(op, a, b)
            if isinstance(a, StructV) and op in OP_METHOD:
                im, f, sub = self.resolve(a.ty, OP_METHOD[op], [b])
                return self.call_fn(im, f, sub, a, [b])
            if isinstance(a, V) and a.ty[1] in INT_BITS:
                bits = INT_BITS[a.ty[1]]
                if op in ("<<", ">>"):
                    if not isinstance(b, IntC) or not (0 <= b.val < bits):
                        raise TErr("shift count must be a literal below the width")
                    if op == ">>" and a.ty[1][0] == "i":
                        raise TErr("arithmetic shift of a signed symbolic value")
                    return V(a.ty, self.dag.app("{0} %s %d" % ("<<<" if op == "<<" else ">>>", b.val), a.node))
                if op in SCALAR_BIN:
                    if isinstance(b, IntC):
                        b = V(a.ty, self.lit(a.ty[1], self.coerce_int(b, a.ty).val))
                    if not (isinstance(b, V) and b.ty == a.ty):
                        raise TErr("`%s` on operands of types %s, %s" % (op, tstr(a.ty), tstr(getattr(b, "ty", None))))
                    return V(a.ty, self.dag.app(SCALAR_BIN[op], a.node, b.node))
            raise TErr("operator `%s` on %s, %s" % (op, tstr(getattr(a, "ty", None)), tstr(getattr(b, "ty", None))))
        if k == "cast":
            v = self.ev(e[1], env, None, selfty)
            return self.ev_cast(v, self.ty.norm(e[2], {}, selfty))
        if k in ("ref", "deref"):
            return self.ev(e[1], env, expected, selfty)
        if k == "field":
            v = self.ev(e[1], env, None, selfty)
            if isinstance(v, StructV):
                if e[2] not in v.fields:
                    raise TErr("no field `%s` in %s" % (e[2], tstr(v.ty)))
                return v.fields[e[2]]
            if isinstance(v, UnionV):
                kind, gens, fields = self.it.structs[v.ty[1]]
                for f, ft in fields:
                    if f == e[2]:
                        return self.view_read(v, self.ty.norm(ft, {}))
                raise TErr("no view `%s` in union %s" % (e[2], v.ty[1]))
            raise TErr("field `%s` of a value of type %s" % (e[2], tstr(getattr(v, "ty", None))))
        if k == "tfield":
            v = self.ev(e[1], env, None, selfty)
            if isinstance(v, StructV) and str(e[2]) in v.fields:
                return v.fields[str(e[2])]
            if isinstance(v, TupV) and e[2] < len(v.items):
                return v.items[e[2]]
            raise TErr("tuple field .%d of a value of type %s" % (e[2], tstr(getattr(v, "ty", None))))
        if k == "index":
            v = self.ev(e[1], env, None, selfty)
            ix = self.ev(e[2], env, None, selfty)
            if not isinstance(v, ArrV):
                raise TErr("indexing a value of type %s" % tstr(getattr(v, "ty", None)))
            if isinstance(ix, IntC):
                if not (0 <= ix.val < len(v.items)):
                    raise TErr("index %d out of range for an array of %d" % (ix.val, len(v.items)))
                return v.items[ix.val]
            if isinstance(ix, IdxV):
                parts = [self.carrier(x) for x in v.items]
                tpl = "[" + ", ".join("{%d}" % i for i in range(len(parts))) + "].getD {%d} 0" % len(parts)
                return self.from_carrier(v.elty, self.dag.app(tpl, *(parts + [ix.node])))
            raise TErr("array index is neither a literal nor the index parameter")
        if k == "array":
            items = [self.ev(x, env, None, selfty) for x in e[1]]
            if not items:
                raise TErr("empty array literal")
            elty = None
            for x in items:
                t = getattr(x, "ty", None)
                if t is not None and not isinstance(x, IntC):
                    elty = t
            if elty is None:
                elty = T(items[0].ty) if isinstance(items[0], IntC) and items[0].ty else None
            if elty is None and expected is not None and expected[0] == "array":
                elty = expected[1]
            if elty is not None:
                items = [self.coerce_int(x, elty) for x in items]
            return ArrV(elty, items)
        if k == "tuple":
            exp = expected[1] if expected is not None and expected[0] == "tuple" and len(expected[1]) == len(e[1]) else [None] * len(e[1])
            return TupV([self.ev(x, env, t, selfty) for x, t in zip(e[1], exp)])
        if k == "block":
            return self.ev_block(e, env, expected, selfty)
        if k == "match":
            s = self.ev(e[1], env, None, selfty)
            lits = [p[1] for pats, _ in e[2] for p in pats if p[0] == "int"]
            if isinstance(s, IdxV):
                raise NeedIndex(lits)
            if not isinstance(s, IntC):
                raise TErr("match on a value that is neither a literal nor the index parameter")
            for pats, body in e[2]:
                if any(p[0] == "wild" or p[1] == s.val for p in pats):
                    return self.ev(body, env, expected, selfty)
            raise TErr("non-exhaustive match")
        if k == "assignexpr":
            self.assign(e[1], self.ev(e[2], env, None, selfty), env, selfty)
            return UNIT
        if k == "call":
            return self.ev_call(e[1], e[2], env, expected, selfty)
        if k == "mcall":
            return self.ev_method(e[1], e[2], e[3], env, expected, selfty)
        if k == "structlit":
            ty = self.type_of_name(e[1], selfty)
            name = ty[1]
            if name not in self.it.structs:
                raise TErr("struct literal of unknown type %s" % name)
            kind, gens, fields = self.it.structs[name]
            sub = dict(zip(gens, ty[2]))
            decl = dict(fields)
            if kind == "union":
                if len(e[2]) != 1 or e[2][0][0] not in decl:
                    raise TErr("union literal of %s: exactly one declared view expected" % name)
                fty = self.ty.norm(decl[e[2][0][0]], sub)
                return self.view_write(ty, fty, self.ev(e[2][0][1], env, fty, selfty))
            out = {}
            for f, fe in e[2]:
                if f not in decl:
                    raise TErr("struct literal of %s: no field `%s`" % (name, f))
                v = self.ev(fe, env, None, selfty)
                if not isinstance(v, PhantomV):
                    out[f] = v
            rf, rt = self.struct_field(ty)
            if set(out) != {rf} or set(f for f, _ in e[2]) != set(decl):
                raise TErr("struct literal of %s: fields do not match the declaration" % name)
            return StructV(ty, out)
        if k == "macro":
            return self.ev_macro(e[1], e[2], env, expected, selfty)
        raise TErr("expression form `%s` not understood" % k)

    def _raise(self, msg):
        raise TErr(msg)

    def ev_macro(self, name, toks, env, expected, selfty):
        if name in ("unreachable", "panic"):
            raise Diverge(name + "!()")
        if name == "assert_eq":
            args = Items.split_args(toks)
            if len(args) != 2:
                raise TErr("assert_eq! with %d arguments" % len(args))
            a, b = [self.ev(XP(x).expr(), env, None, selfty) for x in args]
            if isinstance(a, LenV) and isinstance(b, IntC):
                if a.sl.known_len is not None and a.sl.known_len != b.val:
                    raise TErr("contradictory length assertions")
                a.sl.known_len = b.val
                self.asserts.append("%s.len = %d" % (a.sl.name, b.val))
                return UNIT
            raise TErr("assert_eq! of a form other than `slice.len(), N`")
        if name == "transmute":
            v = self.ev(XP(toks).expr(), env, None, selfty)
            if expected is None or expected[0] != "array" or not (expected[1][0] == "path" and expected[1][1] in INT_BITS):
                raise TErr("transmute! to a type other than an array of words")
            w, cnt = INT_BITS[expected[1][1]], expected[2]
            vt = getattr(v, "ty", None)
            if vt is None or self.ty.bits(vt) != w * cnt:
                raise TErr("transmute! between different sizes")
            return self.from_carrier(expected, self.dag.app("words %d %d {0}" % (w, cnt), self.carrier(v)))
        if name in self.it.macros:
            body, _ = self.it.expand(name, toks)
            q = XP(body)
            ex = q.expr()
            if not q.done():
                raise TErr("macro %s! does not expand to one expression" % name)
            return self.ev(ex, Env(env), expected, selfty)
        raise TErr("macro %s! not understood" % name)

    # ---- statements
    def ev_block(self, blk, env, expected, selfty, scope=True):
        env = Env(env) if scope else env
        for st in blk[1]:
            if st[0] == "let":
                ty = self.ty.norm(st[2], {}, selfty) if st[2] is not None else None
                self.bind(st[1], self.ev(st[3], env, ty, selfty), env)
            elif st[0] == "const":
                ty = self.ty.norm(st[2], {}, selfty)
                v = self.coerce_int(self.ev(st[3], env, ty, selfty), ty)
                if not isinstance(v, IntC) or T(v.ty) != ty:
                    raise TErr("const %s is not a compile-time integer of its type" % st[1])
                env.d[st[1]] = v
            elif st[0] == "assign":
                rhs = self.ev(st[3], env, None, selfty)
                if st[2] is not None:
                    self._opassign(st, rhs, env, selfty)
                self.assign(st[1], rhs, env, selfty)
            elif st[0] == "expr":
                self.ev(st[1], env, None, selfty)
        if blk[2] is not None:
            return self.ev(blk[2], env, expected, selfty)
        return UNIT

    def _opassign(self, st, rhs, env, selfty):
        raise TErr("compound assignment `%s=` is not in the translated fragment" % st[2])

    def assign(self, lv, val, env, selfty):
        path = []
        e = lv
        while True:
            if e[0] == "deref":
                e = e[1]
            elif e[0] == "field":
                path.append(("f", e[2]))
                e = e[1]
            elif e[0] == "tfield":
                path.append(("f", str(e[2])))
                e = e[1]
            elif e[0] == "index":
                ix = self.ev(e[2], env, None, selfty)
                if not isinstance(ix, IntC):
                    raise TErr("assignment through a non-literal index")
                path.append(("i", ix.val))
                e = e[1]
            elif e[0] == "path" and len(e[1]) == 1:
                root = e[1][0]
                break
            else:
                raise TErr("assignment target not understood")
        path.reverse()

        def upd(old, p):
            if not p:
                return val
            kind, key = p[0]
            if kind == "f" and isinstance(old, StructV) and key in old.fields:
                d = dict(old.fields)
                d[key] = upd(old.fields[key], p[1:])
                return StructV(old.ty, d)
            if kind == "i" and isinstance(old, ArrV) and 0 <= key < len(old.items):
                items = list(old.items)
                items[key] = upd(items[key], p[1:])
                return ArrV(old.elty, items)
            raise TErr("assignment path does not match the value")
        env.set(root, upd(env.get(root), path))


# =========================================================================== printing a graph

def render(dag, root, indent="  "):
    """(let lines, result text) of the graph below `root`: nodes used more than once are `let t<k>` in post-order"""
    uses = {}
    order = []

    def count(n):
        uses[n] = uses.get(n, 0) + 1
        if uses[n] > 1:
            return
        key = dag.nodes[n]
        if key[0] == "app":
            for a in key[2]:
                count(a)
        order.append(n)
    count(root)
    names, lines = {}, []

    def txt(n, top=False):
        if n in names:
            return names[n]
        key = dag.nodes[n]
        if key[0] in ("leaf", "lit"):
            return key[1]
        s = key[1].format(*[txt(a) for a in key[2]])
        if top or (not key[2] and " " not in s) or key[1].startswith("[") or key[1].startswith("("):
            return s
        return "(" + s + ")"
    for n in order:
        key = dag.nodes[n]
        if key[0] == "app" and key[2] and uses[n] > 1 and n != root:
            s = txt(n, True)
            names[n] = "t%d" % len(names)
            lines.append("%slet %s := %s" % (indent, names[n], s))
    return lines, txt(root, True)


# =========================================================================== driver

def mangle(ty):
    k = ty[0]
    if k == "path":
        segs, args = ty[1], ty[2]
        name = segs[-1]
        if name in ("x2", "x4") and args:
            return name + "_" + mangle(args[0])
        return name
    if k == "array":
        return "arr_%s_%s" % (mangle(ty[1]), ty[2][1] if ty[2] is not None else "n")
    if k == "ref":
        return "ref_" + mangle(ty[2])
    if k == "tuple":
        return "tup_" + "_".join(mangle(a) for a in ty[1])
    return k


def header_flags(items, types, im):
    """{kind: value} of the concrete flags an impl header names (self type and trait arguments)"""
    out = {}

    def walk(ty):
        if ty is None:
            return
        if ty[0] == "path":
            if ty[1] in FLAGKIND:
                k = FLAGKIND[ty[1]]
                if out.get(k, ty[1]) != ty[1]:
                    raise TErr("impl header names both values of flag %s" % k)
                out[k] = ty[1]
            for a in ty[2]:
                walk(a)
        elif ty[0] in ("array", "slice", "ref"):
            walk(ty[1])
        elif ty[0] == "tuple":
            for a in ty[1]:
                walk(a)
    gsub = dict((g, T(g)) for g in im.gens)
    walk(types.norm(im.selfty, gsub))
    return out


def uses_flags(items, types, im):
    """does the impl's self type involve a flag-parameterised type?"""
    found = []

    def walk(ty):
        if ty[0] == "path":
            if ty[1] in items.structs and any(g in ("S3", "S4") for g in items.structs[ty[1]][1]):
                found.append(ty[1])
            for a in ty[2]:
                walk(a)
        elif ty[0] in ("array", "slice", "ref"):
            walk(ty[1])
    walk(types.norm(im.selfty, dict((g, T(g)) for g in im.gens)))
    return bool(found)


INDEX_METHODS = {("Vec2", "extract"), ("Vec2", "insert"), ("Vec4", "extract"), ("Vec4", "insert")}


class Def(object):
    def __init__(self, name, doc):
        self.name, self.doc = name, doc
        self.text = None          # Lean source of the definition(s)
        self.error = None
        self.asserts = []


def translate_one(items, types, im, f, flags, index_val="sym"):
    """-> (Eval, [(lean binder name, lean type)], result node)"""
    ev = Eval(items, types, flags)
    st, tr = ev.impl_types(im)
    sub = {}
    # bind the impl generics that sit in flag positions
    def bindflags(ty):
        if ty[0] == "path":
            if ty[1] in items.structs:
                gens = items.structs[ty[1]][1]
                for g, a in zip(gens, ty[2]):
                    if g in FLAGVALS and a[0] == "path" and not a[2]:
                        if a[1] in im.gens:
                            sub[a[1]] = T(flags[g])
            for a in ty[2]:
                bindflags(a)
        elif ty[0] in ("array", "slice", "ref"):
            bindflags(ty[1])
    bindflags(st)
    if tr is not None:
        bindflags(tr)
    for (pat, pty) in f.params:
        try:
            bindflags(types.norm(pty, dict((g, T(g)) for g in im.gens), st))
        except TErr:
            pass
    full = dict((g, sub.get(g, WILD)) for g in im.gens)
    selfty = ev.subst(st, full)
    trait = tr[1] if tr is not None else None
    binders, argvals, selfval = [], [], None
    k = 0
    outs = []
    if f.selfkind is not None:
        selfval = ev.from_carrier(selfty, ev.dag.leaf("a0"))
        binders.append(("a0", types.lean(selfty)))
        k = 1
    for j, (pat, pty) in enumerate(f.params):
        pt = types.norm(pty, full, selfty)
        nm = "a%d" % k
        k += 1
        if (trait, f.name) in INDEX_METHODS and j == len(f.params) - 1:
            if not (pt == T("u32")):
                raise TErr("index parameter of type %s" % tstr(pt))
            if index_val == "sym":
                argvals.append(IdxV(ev.dag.leaf(nm)))
                binders.append((nm, "Nat"))
            else:
                argvals.append(IntC("u32", index_val))
            continue
        if pt[0] == "slice":
            if pt[1] != T("u8"):
                raise TErr("slice parameter of %s" % tstr(pt[1]))
            sl = SliceV(nm, ev.dag.leaf(nm), pt[2])
            argvals.append(sl)
            if pt[2]:
                outs.append(sl)
            else:
                binders.append((nm, "List (BitVec 8)"))
            continue
        argvals.append(ev.from_carrier(pt, ev.dag.leaf(nm)))
        binders.append((nm, types.lean(pt)))
    ret = types.norm(f.ret, full, selfty) if f.ret is not None else None
    out = ev.call_fn(im, f, sub, selfval, argvals)
    if outs:
        if len(outs) != 1 or not isinstance(out, UnitV):
            raise TErr("a fn writing a slice must have exactly one `&mut [u8]` parameter and no result")
        if outs[0].content is None:
            raise TErr("the `&mut [u8]` parameter is never stored to")
        root, rty = outs[0].content, "List (BitVec 8)"
    else:
        if isinstance(out, UnitV):
            raise TErr("fn without a result")
        root = ev.carrier(out)
        oty = ret if f.selfkind != "mutref" else selfty
        if oty is None:
            raise TErr("fn without a declared result type")
        rty = types.lean(oty)
    return ev, binders, root, rty


def flagname(ev, hdr):
    used = dict(hdr)
    for kd in ev.consulted:
        used[kd] = ev.flags[kd]
    if "NI" in used:
        raise TErr("an impl header names %s: specialisation on NI is not modelled" % used["NI"])
    return "_".join(used[kd] for kd in ("S3", "S4") if kd in used)


def fun_text(binders, lines, res, rty, as_fun):
    if as_fun:
        head = "fun %s =>" % " ".join(b for b, _ in binders) if binders else ""
        if lines:
            return head + "\n" + "\n".join("    " + l.strip() for l in lines) + "\n    " + res
        return (head + " " + res).strip()
    return ("\n" + "\n".join(lines) + "\n  " + res) if lines else " " + res


def simdx86_inventory(repo):
    items = Items()
    for rel in FILES:
        try:
            items.load(repo, rel)
        except TErr as ex:
            items.errors.append("%s: %s" % (rel, ex))
    types = Types(items)
    defs, seen, skipped = [], {}, []
    errors = list(items.errors)
    for im in items.impls:
        trait = im.trait[1][-1] if im.trait is not None and im.trait[0] == "path" else None
        if trait in SKIP_TRAITS:
            skipped.append((trait, toks_flat(im.header)))
            continue
        if not im.order:
            continue
        try:
            hdr = header_flags(items, types, im)
            flagged = uses_flags(items, types, im)
        except TErr as ex:
            errors.append("`%s`: %s" % (im.header, ex))
            continue
        if flagged:
            combos = [{"S3": a, "S4": b, "NI": "NoNI"} for a in FLAGVALS["S3"] for b in FLAGVALS["S4"]
                      if hdr.get("S3", a) == a and hdr.get("S4", b) == b]
        else:
            combos = [{"S3": "YesS3", "S4": "YesS4", "NI": "NoNI"}]
        base = mangle(im.selfty)
        for fname in im.order:
            f = im.fns[fname]
            suffix = fname
            if fname == "from" and im.trait is not None and im.trait[2]:
                suffix = "from_" + mangle(im.trait[2][0])
            via = " [via %s!(%s)]" % (f.via[0], ", ".join(f.via[1])) if f.via else ""
            doc = "%s: `%s` / fn %s%s" % (os.path.basename(im.rel), toks_flat(im.header), fname, via)
            for flags in combos:
                fallback = "_".join(flags[kd] for kd in ("S3", "S4") if kd in hdr)
                try:
                    try:
                        ev, binders, root, rty = translate_one(items, types, im, f, flags)
                        fl = flagname(ev, hdr) if flagged else ""
                        name = "_".join(x for x in (base, fl, suffix) if x)
                        lines, res = render(ev.dag, root)
                        text = "def %s %s: %s :=%s\n" % (name, "".join("(%s : %s) " % b for b in binders), rty,
                                                          fun_text(binders, lines, res, rty, False))
                        asserts = list(ev.asserts)
                    except NeedIndex as ni:
                        pats = ni.pats
                        if not pats or len(set(pats)) != len(pats):
                            raise TErr("index match without (distinct) literal arms")
                        arms, consulted, asserts = [], set(), []
                        for p in pats:
                            try:
                                ev, binders, root, rty = translate_one(items, types, im, f, flags, p)
                            except Diverge as dv:
                                raise TErr("the arm for index %d diverges (%s)" % (p, dv))
                            consulted |= ev.consulted
                            lines, res = render(ev.dag, root)
                            arms.append("(%d, %s)" % (p, fun_text(binders, lines, res, rty, True)))
                        try:
                            translate_one(items, types, im, f, flags, max(pats) + 1)
                            raise TErr("the default arm of the index match does not diverge")
                        except Diverge as dv:
                            dflt = str(dv)
                        ev.consulted = consulted
                        fl = flagname(ev, hdr) if flagged else ""
                        name = "_".join(x for x in (base, fl, suffix) if x)
                        fty = " → ".join("(%s)" % t if "×" in t else t for _, t in binders) + " → " + rty
                        text = "def %s : List (Nat × (%s)) :=\n  [%s]\ndef %s_default : String := %s\n" % (
                            name, fty, ",\n   ".join(arms), name, K._lean_str(dflt))
                    except Diverge as dv:
                        raise TErr("the body diverges (%s)" % dv)
                    if name in seen:
                        if seen[name] != text:
                            raise TErr("internal: two evaluations named %s differ" % name)
                        continue
                    seen[name] = text
                    d = Def(name, doc)
                    d.text, d.asserts = text, asserts
                    defs.append(d)
                except TErr as ex:
                    name = "_".join(x for x in (base, fallback if flagged else "", suffix) if x)
                    n2, q = name, 1
                    while n2 in seen:
                        q += 1
                        n2 = "%s_err%d" % (name, q)
                    msg = "%s under %s: %s" % (doc, "<%s, %s>" % (flags["S3"], flags["S4"]), ex)
                    seen[n2] = None
                    d = Def(n2, doc)
                    d.error = msg
                    defs.append(d)
                    errors.append(msg)
    # literal rows
    rot_rows = []
    for im in items.impls:
        trait = im.trait[1][-1] if im.trait is not None and im.trait[0] == "path" else None
        if trait in ("RotateEachWord32", "RotateEachWord64", "RotateEachWord128", "BSwap", "Swap64", "Words4", "LaneWords4"):
            try:
                hdr = header_flags(items, types, im)
            except TErr:
                hdr = {}
            fl = "_".join(hdr[kd] for kd in ("S3", "S4") if kd in hdr)
            for fname in im.order:
                f = im.fns[fname]
                if f.via and f.via is not im.via:
                    margs = []
                    for a in f.via[1][1:]:
                        try:
                            margs.append(int(a.replace("_", "").replace(" ", ""), 0))
                        except ValueError:
                            errors.append("macro row %s!(%s): argument `%s` is not an integer literal" % (f.via[0], ", ".join(f.via[1]), a))
                            margs.append(0)
                    rot_rows.append((mangle(im.selfty), fl, trait, fname, f.via[0], margs))
                else:
                    rot_rows.append((mangle(im.selfty), fl, trait, fname, "fn", []))
    # `impl Machine for ..`: which Rust type each machine uses for each associated vector type, and the machine aliases
    def shape(ty):
        """(type text without flag arguments, {flag kind: argument text})"""
        fl = {}

        def go(t):
            if t[0] != "path":
                return tstr(t)
            if t[1] in items.structs and any(g in FLAGVALS for g in items.structs[t[1]][1]):
                for g, a in zip(items.structs[t[1]][1], t[2]):
                    if fl.get(g, tstr(a)) != tstr(a):
                        raise TErr("mixed %s arguments in %s" % (g, tstr(ty)))
                    fl[g] = tstr(a)
                return t[1]
            return t[1] + ("<%s>" % ", ".join(go(a) for a in t[2]) if t[2] else "")
        return go(ty), fl
    mach_rows, alias_rows = [], []
    for im in items.impls:
        trait = im.trait[1][-1] if im.trait is not None and im.trait[0] == "path" else None
        if trait != "Machine":
            continue
        mname = im.selfty[1][-1] if im.selfty[0] == "path" else "?"
        for an, aty in im.assoc:
            try:
                sh, fl = shape(types.norm(aty, dict((g, T(g)) for g in im.gens)))
                mach_rows.append((mname, an, sh, fl.get("S3", ""), fl.get("S4", "")))
            except TErr as ex:
                errors.append("`%s` / type %s: %s" % (im.header, an, ex))
    for an in sorted(items.aliases):
        gens, body = items.aliases[an]
        if not gens and body[0] == "path" and body[1][-1] in ("SseMachine", "Avx2Machine"):
            alias_rows.append((an, body[1][-1], [tstr(types.norm(a)) for a in body[2]]))
    return dict(defs=defs, errors=errors, skipped=skipped, invocations=items.invocations, rot_rows=rot_rows,
                mach_rows=mach_rows, alias_rows=alias_rows)


def toks_flat(s):
    for a, b in ((" < ", "<"), (" > ", "> "), (" >", ">"), (" , ", ", "), (" ; ", "; "), ("[ ", "["), (" ]", "]"), ("& ", "&"), (" :: ", "::"), ("' ", "'")):
        s = s.replace(a, b)
    return s.replace("  ", " ").strip()


def render_lean(inv):
    L = []
    L.append("/-")
    L.append("  CC.Gen.SimdX86Src — GENERATED by tools/inventory_simdx86.py from utils-simd/ppv-lite86/src/x86_64/{sse2.rs, mod.rs}.")
    L.append("  Do not edit; regenerated by tools/regen on every run.  Definitions only (no proofs); the obligations that the")
    L.append("  hand-written model (lean/CC/Simd/Impl/X86.lean, X86Wide.lean) equals every definition are in lean/CC/Simd/SrcX86.lean.")
    L.append("")
    L.append(TRUSTED.rstrip("\n"))
    L.append("-/")
    L.append("import CC.X86.Intrin")
    L.append("set_option linter.unusedVariables false")
    L.append("namespace CC.Gen.SimdX86Src")
    L.append("open CC.X86")
    L.append("")
    L.append(PRELUDE)
    for d in inv["defs"]:
        L.append("/-- %s -/" % d.doc.replace("-/", "- /"))
        if d.error is not None:
            L.append("def %s : String := %s\n" % (d.name, K._lean_str("translation error: " + d.error)))
        else:
            L.append(d.text)
    L.append("/-- translation errors (obligation: `= []`) -/")
    L.append("def simdx86_errors : List String :=\n  [%s]\n" % ",\n   ".join(K._lean_str(e) for e in inv["errors"]))
    L.append("/-- the length assertions that guard the loads / stores: (definition, assertions in order; a<k> = parameter k) -/")
    rows = [(d.name, d.asserts) for d in inv["defs"] if d.error is None and d.asserts]
    L.append("def assert_rows : List (String × List String) :=\n  [%s]\n" % ",\n   ".join(
        "(%s, [%s])" % (K._lean_str(n), ", ".join(K._lean_str(a) for a in asr)) for n, asr in rows))
    L.append("/-- the fns of the rotation / byte-swap / bit-swap / shuffle impls: (type, flags of the impl header, trait, fn, defining macro or \"fn\", integer macro arguments) -/")
    L.append("def macro_rows : List (String × String × String × String × String × List Nat) :=\n  [%s]\n" % ",\n   ".join(
        "(%s, %s, %s, %s, %s, [%s])" % (K._lean_str(a), K._lean_str(b), K._lean_str(c), K._lean_str(d), K._lean_str(e),
                                         ", ".join("0x%x" % x if x > 255 else str(x) for x in g)) for a, b, c, d, e, g in inv["rot_rows"]))
    L.append("/-- the item-level macro invocations, in source order: (module, enclosing macro, macro, arguments) -/")
    L.append("def invocation_rows : List (String × String × String × List String) :=\n  [%s]\n" % ",\n   ".join(
        "(%s, %s, %s, [%s])" % (K._lean_str(a), K._lean_str(b), K._lean_str(c), ", ".join(K._lean_str(toks_flat(x)) for x in d))
        for a, b, c, d in inv["invocations"]))
    L.append("/-- impl blocks that are deliberately not translated: (trait, header) -/")
    L.append("def skipped_rows : List (String × String) :=\n  [%s]\n" % ",\n   ".join(
        "(%s, %s)" % (K._lean_str(a), K._lean_str(b)) for a, b in inv["skipped"]))
    L.append("/-- mod.rs `impl Machine for SseMachine<S3, S4, NI>` / `for Avx2Machine<NI>`: (machine, associated type, the Rust type with aliases expanded and flag arguments removed, its S3 argument, its S4 argument) -/")
    L.append("def machine_type_rows : List (String × String × String × String × String) :=\n  [%s]\n" % ",\n   ".join(
        "(%s)" % ", ".join(K._lean_str(x) for x in r) for r in inv["mach_rows"]))
    L.append("/-- mod.rs `pub type SSE2 = SseMachine<NoS3, NoS4, NoNI>;` …: (alias, machine, arguments) -/")
    L.append("def machine_alias_rows : List (String × String × List String) :=\n  [%s]\n" % ",\n   ".join(
        "(%s, %s, [%s])" % (K._lean_str(a), K._lean_str(b), ", ".join(K._lean_str(x) for x in c)) for a, b, c in inv["alias_rows"]))
    L.append("/-- the names of all definitions above, in source order (an added, removed or re-flagged method changes this list) -/")
    names = [d.name for d in inv["defs"]]
    L.append("def def_rows : List String :=\n  [%s]\n" % ",\n   ".join(
        ", ".join(K._lean_str(n) for n in names[i:i + 3]) for i in range(0, len(names), 3)))
    L.append("end CC.Gen.SimdX86Src")
    return "\n".join(L) + "\n"


def simdx86_regenerate(repo="/repo", out=None):
    text = render_lean(simdx86_inventory(repo))
    out = out or DEFAULT_OUT
    old = open(out, encoding="utf-8").read() if os.path.exists(out) else None
    if old != text:
        os.makedirs(os.path.dirname(out), exist_ok=True)
        open(out, "w", encoding="utf-8").write(text)
    return text


def main(argv):
    repo, out, pr = "/repo", None, False
    i = 0
    while i < len(argv):
        if argv[i] == "--repo":
            repo = argv[i + 1]
            i += 2
        elif argv[i] == "--out":
            out = argv[i + 1]
            i += 2
        elif argv[i] == "--print":
            pr = True
            i += 1
        else:
            raise SystemExit("usage: inventory_simdx86.py [--repo DIR] [--out FILE | --print]")
    if pr:
        sys.stdout.write(render_lean(simdx86_inventory(repo)))
    else:
        simdx86_regenerate(repo, out)


if __name__ == "__main__":
    main(sys.argv[1:])
