"""C20 — every declared cargo feature combination builds and only selects implementations (partial).

* inventory(): regenerate lean/CC/Gen/Features.lean from the Cargo manifests and sources of /repo
  (tools/inventory.py); the Lean theorems of CC/Thm/C20.lean are re-checked against it.
* extra(): the lattice build.  For every workspace crate and every subset of the features it
  declares: `cargo check --offline --locked -p <crate> --no-default-features [--features ..]`, run in
  /repo (read-only use: Cargo.lock is there and --locked forbids touching it) with a target
  directory under <verif>/harness/target/lattice.  A point that does not compile is the violation
  (replay = crate, features, cargo command, first 60 lines of diagnostics) unless it matches a
  `known` entry of known_findings.json.
* gen_C20(): a small op stream (ChaCha, BLAKE, JH, Threefish) that tools/check runs under the
  std / no_simd / no_unroll harness builds against the one Lean model, so that "a feature only
  selects" is also compared on concrete inputs.
"""
import concurrent.futures, os, re, shutil, subprocess, sys, time

import cclib, gens

sys.path.insert(0, os.path.dirname(os.path.abspath(__file__)))
import inventory_features as _inv

THEOREMS = [
    "cfg_exclusive", "optional_deps_guarded", "refs_resolved_partial", "refs_resolved_baseline",
    "groestl_ssse3_without_aes_dangling", "unused_features_inert", "unused_features_select_nothing",
    "no_unroll_only_selects", "backend_choice_only_selects", "no_simd_only_selects",
    "std_nostd_dispatch_only_selects", "selected_arm_sound",
]

LATTICE_DIR = os.path.join(cclib.HARNESS, "target", "lattice")
BEHAVIOUR_CRATES = ("threefish-cipher", "ppv-lite86", "c2-chacha", "blake-hash", "jh-x86_64")
_STATE = {}


# --------------------------------------------------------------------------- inventory

def inventory(pid, tier):
    inv = _inv.features_inventory(cclib.REPO)
    path, changed = _inv.write_lean(inv, cclib.VERIF)
    _STATE["inv"] = inv
    s = _inv.summary(inv)
    s["generated"] = os.path.relpath(path, cclib.VERIF)
    s["regenerated_differs_from_previous"] = changed
    return {"coverage": {"feature_inventory": s}}


# --------------------------------------------------------------------------- lattice build

def _point_cmd(verb, crate, feats, tdir):
    cmd = ["cargo", verb, "--offline", "--locked", "-p", crate, "--no-default-features"]
    if feats:
        cmd += ["--features", ",".join(feats)]
    cmd += ["--target-dir", tdir]
    return cmd


def _diagnostics(out, n=60):
    lines = out.splitlines()
    start = 0
    for i, l in enumerate(lines):
        if l.startswith("error"):
            start = i
            break
    return "\n".join(lines[start:start + n])


def _run_crate(crate, points, tier):
    """All lattice points of one crate, sequentially, in the crate's own target directory."""
    tdir = os.path.join(LATTICE_DIR, crate)
    os.makedirs(tdir, exist_ok=True)
    res = []
    for feats in points:
        verb = "build" if (tier == "thorough" and crate in BEHAVIOUR_CRATES) else "check"
        cmd = _point_cmd(verb, crate, feats, tdir)
        t0 = time.time()
        try:
            rc, out = cclib.run(cmd, cwd=cclib.REPO, timeout=3600)
        except subprocess.TimeoutExpired:
            rc, out = 124, "error: timeout"
        res.append(dict(crate=crate, features=list(feats), cmd="cd %s && %s" % (cclib.REPO, " ".join(cmd)), rc=rc,
                        secs=round(time.time() - t0, 1), diag=_diagnostics(out) if rc != 0 else ""))
    return res


def extra(pid, tier, seed):
    inv = _STATE.get("inv") or _inv.features_inventory(cclib.REPO)
    crates = inv["_crates"]
    violations, known = [], []
    # machinery problems of the inventory itself
    if inv["errors"]:
        rp = cclib.write_replay(pid, seed, "inventory", "# cfg predicates the inventory could not parse\n" + "\n".join(inv["errors"]) + "\n")
        violations.append(("inventory: unparsed cfg predicate", rp, True))
    # selection findings computed on the python side carry the assignment (= the failing input)
    expected = lambda f: ("reference to `aes`" in f and "[groestl-aesni]" in f)
    unexpected = [f for f in inv["findings"] if not expected(f)]
    if unexpected:
        rp = cclib.write_replay(pid, seed, "selection", "# property=C20 selection-correctness fails; assignment = atoms that are true\n" + "\n".join(unexpected) + "\n")
        violations.append(("cfg selection: " + unexpected[0][:120], rp, False))

    before = _git_status()
    jobs = [(c["name"], c["points"]) for c in crates]
    results = []
    with concurrent.futures.ThreadPoolExecutor(max_workers=min(16, len(jobs))) as ex:
        futs = [ex.submit(_run_crate, name, pts, tier) for name, pts in jobs]
        for f in futs:
            results += f.result()
    after = _git_status()

    table = {}
    known_seen = {}
    samples = []
    for r in results:
        t = table.setdefault(r["crate"], dict(points=0, compiled=0, known=0, failed=[]))
        t["points"] += 1
        fl = ",".join(r["features"]) or "(none)"
        if len(samples) < 6 and (r["rc"] != 0 or len(samples) < 3):
            samples.append(dict(cmd=r["cmd"].replace(LATTICE_DIR, "<target>/lattice"), rc=r["rc"], secs=r["secs"]))
        if r["rc"] == 0:
            t["compiled"] += 1
            continue
        text = ("# property=C20: this point of the feature lattice does not compile\ncrate=%s\nfeatures=%s\ncommand: %s\nexit status: %d\n"
                "--- first 60 lines of diagnostics ---\n%s\n" % (r["crate"], fl, r["cmd"], r["rc"], r["diag"]))
        kf = cclib.match_known(pid, text)
        if kf:
            t["known"] += 1
            known_seen.setdefault(kf["what"], []).append("%s [%s]" % (r["crate"], fl))
        else:
            t["failed"].append(fl)
            rp = cclib.write_replay(pid, seed, "build-%s-%s" % (r["crate"], re.sub(r"[^A-Za-z0-9_]+", "+", fl).strip("+") or "none"), text)
            violations.append(("%s does not compile with features %s" % (r["crate"], fl), rp, False))
    for what, pts in known_seen.items():
        known.append("KNOWN-FINDING: property=%s %s" % (pid, what))
    if before != after:
        rp = cclib.write_replay(pid, seed, "repo-touched", "# the lattice build changed /repo\n# before:\n%s\n# after:\n%s\n" % (before, after))
        violations.append(("machinery error: cargo wrote into /repo", rp, True))

    npts = len(results)
    cov = {
        "lattice": {
            "points": npts,
            "compiled": sum(1 for r in results if r["rc"] == 0),
            "known_failing": sum(t["known"] for t in table.values()),
            "new_failing": sum(len(t["failed"]) for t in table.values()),
            "per_crate": table,
            "known_points": known_seen,
            "verb": "cargo build for %s, cargo check elsewhere" % ", ".join(BEHAVIOUR_CRATES) if tier == "thorough" else "cargo check",
            "toolchain": _tool("rustc", "--version"),
            "host": next((l.split(":", 1)[1].strip() for l in _tool("rustc", "-vV").splitlines() if l.startswith("host")), "?"),
            "wall_s_max_point": max([r["secs"] for r in results] or [0]),
            "samples": samples,
        },
        "observations_outside_lattice": [f for f in inv["findings"] if expected(f)],
    }
    return {"coverage": cov, "violations": violations, "known": known, "evaluations": npts}


def _tool(*cmd):
    try:
        return subprocess.run(list(cmd), stdout=subprocess.PIPE, stderr=subprocess.STDOUT, text=True, timeout=60).stdout.strip()
    except Exception as e:  # pragma: no cover
        return "?(%s)" % e


def _git_status():
    try:
        return subprocess.run(["git", "-C", cclib.REPO, "status", "--porcelain"], stdout=subprocess.PIPE, stderr=subprocess.STDOUT,
                              text=True, timeout=60).stdout
    except Exception:
        return ""


# --------------------------------------------------------------------------- behaviour across configurations

def gen_C20(rng, tier, cfg):
    """The same families under each harness configuration (std / no_simd / no_unroll): a few ChaCha
    keystreams, BLAKE-256/512, JH, Threefish, each a prefix of the property's own generator."""
    budget = 150 if tier == "quick" else 600
    ops, stats = [], {}
    # counter/lane boundaries of the selected vector backend (a feature that swaps the backend must not
    # change what happens when a 32-bit or 64-bit lane carries): block API across 2^32 and 2^64, the IETF
    # cipher reading its last four blocks with nonce word 0 = ffffffff and being used afterwards, a 64-bit
    # cipher crossing block 2^32 in the wide path
    ops.append("# C20 boundary block under %s" % cfg)
    nb = 0
    for ctr in [2**32 - 4, 2**32 - 3, 2**32 - 2, 2**32 - 1, 2**64 - 4, 2**64 - 3, 2**64 - 2, 2**64 - 1]:
        ops += ["guts new 0 %s %s" % (gens.hx(gens.struct_bytes(rng, 32)), gens.hx(gens.struct_bytes(rng, 8))),
                "guts set 0 0 %d" % ctr, "guts refill4 0 %d" % rng.choice([4, 6, 10]), "guts get 0 0", "guts get 0 1",
                "guts refill 0 10", "guts get 0 0", "guts get 0 1"]
        nb += 1
    key = gens.hx(gens.struct_bytes(rng, 32))
    ops += ["chacha new 0 ietf %s ffffffff%s" % (key, gens.hx(gens.struct_bytes(rng, 8))),
            "chacha seek 0 u64 %d" % (2**38 - 256), "chacha applypat 0 256 7", "chacha seek 0 u64 0", "chacha applypat 0 300 8",
            "chacha seek 0 u64 %d" % (2**38 - 100), "chacha applypat 0 101 9", "chacha seek 0 u64 64", "chacha applypat 0 64 1",
            "chacha new 1 chacha20 %s %s" % (key, gens.hx(gens.struct_bytes(rng, 8))),
            "chacha seek 1 u64 %d" % (2**38 - 130), "chacha applypat 1 700 3", "chacha pos 1 u128",
            "chacha new 2 xchacha20 %s %s" % (key, gens.hx(gens.struct_bytes(rng, 24))),
            "chacha seek 2 u64 %d" % (2**38 - 256), "chacha applypat 2 1024 4"]
    stats["boundary_cases"] = nb + 3
    # equality of states / storages under this configuration (the storage `==` is backend code too)
    xor = lambda a, b: bytes(x ^ y for x, y in zip(a, b))
    dl = gens.correlated_row_diffs(rng)
    for d in dl:
        k1 = gens.struct_bytes(rng, 32)
        n1 = gens.struct_bytes(rng, 12)
        ops += ["guts new 0 %s %s" % (gens.hx(k1), gens.hx(n1)),
                "guts new 1 %s %s" % (gens.hx(xor(k1[:16], d) + k1[16:]), gens.hx(n1)), "guts eq32 0 1", "guts eq64 0 1",
                "guts new 1 %s %s" % (gens.hx(k1[:16] + xor(k1[16:], d)), gens.hx(xor(n1, d[4:16]))), "guts eq64 0 1"]
    # every VARIANT of every family under this configuration (the prefixes below need not reach all of them:
    # a seeded change that altered only BLAKE-384/512 in the no-std build slipped through the prefixes)
    ops.append("# C20 all variants under %s" % cfg)
    nv = 0
    for bits, b in (("224", 64), ("256", 64), ("384", 128), ("512", 128)):
        for ln in (0, 3, b - 9, b, 2 * b + 5):
            ops += ["blake new 0 %s" % bits, "blake updpat 0 %d %d" % (ln, rng.below(1000)), "blake fin 0"]
        nv += 1
    for bits in ("224", "256", "384", "512"):
        for ln in (0, 3, 55, 64, 133):
            ops += ["jh new 0 %s" % bits, "jh updpat 0 %d %d" % (ln, rng.below(1000)), "jh fin 0"]
        nv += 1
    for var, b in (("256-32", 32), ("512-64", 64), ("1024-128", 128), ("512-20", 64)):
        for ln in (0, 3, b, 2 * b + 5):
            ops += ["skein new 0 %s" % var, "skein updpat 0 %d %d" % (ln, rng.below(1000)), "skein fin 0"]
        nv += 1
    if not cfg.startswith("nostd-"):          # groestl-aesni has no no-std build (known finding B2)
        for bits, b in (("224", 64), ("256", 64), ("384", 128), ("512", 128)):
            for ln in (0, 3, b, 2 * b + 5):
                ops += ["groestl new 0 %s" % bits, "groestl updpat 0 %d %d" % (ln, rng.below(1000)), "groestl fin 0"]
            nv += 1
    tfop = gens.tf_opname(cfg)
    for size, n in (("256", 32), ("512", 64), ("1024", 128)):
        k, x = gens.hx(gens.struct_bytes(rng, n)), gens.hx(gens.struct_bytes(rng, n))
        t0, t1 = rng.below(2**64), rng.below(2**64)
        ops += ["%s %s enc %s %d %d %s" % (tfop, size, k, t0, t1, x), "%s %s dec %s %d %d %s" % (tfop, size, k, t0, t1, x)]
        nv += 1
    for v in gens.VARIANTS:
        ops += ["chacha new 3 %s %s %s" % (v, gens.hx(gens.struct_bytes(rng, 32)), gens.hx(gens.struct_bytes(rng, gens.NONCE[v]))),
                "chacha applypat 3 300 5", "chacha seek 3 u64 %d" % rng.below(2**36), "chacha applypat 3 100 6"]
        nv += 1
    stats["variants_all"] = nv
    for fam in ("C01", "C04", "C06", "C09", "C05"):
        sub = cclib.XorShift(rng.next())
        o, _ = gens.GENS[fam](sub, "quick", cfg)
        o = o[:budget]
        ops.append("# C20 family %s under %s" % (fam, cfg))
        ops += o
        stats[fam] = len(o)
    stats["cfg"] = cfg
    return ops, stats


PROP = dict(
    theorems=THEOREMS,
    gen=gen_C20,
    inventory=inventory,
    extra=extra,
    # `std` off is a lattice point too: compile-time dispatch, on a stock x86_64 target the plain SSE2 machine
    # (a seeded change in a pre-SSSE3 code path changed BLAKE-512 only in that build and was missed without it)
    cfgs_quick=["std-release", "nosimd-release", "nounroll-release", "nostd-sse2-release", "nosimd-debug", "nounroll-debug"],
    cfgs_thorough=["std-release", "nosimd-release", "nounroll-release", "std-debug", "nosimd-debug", "nounroll-debug"] + list(cclib.NOSTD_CFGS),
    strength="partial",
    partial_note="compilation of each lattice point is observed with cargo, not proved; selection-correctness (exactly one "
                 "alternative active, optional deps guarded, result invariance across alternatives) is proved",
    build_failure_is_violation=True,
    trusted_extra=["tools/inventory.py: extraction of cfg-guarded items and Cargo feature tables from the sources (regex/brace scanner, not rustc's parser)",
                   "cargo/rustc exit status as the meaning of 'compiles' for each lattice point"],
    assumptions=["target x86_64 little-endian with sse2 in the baseline; rustc's target-feature implications avx2→avx→sse4.1→ssse3→sse2, aes→sse2",
                 "lattice = subsets of the features each crate declares, default target features, stable toolchain"],
)
