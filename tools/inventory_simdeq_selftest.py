#!/usr/bin/env python3
"""tools/inventory_simdeq_selftest.py — negative / positive tests of tools/inventory_simdeq.py (not a registered check).
Copies the five Rust files it reads into a temporary tree, applies ONE mutation per case, regenerates
lean/CC/Gen/SimdEqSrc.lean from it and checks that
  * N cases (breaking edits): the generated file changes AND `lake build CC.Simd.SrcEq CC.Thm.C15Eq` FAILS;
  * P cases (harmless rewrites): the generated file is byte-identical.
Then (part G) it checks the GENERATORS: every semantic mutant of the comparison (emulated in Python) must answer
differently from true equality on at least one operand pair of tools/gens_simdeq.py — random pairs distinguish none.
Restores the generated file from /repo at the end.
    python3 tools/inventory_simdeq_selftest.py [case id ...]"""
import os, shutil, subprocess, sys, tempfile, time
V = os.path.dirname(os.path.dirname(os.path.abspath(__file__)))
sys.path.insert(0, V + "/tools")
import inventory_simdx86 as X
import inventory_simdeq as E
S = "utils-simd/ppv-lite86/src/x86_64/sse2.rs"
M = "utils-simd/ppv-lite86/src/x86_64/mod.rs"
G = E.GENERIC
F = E.SOFT
C = E.GUTS
ROOT = os.path.join(tempfile.gettempdir(), "simdeq_selftest_%d" % os.getpid())
GEN = E.DEFAULT_OUT


def sub1(old, new, nth=0):
    def f(s):
        parts = s.split(old)
        assert len(parts) > nth + 1, old
        return old.join(parts[:nth + 1]) + new + old.join(parts[nth + 1:])
    return f


def suball(*pairs):
    def f(s):
        for a, b in pairs:
            assert a in s, a
            s = s.replace(a, b)
        return s
    return f


def append(text):
    return lambda s: s + "\n" + text + "\n"


S2 = "    let q = _mm_cmpeq_epi32(x, y);\n    let p = _mm_cvtsi128_si64(_mm_srli_si128(q, 8));\n    let q = _mm_cvtsi128_si64(q);\n    (p & q) == -1\n"
X2 = "self.0[0] == rhs.0[0] && self.0[1] == rhs.0[1]"
CASES = [
  ("N01 eq128_s2: `&` -> `|` (one equal half suffices)", False, S, sub1("(p & q) == -1", "(p | q) == -1")),
  ("N02 eq128_s2: byte shift 8 -> 4 (lane 3 never looked at)", False, S, sub1("_mm_srli_si128(q, 8)", "_mm_srli_si128(q, 4)")),
  ("N03 eq128_s2: `== -1` -> `!= 0` (any equal bit pattern suffices)", False, S, sub1("(p & q) == -1", "(p & q) != 0")),
  ("N04 eq128_s4: shuffle immediate 0b1100_0110 -> 0b1100_0100 (high quadword ignored)", False, S, sub1("0b1100_0110", "0b1100_0100")),
  ("N05 x2: `&&` -> `||`", False, S, sub1(X2, "self.0[0] == rhs.0[0] || self.0[1] == rhs.0[1]")),
  ("N06 x2: only lane 0 compared", False, S, sub1(X2, "self.0[0] == rhs.0[0]")),
  ("N07 x2: second conjunct compares lane 1 with lane 0", False, S, sub1(X2, "self.0[0] == rhs.0[0] && self.0[1] == rhs.0[0]")),
  ("N08 mod.rs vec128_storage: a SUM of lanes compared (loud)", False, M, sub1("self.u128x1 == rhs.u128x1", "self.u64x2[0].wrapping_add(self.u64x2[1]) == rhs.u64x2[0].wrapping_add(rhs.u64x2[1])")),
  ("N09 eq128_s2: operand slip `_mm_cmpeq_epi32(x, x)`", False, S, sub1("_mm_cmpeq_epi32(x, y)", "_mm_cmpeq_epi32(x, x)")),
  ("N10 the function of ONE type: u64x2_sse2 calls eq128_s4 (SSE4.1 instruction on every machine)", False, S, sub1("unsafe { eq128_s2(self.x, rhs.x) }", "unsafe { eq128_s4(self.x, rhs.x) }", nth=1)),
  ("N11 mod.rs vec256_storage: only the low 128 bits compared", False, M, sub1("self.sse2 == rhs.sse2", "self.u128x2[0] == rhs.u128x2[0]")),
  ("N12 mod.rs vec512_storage: only the low half compared", False, M, sub1("self.avx == rhs.avx", "self.avx[0] == rhs.avx[0]")),
  ("N13 mod.rs vec128_storage: only the low quadword compared", False, M, sub1("self.u128x1 == rhs.u128x1", "self.u64x2[0] == rhs.u64x2[0]")),
  ("N14 eq128_s2: a statement dropped (loud: `p & q` on a vector)", False, S, sub1("    let q = _mm_cvtsi128_si64(q);\n    (p & q) == -1", "    (p & q) == -1")),
  ("N15 generic.rs vec256_storage: derive dropped, hand-written eq comparing v128[0] only (loud)", False, G,
   lambda s: sub1("#[derive(Clone, Copy, PartialEq, Eq, Default)]\npub struct vec256_storage", "#[derive(Clone, Copy, Default)]\npub struct vec256_storage")(s)
   + "\nimpl Eq for vec256_storage {}\nimpl PartialEq for vec256_storage {\n    fn eq(&self, rhs: &Self) -> bool {\n        self.v128[0] == rhs.v128[0]\n    }\n}\n"),
  ("N16 generic.rs u32x4_generic loses its PartialEq", False, G, sub1("#[derive(Copy, Clone, Debug, PartialEq)]\n    pub struct u32x4_generic", "#[derive(Copy, Clone, Debug)]\n    pub struct u32x4_generic")),
  ("N17 guts.rs ChaCha: derive replaced by a hand-written eq that ignores `d` (loud)", False, C,
   lambda s: sub1("#[derive(Clone, PartialEq, Eq)]\npub struct ChaCha", "#[derive(Clone)]\npub struct ChaCha")(s)
   + "\nimpl Eq for ChaCha {}\nimpl PartialEq for ChaCha {\n    fn eq(&self, o: &Self) -> bool {\n        self.b == o.b && self.c == o.c\n    }\n}\n"),
  ("N18 guts.rs State<V>: the derive dropped", False, C, sub1("#[derive(Clone, PartialEq, Eq)]\npub struct State<V>", "#[derive(Clone)]\npub struct State<V>")),
  ("N19 u128x1_sse2 gains a PartialEq (through eq128_s4)", False, S, append("impl<S3, S4, NI> PartialEq for u128x1_sse2<S3, S4, NI> {\n    fn eq(&self, rhs: &Self) -> bool {\n        unsafe { eq128_s4(self.x, rhs.x) }\n    }\n}")),
  ("N20 x4<W> gains a PartialEq that compares only lane 0", False, S, append("impl<W: PartialEq> PartialEq for x4<W> {\n    fn eq(&self, rhs: &Self) -> bool {\n        self.0[0] == rhs.0[0]\n    }\n}")),
  ("N21 eq128_s2: `== -1` -> `== 1`", False, S, sub1("(p & q) == -1", "(p & q) == 1")),
  ("N22 eq128_s2: psrldq -> pslldq", False, S, sub1("_mm_srli_si128(q, 8)", "_mm_slli_si128(q, 8)")),
  ("N23 eq128_s2: both quadwords read from the low half", False, S, sub1("let p = _mm_cvtsi128_si64(_mm_srli_si128(q, 8));", "let p = _mm_cvtsi128_si64(q);")),
  ("N24 eq128_s4: pcmpeqq -> pcmpeqd (the pshufd then drops dword 1)", False, S, sub1("_mm_cmpeq_epi64(x, y)", "_mm_cmpeq_epi32(x, y)")),
  ("N25 soft.rs x2 gains a derived PartialEq (loud: not modelled)", False, F, sub1("#[derive(Copy, Clone, Default)]", "#[derive(Copy, Clone, Default, PartialEq)]")),
  ("N26 an intrinsic without a model (loud)", False, S, sub1("_mm_cmpeq_epi32(x, y)", "_mm_cmpgt_epi32(x, y)")),
  ("N27 mod.rs Avx2Machine: `type u32x4x2` is the SSE pair (that type HAS a `==`; the table says none)", False, M, sub1("type u32x4x2 = sse2::avx2::u32x4x2_avx2<NI>;", "type u32x4x2 = sse2::u32x4x2_sse2<YesS3, YesS4, NI>;")),
  ("N28 mod.rs SseMachine: `type u64x4` is `u128x2_sse2` (no `==`)", False, M, sub1("type u64x4 = sse2::u64x4_sse2<S3, S4, NI>;", "type u64x4 = sse2::u128x2_sse2<S3, S4, NI>;")),
  ("N29 generic.rs GenericMachine: `type u128x1` is `u64x2_generic`", False, G, sub1("type u128x1 = u128x1_generic;", "type u128x1 = u64x2_generic;")),
  # harmless rewrites: byte-identical output
  ("P01 eq128_s2: locals renamed", True, S, sub1(S2, "    let m = _mm_cmpeq_epi32(x, y);\n    let hi = _mm_cvtsi128_si64(_mm_srli_si128(m, 8));\n    let lo = _mm_cvtsi128_si64(m);\n    (hi & lo) == -1\n")),
  ("P02 eq128_s2: extra temporaries", True, S, sub1(S2, "    let q = _mm_cmpeq_epi32(x, y);\n    let s = _mm_srli_si128(q, 8);\n    let p = _mm_cvtsi128_si64(s);\n    let q = _mm_cvtsi128_si64(q);\n    let both = p & q;\n    let r = both == -1;\n    r\n")),
  ("P03 eq128_s2: the two independent movq reordered", True, S, sub1(S2, "    let m = _mm_cmpeq_epi32(x, y);\n    let lo = _mm_cvtsi128_si64(m);\n    let hi = _mm_cvtsi128_si64(_mm_srli_si128(m, 8));\n    (hi & lo) == -1\n")),
  ("P04 literals written differently (0b1100_0110 -> 0xc6, 8 -> 0x08, -1 -> -1i64)", True, S, suball(("0b1100_0110", "0xc6"), ("_mm_srli_si128(q, 8)", "_mm_srli_si128(q, 0x08)"), ("(p & q) == -1", "(p & q) == -1i64"))),
  ("P05 x2: the conjuncts as temporaries", True, S, sub1("        " + X2 + "\n", "        let a = self.0[0] == rhs.0[0];\n        let b = self.0[1] == rhs.0[1];\n        a && b\n")),
  ("P06 mod.rs: comments and layout", True, M, sub1("unsafe { self.sse2 == rhs.sse2 }", "unsafe {\n            /* both halves /* nested */ */ self.sse2 ==\n                rhs.sse2 // element-wise\n        }")),
  ("P07 `rhs` renamed in the impls", True, S, suball(("fn eq(&self, rhs: &Self) -> bool {\n        unsafe { eq128_s2(self.x, rhs.x) }", "fn eq(&self, other: &Self) -> bool {\n        unsafe { eq128_s2(self.x, other.x) }"))),
  ("P08 generic.rs: derive list reordered", True, G, suball(("#[derive(Clone, Copy, PartialEq, Eq, Default)]", "#[derive(PartialEq, Eq, Default, Clone, Copy)]"))),
  ("P09 the call through a temporary, `unsafe` moved", True, S, sub1("        unsafe { eq128_s2(self.x, rhs.x) }\n", "        let r = unsafe {\n            let (l, r) = (self.x, rhs.x);\n            eq128_s2(l, r)\n        };\n        r\n")),
  ("P10 guts.rs: an unrelated function changes", True, C, sub1("pub(crate) fn round<V: ArithOps + BitOps32>(mut x: State<V>) -> State<V> {", "pub(crate) fn round<V: ArithOps + BitOps32>(mut x: State<V>) -> State<V> {\n    let _unused = 0u32;")),
]


def run(cmd, **kw):
    return subprocess.run(cmd, stdout=subprocess.PIPE, stderr=subprocess.STDOUT, universal_newlines=True, **kw)


# =========================================================================== part G: the generators

def _w(b, w):
    return [int.from_bytes(b[i:i + w], "little") for i in range(0, len(b), w)]


def m128(kind, x, y):
    """semantic mutants of the 128-bit comparison"""
    dx, dy = _w(x, 4), _w(y, 4)
    q = [0xffffffff if a == b else 0 for a, b in zip(dx, dy)]
    lo, hi = q[0] | q[1] << 32, q[2] | q[3] << 32
    ones = (1 << 64) - 1
    if kind == "or":
        return (lo | hi) == ones
    if kind == "srli4":
        return (lo & (q[1] | q[2] << 32)) == ones
    if kind == "ne0":
        return (lo & hi) != 0
    if kind == "low-half":
        return lo == ones
    if kind == "s4-imm":                     # pcmpeqq, pshufd 0b11000100: dwords [0, 1, 0, 3] -> low quadword only
        return _w(x, 8)[0] == _w(y, 8)[0]
    if kind == "sum32":
        return sum(dx) % 2**32 == sum(dy) % 2**32
    if kind == "xor32":
        return dx[0] ^ dx[1] ^ dx[2] ^ dx[3] == dy[0] ^ dy[1] ^ dy[2] ^ dy[3]
    if kind == "sum64":
        return sum(_w(x, 8)) % 2**64 == sum(_w(y, 8)) % 2**64
    if kind == "xor64":
        return _w(x, 8)[0] ^ _w(x, 8)[1] == _w(y, 8)[0] ^ _w(y, 8)[1]
    if kind == "sorted":
        return sorted(dx) == sorted(dy)
    if kind == "lane3-ignored":
        return dx[:3] == dy[:3]
    raise KeyError(kind)


def mwide(kind, x, y):
    px, py = [x[i:i + 16] for i in range(0, len(x), 16)], [y[i:i + 16] for i in range(0, len(y), 16)]
    e = [a == b for a, b in zip(px, py)]
    if kind == "any":
        return any(e)
    if kind == "part0":
        return e[0]
    if kind == "last-part-ignored":
        return all(e[:-1])
    if kind == "parts-sorted":
        return sorted(px) == sorted(py)
    if kind == "xor-parts":
        f = lambda ps: bytes(a ^ b for a, b in zip(ps[0], ps[1]))
        return f(px[:2]) == f(py[:2]) and px[2:] == py[2:]
    raise KeyError(kind)


def generator_part():
    import gens, gens_simdeq as GE, cclib
    ok = True
    Gd = vars(gens)
    for tier in ("quick",):
        rng = cclib.Rng(12345) if hasattr(cclib, "Rng") else None
        if rng is None:
            import random

            class R(object):
                def __init__(self):
                    self.r = random.Random(12345)

                def below(self, n):
                    return self.r.randrange(n)

                def bytes(self, n):
                    return bytes(self.r.randrange(256) for _ in range(n))

                def choice(self, xs):
                    return self.r.choice(xs)
            rng = R()
        p128 = GE.eq_pairs(Gd, rng, 16, tier)
        for kind in ("or", "srli4", "ne0", "low-half", "s4-imm", "sum32", "xor32", "sum64", "xor64", "sorted", "lane3-ignored"):
            hits = [k for x, y, k in p128 if m128(kind, x, y) != (x == y) or m128(kind, y, x) != (x == y)]
            rnd = sum(1 for _ in range(2000) if m128(kind, rng.bytes(16), rng.bytes(16)))
            good = bool(hits)
            ok &= good
            print("G %-18s 128-bit: %3d of %d generated pairs distinguish it (kinds: %s); random pairs: %d of 2000  %s" % (
                kind, len(hits), len(p128), ", ".join(sorted(set(hits))[:4]), rnd, "ok" if good else "NOT DISTINGUISHED"))
        for nb in (32, 64):
            pw = GE.eq_pairs(Gd, rng, nb, tier)
            for kind in ("any", "part0", "last-part-ignored", "parts-sorted", "xor-parts"):
                hits = [k for x, y, k in pw if mwide(kind, x, y) != (x == y)]
                good = bool(hits)
                ok &= good
                print("G %-18s %d-bit: %3d of %d generated pairs distinguish it  %s" % (kind, 8 * nb, len(hits), len(pw), "ok" if good else "NOT DISTINGUISHED"))
    return ok


def main():
    only = sys.argv[1:]
    base = E.render_lean(E.simdeq_inventory("/repo"))
    results = []
    files = list(X.FILES) + [G, F, C]
    try:
        for cid, harmless, rel, mut in CASES:
            if only and cid.split()[0] not in only:
                continue
            shutil.rmtree(ROOT, ignore_errors=True)
            for f in files:
                os.makedirs(os.path.dirname(os.path.join(ROOT, f)), exist_ok=True)
                shutil.copy(os.path.join("/repo", f), os.path.join(ROOT, f))
            p = os.path.join(ROOT, rel)
            s = open(p).read()
            s2 = mut(s)
            assert s2 != s, cid
            open(p, "w").write(s2)
            inv = E.simdeq_inventory(ROOT)
            text = E.render_lean(inv)
            nerr = len(inv["errors"])
            t0 = time.time()
            if harmless:
                good = text == base
                what = "generated file %s" % ("byte-identical" if good else "CHANGED")
            else:
                open(GEN, "w").write(text)
                b = run(["lake", "build", "CC.Simd.SrcEq", "CC.Thm.C15Eq"], cwd=V + "/lean")
                errs = [l for l in b.stdout.splitlines() if l.startswith("error:")]
                good = text != base and b.returncode != 0
                what = "generated file %s, translator errors %d, lake build %s (%.1fs) %s" % (
                    "changed" if text != base else "UNCHANGED", nerr, "FAILS" if b.returncode != 0 else "PASSES",
                    time.time() - t0, (errs[0][:110] if errs else ""))
            results.append((cid, harmless, good))
            print("%s  %-4s %s\n        %s" % ("ok  " if good else "FAIL", "", cid, what), flush=True)
    finally:
        shutil.rmtree(ROOT, ignore_errors=True)
        open(GEN, "w").write(base)
        run(["lake", "build", "CC.Simd.SrcEq", "CC.Thm.C15Eq"], cwd=V + "/lean")
    gok = True
    if not only:
        gok = generator_part()
    nb = [r for r in results if not r[1]]
    nh = [r for r in results if r[1]]
    print("breaking: %d/%d detected; harmless: %d/%d byte-identical; generators: %s" % (
        sum(1 for r in nb if r[2]), len(nb), sum(1 for r in nh if r[2]), len(nh), "adequate" if gok else "INADEQUATE"))
    return 0 if all(r[2] for r in results) and gok else 1


if __name__ == "__main__":
    sys.exit(main())
