#!/usr/bin/env python3
"""tools/inventory.py <features|shared|memops|dispatch> [args…] — source inventories regenerated from /repo on
every run (each feeds a decidable Lean proof obligation): cfg/feature selection groups (C20),
process-global shared state (C18), raw-memory operations (C16), backend selection ladders (C03)."""
import os, sys
sys.path.insert(0, os.path.dirname(os.path.abspath(__file__)))
if __name__ == "__main__":
    kind = sys.argv[1] if len(sys.argv) > 1 else ""
    if kind == "features":
        import inventory_features as m
        sys.exit(m.main(sys.argv[1:]) if hasattr(m, "main") else 0)
    if kind == "shared":
        import inventory_shared as m
        sys.exit(m._shared_main(sys.argv[1:]))
    if kind == "memops":
        import inventory_memops as m
        sys.exit(m.main(sys.argv[1:]))
    if kind == "dispatch":
        import inventory_dispatch as m
        sys.exit(m.main(sys.argv[2:]))
    print(__doc__)
    sys.exit(2)
