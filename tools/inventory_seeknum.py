#!/usr/bin/env python3
"""tools/inventory_seeknum.py — the translator tie for the integer-type conversions of the THIRD-PARTY crate `cipher`
(`src/stream.rs`): the body of `macro_rules! impl_seek_num` (`SeekNum::from_block_byte`, `SeekNum::to_block_byte`) expanded
for EVERY type of its invocation list(s), the invocation list itself, and the forwarding `impl<C: StreamCipher> StreamCipher
for &mut C`.

The crate source is located from the version PINNED in <repo>/Cargo.lock (`$CARGO_HOME/registry/src/*/cipher-<version>`); a
pinned version whose source is not there is a translation error.  `crate_dirs={"cipher": directory}` overrides the lookup
(self-test on a scratch copy).

Method: the file is lexed with the lexer of tools/inventory_kernels.py, the macro body is expanded per invocation type (`$t` ↦
the type) and each method body is parsed (parser `P4` of tools/inventory_blockbuffer.py) and EXECUTED SYMBOLICALLY with TYPED
integer values: every value is a term over the parameters (locals are substituted, so renamed locals and extra temporaries
vanish) together with its Rust integer type.  What can end the call early is an EFFECT in program order:
  * `e?` on a Result / Option ↦ `match e with | none => .ok none | some v<k> => …`  (v<k> numbered in program order),
  * a GUARD (`debug_assert!`, an unchecked `+ - *` whose result leaves the type in profile debug, a zero divisor, `MIN / -1`)
    ↦ `if <guard fails> then .panic … else`; the guards between two `?` are sorted, and a guard that was already checked earlier
    on the path is dropped.
Anything outside the reading table is a translation ERROR (the definition becomes a `String`, the message goes to
`seeknum_errors`, whose obligation is `= []`): never skipped silently.
"""
import os
import sys

_HERE = os.path.dirname(os.path.abspath(__file__))
if _HERE not in sys.path:
    sys.path.insert(0, _HERE)
import inventory_kernels as K
from inventory_kernels import TErr, is_p, is_id, match_close, lex
import inventory_blockbuffer as BB

_LEAN = os.path.join(os.path.dirname(_HERE), "lean")
DEFAULT_OUT = os.path.join(_LEAN, "CC", "Gen", "SeekNumSrc.lean")
CRATE = "cipher"
FILE = "src/stream.rs"
MACRO = "impl_seek_num"
TRAIT = "SeekNum"

# Rust integer types: (lo, hi); usize / isize are 64 bits wide (target_pointer_width = "64", trusted)
INT = {}
for _n, _b in (("8", 8), ("16", 16), ("32", 32), ("64", 64), ("128", 128), ("size", 64)):
    INT["u" + _n] = (0, 2 ** _b - 1)
    INT["i" + _n] = (-(2 ** (_b - 1)), 2 ** (_b - 1) - 1)


def num(n):
    return str(n) if n >= 0 else "(%d)" % n


def rng(ty):
    """Lean text `lo hi` of an integer type; a generic parameter X ↦ its range parameters `X_lo X_hi`"""
    if ty in INT:
        return "%s %s" % (num(INT[ty][0]), num(INT[ty][1]))
    return "%s_lo %s_hi" % (ty, ty)


# =========================================================================== values

class V(object):
    """kind 'int': ty = integer type name or generic parameter, t = Lean term : Int
       kind 'res': Result<ty, E> / Option<ty> read as Option; ty = a type or a tuple of types, t = Lean term : Option _
       kind 'tup': items = list of V"""

    def __init__(self, kind, ty, t, items=None):
        self.kind, self.ty, self.t, self.items = kind, ty, t, items


def atom(t):
    return t if (t.replace("_", "").isalnum() or (t.startswith("(") and t.endswith(")") and t.count("(") == 1)) else "(%s)" % t


class Eval(object):
    def __init__(self, selfty, generics, errty):
        self.selfty = selfty
        self.generics = generics          # name -> list of (bound trait, argument type)
        self.errty = errty                # the unit struct of the declared error type
        self.env = {}
        self.steps = []                   # ("guard", cond, msg) | ("bind", var, term)
        self.nv = 0
        self.used_ranges = []             # generic parameters whose range is needed
        self.seen = set()                 # guards already established on the path

    # ---- helpers
    def ty_of(self, tynode):
        if tynode[0] != "path" or len(tynode[1]) != 1 or (len(tynode) > 2 and tynode[2]):
            raise TErr("type `%s` is outside the language" % (tynode,))
        n = tynode[1][0]
        if n == "Self":
            return self.selfty
        if n in INT:
            return n
        if n in self.generics:
            return n
        raise TErr("type `%s` is outside the language" % n)

    def need_range(self, ty):
        if ty not in INT and ty not in self.used_ranges:
            self.used_ranges.append(ty)

    def guard(self, cond, msg):
        # a guard that was already checked earlier on the path (same condition over the same immutable terms) cannot fire again
        if (cond, msg) in self.seen:
            return
        self.seen.add((cond, msg))
        self.steps.append(("guard", cond, msg))

    def bind(self, term):
        self.nv += 1
        v = "v%d" % self.nv
        self.steps.append(("bind", v, term))
        return v

    def integer(self, v, what):
        if v.kind != "int":
            raise TErr("%s: an integer value expected" % what)
        return v

    def concrete(self, ty, what):
        if ty not in INT:
            raise TErr("%s on a value of the generic type %s" % (what, ty))

    def is_err_unit(self, e):
        return e[0] == "path" and e[1] == [self.errty]

    # ---- expressions
    def ev(self, e):
        f = getattr(self, "ev_" + e[0], None)
        if f is None:
            raise TErr("expression form `%s` is outside the language" % e[0])
        return f(e)

    def ev_paren(self, e):
        return self.ev(e[1])

    def ev_path(self, e):
        if len(e[1]) == 1 and e[1][0] in self.env:
            return self.env[e[1][0]]
        raise TErr("unknown name `%s`" % "::".join(e[1]))

    def ev_int(self, e):
        raise TErr("integer literal without a type context")

    def ev_tuple(self, e):
        items = [self.ev(x) for x in e[1]]
        for x in items:
            self.integer(x, "tuple component")
        return V("tup", tuple(x.ty for x in items), "(%s)" % ", ".join(x.t for x in items), items)

    def ev_cast(self, e):
        v = self.integer(self.ev(e[1]), "`as`")
        ty = self.ty_of(e[2])
        self.concrete(ty, "`as`")
        self.concrete(v.ty, "`as`")
        return V("int", ty, "wrapInt %s %s" % (rng(ty), atom(v.t)))

    def ev_bin(self, e):
        op = e[1]
        a = self.integer(self.ev(e[2]), "`%s`" % op)
        b = self.integer(self.ev(e[3]), "`%s`" % op)
        if a.ty != b.ty:
            raise TErr("`%s` on operands of the types %s and %s" % (op, a.ty, b.ty))
        self.concrete(a.ty, "`%s`" % op)
        lo, hi = INT[a.ty]
        r = rng(a.ty)
        if op in ("+", "-", "*"):
            raw = "%s %s %s" % (atom(a.t), op, atom(b.t))
            name = {"+": "add", "-": "subtract", "*": "multiply"}[op]
            self.guard("p = .debug ∧ ¬ inRange %s (%s)" % (r, raw), "attempt to %s with overflow" % name)
            return V("int", a.ty, "wrapInt %s (%s)" % (r, raw))
        if op in ("/", "%"):
            self.guard("%s = 0" % atom(b.t), "divisor of zero")
            if lo < 0:
                self.guard("%s = %s ∧ %s = -1" % (atom(a.t), num(lo), atom(b.t)), "division overflow")
            return V("int", a.ty, "Int.%s %s %s" % ("tdiv" if op == "/" else "tmod", atom(a.t), atom(b.t)))
        raise TErr("operator `%s` is outside the language" % op)

    def cond(self, toks):
        """the condition of a debug_assert!: a comparison of two integer expressions of one type"""
        q = BB.P4(toks, 0, len(toks))
        e = q.expr()
        if not q.done():
            raise TErr("debug_assert! with a message / several arguments is outside the language")
        if e[0] != "bin" or e[1] not in ("<", "<=", ">", ">=", "==", "!="):
            raise TErr("debug_assert! condition is not a comparison")
        a = self.integer(self.ev(e[2]), "comparison")
        b = self.integer(self.ev(e[3]), "comparison")
        if a.ty != b.ty:
            raise TErr("comparison of the types %s and %s" % (a.ty, b.ty))
        op = e[1]
        if op in (">", ">="):
            a, b, op = b, a, {">": "<", ">=": "<="}[op]
        return "%s %s %s" % (atom(a.t), {"<": "<", "<=": "≤", "==": "=", "!=": "≠"}[op], atom(b.t))

    def ev_macro(self, e):
        if e[1] == "debug_assert":
            self.guard("p = .debug ∧ ¬ (%s)" % self.cond(e[2]), "debug_assert")
            return V("tup", (), "()", [])
        if e[1] == "assert":
            self.guard("¬ (%s)" % self.cond(e[2]), "assert")
            return V("tup", (), "()", [])
        raise TErr("macro `%s!` is outside the language" % e[1])

    def ev_try(self, e):
        v = self.ev(e[1])
        if v.kind != "res":
            raise TErr("`?` on a value that is not a Result / Option")
        x = self.bind(v.t)
        return V("int", v.ty, x)

    def conv(self, v, target, what):
        """core's integer TryFrom / TryInto: Ok(the same number) iff it fits the target type"""
        self.integer(v, what)
        self.need_range(target)
        return V("res", target, "tryConv %s %s" % (rng(target), atom(v.t)))

    def bound_arg(self, g, trait, what):
        bs = [a for (t, a) in self.generics.get(g, []) if t == trait]
        if len(bs) != 1:
            raise TErr("%s: the type parameter %s has %d bounds `%s<_>` (exactly one expected)" % (what, g, len(bs), trait))
        return self.selfty if bs[0] == "Self" else bs[0]

    def ev_mcall(self, e):
        recvx, name, args = e[1], e[2], e[3]
        if len(e) > 4 and e[4]:
            raise TErr("turbofish on `.%s` is outside the language" % name)
        recv = self.ev(recvx)
        if name == "try_into":
            if args:
                raise TErr("try_into with arguments")
            self.integer(recv, "try_into")
            if recv.ty in INT:
                raise TErr("`.try_into()` on the concrete type %s: target type not determined by a bound" % recv.ty)
            return self.conv(recv, self.bound_arg(recv.ty, "TryInto", "try_into"), "try_into")
        if name == "map_err":
            if recv.kind != "res" or len(args) != 1 or args[0][0] != "closure" or not self.is_err_unit(args[0][2]) \
                    or args[0][1] != [("pid", "_")]:
                raise TErr("`.map_err(..)` other than `.map_err(|_| %s)` on a Result" % self.errty)
            return recv
        if name == "ok_or":
            if recv.kind != "res" or len(args) != 1 or not self.is_err_unit(args[0]):
                raise TErr("`.ok_or(..)` other than `.ok_or(%s)` on an Option" % self.errty)
            return recv
        if name in ("checked_mul", "checked_add", "checked_sub"):
            self.integer(recv, name)
            self.concrete(recv.ty, name)
            if len(args) != 1:
                raise TErr("%s: one argument expected" % name)
            a = self.integer(self.ev(args[0]), name)
            if a.ty != recv.ty:
                raise TErr("%s on operands of the types %s and %s" % (name, recv.ty, a.ty))
            lean = {"checked_mul": "checkedMul", "checked_add": "checkedAdd", "checked_sub": "checkedSub"}[name]
            return V("res", recv.ty, "%s %s %s %s" % (lean, rng(recv.ty), atom(recv.t), atom(a.t)))
        if name in ("wrapping_mul", "wrapping_add", "wrapping_sub"):
            self.integer(recv, name)
            self.concrete(recv.ty, name)
            if len(args) != 1:
                raise TErr("%s: one argument expected" % name)
            a = self.integer(self.ev(args[0]), name)
            if a.ty != recv.ty:
                raise TErr("%s on operands of the types %s and %s" % (name, recv.ty, a.ty))
            op = {"wrapping_mul": "*", "wrapping_add": "+", "wrapping_sub": "-"}[name]
            return V("int", recv.ty, "wrapInt %s (%s %s %s)" % (rng(recv.ty), atom(recv.t), op, atom(a.t)))
        raise TErr("method `.%s` is outside the language" % name)

    def ev_call(self, e):
        path, args = e[1], e[2]
        if len(path) == 2 and path[1] == "try_from" and len(args) == 1:
            tgt = self.selfty if path[0] == "Self" else path[0]
            if tgt not in INT and tgt not in self.generics:
                raise TErr("`%s::try_from`: unknown type" % tgt)
            v = self.integer(self.ev(args[0]), "try_from")
            if tgt in self.generics:
                src = self.bound_arg(tgt, "TryFrom", "try_from")
                if src != v.ty:
                    raise TErr("`%s::try_from` of a %s (the bound is TryFrom<%s>)" % (tgt, v.ty, src))
            return self.conv(v, tgt, "try_from")
        if path == ["Ok"] and len(args) == 1:
            v = self.ev(args[0])
            if v.kind == "res":
                raise TErr("Ok(Result) is outside the language")
            return V("res", v.ty, "some %s" % atom(v.t))
        if path == ["Err"] and len(args) == 1 and self.is_err_unit(args[0]):
            return V("res", None, "none")
        raise TErr("call of `%s` is outside the language" % "::".join(path))

    # ---- statements
    def run(self, stmts, tail):
        for st in stmts:
            if st[0] == "let":
                if st[1][0] != "pid" or st[3] is None:
                    raise TErr("`let` form outside the language")
                v = self.ev(st[3])
                if st[2] is not None:
                    ty = self.ty_of(st[2])
                    if v.kind != "int" or v.ty != ty:
                        raise TErr("`let %s: %s` of a value of another type" % (st[1][1], ty))
                self.env[st[1][1]] = v
            elif st[0] == "expr":
                self.ev(st[1])
            else:
                raise TErr("statement form `%s` is outside the language" % st[0])
        if tail is None:
            raise TErr("a body without a tail expression")
        return self.ev(tail)


# =========================================================================== the file

def split_top(toks, sep=","):
    out, cur, d = [], [], 0
    for t in toks:
        if t.k == "p" and t.s in ("(", "[", "{", "<"):
            d += 1
        elif t.k == "p" and t.s in (")", "]", "}", ">"):
            d -= 1
        elif t.k == "p" and t.s == ">>":
            d -= 2
        if d == 0 and is_p(t, sep):
            out.append(cur)
            cur = []
        else:
            cur.append(t)
    if cur:
        out.append(cur)
    return out


def txt(toks):
    return " ".join(t.s for t in toks)


def simple_type(toks, what):
    """a type written as one identifier (Self, u8, T, …) or a path type with one generic argument list"""
    q = BB.P4(toks, 0, len(toks))
    ty = q.type_()
    if not q.done():
        raise TErr("%s: type `%s` not understood" % (what, txt(toks)))
    return ty


def parse_fn(toks, i, end):
    """`fn name [<generics>] ( params ) -> ret { body }` at toks[i]; returns (dict, next index)"""
    assert is_id(toks[i], "fn")
    name = toks[i + 1].s
    j = i + 2
    generics = {}
    gorder = []
    if is_p(toks[j], "<"):
        k = BB.match_angle(toks, j)
        for g in split_top(toks[j + 1:k - 1]):
            if len(g) < 1 or g[0].k != "id":
                raise TErr("%s: generic parameter `%s` not understood" % (name, txt(g)))
            gname = g[0].s
            bounds = []
            if len(g) > 1:
                if not is_p(g[1], ":"):
                    raise TErr("%s: generic parameter `%s` not understood" % (name, txt(g)))
                for b in split_top(g[2:], "+"):
                    # Trait<Arg>
                    if len(b) == 4 and b[0].k == "id" and is_p(b[1], "<") and b[2].k == "id" and is_p(b[3], ">"):
                        bounds.append((b[0].s, b[2].s))
                    elif len(b) == 1 and b[0].k == "id":
                        bounds.append((b[0].s, None))
                    else:
                        raise TErr("%s: bound `%s` not understood" % (name, txt(b)))
            generics[gname] = bounds
            gorder.append(gname)
        j = k
    if not is_p(toks[j], "("):
        raise TErr("%s: parameter list expected" % name)
    k = match_close(toks, j)
    params = []
    for prm in split_top(toks[j + 1:k - 1]):
        s = txt(prm)
        if s in ("self", "& self", "& mut self", "mut self"):
            params.append(("self", "Self", s))
            continue
        if len(prm) < 3 or prm[0].k != "id" or not is_p(prm[1], ":"):
            raise TErr("%s: parameter `%s` not understood" % (name, s))
        params.append((prm[0].s, prm[2:], s))
    j = k
    ret = None
    if is_p(toks[j], "->"):
        b = j + 1
        while not is_p(toks[b], "{"):
            b += 1
        ret = toks[j + 1:b]
        j = b
    if not is_p(toks[j], "{"):
        raise TErr("%s: body expected" % name)
    k = match_close(toks, j)
    return dict(name=name, generics=generics, gorder=gorder, params=params, ret=ret, body=(j, k)), k


def find_macro(toks, name):
    """(matcher tokens, transcriber tokens) of `macro_rules! name { matcher => { transcriber } }` (one rule)"""
    hits = [i for i in range(len(toks) - 3) if is_id(toks[i], "macro_rules") and is_p(toks[i + 1], "!") and is_id(toks[i + 2], name)]
    if len(hits) != 1:
        raise TErr("%d definitions of macro_rules! %s (exactly one expected)" % (len(hits), name))
    i = hits[0] + 3
    if not (toks[i].k == "p" and toks[i].s in ("{", "(")):
        raise TErr("macro_rules! %s: body not understood" % name)
    e = match_close(toks, i)
    inner = toks[i + 1:e - 1]
    if inner and is_p(inner[-1], ";"):
        inner = inner[:-1]
    m_end = match_close(inner, 0)
    matcher = inner[1:m_end - 1]
    if not is_p(inner[m_end], "=>"):
        raise TErr("macro_rules! %s: `=>` expected" % name)
    t_end = match_close(inner, m_end + 1)
    if t_end != len(inner):
        raise TErr("macro_rules! %s has more than one rule" % name)
    return matcher, inner[m_end + 2:t_end - 1], (hits[0], e)


def invocations(toks, name, skip):
    out = []
    i = 0
    while i < len(toks) - 2:
        if skip[0] <= i < skip[1]:
            i = skip[1]
            continue
        if is_id(toks[i], name) and is_p(toks[i + 1], "!") and toks[i + 2].k == "p" and toks[i + 2].s in ("{", "(", "["):
            e = match_close(toks, i + 2)
            out.append(toks[i + 3:e - 1])
            i = e
            continue
        i += 1
    return out


def translate_method(selfty, f, toks):
    """one method of the expanded impl ↦ (lean signature text, body text)"""
    if f["ret"] is None:
        raise TErr("no return type")
    ret = simple_type(f["ret"], "return type")
    # Result<X, E>
    if ret[0] != "path" or ret[1] != ["Result"] or len(ret[2]) != 2 or ret[2][1][0] != "path" or len(ret[2][1][1]) != 1:
        raise TErr("return type `%s` is not Result<_, unit error>" % txt(f["ret"]))
    errty = ret[2][1][1][0]
    ev = Eval(selfty, f["generics"], errty)

    def rty(node):
        if node[0] == "tuple":
            return tuple(ev.ty_of(x) for x in node[1])
        return ev.ty_of(node)
    okty = rty(ret[2][0])
    sig = []
    for (pname, pty, _) in f["params"]:
        ty = selfty if pname == "self" else ev.ty_of(simple_type(pty, "parameter " + pname))
        ev.env[pname] = V("int", ty, pname)
        sig.append((pname, ty))
    j, k = f["body"]
    q = BB.P4(toks, j + 1, k - 1)
    stmts, tail = q.block_body()
    r = ev.run(stmts, tail)
    if r.kind != "res":
        raise TErr("the body does not end in a Result")
    if r.ty is not None and r.ty != okty:
        raise TErr("the body returns Result<%s, _>, declared %s" % (r.ty, okty))
    # render: guards of a segment sorted / de-duplicated
    lines = []
    seg = []

    def flush():
        for (c, m) in sorted(set(seg)):
            lines.append("  if %s then .panic \"%s\" else" % (c, m))
        del seg[:]
    for st in ev.steps:
        if st[0] == "guard":
            seg.append((st[1], st[2]))
        else:
            flush()
            lines.append("  match %s with" % st[2])
            lines.append("  | none => .ok none")
            lines.append("  | some %s =>" % st[1])
    flush()
    lines.append("  .ok (%s)" % r.t)
    leanty = "Int" if not isinstance(okty, tuple) else "(%s)" % " × ".join("Int" for _ in okty)
    params = "(p : Profile)"
    for g in f["gorder"]:
        if g in ev.used_ranges:
            params += " (%s_lo %s_hi : Int)" % (g, g)
    for (pname, ty) in sig:
        params += " (%s : Int)" % pname
    doc = ", ".join("%s : %s" % (n, t) for (n, t) in sig)
    return params, "Out (Option %s)" % leanty, "\n".join(lines), doc


def seeknum_inventory(repo="/repo", crate_dirs=None):
    inv = dict(version="?", defs=[], errors=[], types=[], fwd=[], fwd_bound="", methods=[])

    def fail(lean, msg):
        inv["errors"].append("%s: %s" % (lean, msg))
        inv["defs"].append((lean, None, None, "\"%s\"" % msg.replace("\\", "\\\\").replace("\"", "'"), msg))
    try:
        d, ver = BB.crate_dir(repo, CRATE, crate_dirs)
        inv["version"] = ver
        path = os.path.join(d, FILE)
        if not os.path.exists(path):
            raise TErr("%s %s: %s not found" % (CRATE, ver, FILE))
        toks = lex(open(path, encoding="utf-8").read())
    except TErr as e:
        fail("seeknum_source", str(e))
        return inv
    # ---- the macro and its invocations
    try:
        matcher, body, span = find_macro(toks, MACRO)
        if txt(matcher) != "$ ( $ t : ty ) *":
            raise TErr("matcher of %s! is `%s`, expected `$($t:ty)*`" % (MACRO, txt(matcher)))
        if not (len(body) > 4 and is_p(body[0], "$") and is_p(body[1], "(") and match_close(body, 1) == len(body) - 1
                and is_p(body[-1], "*")):
            raise TErr("transcriber of %s! is not one repetition `$( .. )*`" % MACRO)
        rep = body[2:-2]
        head = "impl %s for $ t {" % TRAIT
        if txt(rep[:6]) != head or match_close(rep, 5) != len(rep):
            raise TErr("transcriber of %s! is not exactly one `impl %s for $t { .. }`" % (MACRO, TRAIT))
        impl_body = rep[6:-1]
        invs = invocations(toks, MACRO, span)
        if not invs:
            raise TErr("%s! is never invoked" % MACRO)
        types = []
        for a in invs:
            for t in a:
                if t.k != "id" or t.s not in INT:
                    raise TErr("%s! invoked with `%s`, not a primitive integer type" % (MACRO, t.s))
                types.append(t.s)
        if len(set(types)) != len(types):
            raise TErr("%s! invoked twice for one type" % MACRO)
        # no other impl of the trait in the file
        n_impl = sum(1 for i in range(len(toks) - 2) if is_id(toks[i], "impl") and is_id(toks[i + 1], TRAIT) and is_id(toks[i + 2], "for"))
        if n_impl != 1:
            raise TErr("%d `impl %s for` in the file (only the one of the macro expected)" % (n_impl, TRAIT))
        inv["types"] = types
    except TErr as e:
        fail("seeknum_macro", str(e))
        types, impl_body = [], []
    methods = None
    for ty in types:
        exp = [K.Tok("id", ty) if (is_id(t, "t") and i > 0 and is_p(impl_body[i - 1], "$")) else t
               for i, t in enumerate(impl_body) if not (is_p(t, "$") and i + 1 < len(impl_body) and is_id(impl_body[i + 1], "t"))]
        exp = [u for t in exp for u in ((K.Tok("p", ">"), K.Tok("p", ">")) if is_p(t, ">>") else (t,))]   # `T: TryInto<Self>>`
        try:
            if any(is_p(t, "$") for t in exp):
                raise TErr("macro variable other than $t")
            fns = []
            i = 0
            while i < len(exp):
                if is_p(exp[i], "#"):
                    raise TErr("attribute inside the impl")
                if not is_id(exp[i], "fn"):
                    raise TErr("item `%s` inside the impl is not a plain fn" % exp[i].s)
                f, i = parse_fn(exp, i, len(exp))
                fns.append(f)
        except TErr as e:
            fail("seeknum_%s" % ty, str(e))
            continue
        names = [f["name"] for f in fns]
        if methods is None:
            methods = names
        for f in fns:
            lean = "seeknum_%s_%s" % (ty, f["name"])
            try:
                params, rett, text, doc = translate_method(ty, f, exp)
                inv["defs"].append((lean, params, rett, text, "`impl SeekNum for %s`: `%s(%s)`" % (ty, f["name"], doc)))
            except TErr as e:
                fail(lean, str(e))
    inv["methods"] = methods or []
    # ---- the forwarding impl for &mut C
    try:
        hits = []
        for i in range(len(toks) - 1):
            if is_id(toks[i], "impl") and is_p(toks[i + 1], "<"):
                k = BB.match_angle(toks, i + 1)
                b = k
                while not is_p(toks[b], "{"):
                    b += 1
                hd = txt(toks[k:b])
                if hd == "StreamCipher for & mut C":
                    hits.append((i, k, b))
        if len(hits) != 1:
            raise TErr("%d `impl<..> StreamCipher for &mut C` (exactly one expected)" % len(hits))
        i, k, b = hits[0]
        inv["fwd_bound"] = txt(toks[i + 2:k - 1])
        e = match_close(toks, b)
        body = [t for t in toks[b + 1:e - 1]]
        j = 0
        while j < len(body):
            if is_p(body[j], "#"):          # #[inline]
                j = match_close(body, j + 1)
                continue
            if not is_id(body[j], "fn"):
                raise TErr("item `%s` in the &mut C impl is not a fn" % body[j].s)
            f, j = parse_fn(body, j, len(body))
            a, z = f["body"]
            q = BB.P4(body, a + 1, z - 1)
            stmts, tail = q.block_body()
            if len(stmts) == 1 and tail is None and stmts[0][0] == "expr":
                call = stmts[0][1]
            elif not stmts and tail is not None:
                call = tail
            else:
                raise TErr("&mut C::%s is not a single call" % f["name"])
            if call[0] != "call" or len(call[1]) != 2 or call[1][0] != "C" or (len(call) > 3 and call[3]):
                raise TErr("&mut C::%s is not a call `C::m(..)`" % f["name"])
            args = []
            for x in call[2]:
                if x[0] != "path" or len(x[1]) != 1:
                    raise TErr("&mut C::%s: argument that is not a parameter" % f["name"])
                args.append(x[1][0])
            inv["fwd"].append((f["name"], call[1][1], [p[0] for p in f["params"]], args))
    except TErr as e:
        fail("seeknum_refmut", str(e))
    return inv


HEADER = """/-
  GENERATED by tools/inventory_seeknum.py (tools/regen) from the crate source pinned in Cargo.lock:
    cipher %(version)s  (src/stream.rs: `macro_rules! impl_seek_num`, its invocations, `impl<C: StreamCipher> StreamCipher for &mut C`)
  Do not edit.  Obligations: lean/CC/ChaCha/SrcSeekNum.lean (`CC.Src.src_seeknum_*`), collected in CC.Thm.C02.source_seeknum_match.

  TRUSTED reading table (Rust form ↦ Lean term); everything else is a translation error:
    a value of a primitive integer type τ ↦ its number x : Int with lo_τ ≤ x ≤ hi_τ (u8 … u128: 0 … 2^n - 1; i8 … i128: -2^(n-1) … 2^(n-1) - 1;
      usize / isize: 64 bits — target_pointer_width = "64");  an integer PARAMETER ↦ x : Int (its range is a hypothesis of the obligations);
      `$t` / Self ↦ the type of the macro invocation;  a generic type parameter T ↦ an arbitrary integer type, its range `T_lo T_hi`
      a parameter of the definition where a conversion targets it;  Result<X, E> / Option<X> with a unit error ↦ Option X
    core's integer conversions (TRUSTED: `impl TryFrom<a> for b` of core::convert::num succeeds iff the number fits b and then returns it):
      x.try_into() with x : T, T: TryInto<U> ↦ tryConv lo_U hi_U x;  T::try_from(x) with T: TryFrom<τ>, x : τ ↦ tryConv T_lo T_hi x
    x as τ ↦ wrapInt lo_τ hi_τ x (the number in τ's range congruent modulo 2^bits);  a.checked_mul(b) / checked_add / checked_sub ↦
      checkedMul / checkedAdd / checkedSub lo hi a b;  a.wrapping_add(b) … ↦ wrapInt lo hi (a + b)
    a + b, a - b, a * b (unchecked operators) ↦ GUARD `p = .debug ∧ ¬ inRange lo hi (a + b)` (rustc's overflow check) and wrapInt lo hi (a + b);
    a / b, a %% b ↦ GUARD `b = 0` (every profile), for a signed type GUARD `a = lo ∧ b = -1`, and Int.tdiv a b / Int.tmod a b (truncation toward zero)
    debug_assert!(a < b) ↦ GUARD `p = .debug ∧ ¬ (a < b)`;  .map_err(|_| E) / .ok_or(E) ↦ the identity on Option;  Ok(x) ↦ some x;  Err(E) ↦ none
    e? ↦ `match e with | none => .ok none | some v<k> => …` (k in program order);  GUARDS ↦ `if <guard> then .panic … else`, those between two `?`
      sorted, a guard already checked earlier on the path dropped;  locals are substituted (a `let` leaves no trace);  result: Out (Option <value>)
    `impl<C: StreamCipher> StreamCipher for &mut C`: each method must be ONE call `C::m(params…)` ↦ the row (method, m, parameters, arguments)
      and `fun C_m => C_m` applied to the arguments (references are transparent: `&mut &mut C` derefs to `&mut C`)
-/
import CC.Prim
set_option linter.unusedVariables false
namespace CC.Gen.SeekNumSrc
open CC

/-- `lo ≤ x ≤ hi` -/
def inRange (lo hi x : Int) : Prop := lo ≤ x ∧ x ≤ hi
instance (lo hi x : Int) : Decidable (inRange lo hi x) := by unfold inRange; exact inferInstance

/-- core's `TryFrom` between integer types: the number itself when it fits the target type -/
def tryConv (lo hi x : Int) : Option Int := if inRange lo hi x then some x else none

/-- `x as τ`, wrapping arithmetic: the number of `lo … hi` congruent to `x` modulo the size of the type -/
def wrapInt (lo hi x : Int) : Int := (x - lo) %% (hi - lo + 1) + lo

def checkedMul (lo hi a b : Int) : Option Int := tryConv lo hi (a * b)
def checkedAdd (lo hi a b : Int) : Option Int := tryConv lo hi (a + b)
def checkedSub (lo hi a b : Int) : Option Int := tryConv lo hi (a - b)
"""


def lean_str_list(xs):
    return "[" + ", ".join("\"%s\"" % x for x in xs) + "]"


def render(inv):
    out = [HEADER % dict(version=inv["version"])]
    out.append("/-- the types `impl_seek_num!` is invoked for, in order -/")
    out.append("def seeknum_types : List String := %s\n" % lean_str_list(inv["types"]))
    out.append("/-- the methods the macro defines for each of them -/")
    out.append("def seeknum_methods : List String := %s\n" % lean_str_list(inv["methods"]))
    for (lean, params, rett, text, doc) in inv["defs"]:
        out.append("/-- %s -/" % doc.replace("-/", "- /"))
        if params is None:
            out.append("def %s : String := %s\n" % (lean, text))
        else:
            out.append("def %s %s : %s :=\n%s\n" % (lean, params, rett, text))
    out.append("/-- `impl<%s> StreamCipher for &mut C`: (method, callee `C::_`, parameters, arguments) -/" % inv["fwd_bound"])
    out.append("def refmut_bound : String := \"%s\"" % inv["fwd_bound"])
    out.append("def refmut_methods : List (String × String × List String × List String) := [%s]\n" % ", ".join(
        "(\"%s\", \"%s\", %s, %s)" % (m, c, lean_str_list(ps), lean_str_list(a)) for (m, c, ps, a) in inv["fwd"]))
    for (m, c, ps, a) in inv["fwd"]:
        tys = " ".join("A%d" % i for i in range(len(ps)))
        out.append("/-- `<&mut C as StreamCipher>::%s` -/" % m)
        out.append("def refmut_%s {%s R : Type} (C_%s : %s → R) %s : R :=\n  C_%s %s\n" % (
            m, tys, c, " → ".join("A%d" % ps.index(x) if x in ps else "Unit" for x in a) if a else "Unit",
            " ".join("(%s : A%d)" % (x, i) for i, x in enumerate(ps)), c, " ".join(a)))
    out.append("def seeknum_errors : List String := %s\n" % lean_str_list(
        [e.replace("\\", "\\\\").replace("\"", "'") for e in inv["errors"]]))
    out.append("end CC.Gen.SeekNumSrc\n")
    return "\n".join(out)


def seeknum_regenerate(repo="/repo", out=None, crate_dirs=None):
    """write lean/CC/Gen/SeekNumSrc.lean (only when the content changes, to keep lake's cache warm)"""
    out = out or DEFAULT_OUT
    inv = seeknum_inventory(repo, crate_dirs)
    text = render(inv)
    os.makedirs(os.path.dirname(out), exist_ok=True)
    old = open(out, encoding="utf-8").read() if os.path.exists(out) else None
    if old != text:
        with open(out, "w", encoding="utf-8") as f:
            f.write(text)
    return inv, out


def main(argv):
    repo, out, dirs = "/repo", None, {}
    i = 0
    while i < len(argv):
        if argv[i] == "--repo":
            repo = argv[i + 1]
            i += 2
        elif argv[i] == "--out":
            out = argv[i + 1]
            i += 2
        elif argv[i] == "--crate":
            name, d = argv[i + 1].split("=", 1)
            dirs[name] = d
            i += 2
        else:
            raise SystemExit("usage: inventory_seeknum.py [--repo DIR] [--out FILE] [--crate NAME=DIR]...")
    inv, path = seeknum_regenerate(repo, out, dirs or None)
    print("%s: %d definitions, %d errors" % (path, len(inv["defs"]), len(inv["errors"])))
    for e in inv["errors"]:
        print("  ERROR " + e)
    return 0


if __name__ == "__main__":
    sys.exit(main(sys.argv[1:]))
