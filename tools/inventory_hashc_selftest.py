#!/usr/bin/env python3
"""tools/inventory_hashc_selftest.py — negative / positive tests of tools/inventory_hashc.py (not a registered check):
applies source edits to a scratch copy of the translated Rust files (under /tmp, removed afterwards), regenerates
lean/CC/Gen/HashCSrc.lean from the scratch tree and
  * for a BREAKING edit (N..) builds the family's obligation module and checks that the build FAILS,
  * for a HARMLESS edit (P..) checks that the regenerated file is byte-identical.
The generated file is restored from /repo at the end.

    python3 tools/inventory_hashc_selftest.py [case-id-prefix ...]"""
import os, shutil, subprocess, sys, tempfile
_HERE = os.path.dirname(os.path.abspath(__file__))
sys.path.insert(0, _HERE)
import inventory_hashc as H

LEAN = os.path.join(os.path.dirname(_HERE), "lean")
MOD = {"jh": "CC.JH.SrcCompressor", "skein": "CC.Skein.SrcBlock", "groestl": "CC.Groestl.SrcDataflow"}
REPO = os.environ.get("CC_REPO", "/repo")


def sub1(old, new, nth=None):
    def f(s):
        if old not in s:
            raise SystemExit("selftest: pattern not found: %r" % old)
        if nth is None:
            if s.count(old) != 1:
                raise SystemExit("selftest: pattern occurs %d times: %r" % (s.count(old), old))
            return s.replace(old, new)
        parts = s.split(old)
        return old.join(parts[:nth + 1]) + new + old.join(parts[nth + 1:])
    return f


def chain(*fs):
    def f(s):
        for g in fs:
            s = g(s)
        return s
    return f


JC = H.JH_COMP
SL = H.SKEIN_LIB
CASES = [
    # ---- JH compressor.rs
    ("N01 jh f8_impl: second load `data.offset(2)` -> `data.offset(1)` (before the rounds)", False, "jh", JC, sub1("y.2 ^= ptr::read_unaligned(data.offset(2));", "y.2 ^= ptr::read_unaligned(data.offset(1));")),
    ("N02 jh f8_impl: swap order in `match j` (swap2 <-> swap4)", False, "jh", JC, chain(sub1("1 => M::u128x1::swap2,", "1 => M::u128x1::swap4,"), sub1("2 => M::u128x1::swap4,", "2 => M::u128x1::swap2,", nth=1))),
    ("N03 jh f8_impl: `f(y.1)` -> `f(y.0)` in the re-packing", False, "jh", JC, sub1("X8(y.0, f(y.1), y.2,", "X8(f(y.0), y.1, y.2,")),
    ("N04 jh f8_impl: final xor into y.3 instead of y.4", False, "jh", JC, sub1("y.4 ^= ptr::read_unaligned(data);", "y.3 ^= ptr::read_unaligned(data);")),
    ("N05 jh f8_impl: chunks_exact(7) -> chunks_exact(6) (loud: rc[6] leaves the chunk)", False, "jh", JC, sub1("chunks_exact(7)", "chunks_exact(6)")),
    ("N06 jh f8_impl: `l` before `ss`", False, "jh", JC, sub1("            y = ss(y, unsafe { X2Bytes::<M> { bytes: rc[j] }.x2 });\n            y = l(y);", "            y = l(y);\n            y = ss(y, unsafe { X2Bytes::<M> { bytes: rc[j] }.x2 });")),
    ("N07 jh f8_impl: the `l` call dropped", False, "jh", JC, sub1("            y = l(y);\n", "")),
    ("N08 jh f8_impl: rc[j] -> rc[0]", False, "jh", JC, sub1("bytes: rc[j] }", "bytes: rc[0] }")),
    ("N09 jh f8_impl: the last message xor dropped", False, "jh", JC, sub1("        y.7 ^= ptr::read_unaligned(data.offset(3));\n", "", nth=0) if False else sub1("        y.7 ^= ptr::read_unaligned(data.offset(3));\n", "")),
    ("N10 jh f8_impl: store back exchanges y.6 / y.7", False, "jh", JC, sub1("        y.6.into(),\n        y.7.into(),", "        y.7.into(),\n        y.6.into(),")),
    ("N11 jh f8_impl: unpack state[1] twice", False, "jh", JC, sub1("mach.unpack(state[2]),", "mach.unpack(state[1]),")),
    ("N12 jh unroll7!: one step dropped (6 per chunk)", False, "jh", JC, sub1("        { const $j: usize = 6; $body }\n", "")),
    ("N13 jh unroll7!: step index 3 repeated", False, "jh", JC, sub1("{ const $j: usize = 4; $body }", "{ const $j: usize = 3; $body }")),
    ("N14 jh X2Bytes: union read through a `[u8; 16]` view (loud)", False, "jh", JC, sub1("    bytes: [u8; 32],\n}", "    bytes: [u8; 16],\n}")),
    ("N15 jh f8_impl: data cast to *const M::u128x2 (32-byte stride, loud)", False, "jh", JC, sub1("let data = data as *const M::u128x1;", "let data = data as *const M::u128x2;")),
    ("N16 jh Compressor::input: passes a shifted pointer", False, "jh", JC, sub1("f8(&mut self.cv, data.as_ptr())", "f8(&mut self.cv, unsafe { data.as_ptr().add(1) })")),
    ("N17 jh f8 wrapper: calls f8_impl twice", False, "jh", JC, sub1("        f8_impl(mach, state, data);\n", "        f8_impl(mach, state, data);\n        f8_impl(mach, state, data);\n")),
    ("N18 jh Compressor: cv shrunk to 7 vectors (loud)", False, "jh", JC, sub1("    cv: [vec128_storage; 8],\n}", "    cv: [vec128_storage; 7],\n}")),
    ("N19 jh f8_impl: first xor uses `|`-free `^=` on y.1 twice (y.0 untouched)", False, "jh", JC, sub1("        y.0 ^= ptr::read_unaligned(data);\n        y.1 ^=", "        y.1 ^= ptr::read_unaligned(data);\n        y.1 ^=")),
    ("N20 jh f8_impl: swap64 arm uses swap32", False, "jh", JC, sub1("6 => M::u128x1::swap64,", "6 => M::u128x1::swap32,")),
    ("P01 jh f8_impl: loads hoisted into locals, xors reordered", True, "jh", JC, sub1("        y.0 ^= ptr::read_unaligned(data);\n        y.1 ^= ptr::read_unaligned(data.offset(1));\n        y.2 ^= ptr::read_unaligned(data.offset(2));\n        y.3 ^= ptr::read_unaligned(data.offset(3));\n    }\n    for", "        let m3 = ptr::read_unaligned(data.offset(3));\n        let m0 = ptr::read_unaligned(data);\n        y.3 ^= m3;\n        y.1 ^= ptr::read_unaligned(data.add(1));\n        y.0 ^= m0;\n        y.2 ^= ptr::read_unaligned(data.offset(2));\n    }\n    for")),
    ("P02 jh f8_impl: locals renamed (y -> st, f -> sw)", True, "jh", JC, lambda s: s.replace("let f = match j", "let sw = match j").replace("X8(y.0, f(y.1), y.2, f(y.3), y.4, f(y.5), y.6, f(y.7))", "X8(y.0, sw(y.1), y.2, sw(y.3), y.4, sw(y.5), y.6, sw(y.7))")),
    ("P03 jh f8_impl: ss / l merged into one expression", True, "jh", JC, sub1("            y = ss(y, unsafe { X2Bytes::<M> { bytes: rc[j] }.x2 });\n            y = l(y);", "            let k = unsafe { X2Bytes::<M> { bytes: rc[j] }.x2 };\n            y = l(ss(y, k));")),
    ("P04 jh match arms reordered, comment added", True, "jh", JC, sub1("                0 => M::u128x1::swap1,\n                1 => M::u128x1::swap2,", "                1 => M::u128x1::swap2, // second\n                0 => M::u128x1::swap1,")),
    ("P05 jh f8_impl: field-wise swap instead of the X8 constructor", True, "jh", JC, sub1("            y = X8(y.0, f(y.1), y.2, f(y.3), y.4, f(y.5), y.6, f(y.7));", "            y.7 = f(y.7);\n            y.1 = f(y.1);\n            y.5 = f(y.5);\n            y.3 = f(y.3);")),
    # ---- Skein lib.rs: the Block union
    ("N21 skein bitxor: `*s ^= *r` -> `*s |= *r`", False, "skein", SL, sub1("            *s ^= *r;", "            *s |= *r;")),
    ("N22 skein bitxor: `*s ^= *r` -> `*s = *r` (xor dropped)", False, "skein", SL, sub1("            *s ^= *r;", "            *s = *r;")),
    ("N23 skein bitxor: words of rhs taken in reverse order (loud)", False, "skein", SL, sub1(".zip(rhs.as_word_array())", ".zip(rhs.as_word_array().iter().rev())")),
    ("N24 skein bitxor: xors self with itself", False, "skein", SL, sub1(".zip(rhs.as_word_array())", ".zip(self.clone().as_word_array())")),
    ("N25 skein from_byte_array ignores its argument", False, "skein", SL, sub1("        Block { bytes: *block }", "        Block { words: GenericArray::default() }")),
    ("N26 skein union: word view over N/16 words (sizes differ, loud)", False, "skein", SL, sub1("    words: GenericArray<u64, <N as PartialDiv<U8>>::Output>,\n}", "    words: GenericArray<u64, <N as PartialDiv<U16>>::Output>,\n}")),
    ("N27 skein as_byte_array returns the bytes from offset 8 (loud)", False, "skein", SL, sub1("        unsafe { &self.bytes }", "        unsafe { &*(self.bytes.as_ptr().add(8) as *const GenericArray<u8, N>) }")),
    ("N28 skein bitxor: first word skipped", False, "skein", SL, sub1("self.as_word_array_mut().iter_mut().zip(rhs.as_word_array())", "self.as_word_array_mut().iter_mut().zip(rhs.as_word_array()).skip(1)")),
    ("N29 skein as_word_array_mut hands out the byte view's place of a clone (writes lost)", False, "skein", SL, sub1("for (s, r) in self.as_word_array_mut()", "for (s, r) in self.clone().as_word_array_mut()")),
    ("P06 skein bitxor: loop variables renamed, comment added", True, "skein", SL, sub1("        for (s, r) in self.as_word_array_mut().iter_mut().zip(rhs.as_word_array()) {\n            *s ^= *r;", "        for (dst, src) in self.as_word_array_mut().iter_mut().zip(rhs.as_word_array()) {\n            /* word-wise */ *dst ^= *src;")),
    ("P07 skein bitxor: `*s ^= *r` written out", True, "skein", SL, sub1("            *s ^= *r;", "            let t = *s ^ *r;\n            *s = t;")),
    ("P08 skein bytes(): via a local", True, "skein", SL, sub1("        self.as_byte_array().as_slice()", "        let view = self.as_byte_array();\n        view.as_slice()")),
]


def run(cases):
    scratch = tempfile.mkdtemp(prefix="hashc_selftest_")
    out = H.DEFAULT_OUT
    base = H.render_lean(H.hashc_inventory(REPO))
    bad = []
    try:
        for cid, harmless, fam, rel, edit in cases:
            for fm in H.FAMILIES:
                for r in fm["files"]:
                    dst = os.path.join(scratch, r)
                    os.makedirs(os.path.dirname(dst), exist_ok=True)
                    shutil.copy(os.path.join(REPO, r), dst)
            path = os.path.join(scratch, rel)
            src = open(path, encoding="utf-8").read()
            new = edit(src)
            if new == src:
                raise SystemExit("selftest: edit of %s changes nothing" % cid)
            open(path, "w", encoding="utf-8").write(new)
            text = H.render_lean(H.hashc_inventory(scratch))
            if harmless:
                ok = text == base
                print("%-4s %s  %s" % ("ok" if ok else "FAIL", cid, "" if ok else "(generated file changed)"))
            else:
                if text == base:
                    ok = False
                    print("FAIL %s  (generated file unchanged)" % cid)
                else:
                    open(out, "w", encoding="utf-8").write(text)
                    r = subprocess.run(["lake", "build", MOD[fam]], cwd=LEAN, stdout=subprocess.PIPE, stderr=subprocess.STDOUT)
                    ok = r.returncode != 0
                    print("%-4s %s  %s" % ("ok" if ok else "FAIL", cid, "(build fails)" if ok else "(build still succeeds)"))
            if not ok:
                bad.append(cid)
            sys.stdout.flush()
    finally:
        shutil.rmtree(scratch, ignore_errors=True)
        open(out, "w", encoding="utf-8").write(base)
        for m in sorted(set(MOD[c[2]] for c in cases)):
            subprocess.run(["lake", "build", m], cwd=LEAN, stdout=subprocess.PIPE, stderr=subprocess.STDOUT)
    nb = sum(1 for c in cases if not c[1])
    print("%d cases (%d breaking, %d harmless): %d failed %s" % (len(cases), nb, len(cases) - nb, len(bad), bad if bad else ""))
    return 1 if bad else 0


if __name__ == "__main__":
    sel = sys.argv[1:]
    cs = [c for c in CASES if not sel or any(c[0].startswith(p) or c[2] == p for p in sel)]
    sys.exit(run(cs))
