#!/usr/bin/env python3
"""tools/inventory_hashc_selftest.py — negative / positive tests of tools/inventory_hashc.py (not a registered check):
applies source edits to a scratch copy of the translated Rust files (under /tmp, removed afterwards), regenerates
lean/CC/Gen/HashCSrc.lean from the scratch tree and
  * for a BREAKING edit (N..) builds the family's obligation module and checks that the build FAILS,
  * for a HARMLESS edit (P..) checks that the regenerated file is byte-identical.
The generated file is restored from /repo at the end.

    python3 tools/inventory_hashc_selftest.py [case-id-prefix ...]"""
import os, shutil, subprocess, sys, tempfile
_HERE = os.path.dirname(os.path.abspath(__file__))
sys.path.insert(0, _HERE)
import inventory_hashc as H

LEAN = os.path.join(os.path.dirname(_HERE), "lean")
MOD = {"jh": "CC.JH.SrcCompressor", "skein": "CC.Skein.SrcBlock", "groestl": "CC.Groestl.SrcDataflow"}
REPO = os.environ.get("CC_REPO", "/repo")


def sub1(old, new, nth=None):
    def f(s):
        if old not in s:
            raise SystemExit("selftest: pattern not found: %r" % old)
        if nth is None:
            if s.count(old) != 1:
                raise SystemExit("selftest: pattern occurs %d times: %r" % (s.count(old), old))
            return s.replace(old, new)
        parts = s.split(old)
        return old.join(parts[:nth + 1]) + new + old.join(parts[nth + 1:])
    return f


def chain(*fs):
    def f(s):
        for g in fs:
            s = g(s)
        return s
    return f


JC = H.JH_COMP
SL = H.SKEIN_LIB
GC, GL = H.GR_COMP, H.GR_LIB
CASES = [
    # ---- JH compressor.rs
    ("N01 jh f8_impl: second load `data.offset(2)` -> `data.offset(1)` (before the rounds)", False, "jh", JC, sub1("y.2 ^= ptr::read_unaligned(data.offset(2));", "y.2 ^= ptr::read_unaligned(data.offset(1));")),
    ("N02 jh f8_impl: swap order in `match j` (swap2 <-> swap4)", False, "jh", JC, chain(sub1("1 => M::u128x1::swap2,", "1 => M::u128x1::swap4,"), sub1("2 => M::u128x1::swap4,", "2 => M::u128x1::swap2,", nth=1))),
    ("N03 jh f8_impl: `f(y.1)` -> `f(y.0)` in the re-packing", False, "jh", JC, sub1("X8(y.0, f(y.1), y.2,", "X8(f(y.0), y.1, y.2,")),
    ("N04 jh f8_impl: final xor into y.3 instead of y.4", False, "jh", JC, sub1("y.4 ^= ptr::read_unaligned(data);", "y.3 ^= ptr::read_unaligned(data);")),
    ("N05 jh f8_impl: chunks_exact(7) -> chunks_exact(6) (loud: rc[6] leaves the chunk)", False, "jh", JC, sub1("chunks_exact(7)", "chunks_exact(6)")),
    ("N06 jh f8_impl: `l` before `ss`", False, "jh", JC, sub1("            y = ss(y, unsafe { X2Bytes::<M> { bytes: rc[j] }.x2 });\n            y = l(y);", "            y = l(y);\n            y = ss(y, unsafe { X2Bytes::<M> { bytes: rc[j] }.x2 });")),
    ("N07 jh f8_impl: the `l` call dropped", False, "jh", JC, sub1("            y = l(y);\n", "")),
    ("N08 jh f8_impl: rc[j] -> rc[0]", False, "jh", JC, sub1("bytes: rc[j] }", "bytes: rc[0] }")),
    ("N09 jh f8_impl: the last message xor dropped", False, "jh", JC, sub1("        y.7 ^= ptr::read_unaligned(data.offset(3));\n", "", nth=0) if False else sub1("        y.7 ^= ptr::read_unaligned(data.offset(3));\n", "")),
    ("N10 jh f8_impl: store back exchanges y.6 / y.7", False, "jh", JC, sub1("        y.6.into(),\n        y.7.into(),", "        y.7.into(),\n        y.6.into(),")),
    ("N11 jh f8_impl: unpack state[1] twice", False, "jh", JC, sub1("mach.unpack(state[2]),", "mach.unpack(state[1]),")),
    ("N12 jh unroll7!: one step dropped (6 per chunk)", False, "jh", JC, sub1("        { const $j: usize = 6; $body }\n", "")),
    ("N13 jh unroll7!: step index 3 repeated", False, "jh", JC, sub1("{ const $j: usize = 4; $body }", "{ const $j: usize = 3; $body }")),
    ("N14 jh X2Bytes: union read through a `[u8; 16]` view (loud)", False, "jh", JC, sub1("    bytes: [u8; 32],\n}", "    bytes: [u8; 16],\n}")),
    ("N15 jh f8_impl: data cast to *const M::u128x2 (32-byte stride, loud)", False, "jh", JC, sub1("let data = data as *const M::u128x1;", "let data = data as *const M::u128x2;")),
    ("N16 jh Compressor::input: passes a shifted pointer", False, "jh", JC, sub1("f8(&mut self.cv, data.as_ptr())", "f8(&mut self.cv, unsafe { data.as_ptr().add(1) })")),
    ("N17 jh f8 wrapper: calls f8_impl twice", False, "jh", JC, sub1("        f8_impl(mach, state, data);\n", "        f8_impl(mach, state, data);\n        f8_impl(mach, state, data);\n")),
    ("N18 jh Compressor: cv shrunk to 7 vectors (loud)", False, "jh", JC, sub1("    cv: [vec128_storage; 8],\n}", "    cv: [vec128_storage; 7],\n}")),
    ("N19 jh f8_impl: first xor uses `|`-free `^=` on y.1 twice (y.0 untouched)", False, "jh", JC, sub1("        y.0 ^= ptr::read_unaligned(data);\n        y.1 ^=", "        y.1 ^= ptr::read_unaligned(data);\n        y.1 ^=")),
    ("N20 jh f8_impl: swap64 arm uses swap32", False, "jh", JC, sub1("6 => M::u128x1::swap64,", "6 => M::u128x1::swap32,")),
    ("P01 jh f8_impl: loads hoisted into locals, xors reordered", True, "jh", JC, sub1("        y.0 ^= ptr::read_unaligned(data);\n        y.1 ^= ptr::read_unaligned(data.offset(1));\n        y.2 ^= ptr::read_unaligned(data.offset(2));\n        y.3 ^= ptr::read_unaligned(data.offset(3));\n    }\n    for", "        let m3 = ptr::read_unaligned(data.offset(3));\n        let m0 = ptr::read_unaligned(data);\n        y.3 ^= m3;\n        y.1 ^= ptr::read_unaligned(data.add(1));\n        y.0 ^= m0;\n        y.2 ^= ptr::read_unaligned(data.offset(2));\n    }\n    for")),
    ("P02 jh f8_impl: locals renamed (y -> st, f -> sw)", True, "jh", JC, lambda s: s.replace("let f = match j", "let sw = match j").replace("X8(y.0, f(y.1), y.2, f(y.3), y.4, f(y.5), y.6, f(y.7))", "X8(y.0, sw(y.1), y.2, sw(y.3), y.4, sw(y.5), y.6, sw(y.7))")),
    ("P03 jh f8_impl: ss / l merged into one expression", True, "jh", JC, sub1("            y = ss(y, unsafe { X2Bytes::<M> { bytes: rc[j] }.x2 });\n            y = l(y);", "            let k = unsafe { X2Bytes::<M> { bytes: rc[j] }.x2 };\n            y = l(ss(y, k));")),
    ("P04 jh match arms reordered, comment added", True, "jh", JC, sub1("                0 => M::u128x1::swap1,\n                1 => M::u128x1::swap2,", "                1 => M::u128x1::swap2, // second\n                0 => M::u128x1::swap1,")),
    ("P05 jh f8_impl: field-wise swap instead of the X8 constructor", True, "jh", JC, sub1("            y = X8(y.0, f(y.1), y.2, f(y.3), y.4, f(y.5), y.6, f(y.7));", "            y.7 = f(y.7);\n            y.1 = f(y.1);\n            y.5 = f(y.5);\n            y.3 = f(y.3);")),
    # ---- Skein lib.rs: the Block union
    ("N21 skein bitxor: `*s ^= *r` -> `*s |= *r`", False, "skein", SL, sub1("            *s ^= *r;", "            *s |= *r;")),
    ("N22 skein bitxor: `*s ^= *r` -> `*s = *r` (xor dropped)", False, "skein", SL, sub1("            *s ^= *r;", "            *s = *r;")),
    ("N23 skein bitxor: words of rhs taken in reverse order (loud)", False, "skein", SL, sub1(".zip(rhs.as_word_array())", ".zip(rhs.as_word_array().iter().rev())")),
    ("N24 skein bitxor: xors self with itself", False, "skein", SL, sub1(".zip(rhs.as_word_array())", ".zip(self.clone().as_word_array())")),
    ("N25 skein from_byte_array ignores its argument", False, "skein", SL, sub1("        Block { bytes: *block }", "        Block { words: GenericArray::default() }")),
    ("N26 skein union: word view over N/16 words (sizes differ, loud)", False, "skein", SL, sub1("    words: GenericArray<u64, <N as PartialDiv<U8>>::Output>,\n}", "    words: GenericArray<u64, <N as PartialDiv<U16>>::Output>,\n}")),
    ("N27 skein as_byte_array returns the bytes from offset 8 (loud)", False, "skein", SL, sub1("        unsafe { &self.bytes }", "        unsafe { &*(self.bytes.as_ptr().add(8) as *const GenericArray<u8, N>) }")),
    ("N28 skein bitxor: first word skipped", False, "skein", SL, sub1("self.as_word_array_mut().iter_mut().zip(rhs.as_word_array())", "self.as_word_array_mut().iter_mut().zip(rhs.as_word_array()).skip(1)")),
    ("N29 skein as_word_array_mut hands out the byte view's place of a clone (writes lost)", False, "skein", SL, sub1("for (s, r) in self.as_word_array_mut()", "for (s, r) in self.clone().as_word_array_mut()")),
    ("P06 skein bitxor: loop variables renamed, comment added", True, "skein", SL, sub1("        for (s, r) in self.as_word_array_mut().iter_mut().zip(rhs.as_word_array()) {\n            *s ^= *r;", "        for (dst, src) in self.as_word_array_mut().iter_mut().zip(rhs.as_word_array()) {\n            /* word-wise */ *dst ^= *src;")),
    ("P07 skein bitxor: `*s ^= *r` written out", True, "skein", SL, sub1("            *s ^= *r;", "            let t = *s ^ *r;\n            *s = t;")),
    ("P08 skein bytes(): via a local", True, "skein", SL, sub1("        self.as_byte_array().as_slice()", "        let view = self.as_byte_array();\n        view.as_slice()")),
    # ---- Grøstl compressor.rs / lib.rs
    ("N30 groestl transpose_a: shuffle_epi32 immediate 0b1101_1000 -> 0b1101_0010", False, "groestl", GC, sub1("0b1101_1000", "0b1101_0010", nth=0)),
    ("N31 groestl round: one mask nibble", False, "groestl", GC, sub1("0x0306_0a0d_0802_0509", "0x0306_0a0d_0802_0508")),
    ("N32 groestl submix: dropped xor (`^ t.rotl6()`)", False, "groestl", GC, sub1("a.rotl2() ^ t.rotl4() ^ t.rotl6()", "a.rotl2() ^ t.rotl4()")),
    ("N33 groestl submix: aesenclast operands exchanged", False, "groestl", GC, sub1("_mm_aesenclast_si128(x, b0)", "_mm_aesenclast_si128(b0, x)")),
    ("N34 groestl rounds_p_q: round-constant index 3 -> 2", False, "groestl", GC, sub1("p = round(3, p);", "p = round(2, p);")),
    ("N35 groestl mul2: reduction byte 0x1b -> 0x1d", False, "groestl", GC, sub1("0x1b1b_1b1b_1b1b_1b1b", "0x1b1b_1b1b_1b1b_1b1d")),
    ("N36 groestl mul2: cmpgt operands exchanged", False, "groestl", GC, sub1("_mm_cmpgt_epi8(_mm_cvtsi64_si128(0), i)", "_mm_cmpgt_epi8(i, _mm_cvtsi64_si128(0))")),
    ("N37 groestl transpose_b: lane index i.5 -> i.4", False, "groestl", GC, sub1("_mm_unpackhi_epi64(i.1, i.5)", "_mm_unpackhi_epi64(i.1, i.4)")),
    ("N38 groestl tf512: data.offset(2) -> data.offset(1)", False, "groestl", GC, sub1("let d2 = _mm_loadu_si128(data.offset(2));", "let d2 = _mm_loadu_si128(data.offset(1));")),
    ("N39 groestl tf512: feed-forward xor dropped", False, "groestl", GC, sub1("    *cv = *cv ^ x;\n", "    *cv = x;\n")),
    ("N40 groestl of512: cv.3 = x9", False, "groestl", GC, sub1("cv.3 = x11;", "cv.3 = x9;")),
    ("N41 groestl rounds_p: constant word one digit", False, "groestl", GC, sub1("0xf0e0_d0c0_b0a0_9080u64", "0xf0e0_d0c0_b0a0_9081u64")),
    ("N42 groestl rounds_q: mask shuffle order", False, "groestl", GC, sub1(".shuffle((1, 3, 5, 7, 0, 2, 4, 6))", ".shuffle((1, 3, 5, 7, 0, 2, 6, 4))")),
    ("N43 groestl rounds_p: second half-round uses p[0]", False, "groestl", GC, sub1("x.0 = _mm_xor_si128(x.0, p[1]);", "x.0 = _mm_xor_si128(x.0, p[0]);")),
    ("N44 groestl rounds_p: chunks_exact(2) -> chunks_exact(1) (loud)", False, "groestl", GC, sub1("for p in const_p.chunks_exact(2)", "for p in const_p.chunks_exact(1)")),
    ("N45 groestl rounds_q: 12 rounds", False, "groestl", GC, sub1("let mut const_q = [_mm_cvtsi64_si128(0); 14];", "let mut const_q = [_mm_cvtsi64_si128(0); 12];")),
    ("N46 groestl tf1024: Q applied to cv ^ q", False, "groestl", GC, sub1("*cv = *cv ^ rounds_q(q);", "*cv = *cv ^ rounds_q(*cv ^ q);")),
    ("N47 groestl of1024: cv.4 = p.5", False, "groestl", GC, sub1("cv.4 = p.4;", "cv.4 = p.5;")),
    ("N48 groestl X8::rotl3: last two lanes exchanged", False, "groestl", GC, sub1("self.shuffle((3, 4, 5, 6, 7, 0, 1, 2))", "self.shuffle((3, 4, 5, 6, 7, 0, 2, 1))")),
    ("N49 groestl (X4, X4)::map: f(a.1, b.0)", False, "groestl", GC, sub1("X4(f(a.0, b.0), f(a.1, b.1),", "X4(f(a.0, b.0), f(a.1, b.0),")),
    ("N50 groestl Compressor512::finalize_dirty forgets of512", False, "groestl", GL, sub1("        of512(&mut self.cv);\n", "")),
    ("N51 groestl sse2::of512 runs the output transformation twice", False, "groestl", GC, sub1("        of512_impl(cv)\n", "        of512_impl(cv);\n        of512_impl(cv)\n", nth=2)),
    ("N52 groestl transpose_a: shuffle mask byte", False, "groestl", GC, sub1("0x0d05_0901_0c04_0800", "0x0d05_0901_0c04_0008", nth=0)),
    ("N53 groestl round: lx halves exchanged", False, "groestl", GC, sub1("let lx = _mm_set_epi64x(ff, 0);", "let lx = _mm_set_epi64x(0, ff);")),
    ("N54 groestl of1024: feed-forward dropped", False, "groestl", GC, sub1("transpose_inv(*cv ^ rounds_p(*cv))", "transpose_inv(rounds_p(*cv))")),
    ("N55 groestl Compressor1024::new: reads the union through a [u64; 8] prefix (loud)", False, "groestl", GL, sub1("type Block1024 = [u64; 1024 / 64];", "type Block1024 = [u64; 512 / 64];")),
    ("N56 groestl round: l7 constant applied to lane 6", False, "groestl", GC, sub1("X8(l0, lx, lx, lx, lx, lx, lx, l7)", "X8(l0, lx, lx, lx, lx, lx, l7, lx)")),
    ("N57 groestl transpose (1024): unpacklo_epi32(t.2, t.3) -> (t.3, t.2)", False, "groestl", GC, sub1("_mm_unpacklo_epi32(t.2, t.3)", "_mm_unpacklo_epi32(t.3, t.2)")),
    ("P09 groestl mul2: locals renamed, statements reordered", True, "groestl", GC, sub1("        let all_1b = _mm_set1_epi64x(0x1b1b_1b1b_1b1b_1b1b);\n        let j = _mm_and_si128(_mm_cmpgt_epi8(_mm_cvtsi64_si128(0), i), all_1b);\n        let i = _mm_add_epi8(i, i);\n        _mm_xor_si128(i, j)", "        let dbl = _mm_add_epi8(i, i);\n        let zero = _mm_cvtsi64_si128(0);\n        let msb = _mm_cmpgt_epi8(zero, i);\n        let red = _mm_and_si128(msb, _mm_set1_epi64x(0x1b1b1b1b1b1b1b1b));\n        _mm_xor_si128(dbl, red)")),
    ("P10 groestl submix: temporaries", True, "groestl", GC, sub1("    let b = a.rotl2() ^ t.rotl4() ^ t.rotl6();", "    let t4 = t.rotl4();\n    let a2 = a.rotl2();\n    let b = (a2 ^ t4) ^ t.rotl6();")),
    ("P11 groestl round: lx computed before l0, closure parameters renamed", True, "groestl", GC, chain(sub1("    let l0 = _mm_set_epi64x(ff, (i * 0x0101_0101_0101_0101) ^ 0x7060_5040_3020_1000);\n    let lx = _mm_set_epi64x(ff, 0);", "    let lx = _mm_set_epi64x(ff, 0);\n    let l0 = _mm_set_epi64x(ff, (i * 0x0101_0101_0101_0101) ^ 0x7060_5040_3020_1000);"), sub1("let a = (a, mask).map(|x, y| _mm_shuffle_epi8(x, y));", "let a = (a, mask).map(|v, m| _mm_shuffle_epi8(v, m));"))),
    ("P12 groestl tf512: loads reordered, `.add` for `.offset`", True, "groestl", GC, sub1("    let d0 = _mm_loadu_si128(data);\n    let d1 = _mm_loadu_si128(data.offset(1));\n    let d2 = _mm_loadu_si128(data.offset(2));\n    let d3 = _mm_loadu_si128(data.offset(3));", "    let d3 = _mm_loadu_si128(data.add(3));\n    let d1 = _mm_loadu_si128(data.offset(1));\n    let d0 = _mm_loadu_si128(data);\n    let d2 = _mm_loadu_si128(data.offset(2));")),
    ("P13 groestl rounds_p_q: written as a chain", True, "groestl", GC, sub1("    p = round(0, p);\n    p = round(1, p);", "    p = round(1, round(0, p));")),
    ("P14 groestl of512: field assignments reordered", True, "groestl", GC, sub1("    cv.2 = x9;\n    cv.3 = x11;", "    cv.3 = x11;\n    cv.2 = x9;")),
]


def run(cases):
    scratch = tempfile.mkdtemp(prefix="hashc_selftest_")
    out = H.DEFAULT_OUT
    base = H.render_lean(H.hashc_inventory(REPO))
    bad = []
    try:
        for cid, harmless, fam, rel, edit in cases:
            for fm in H.FAMILIES:
                for r in fm["files"]:
                    dst = os.path.join(scratch, r)
                    os.makedirs(os.path.dirname(dst), exist_ok=True)
                    shutil.copy(os.path.join(REPO, r), dst)
            path = os.path.join(scratch, rel)
            src = open(path, encoding="utf-8").read()
            new = edit(src)
            if new == src:
                raise SystemExit("selftest: edit of %s changes nothing" % cid)
            open(path, "w", encoding="utf-8").write(new)
            text = H.render_lean(H.hashc_inventory(scratch))
            if harmless:
                ok = text == base
                print("%-4s %s  %s" % ("ok" if ok else "FAIL", cid, "" if ok else "(generated file changed)"))
            else:
                if text == base:
                    ok = False
                    print("FAIL %s  (generated file unchanged)" % cid)
                else:
                    open(out, "w", encoding="utf-8").write(text)
                    r = subprocess.run(["lake", "build", MOD[fam]], cwd=LEAN, stdout=subprocess.PIPE, stderr=subprocess.STDOUT)
                    ok = r.returncode != 0
                    print("%-4s %s  %s" % ("ok" if ok else "FAIL", cid, "(build fails)" if ok else "(build still succeeds)"))
            if not ok:
                bad.append(cid)
            sys.stdout.flush()
    finally:
        shutil.rmtree(scratch, ignore_errors=True)
        open(out, "w", encoding="utf-8").write(base)
        for m in sorted(set(MOD[c[2]] for c in cases)):
            subprocess.run(["lake", "build", m], cwd=LEAN, stdout=subprocess.PIPE, stderr=subprocess.STDOUT)
    nb = sum(1 for c in cases if not c[1])
    print("%d cases (%d breaking, %d harmless): %d failed %s" % (len(cases), nb, len(cases) - nb, len(bad), bad if bad else ""))
    return 1 if bad else 0


if __name__ == "__main__":
    sel = sys.argv[1:]
    cs = [c for c in CASES if not sel or any(c[0].startswith(p) or c[2] == p for p in sel)]
    sys.exit(run(cs))
