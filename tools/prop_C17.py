"""C17 — hash length counters stay exact for very long messages and at word boundaries.

Part B (`gen_C17`): model vs code at hook-injected boundary counters (every hash type, buffer part
full, a random multi-block tail crossing the boundary with `getctr` after every update, then
`fin`), including panic-vs-value per build profile at the format limits.

Part C (`extra_C17`): real streaming.  The harness feeds a long patterned prefix through the REAL
`update` (`<family> stream`), dumps (chaining value, counter) through the `verif_get_state`
hooks; the Lean model is started from that dump (`<family> inject`, it never computes the prefix)
and both absorb the same tail across the boundary and finalise.  Thorough tier: the prefix ends just
below 2^32 bits (BLAKE, JH, Skein: 2^29 bytes) and just below 2^32 bytes (JH `datalen`, Skein
`t.0`); Grøstl (counter hook only) crosses 2^8 blocks (all variants) and 2^16 blocks (Grøstl-256)
for real on both sides.  Quick tier: the same machinery with a 3 MiB prefix (smoke test).
"""
import os, threading, time
import cclib

M64 = 2 ** 64
M32 = 2 ** 32


# ----------------------------------------------------------------------------- helpers

def pat_byte(seed, i):
    x = (seed * 2654435761 + i * 2246822519 + 374761393) & 0xffffffff
    y = (x ^ (x >> 15)) & 0xffffffff
    z = (y * 2246822519) & 0xffffffff
    return (z ^ (z >> 13)) & 0xff


BIG_PERIOD = (1 << 20) - 3       # = harness/src/util.rs BIG_PERIOD: a PRIME, so that the data has no power-of-two period


def stream_bytes(seed, lo, hi):
    """bytes [lo, hi) of the stream fed by `<family> stream … seed` / `bigupd`: byte i = pat(seed, i mod BIG_PERIOD)"""
    return bytes(pat_byte(seed, i % BIG_PERIOD) for i in range(lo, hi))


def hx(b):
    return b.hex() if b else "-"


def tail_lengths(rng, b, nblocks):
    """a few update lengths whose sum exceeds `nblocks` blocks: short, block-aligned and odd ones"""
    out = []
    total = 0
    while total <= nblocks * b:
        k = rng.choice([1, b - 1, b, b + 1, 2 * b, rng.below(3 * b) + 1, rng.below(b) + 1])
        out.append(k)
        total += k
    return out


# counter simulators: only to know when an instance has unwound (panicked) and must be re-created

class BlakeSim:
    def __init__(self, w, b, debug):
        self.w, self.b, self.debug = w, b, debug
        self.W = 2 ** w
        self.t0 = self.t1 = self.pos = 0

    def _inc(self, t0, t1, nbytes):
        t0 += 8 * nbytes
        if t0 >= self.W:
            t0 -= self.W
            if t1 + 1 >= self.W:
                if self.debug:
                    return None
                t1 = 0
            else:
                t1 += 1
        return t0, t1

    def update(self, n):
        """returns False when the real object has panicked half-way"""
        blocks = (self.pos + n) // self.b
        self.pos = (self.pos + n) % self.b
        for _ in range(blocks):
            r = self._inc(self.t0, self.t1, self.b)
            if r is None:
                return False
            self.t0, self.t1 = r
        return True


class SkeinSim:
    def __init__(self, nb, debug):
        self.nb, self.debug = nb, debug
        self.t0 = self.pos = 0

    def update(self, n):
        if self.pos + n <= self.nb:
            self.pos += n
            return True
        blocks = (self.pos + n - 1) // self.nb
        self.pos = self.pos + n - self.nb * blocks
        for _ in range(blocks):
            if self.t0 + self.nb >= M64:
                if self.debug:
                    return False
            self.t0 = (self.t0 + self.nb) % M64
        return True


# ----------------------------------------------------------------------------- Part B: generator

BLAKE = [(224, 32, 64), (256, 32, 64), (384, 64, 128), (512, 64, 128)]
GROESTL = [(224, 64), (256, 64), (384, 128), (512, 128)]
JH = [224, 256, 384, 512]
SKEIN = [("256-32", 32), ("512-64", 64), ("1024-128", 128), ("512-33", 64), ("256-7", 32), ("1024-200", 128)]


def blake_counters(w, b):
    U = 8 * b
    W = 2 ** w
    cs = [(M32 - U, 0), (M32 - 2 * U, 0), (M32 - 3 * U, 5)]
    if w == 32:
        cs += [(0, 1), (U, 1), (3 * U, 1), (W - 8, 0), (W - U, W - 2)]
    else:
        cs += [(M32, 0), (M32 + U, 0), (M32 - 8, 0), (W - U, 0), (W - 2 * U, 0), (W - 3 * U, 7),
               (0, 1), (U, 1), (W - 8, 3), (W - U, M32 - 1), (W - U, W - 2)]
    # the format limit 2^(2w) bits: the checked `t.1 += 1` fires in debug, release wraps
    cs += [(W - 2 * U, W - 1), (W - U, W - 1), (W - 8, W - 1)]
    return cs


def gen_C17(rng, tier, cfg):
    debug = cclib.profile_of(cfg) == "debug"
    reps = 1 if tier == "quick" else 4
    ops = []
    stats = {"blake_states": 0, "groestl_states": 0, "jh_states": 0, "skein_states": 0,
             "updates_after_injection": 0, "expected_unwinds": 0, "profile": "debug" if debug else "release"}

    # ---- BLAKE: t = (lo, hi) bit counter
    for (bits, w, b) in BLAKE:
        for (t0, t1) in blake_counters(w, b):
            for _ in range(reps):
                sim = BlakeSim(w, b, debug)
                pre = rng.below(b - 1) + 1
                ops.append("blake new 0 %d" % bits)
                ops.append("blake updpat 0 %d %d" % (pre, rng.below(1000)))
                sim.update(pre)
                ops.append("blake setctr 0 %d %d" % (t0, t1))
                sim.t0, sim.t1 = t0, t1
                ops.append("blake getctr 0")
                ops.append("blake fin 0")
                alive = True
                for n in tail_lengths(rng, b, 3):
                    ops.append("blake updpat 0 %d %d" % (n, rng.below(1000)))
                    stats["updates_after_injection"] += 1
                    if not sim.update(n):
                        alive = False            # unwound half-way: the object is not looked at again
                        stats["expected_unwinds"] += 1
                        break
                    ops.append("blake getctr 0")
                    ops.append("blake fin 0")
                if alive:
                    ops.append("blake clone 0 1")
                    ops.append("blake finreset 1")
                    ops.append("blake getctr 1")
                stats["blake_states"] += 1

    # ---- Grøstl: block counter (the model mirrors the object left behind by an unwinding update)
    gctrs = [2 ** 8 - 2, 2 ** 8 - 1, 2 ** 8, 2 ** 16 - 2, 2 ** 16 - 1, 2 ** 16, M32 - 2, M32 - 1, M32, M32 + 1,
             2 ** 63 - 1, 2 ** 63, M64 - 4, M64 - 3, M64 - 2, M64 - 1]
    for (bits, b) in GROESTL:
        for c in gctrs:
            for _ in range(reps):
                pre = rng.below(b - 1) + 1
                ops.append("groestl new 0 %d" % bits)
                ops.append("groestl updpat 0 %d %d" % (pre, rng.below(1000)))
                ops.append("groestl setctr 0 %d" % c)
                ops.append("groestl getctr 0")
                ops.append("groestl fin 0")
                for n in tail_lengths(rng, b, 3):
                    ops.append("groestl updpat 0 %d %d" % (n, rng.below(1000)))
                    ops.append("groestl getctr 0")
                    ops.append("groestl fin 0")
                    stats["updates_after_injection"] += 1
                ops.append("groestl clone 0 1")
                ops.append("groestl finreset 1")
                ops.append("groestl getctr 1")
                stats["groestl_states"] += 1

    # ---- JH: datalen (bytes); `datalen * 8` overflows from 2^61 on (debug: panic, release: wraps)
    jctrs = [2 ** 29 - 70, 2 ** 29 - 1, 2 ** 29, M32 - 100, M32 - 1, M32, M32 + 17, 2 ** 61 - 200, 2 ** 61 - 1, 2 ** 61,
             2 ** 61 + 5, 2 ** 63, M64 - 100, M64 - 1]
    for n in JH:
        for c in jctrs:
            for _ in range(reps):
                pre = rng.below(63) + 1
                ops.append("jh new 0 %d" % n)
                ops.append("jh updpat 0 %d %d" % (pre, rng.below(1000)))
                ops.append("jh setctr 0 %d" % c)
                ops.append("jh getctr 0")
                ops.append("jh fin 0")
                for k in tail_lengths(rng, 64, 3):
                    ops.append("jh updpat 0 %d %d" % (k, rng.below(1000)))   # an overflowing `+=` leaves the object untouched
                    ops.append("jh getctr 0")
                    ops.append("jh fin 0")
                    stats["updates_after_injection"] += 1
                ops.append("jh finreset 0")
                ops.append("jh getctr 0")
                stats["jh_states"] += 1

    # ---- Skein: byte position t.0
    for (variant, nb) in (SKEIN if tier != "quick" else SKEIN[:4]):
        sctrs = [M32 - nb, M32 - 2 * nb, M32 - 3 * nb, M32 - 1, M32, M32 + nb, 2 ** 63 - nb, M64 - 5 * nb,
                 M64 - 3 * nb, M64 - 2 * nb, M64 - nb - 1, M64 - nb]
        for c in sctrs:
            for _ in range(reps):
                sim = SkeinSim(nb, debug)
                pre = rng.below(nb - 1) + 1
                ops.append("skein new 0 %s" % variant)
                ops.append("skein updpat 0 %d %d" % (pre, rng.below(1000)))
                sim.update(pre)
                ops.append("skein setctr 0 %d" % c)
                sim.t0 = c
                ops.append("skein getctr 0")
                ops.append("skein fin 0")
                alive = True
                for n in tail_lengths(rng, nb, 3):
                    ops.append("skein updpat 0 %d %d" % (n, rng.below(1000)))
                    stats["updates_after_injection"] += 1
                    if not sim.update(n):
                        alive = False            # the slot is discarded on both sides
                        stats["expected_unwinds"] += 1
                        break
                    ops.append("skein getctr 0")
                    ops.append("skein fin 0")
                if alive and not (debug and sim.t0 + sim.pos >= M64):
                    ops.append("skein clone 0 1")
                    ops.append("skein finreset 1")       # would discard the slot if it unwound
                    ops.append("skein getctr 1")
                stats["skein_states"] += 1
    return ops, stats


# ----------------------------------------------------------------------------- Part C: real streaming

def _job_inject(family, cfg, binp, new_arg, b, N, seed, rng_seed, expect_ctr, lazy):
    """One real-streaming job for blake/jh/skein.  Returns (ok, what, detail_text, evaluations)."""
    rng = cclib.XorShift(rng_seed)
    header = ["cfg profile " + cclib.profile_of(cfg)]
    tail = []
    total = 0
    pieces = [b] + tail_lengths(rng, b, 2)          # first piece: exactly one block across the boundary
    while total < 300:
        k = pieces.pop(0) if pieces else rng.below(b) + 1
        tail.append("%s updpat 0 %d %d" % (family, k, rng.below(1000)))
        tail.append("%s getctr 0" % family)
        total += k
    tail.append("%s fin 0" % family)
    getcv = {"blake": "blake getstate 0", "jh": "jh getstate 0", "skein": "skein getx 0"}[family]
    hops = header + ["%s new 0 %s" % (family, new_arg), "%s stream 0 %d %d" % (family, N, seed), getcv,
                     "%s getctr 0" % family] + tail
    hout, hinfo = cclib.run_lines(binp, hops, timeout=3600)
    if hout is None or len(hout) != len(hops):
        return False, "harness did not answer every line", "\n".join(hops) + "\n# " + str(hinfo), 0
    cv, ctr = hout[3], hout[4]
    detail = ["# cfg=%s" % cfg, "# harness ops:"] + hops + ["# harness output:"] + ["#   " + l for l in hout]
    if hout[:3] != ["ok", "ok", "ok"]:
        return False, "harness setup failed", "\n".join(detail), 0
    if ctr != expect_ctr:
        detail.append("# counter after REAL streaming of %d bytes: %s ; exact value (theorem): %s" % (N, ctr, expect_ctr))
        return False, "counter after real streaming is not exact", "\n".join(detail), len(hops)
    # buffered bytes at the dump point
    nbuf = (((N - 1) % b) + 1 if N else 0) if lazy else N % b
    buf = stream_bytes(seed, N - nbuf, N)
    if family == "jh":
        inj = "jh inject 0 %s %s %s %s" % (new_arg, cv, ctr, hx(buf))
    else:
        inj = "%s inject 0 %s %s %s %s" % (family, new_arg, cv, ctr, hx(buf))
    mops = header + [inj] + tail
    mout, minfo = cclib.run_lines(cclib.DRV, mops, timeout=3600)
    detail += ["# model ops (started from the dumped state, prefix NOT recomputed):"] + mops
    if mout is None or len(mout) != len(mops):
        return False, "model driver did not answer every line", "\n".join(detail) + "\n# " + str(minfo), len(hops)
    detail += ["# model output:"] + ["#   " + l for l in mout]
    if mout[1] != "ok":
        return False, "machinery error: model rejected inject", "\n".join(detail), len(hops)
    ht, mt = hout[5:], mout[2:]
    if ht != mt:
        d = cclib.first_diff(ht, mt)
        detail.append("# first disagreement at tail op: %s ; implementation: %s ; model: %s" % (
            tail[d] if d is not None and d < len(tail) else "?", ht[d] if d < len(ht) else "?", mt[d] if d < len(mt) else "?"))
        return False, "model/implementation disagreement after real streaming", "\n".join(detail), len(hops) + len(mops)
    return True, "", "", len(hops) + len(mops)


def _job_groestl(cfg, binp, bits, b, nblocks_target, rng_seed):
    """Grøstl: both sides absorb the whole prefix for real (no chaining-value hook)."""
    rng = cclib.XorShift(rng_seed)
    ops = ["cfg profile " + cclib.profile_of(cfg), "groestl new 0 %d" % bits]
    r = rng.below(b - 1) + 1
    N = (nblocks_target - 2) * b + r               # two blocks below the boundary, buffer part full
    left = N
    while left > 0:
        k = min(left, 16384)
        ops.append("groestl updpat 0 %d %d" % (k, rng.below(1000)))
        left -= k
    ops.append("groestl getctr 0")
    expect = str(N // b)
    idx = len(ops) - 1
    for k in [b, 1, b - 1, 2 * b + 3, b]:           # across the boundary
        ops.append("groestl updpat 0 %d %d" % (k, rng.below(1000)))
        ops.append("groestl getctr 0")
        ops.append("groestl fin 0")
    hout, hinfo = cclib.run_lines(binp, ops, timeout=7200)
    mout, minfo = cclib.run_lines(cclib.DRV, ops, timeout=7200)
    detail = ["# cfg=%s" % cfg] + ops
    if hout is None or mout is None or len(hout) != len(ops) or len(mout) != len(ops):
        return False, "timeout / missing answers", "\n".join(detail), 0
    if hout[idx] != expect:
        detail.append("# block counter after REAL absorption of %d bytes: %s ; exact: %s" % (N, hout[idx], expect))
        return False, "Groestl block counter after real streaming is not exact", "\n".join(detail), len(ops)
    if hout != mout:
        d = cclib.first_diff(hout, mout)
        detail.append("# first disagreement at op: %s ; implementation: %s ; model: %s" % (ops[d], hout[d], mout[d]))
        return False, "model/implementation disagreement (Groestl real streaming)", "\n".join(detail), 2 * len(ops)
    return True, "", "", 2 * len(ops)


SINGLE_N = 2 ** 31 + 4096 + 5      # the whole-block run exceeds 2^31 bytes (so also 2^29 bytes = 2^32 bits) for every buffered
                                   # prefix: bit counts in u32, byte offsets in i32 / u31 all overflow inside ONE call


def single_expect(fam, b, w, tot):
    """exact counter (as printed by `getctr`) after absorbing `tot` bytes, by the C17 theorems"""
    if fam == "blake":
        T = 8 * b * (tot // b)
        return "%d %d" % (T % 2 ** w, T // 2 ** w)
    if fam == "jh":
        return str(tot)
    if fam == "skein":
        return "%d %d" % (b * ((tot - 1) // b), 48 << 56)
    return str(tot // b)


def _job_single_call(family, cfg, binp, new_arg, b, prefix, N, seed, expect_ctr):
    """One HUGE `update` call (N bytes in a single slice) on the real code must leave the counter the
    theorems predict and give the same digest as the same bytes fed in 1 MiB calls (chunking
    invariance, C08, on the real code at sizes the model cannot execute).
    Returns (ok, what, detail_text, evaluations)."""
    header = ["cfg profile " + cclib.profile_of(cfg)]
    ops = []
    for slot, how in ((0, "bigupd"), (1, "stream")):
        ops += ["%s new %d %s" % (family, slot, new_arg), "%s updpat %d %d %d" % (family, slot, prefix, seed + 1),
                "%s %s %d %d %d" % (family, how, slot, N, seed), "%s getctr %d" % (family, slot),
                "%s updpat %d 3 9" % (family, slot), "%s fin %d" % (family, slot)]
    hops = header + ops
    hout, hinfo = cclib.run_lines(binp, hops, timeout=3600)
    detail = ["# cfg=%s" % cfg, "# single-call job: harness ops:"] + hops
    if hout is None or len(hout) != len(hops):
        return False, "harness did not answer every line (crash?)", "\n".join(detail) + "\n# " + str(hinfo), 0
    detail += ["# harness output:"] + ["#   " + l for l in hout] + ["# expected counter after the big update: " + expect_ctr]
    one, many = hout[1:7], hout[7:13]
    if one[:3] != ["ok", "ok", "ok"]:
        return False, "%s: a single update of %d bytes did not return ok (%s)" % (family, N, one[2]), "\n".join(detail), 6
    if many[:3] != ["ok", "ok", "ok"]:
        return False, "%s: streaming %d bytes failed" % (family, N), "\n".join(detail), 6
    if one[3] != expect_ctr:
        return False, "%s: counter after one %d-byte update is %s, exact value is %s" % (family, N, one[3], expect_ctr), "\n".join(detail), 6
    if many[3] != expect_ctr:
        return False, "%s: counter after streaming %d bytes is %s, exact value is %s" % (family, N, many[3], expect_ctr), "\n".join(detail), 6
    if one[4:] != many[4:]:
        return False, "%s: digest of one %d-byte update differs from the digest of the same bytes in 1 MiB pieces" % (family, N), "\n".join(detail), 6
    return True, "", "\n".join(detail), 12


def extra_C17(pid, tier, seed):
    t0 = time.time()
    thorough = tier == "thorough"
    cov = {"real_streaming_jobs": 0, "real_streaming_bytes": 0, "real_streaming_boundaries": [],
           "real_streaming_tier": tier}
    violations = []
    evaluations = [0]
    lock = threading.Lock()
    jobs = []           # (name, fn)
    bounds = set()

    def add(name, fn, nbytes, boundary):
        jobs.append((name, fn, nbytes))
        bounds.add(boundary)

    for ci, cfg in enumerate(["std-debug", "std-release"]):
        ok, binp, hlog = cclib.harness_build(cfg)
        if not ok:
            rp = cclib.write_replay(pid, seed, "extra-harness-build-" + cfg, "# harness does not build\n# cfg=%s\n%s\n" % (cfg, hlog[-4000:]))
            violations.append(("real streaming " + cfg + " (harness build)", rp, True))
            continue
        rng = cclib.XorShift(seed * 7919 + 17 + ci)
        # prefix lengths: just below the boundary, leaving 1..2 blocks and a part-full buffer
        base29 = 2 ** 29 if thorough else 3 * 2 ** 20
        bname = "2^32 bits (2^29 bytes)" if thorough else "3 MiB (smoke)"
        for (bits, w, b) in BLAKE:
            N = base29 - b * (1 + rng.below(2)) + rng.below(b)
            T = 8 * b * (N // b)
            exp = "%d %d" % (T % 2 ** w, T // 2 ** w)
            add("blake-%d %s N=%d" % (bits, cfg, N),
                (lambda cfg=cfg, binp=binp, bits=bits, b=b, N=N, exp=exp, s=rng.below(1000), rs=rng.next():
                 _job_inject("blake", cfg, binp, str(bits), b, N, s, rs, exp, False)), N, "BLAKE " + bname)
        for n in JH:
            N = base29 - 64 * (1 + rng.below(2)) + rng.below(64)
            add("jh-%d %s N=%d" % (n, cfg, N),
                (lambda cfg=cfg, binp=binp, n=n, N=N, s=rng.below(1000), rs=rng.next():
                 _job_inject("jh", cfg, binp, str(n), 64, N, s, rs, str(N), False)), N, "JH " + bname)
        for (variant, nb) in SKEIN[:3]:
            N = base29 - nb * (1 + rng.below(2)) + rng.below(nb)
            t1 = (1 << 62 if N <= nb else 0) | (48 << 56)
            exp = "%d %d" % (nb * ((N - 1) // nb), t1)
            add("skein-%s %s N=%d" % (variant, cfg, N),
                (lambda cfg=cfg, binp=binp, variant=variant, nb=nb, N=N, exp=exp, s=rng.below(1000), rs=rng.next():
                 _job_inject("skein", cfg, binp, variant, nb, N, s, rs, exp, True)), N, "Skein " + bname)
        # ONE update call with more than 2^29 bytes (thorough: more than 2^32 bytes as well): length
        # arithmetic in narrower integer types inside `update` shows here and nowhere else
        sizes = [SINGLE_N] + ([2 ** 32 + 4096 + 5] if thorough else [])
        for Nbig in sizes:
            singles = []
            if thorough or cfg == "std-release":
                singles += [("blake", str(bits), b, w) for (bits, w, b) in (BLAKE if thorough else BLAKE[1:2])]
                singles += [("jh", str(n), 64, 0) for n in (JH if thorough else JH[1:2])]
                singles += [("skein", variant, nb, 0) for (variant, nb) in (SKEIN[:3] if thorough else SKEIN[1:2])]
            singles += [("groestl", str(bits), b, 0) for (bits, b) in (GROESTL if thorough else GROESTL[1:2])]
            for (fam, arg, b, w) in singles:
                prefix = rng.below(b)
                exp = single_expect(fam, b, w, prefix + Nbig)
                add("%s-%s %s single update of %d bytes" % (fam, arg, cfg, Nbig),
                    (lambda fam=fam, cfg=cfg, binp=binp, arg=arg, b=b, prefix=prefix, Nbig=Nbig, exp=exp, s=rng.below(1000):
                     _job_single_call(fam, cfg, binp, arg, b, prefix, Nbig, s, exp)), 2 * Nbig, "single update > 2^%d bytes" % (29 if Nbig < 2 ** 32 else 32))
        if thorough:
            # byte counters across 2^32 BYTES for real (4 GiB): JH datalen (one size per configuration), Skein t.0
            n = JH[(seed + ci) % 4]
            N = M32 - 64 * (1 + rng.below(2)) + rng.below(64)
            add("jh-%d %s N=%d" % (n, cfg, N),
                (lambda cfg=cfg, binp=binp, n=n, N=N, s=rng.below(1000), rs=rng.next():
                 _job_inject("jh", cfg, binp, str(n), 64, N, s, rs, str(N), False)), N, "JH 2^32 bytes")
            for (variant, nb) in (SKEIN[:3] if cfg == "std-release" else [SKEIN[(seed + 1) % 3]]):
                N = M32 - nb * (1 + rng.below(2)) + rng.below(nb)
                exp = "%d %d" % (nb * ((N - 1) // nb), 48 << 56)
                add("skein-%s %s N=%d" % (variant, cfg, N),
                    (lambda cfg=cfg, binp=binp, variant=variant, nb=nb, N=N, exp=exp, s=rng.below(1000), rs=rng.next():
                     _job_inject("skein", cfg, binp, variant, nb, N, s, rs, exp, True)), N, "Skein 2^32 bytes")
            # Grøstl: 2^8 blocks for real on both sides (all four types)
            for (bits, b) in GROESTL:
                add("groestl-%d %s 2^8 blocks" % (bits, cfg),
                    (lambda cfg=cfg, binp=binp, bits=bits, b=b, rs=rng.next(): _job_groestl(cfg, binp, bits, b, 2 ** 8, rs)),
                    2 ** 8 * b, "Groestl 2^8 blocks")
            # … and 2^16 blocks (4 MiB) for Grøstl-256: ~7 min of model time, run concurrently (release only)
            if cfg == "std-release" and os.environ.get("C17_GROESTL_2_16", "1") != "0":
                add("groestl-256 %s 2^16 blocks" % cfg,
                    (lambda cfg=cfg, binp=binp, rs=rng.next(): _job_groestl(cfg, binp, 256, 64, 2 ** 16, rs)),
                    2 ** 16 * 64, "Groestl 2^16 blocks")
        else:
            add("groestl-256 %s 2^8 blocks" % cfg,
                (lambda cfg=cfg, binp=binp, rs=rng.next(): _job_groestl(cfg, binp, 256, 64, 2 ** 8, rs)),
                2 ** 8 * 64, "Groestl 2^8 blocks")

    # run the jobs on a small pool (they are independent processes)
    results = {}
    it = iter(list(enumerate(jobs)))

    def worker():
        while True:
            with lock:
                nxt = next(it, None)
            if nxt is None:
                return
            i, (name, fn, nbytes) = nxt
            try:
                results[i] = fn()
            except Exception as e:   # machinery failure must not pass silently
                results[i] = (False, "machinery exception: %r" % (e,), "# " + name, 0)

    nthreads = max(1, min(8, (os.cpu_count() or 2) - 1))
    # longest jobs first
    order = sorted(range(len(jobs)), key=lambda i: -(jobs[i][2] * (1000 if "2^16" in jobs[i][0] else 1)))
    it = iter([(i, jobs[i]) for i in order])
    ths = [threading.Thread(target=worker) for _ in range(nthreads)]
    for t in ths:
        t.start()
    for t in ths:
        t.join()
    for i, (name, fn, nbytes) in enumerate(jobs):
        ok, what, detail, ev = results.get(i, (False, "job did not run", "# " + name, 0))
        evaluations[0] += ev
        cov["real_streaming_jobs"] += 1
        cov["real_streaming_bytes"] += nbytes
        if not ok:
            tag = "stream-" + "".join(ch if ch.isalnum() else "_" for ch in name)[:60]
            rp = cclib.write_replay(pid, seed, tag, "# property=C17 real streaming job: %s\n# %s\n%s\n" % (name, what, detail))
            violations.append((what + " [" + name + "]", rp, what.startswith("machinery") or what.startswith("harness") or what.startswith("timeout")))
    cov["real_streaming_boundaries"] = sorted(bounds)
    cov["real_streaming_wall_s"] = round(time.time() - t0, 1)
    cov["real_streaming_rule"] = ("harness: new; stream N bytes through the real update; dump (cv, counter) by hook; counter must equal "
                                  "the exact value of the C17 theorems; model: inject dump; both absorb the same tail across the "
                                  "boundary with getctr after each update, then fin; all lines equal")
    return {"coverage": cov, "violations": violations, "known": [], "evaluations": evaluations[0]}


PROP = dict(
    theorems=["blake_counter_exact", "blake_counter_streaming", "blake_streaming_conforms", "blake_conforms_all_lengths",
              "blake_carry_exact", "blake_debug_check_at_limit",
              "groestl_counter_exact", "groestl_counter_init", "groestl_final_count_exact",
              "groestl_conforms_all_lengths_partial", "groestl_conforms_all_lengths", "groestl_debug_check_at_limit",
              "jh_datalen_exact", "jh_datalen_exact_step", "jh_serialised_len_exact", "jh_debug_check_at_limit",
              "jh_conforms_all_lengths",
              "skein_position_exact", "skein_final_position", "skein_process_block_position",
              "skein_debug_check_at_limit", "skein_conforms_all_lengths"],
    gen=gen_C17,
    cfgs_quick=["std-debug", "std-release"],
    cfgs_thorough=["std-debug", "std-release"],
    extra=extra_C17,
    trusted_extra=["verification hooks verif_get_state / verif_set_counter / verif_set_datalen / verif_set_byte_count (add-only, cfg(cryptocorrosion_verif))"],
)
