#!/usr/bin/env python3
"""tools/inventory_null_selftest.py — negative / positive tests of tools/inventory_null.py (not a registered check).
Copies utils-simd/ppv-null/src/lib.rs of /repo into a scratch tree under the system temp directory, applies ONE edit per
case, regenerates lean/CC/Gen/NullSrc.lean from it and
  * N cases (breaking edits): the generated text must change AND `lake build CC.Null.Src` must FAIL;
  * P cases (harmless rewrites): the generated text must be BYTE-IDENTICAL to the one generated from /repo.
The scratch tree is removed and the generated file restored from /repo (and rebuilt) at the end.
    python3 tools/inventory_null_selftest.py [case id | prefix* ...]"""
import os, shutil, subprocess, sys, tempfile, time
K = os.path.dirname(os.path.dirname(os.path.abspath(__file__)))
sys.path.insert(0, K + "/tools")
import inventory_null as N
ROOT = os.path.join(tempfile.gettempdir(), "null_selftest_%d" % os.getpid())
REL = N.NULL_LIB


def sub1(old, new, nth=0):
    def f(s):
        parts = s.split(old)
        assert len(parts) > nth + 1, (old, len(parts))
        return old.join(parts[:nth + 1]) + new + old.join(parts[nth + 1:])
    return f


def both(*fs):
    def f(s):
        for g in fs:
            s = g(s)
        return s
    return f


VEC1_SWAP = "$X1(((self.0 & m) >> i) | ((self.0) << i) & m)"
CASES = [
  # ------------------------------------------------------------------ breaking
  ("N01 swap2: one nibble of the mask constant", False, sub1("0xcccc_cccc_cccc_cccc_cccc_cccc_cccc_cccc", "0xcccc_cccc_cccc_cccc_cccc_cccc_cccc_ccc4")),
  ("N02 swap8: mask of swap16 (0xffff_0000…) used", False, sub1("self.swap(0xff00_ff00_ff00_ff00_ff00_ff00_ff00_ff00, 8)", "self.swap(0xffff_0000_ffff_0000_ffff_0000_ffff_0000, 8)")),
  ("N03 swap4: shift count 4 -> 2", False, sub1("f0f0_f0f0, 4)", "f0f0_f0f0, 2)")),
  ("N04 swap64: shift count `<< 64` -> `<< 63`", False, sub1("self.0 << 64", "self.0 << 63")),
  ("N05 swap: `>> i` -> `>> 1` (count no longer the parameter)", False, sub1("(self.0 & m) >> i", "(self.0 & m) >> 1")),
  ("N06 swap: left shift result no longer masked", False, sub1(VEC1_SWAP, "$X1(((self.0 & m) >> i) | ((self.0) << i))")),
  ("N07 swap: `>>` and `<<` exchanged", False, sub1(VEC1_SWAP, "$X1(((self.0 & m) << i) | ((self.0) >> i) & m)")),
  ("N08 u128x1 add_assign: `wrapping_add` -> `+` (debug overflow panic: the defect fixed upstream)", False, sub1("self.0 = self.0.wrapping_add(rhs.0);", "self.0 = self.0 + rhs.0;")),
  ("N09 u128x1 add_assign: `self.0 += rhs.0`", False, sub1("self.0 = self.0.wrapping_add(rhs.0);", "self.0 += rhs.0;")),
  ("N10 vec4 Add: zipmap_impl! argument `wrapping_add` -> `add` (u32::add: checked; not a method of the table)", False, sub1("zipmap_impl!($X4, $word, Add, add, wrapping_add);", "zipmap_impl!($X4, $word, Add, add, add);")),
  ("N11 vec2 load: index `xs[1]` -> `xs[0]`", False, sub1("$X2(xs[0], xs[1])", "$X2(xs[0], xs[0])")),
  ("N12 vec4 from_slice_unaligned: lanes 2 and 3 read exchanged", False, sub1("$X4(xs[0], xs[1], xs[2], xs[3])", "$X4(xs[0], xs[1], xs[3], xs[2])")),
  ("N13 vec4 write_to_slice_unaligned: `xs[2] = self.2` -> `self.3`", False, sub1("xs[2] = self.2;", "xs[2] = self.3;")),
  ("N14 vec2 xor_store: `xs[1] ^= self.1` -> `xs[1] = self.1`", False, sub1("xs[1] ^= self.1;", "xs[1] = self.1;")),
  ("N15 vec4 from_slice_unaligned: debug_assert dropped", False, sub1("debug_assert_eq!(xs.len(), 4);\n                $X4(xs[0]", "$X4(xs[0]")),
  ("N16 vec1 extract: debug_assert dropped", False, sub1("debug_assert_eq!(i, 0);\n", "")),
  ("N17 vec1 load: debug_assert_eq -> assert_eq (panics in release too)", False, sub1("debug_assert_eq!(xs.len(), 1);\n                $X1(xs[0])", "assert_eq!(xs.len(), 1);\n                $X1(xs[0])")),
  ("N18 vec4 write_to_slice_unaligned: asserted length 4 -> 3", False, sub1("debug_assert_eq!(xs.len(), 4);\n                xs[0] = self.0;", "debug_assert_eq!(xs.len(), 3);\n                xs[0] = self.0;")),
  ("N19 rotate_words_right: `i & !3` -> `i & !7` in the debug_assert", False, sub1("debug_assert_eq!(i & !3, 0);", "debug_assert_eq!(i & !7, 0);")),
  ("N20 ONE type only: `const BITS` = 32 instead of size_of::<$word>() * 8 (u32x4 unchanged, u64x4 wrong)", False, sub1("const BITS: u32 = core::mem::size_of::<$word>() as u32 * 8;", "const BITS: u32 = 32;")),
  ("N21 ONE type only: define_vec4!(u64x4, u64) -> (u64x4, u32)", False, sub1("define_vec4!(u64x4, u64);", "define_vec4!(u64x4, u32);")),
  ("N22 ONE type only: zipmap_impl!(u32x4x4, u32x4, Add, add) gets the impl fn `bitxor`", False, sub1("zipmap_impl!(u32x4x4, u32x4, Add, add);", "zipmap_impl!(u32x4x4, u32x4, Add, add, bitxor);")),
  ("N23 ONE type only: define_vec1!(u128x1, u128) -> (u128x1, u64)", False, sub1("define_vec1!(u128x1, u128);", "define_vec1!(u128x1, u64);")),
  ("N24 ONE type only: u32x4x4 BitAnd implemented by u32x4::bitor", False, sub1("zipmap_impl!(u32x4x4, u32x4, BitAnd, bitand);", "zipmap_impl!(u32x4x4, u32x4, BitAnd, bitand, bitor);")),
  ("N25 vec1 rotate_right -> rotate_left", False, sub1("self.0 = self.0.rotate_right(i as u32);", "self.0 = self.0.rotate_left(i as u32);")),
  ("N26 vec2 rotate_right: `$word::rotate_right` -> `$word::rotate_left` in the closure", False, sub1("$word::rotate_right(x, i as u32)", "$word::rotate_left(x, i as u32)")),
  ("N27 vec4 rotate_right: lane 2 rotate_left", False, sub1("self.2.rotate_right(ii.2 as u32)", "self.2.rotate_left(ii.2 as u32)")),
  ("N28 vec4 rotate_right: lane 1 rotated by ii.0", False, sub1("self.1.rotate_right(ii.1 as u32)", "self.1.rotate_right(ii.0 as u32)")),
  ("N29 vec4 rotate_right: result also stored into *self", False, sub1("pub fn rotate_right(&mut self, ii: Self) -> Self {\n                $X4(\n                    self.0.rotate_right(ii.0 as u32),\n                    self.1.rotate_right(ii.1 as u32),\n                    self.2.rotate_right(ii.2 as u32),\n                    self.3.rotate_right(ii.3 as u32),\n                )", "pub fn rotate_right(&mut self, ii: Self) -> Self {\n                let r = $X4(\n                    self.0.rotate_right(ii.0 as u32),\n                    self.1.rotate_right(ii.1 as u32),\n                    self.2.rotate_right(ii.2 as u32),\n                    self.3.rotate_right(ii.3 as u32),\n                );\n                *self = r;\n                r")),
  ("N30 vec1 andnot: `!self & rhs` -> `!rhs & self`", False, sub1("!self & rhs", "!rhs & self", 0)),
  ("N31 vec2 andnot: `!self & rhs` -> `self & !rhs`", False, sub1("!self & rhs", "self & !rhs", 1)),
  ("N32 rotate_words_right: arm 1 lane order (3,0,1,2) -> (1,2,3,0)", False, sub1("1 => $X4(self.3, self.0, self.1, self.2),", "1 => $X4(self.1, self.2, self.3, self.0),")),
  ("N33 rotate_words_right: `match i & 3` -> `match i & 1`", False, sub1("match i & 3 {", "match i & 1 {")),
  ("N34 rotate_words_right: arms 2 and 3 exchange their patterns", False, both(sub1("2 => $X4(self.2,", "9 => $X4(self.2,"), sub1("3 => $X4(self.1,", "2 => $X4(self.1,"), sub1("9 => $X4(self.2,", "3 => $X4(self.2,"))),
  ("N35 splat_rotate_right: lane 3 shifts self.2", False, sub1("(self.3 >> i) | (self.3 << (BITS - i))", "(self.2 >> i) | (self.3 << (BITS - i))")),
  ("N36 splat_rotate_right: `BITS - i` -> `i` in lane 0", False, sub1("(self.0 << (BITS - i))", "(self.0 << i)")),
  ("N37 vec4 replace: references to fields 0 and 1 exchanged", False, sub1("[&mut self.0, &mut self.1,", "[&mut self.1, &mut self.0,")),
  ("N38 vec4 extract: lane list reversed", False, sub1("let xs = [self.0, self.1, self.2, self.3];\n                xs[i]", "let xs = [self.3, self.2, self.1, self.0];\n                xs[i]")),
  ("N39 vec2 extract: index `i as usize` -> `(i ^ 1) as usize`", False, sub1("x[i as usize]", "x[(i ^ 1) as usize]")),
  ("N40 u32x4x4 bitxor_assign: `self.1 ^ rhs.1` -> `self.1 ^ rhs.0`", False, sub1("self.1 = self.1 ^ rhs.1;", "self.1 = self.1 ^ rhs.0;")),
  ("N41 u32x4x4 add_assign: part 2 uses `^`", False, sub1("self.2 = self.2 + rhs.2;", "self.2 = self.2 ^ rhs.2;")),
  ("N42 u32x4x4 into_parts: parts 0 and 1 exchanged", False, sub1("(self.0, self.1, self.2, self.3)\n", "(self.1, self.0, self.2, self.3)\n")),
  ("N43 u32x4x4 from: `u32x4x4(a, b, c, d)` -> `(a, b, d, c)`", False, sub1("u32x4x4(a, b, c, d)", "u32x4x4(a, b, d, c)")),
  ("N44 u32x4x4 rotate_words_right: part 3 is the rotated part 2", False, sub1("self.3.rotate_words_right(i),", "self.2.rotate_words_right(i),")),
  ("N45 u32x4x4 splat_rotate_right: part 0 calls rotate_words_right", False, sub1("self.0.splat_rotate_right(i),", "self.0.rotate_words_right(i),")),
  ("N46 vec2 zipmap: second lane pairs self.1 with rhs.0", False, sub1("$X2(f(self.0, rhs.0), f(self.1, rhs.1))", "$X2(f(self.0, rhs.0), f(self.1, rhs.0))")),
  ("N47 vec4 zipmap: operands of f exchanged in lane 3 (matters for non-commutative f)", False, sub1("f(self.3, rhs.3),\n                )\n            }\n            #[inline(always)]\n            pub fn rotate_right", "f(rhs.3, self.3),\n                )\n            }\n            #[inline(always)]\n            pub fn rotate_right")),
  ("N48 vec2 BitOr uses `&` in lane 1", False, sub1("$X2(self.0 | rhs.0, self.1 | rhs.1)", "$X2(self.0 | rhs.0, self.1 & rhs.1)")),
  ("N49 vec1 Not: `!self.0` -> `self.0`", False, sub1("$X1(!self.0)", "$X1(self.0)")),
  ("N50 vec4 splat: lane 3 is zero", False, sub1("$X4(x, x, x, x)", "$X4(x, x, x, 0)")),
  ("N51 inventory: a new public method", False, sub1("            pub fn into_inner(self) -> $word {", "            pub fn low_bit(self) -> $word {\n                self.0 & 1\n            }\n            #[inline(always)]\n            pub fn into_inner(self) -> $word {")),
  ("N52 inventory: `impl BitOr for $X2` removed", False, lambda s: s[:s.index("        impl BitOr for $X2 {")] + s[s.index("    };\n}\n\nmacro_rules! zipmap_impl"):]),
  ("N53 inventory: private `swap` made public", False, sub1("            fn swap(self, m: u128, i: u32) -> Self {", "            pub fn swap(self, m: u128, i: u32) -> Self {")),
  ("N54 struct shape: u128x2 gets a third field", False, sub1("pub struct $X2($word, $word);", "pub struct $X2($word, $word, $word);")),
  ("N55 outside the language (`if`), loud", False, sub1("                $X4(x, x, x, x)", "                if x == 0 { $X4(x, x, x, x) } else { $X4(x, x, x, x) }")),
  ("N56 outside the language (`unsafe` transmute), loud", False, sub1("        (self.0, self.1, self.2, self.3)\n", "        unsafe { core::mem::transmute(self) }\n")),
  ("N57 vec1 rotate_right: `i as u32` -> `(i >> 1) as u32`", False, sub1("self.0 = self.0.rotate_right(i as u32);", "self.0 = self.0.rotate_right((i >> 1) as u32);")),
  ("N58 swap64: operands of `|` exchanged — equal in value, but the order of the two overflow checks changes (conservative)", False, sub1("$X1(self.0 << 64 | self.0 >> 64)", "$X1(self.0 >> 64 | self.0 << 64)")),
  ("N59 vec2 xor_store: the two stores exchanged (order of the bounds checks: conservative)", False, sub1("xs[0] ^= self.0;\n                xs[1] ^= self.1;", "xs[1] ^= self.1;\n                xs[0] ^= self.0;")),
  ("N60 u128x1 BitXorAssign: `^=` -> `|=`", False, sub1("self.0 ^= rhs.0;", "self.0 |= rhs.0;")),
  ("N61 an impl under #[cfg(debug_assertions)] (conditional compilation of an item: loud)", False, sub1("impl AddAssign for u32x4x4 {", "#[cfg(debug_assertions)]\nimpl AddAssign for u32x4x4 {")),
  ("N62 a statement under #[cfg(debug_assertions)] inside a body (loud)", False, sub1("                xs[0] = self.0;\n", "                #[cfg(debug_assertions)]\n                xs[0] = self.0;\n")),
  ("N63 a further instantiation `define_vec4!(u16x4, u16)`", False, sub1("define_vec4!(u64x4, u64);", "define_vec4!(u64x4, u64);\ndefine_vec4!(u16x4, u16);")),
  ("N64 u128x1: hand-written Clone that is not the identity (derive dropped)", False, both(sub1("#[derive(Copy, Clone)]\n        pub struct $X1($word);", "#[derive(Copy)]\n        pub struct $X1($word);"), sub1("        impl AddAssign for $X1 {", "        impl Clone for $X1 {\n            fn clone(&self) -> Self {\n                $X1(!self.0)\n            }\n        }\n        impl AddAssign for $X1 {"))),
  # ------------------------------------------------------------------ harmless
  ("P01 vec2 extract: local renamed", True, sub1("let x = [self.0, self.1];\n                x[i as usize]", "let lanes = [self.0, self.1];\n                lanes[i as usize]")),
  ("P02 swap: temporaries for the two halves (same evaluation order)", True, sub1(VEC1_SWAP, "let lo = (self.0 & m) >> i;\n                let hi = ((self.0) << i) & m;\n                $X1(lo | hi)")),
  ("P03 literals written differently (case, underscores, suffix, decimal)", True, both(sub1("0xaaaa_aaaa_aaaa_aaaa_aaaa_aaaa_aaaa_aaaa, 1)", "0xAAAAAAAA_AAAAAAAA_AAAAAAAA_AAAAAAAAu128, 0x1u32)"), sub1("ff00_ff00, 8)", "ff00_ff00, 0b1000)"), sub1("self.0 >> 64", "self.0 >> 0x40"))),
  ("P04 u32x4x4 bitxor_assign: independent statements reordered", True, sub1("        self.0 = self.0 ^ rhs.0;\n        self.1 = self.1 ^ rhs.1;\n        self.2 = self.2 ^ rhs.2;\n        self.3 = self.3 ^ rhs.3;", "        self.3 = self.3 ^ rhs.3;\n        self.1 = self.1 ^ rhs.1;\n        self.0 = self.0 ^ rhs.0;\n        self.2 = self.2 ^ rhs.2;")),
  ("P05 comments, attributes, formatting", True, both(sub1("#[inline(always)]\n            pub fn swap1(self) -> Self {\n                self.swap(", "#[inline] /* was always */\n            pub fn swap1(self)->Self{ // bit pairs\n                self . swap (\n                    "), sub1("use crypto_simd::*;", "use crypto_simd::{RotateWordsRight, SplatRotateRight};"))),
  ("P06 vec2 rotate_right: closure parameter renamed, block body", True, sub1("self.map(|x| $word::rotate_right(x, i as u32))", "self.map(|w| { $word::rotate_right(w, i as u32) })")),
  ("P07 vec2 rotate_right: method-call syntax inside the closure, amount hoisted", True, sub1("*self = self.map(|x| $word::rotate_right(x, i as u32));", "let n = i as u32;\n                *self = self.map(|x| x.rotate_right(n));")),
  ("P08 u128x1 add_assign: whole value assigned", True, sub1("self.0 = self.0.wrapping_add(rhs.0);", "*self = $X1(self.0.wrapping_add(rhs.0));")),
  ("P09 #[cfg(test)] module with clashing names", True, lambda s: s + "\n#[cfg(test)]\nmod tests {\n    use super::*;\n    pub struct u32x4(u8);\n    impl u32x4 { pub fn splat(x: u8) -> Self { u32x4(x + 1) } }\n    #[test]\n    fn t() { assert_eq!(1, 1); }\n}\n"),
  ("P10 zipmap_impl!: the 4-argument form written as the 5-argument form", True, sub1("zipmap_impl!($X4, $word, BitXor, bitxor);", "zipmap_impl!($X4, $word, BitXor, bitxor, bitxor);")),
  ("P11 vec4 extract: array literal indexed directly", True, sub1("let xs = [self.0, self.1, self.2, self.3];\n                xs[i]", "[self.0, self.1, self.2, self.3][i]")),
  ("P12 vec2 zipmap: temporaries", True, sub1("$X2(f(self.0, rhs.0), f(self.1, rhs.1))", "let a = f(self.0, rhs.0);\n                let b = f(self.1, rhs.1);\n                $X2(a, b)")),
  ("P13 methods and macro invocations reordered (u32x4x4: splat before from; the four define_vec*! lines reversed)", True, both(
      lambda s: s.replace("    #[inline(always)]\n    pub fn from((a, b, c, d): (u32x4, u32x4, u32x4, u32x4)) -> Self {\n        u32x4x4(a, b, c, d)\n    }\n    #[inline(always)]\n    pub fn splat(a: u32x4) -> Self {\n        u32x4x4(a, a, a, a)\n    }\n",
                          "    #[inline(always)]\n    pub fn splat(a: u32x4) -> Self {\n        u32x4x4(a, a, a, a)\n    }\n    #[inline(always)]\n    pub fn from((a, b, c, d): (u32x4, u32x4, u32x4, u32x4)) -> Self {\n        u32x4x4(a, b, c, d)\n    }\n"),
      lambda s: s.replace("define_vec4!(u32x4, u32);\ndefine_vec4!(u64x4, u64);\ndefine_vec1!(u128x1, u128);\ndefine_vec2!(u128x2, u128);", "define_vec2!(u128x2, u128);\ndefine_vec1!(u128x1, u128);\ndefine_vec4!(u64x4, u64);\ndefine_vec4!(u32x4, u32);"))),
  ("P14 vec4 splat_rotate_right: lanes through temporaries in the same order", True, sub1("                $X4(\n                    (self.0 >> i) | (self.0 << (BITS - i)),\n                    (self.1 >> i) | (self.1 << (BITS - i)),", "                let l0 = (self.0 >> i) | (self.0 << (BITS - i));\n                let l1 = (self.1 >> i) | (self.1 << (BITS - i));\n                $X4(\n                    l0,\n                    l1,")),
  ("P15 u32x4x4 add_assign through `+=`-free helper locals and `Self`", True, sub1("        self.0 = self.0 + rhs.0;\n        self.1 = self.1 + rhs.1;", "        let r0 = rhs.0;\n        self.0 = self.0 + r0;\n        let s1 = self.1;\n        self.1 = s1 + rhs.1;")),
  ("P16 vec1 andnot: via a temporary for `!self`", True, sub1("!self & rhs", "let n = !self;\n                n & rhs", 0)),
]


def run(cmd, **kw):
    return subprocess.run(cmd, stdout=subprocess.PIPE, stderr=subprocess.STDOUT, universal_newlines=True, **kw)


def selected(cid, o):
    return cid.startswith(o[:-1]) if o.endswith("*") else cid == o


def main():
    only = sys.argv[1:]
    base = N.render_lean(N.null_inventory("/repo"))
    src = open(os.path.join("/repo", REL)).read()
    results = []
    try:
        for cid, harmless, mut in CASES:
            if only and not any(selected(cid.split()[0], o) for o in only):
                continue
            shutil.rmtree(ROOT, ignore_errors=True)
            os.makedirs(os.path.dirname(os.path.join(ROOT, REL)))
            s2 = mut(src)
            assert s2 != src, cid
            open(os.path.join(ROOT, REL), "w").write(s2)
            inv = N.null_inventory(ROOT)
            text = N.render_lean(inv)
            nerr = len(inv["errors"])
            t0 = time.time()
            if harmless:
                good = text == base
                print("%-11s %s | translator errors: %d | generated file %s" % (
                    "as expected" if good else "UNEXPECTED", cid, nerr, "byte-identical" if text == base else "CHANGED"))
            else:
                changed = text != base
                N.null_regenerate(ROOT)
                b = run(["lake", "build", "CC.Null.Src"], cwd=K + "/lean")
                failed = b.returncode != 0
                errs = [l for l in b.stdout.splitlines() if l.startswith("error:")]
                good = changed and failed
                print("%-11s %s | translator errors: %d | generated file %s | lake build CC.Null.Src: %s (%.1fs) | %s" % (
                    "as expected" if good else "UNEXPECTED", cid, nerr, "changed" if changed else "UNCHANGED",
                    "FAILED" if failed else "OK", time.time() - t0, (inv["errors"][0] if nerr else errs[0] if errs else "")[:170]))
            sys.stdout.flush()
            results.append((cid, good, harmless))
    finally:
        shutil.rmtree(ROOT, ignore_errors=True)
        N.null_regenerate("/repo")
        b = run(["lake", "build", "CC.Null.Src"], cwd=K + "/lean")
        print("restored from /repo; lake build CC.Null.Src: %s" % ("OK" if b.returncode == 0 else "FAILED"))
    nb = [r for r in results if not r[2]]
    nh = [r for r in results if r[2]]
    print("%s: %d/%d breaking edits fail the build, %d/%d harmless rewrites regenerate a byte-identical file" % (
        "ALL AS EXPECTED" if all(r[1] for r in results) and b.returncode == 0 else "SOME UNEXPECTED",
        sum(r[1] for r in nb), len(nb), sum(r[1] for r in nh), len(nh)))
    return 0 if all(r[1] for r in results) and b.returncode == 0 else 1


sys.exit(main())
