#!/usr/bin/env python3
"""tools/inventory_footprint_selftest.py — negative / positive tests of tools/inventory_footprint.py (not a registered
check): applies source edits to a scratch copy of the modelled crates (under /tmp, removed afterwards), regenerates
lean/CC/Gen/FootprintSrc.lean from the scratch tree and
  * for a BREAKING edit (N..) builds CC.Mem.SrcFootprint and checks that the build FAILS (the failing obligations are named),
  * for a HARMLESS edit (P..) checks that the regenerated file is byte-identical.
The generated file is restored from /repo at the end.

    python3 tools/inventory_footprint_selftest.py [case-id-prefix ...]"""
import os, re, shutil, subprocess, sys, tempfile
_HERE = os.path.dirname(os.path.abspath(__file__))
sys.path.insert(0, _HERE)
import inventory_footprint as F

LEAN = os.path.join(os.path.dirname(_HERE), "lean")
MOD = "CC.Mem.SrcFootprint"
MODFILE = os.path.join(LEAN, "CC", "Mem", "SrcFootprint.lean")
REPO = os.environ.get("CC_REPO", "/repo")


def sub1(old, new, nth=None):
    def f(s):
        if old not in s:
            raise SystemExit("selftest: pattern not found: %r" % old)
        if nth is None:
            if s.count(old) != 1:
                raise SystemExit("selftest: pattern occurs %d times: %r" % (s.count(old), old))
            return s.replace(old, new)
        parts = s.split(old)
        if nth + 1 >= len(parts):
            raise SystemExit("selftest: pattern occurs only %d times (nth=%d): %r" % (len(parts) - 1, nth, old))
        return old.join(parts[:nth + 1]) + new + old.join(parts[nth + 1:])
    return f


def chain(*fs):
    def f(s):
        for g in fs:
            s = g(s)
        return s
    return f


def in_fn(marker, edit):
    """apply `edit` to the text from `marker` (unique) to the end of the brace block that follows it"""
    def f(s):
        if s.count(marker) != 1:
            raise SystemExit("selftest: marker occurs %d times: %r" % (s.count(marker), marker))
        a = s.index(marker)
        b = s.index("{", a)
        d, j = 0, b
        while True:
            d += {"{": 1, "}": -1}.get(s[j], 0)
            j += 1
            if d == 0:
                break
        return s[:a] + edit(s[a:j]) + s[j:]
    return f


GC = "hashes/groestl/src/compressor.rs"
GL = "hashes/groestl/src/lib.rs"
JC = "hashes/jh/src/compressor.rs"
SS = "utils-simd/ppv-lite86/src/x86_64/sse2.rs"
SO = "utils-simd/ppv-lite86/src/soft.rs"
GE = "utils-simd/ppv-lite86/src/generic.rs"
TY = "utils-simd/ppv-lite86/src/types.rs"

X2RLE = "impl<W: StoreBytes + BSwap + Copy, G> StoreBytes for x2<W, G> {"
X4 = "impl<W: StoreBytes + BSwap + Copy> StoreBytes for x4<W> {"

CASES = [
    # ---- Grøstl compressor.rs
    ("N01 groestl tf512_impl: `data.offset(3)` -> `data.offset(4)` (one vector past the block)", False, GC, sub1("let d3 = _mm_loadu_si128(data.offset(3));", "let d3 = _mm_loadu_si128(data.offset(4));")),
    ("N02 groestl tf512_impl: `_mm_loadu_si128(data)` -> `_mm_load_si128(data)` (aligned load)", False, GC, sub1("let d0 = _mm_loadu_si128(data);", "let d0 = _mm_load_si128(data);")),
    ("N03 groestl tf512_impl: a fifth load `data.offset(4)`", False, GC, sub1("    let d3 = _mm_loadu_si128(data.offset(3));\n", "    let d3 = _mm_loadu_si128(data.offset(3));\n    let _d4 = _mm_loadu_si128(data.offset(4));\n")),
    ("N04 groestl tf1024_impl: `data.offset(7)` -> `data.add(8)`", False, GC, sub1("_mm_loadu_si128(data.offset(7)),", "_mm_loadu_si128(data.add(8)),")),
    ("N05 groestl tf1024_impl: software pipelining — the next block's first vector is loaded (`data.add(8)`)", False, GC, sub1("    let q = transpose(p);\n    *cv = *cv ^ rounds_p(*cv ^ q);", "    let _next = _mm_loadu_si128(data.add(8));\n    let q = transpose(p);\n    *cv = *cv ^ rounds_p(*cv ^ q);")),
    ("N06 groestl tf1024_impl: prefetch loop `for i in 0..=8` (one load too many in the last iteration)", False, GC, sub1("    let q = transpose(p);\n    *cv = *cv ^ rounds_p(*cv ^ q);", "    for i in 0..=8 {\n        let _ = _mm_loadu_si128(data.add(i));\n    }\n    let q = transpose(p);\n    *cv = *cv ^ rounds_p(*cv ^ q);")),
    ("N07 groestl tf1024_impl: `while` loop over the vectors (loud: not in the language)", False, GC, sub1("    let q = transpose(p);\n    *cv = *cv ^ rounds_p(*cv ^ q);", "    let mut i = 0;\n    while i < 9 {\n        let _ = _mm_loadu_si128(data.add(i));\n        i += 1;\n    }\n    let q = transpose(p);\n    *cv = *cv ^ rounds_p(*cv ^ q);")),
    ("N08 groestl tf1024_impl: third load reads offset 1 again (`lddqu(data.offset(1))`)", False, GC, sub1("_mm_loadu_si128(data.offset(2)),", "_mm_lddqu_si128(data.offset(1)),")),
    ("N09 groestl tf512_impl: second load dropped (`d1 = d0`)", False, GC, sub1("let d1 = _mm_loadu_si128(data.offset(1));", "let d1 = d0;")),
    ("N10 groestl autodetect::tf512: shifted pointer `data.as_ptr().add(1)`", False, GC, sub1("unsafe { IMPL(cv, data.as_ptr()) }", "unsafe { IMPL(cv, data.as_ptr().add(1)) }", nth=0)),
    ("N11 groestl autodetect::tf1024 takes a 64-byte array", False, GC, sub1("pub fn tf1024(cv: &mut X8, data: &GenericArray<u8, U128>)", "pub fn tf1024(cv: &mut X8, data: &GenericArray<u8, U64>)")),
    ("N12 groestl sse2::tf512 runs tf1024_impl on the 64-byte block", False, GC, sub1("        tf512_impl(cv, data)\n", "        tf1024_impl(core::mem::transmute(cv), data)\n", nth=2)),
    ("N13 groestl tf512_impl: first vector through a plain dereference `*data`", False, GC, sub1("let d0 = _mm_loadu_si128(data);", "let d0 = *data;")),
    ("N14 groestl tf1024_impl: non-temporal aligned load for vector 3", False, GC, sub1("_mm_loadu_si128(data.offset(3)),", "_mm_stream_load_si128(data.offset(3) as *mut __m128i),")),
    ("N15 groestl lib.rs Compressor512::input hands on half of the block", False, GL, sub1("        tf512(&mut self.cv, data);", "        tf512(&mut self.cv, GenericArray::from_slice(&data[..32]));")),
    # ---- JH compressor.rs
    ("N16 jh f8_impl: `data.offset(3)` -> `data.offset(4)` after the rounds", False, JC, sub1("y.7 ^= ptr::read_unaligned(data.offset(3));", "y.7 ^= ptr::read_unaligned(data.offset(4));")),
    ("N17 jh f8_impl: `ptr::read_unaligned(data)` -> `ptr::read(data)`", False, JC, sub1("y.0 ^= ptr::read_unaligned(data);", "y.0 ^= ptr::read(data);")),
    ("N18 jh f8_impl: the last message xor dropped (7 loads)", False, JC, sub1("        y.7 ^= ptr::read_unaligned(data.offset(3));\n", "")),
    ("N19 jh f8_impl: data cast to *const M::u128x2 (32-byte stride)", False, JC, sub1("let data = data as *const M::u128x1;", "let data = data as *const M::u128x2;")),
    ("N20 jh Compressor::input: passes a shifted pointer", False, JC, sub1("f8(&mut self.cv, data.as_ptr())", "f8(&mut self.cv, unsafe { data.as_ptr().add(1) })")),
    ("N21 jh f8 wrapper: hands `data.add(16)` to f8_impl", False, JC, sub1("        f8_impl(mach, state, data);\n", "        f8_impl(mach, state, unsafe { data.add(16) });\n")),
    ("N22 jh Compressor::input takes a 32-byte array", False, JC, sub1("pub fn input(&mut self, data: &GenericArray<u8, U64>)", "pub fn input(&mut self, data: &GenericArray<u8, U32>)")),
    ("N23 jh f8_impl: a load inside the round loop (loud)", False, JC, sub1("    for rc in E8_BITSLICE_ROUNDCONSTANT.chunks_exact(7) {\n", "    for rc in E8_BITSLICE_ROUNDCONSTANT.chunks_exact(7) {\n        let _p = unsafe { ptr::read_unaligned(data) };\n")),
    ("N24 jh f8_impl: `*data.offset(2)` instead of read_unaligned", False, JC, sub1("y.2 ^= ptr::read_unaligned(data.offset(2));", "y.2 ^= *data.offset(2);")),
    ("N25 jh f8_impl: second group reads offset 2 twice (offset(3) -> offset(2))", False, JC, sub1("y.7 ^= ptr::read_unaligned(data.offset(3));", "y.7 ^= ptr::read_unaligned(data.offset(2));")),
    # ---- ppv-lite86 x86_64/sse2.rs
    ("N26 sse2 def_vec unsafe_read_le: the length assert dropped", False, SS, sub1("                assert_eq!(input.len(), 16);\n", "", nth=0)),
    ("N27 sse2 def_vec write_le: `_mm_storeu_si128` -> `_mm_store_si128`", False, SS, sub1("unsafe { _mm_storeu_si128(out.as_mut_ptr() as *mut _, self.x) }", "unsafe { _mm_store_si128(out.as_mut_ptr() as *mut _, self.x) }")),
    ("N28 sse2 def_vec unsafe_read_be: `_mm_loadu_si128` -> `_mm_load_si128`", False, SS, sub1("Self::new(_mm_loadu_si128(input.as_ptr() as *const _)).bswap()", "Self::new(_mm_load_si128(input.as_ptr() as *const _)).bswap()")),
    ("N29 sse2 def_vec unsafe_read_le: asserts 8 bytes, loads 16", False, SS, sub1("                assert_eq!(input.len(), 16);\n", "                assert_eq!(input.len(), 8);\n", nth=0)),
    ("N30 sse2 def_vec write_be: `assert_eq!(out.len(), 16)` -> `assert!(out.len() <= 16)`", False, SS, sub1("                assert_eq!(out.len(), 16);\n                let x = self.bswap().x;", "                assert!(out.len() <= 16);\n                let x = self.bswap().x;")),
    ("N31 sse2 avx2 unsafe_read_le: asserts 16 bytes, loads 32", False, SS, sub1("assert_eq!(input.len(), 32);", "assert_eq!(input.len(), 16);")),
    ("N32 sse2 avx2 write_le: `_mm256_storeu_si256` -> `_mm256_store_si256`", False, SS, sub1("_mm256_storeu_si256(out.as_mut_ptr() as *mut _, self.x)", "_mm256_store_si256(out.as_mut_ptr() as *mut _, self.x)")),
    ("N33 sse2 avx2 unsafe_read_le: loads from `input.as_ptr().add(1)`", False, SS, sub1("Self::new(_mm256_loadu_si256(input.as_ptr() as *const _))", "Self::new(_mm256_loadu_si256(input.as_ptr().add(1) as *const _))")),
    ("N34 sse2 avx2 unsafe_read_be: its own load without the length assert", False, SS, sub1("Self::unsafe_read_le(input).bswap()", "Self::new(_mm256_loadu_si256(input.as_ptr() as *const _)).bswap()")),
    ("N35 sse2 def_vec unsafe_read_le: the assert moved behind the load", False, SS, sub1("                assert_eq!(input.len(), 16);\n                Self::new(_mm_loadu_si128(input.as_ptr() as *const _))\n", "                let v = Self::new(_mm_loadu_si128(input.as_ptr() as *const _));\n                assert_eq!(input.len(), 16);\n                v\n")),
    ("N36 sse2 def_vec write_le: `copy_nonoverlapping(.., 32)` for the 16-byte vector", False, SS, sub1("unsafe { _mm_storeu_si128(out.as_mut_ptr() as *mut _, self.x) }", "unsafe { core::ptr::copy_nonoverlapping(&self.x as *const _ as *const u8, out.as_mut_ptr(), 32) }")),
    ("N37 sse2 avx2 write_be: stores 32 bytes directly, without the length assert of write_le", False, SS, sub1("self.bswap().write_le(out)", "unsafe { _mm256_storeu_si256(out.as_mut_ptr() as *mut _, self.bswap().x) }")),
    # ---- soft.rs forwarders
    ("N38 soft x2 unsafe_read_le: split at len/2 + 1", False, SO, sub1("        let input = input.split_at(input.len() / 2);\n        x2::new([W::unsafe_read_le(input.0)", "        let input = input.split_at(input.len() / 2 + 1);\n        x2::new([W::unsafe_read_le(input.0)")),
    ("N39 soft x2 write_be: both halves written to out.0", False, SO, sub1("        self.0[1].write_be(out.1);", "        self.0[1].write_be(out.0);")),
    ("N40 soft x4 unsafe_read_le: third piece `[n * 2..n * 4]`", False, SO, sub1("W::unsafe_read_le(&input[n * 2..n * 3]),", "W::unsafe_read_le(&input[n * 2..n * 4]),")),
    ("N41 soft x4 unsafe_read_be: `n = len / 2`", False, SO, in_fn("unsafe fn unsafe_read_be(input: &[u8]) -> Self {\n        let n", sub1("let n = input.len() / 4;", "let n = input.len() / 2;"))),
    ("N42 soft x2 unsafe_read_le: unchecked sub-slices (loud)", False, SO, sub1("        let input = input.split_at(input.len() / 2);\n        x2::new([W::unsafe_read_le(input.0)", "        let input = (input.get_unchecked(..input.len() / 2), input.get_unchecked(input.len() / 2..));\n        x2::new([W::unsafe_read_le(input.0)")),
    ("N43 soft x4 write_le: last piece `[n * 3..n * 4]` instead of `[n * 3..]`", False, SO, sub1("self.0[3].write_le(&mut out[n * 3..]);", "self.0[3].write_le(&mut out[n * 3..n * 4]);")),
    ("N44 soft x4 write_be: the second piece dropped", False, SO, sub1("        self.0[1].write_be(&mut out[n..n * 2]);\n", "")),
    # ---- generic.rs (zerocopy)
    ("N45 generic u32x4 unsafe_read_le: `.unwrap()` replaced by a default (loud)", False, GE, sub1("let x = u32x4_generic::read_from_bytes(input).unwrap();\n        dmap(x, |x| x.to_le())", "let x = u32x4_generic::read_from_bytes(input).unwrap_or(u32x4_generic([0; 4]));\n        dmap(x, |x| x.to_le())")),
    ("N46 generic u64x2 write_le: `write_to` -> `write_to_prefix` (loud)", False, GE, sub1("let x = qmap(self, |x| x.to_le());\n        x.write_to(out).unwrap();", "let x = qmap(self, |x| x.to_le());\n        x.write_to_prefix(out).unwrap();")),
    ("N47 generic u32x4 unsafe_read_be: reads the first 16 bytes of any longer slice", False, GE, sub1("let x = u32x4_generic::read_from_bytes(input).unwrap();\n        dmap(x, |x| x.to_be())", "let x = u32x4_generic::read_from_bytes(&input[..16]).unwrap();\n        dmap(x, |x| x.to_be())")),
    ("N48 generic u64x2_generic grows to `[u64; 4]`: 32 bytes read from / written to the slice", False, GE, sub1("    pub struct u64x2_generic([u64; 2]);", "    pub struct u64x2_generic([u64; 4]);")),
    # ---- types.rs
    ("N49 types Machine::read_le: skips the first byte", False, TY, sub1("V::unsafe_read_le(input)", "V::unsafe_read_le(&input[1..])")),
    # ---- a new raw-memory function nobody accounts for
    ("N50 jh compressor.rs: a new pub fn that reads 8 bytes behind a byte slice without a guard", False, JC, lambda s: s + "\npub fn peek(data: &[u8]) -> u64 {\n    unsafe { ptr::read_unaligned(data.as_ptr() as *const u64) }\n}\n"),

    # ---- harmless
    ("P01 jh f8_impl: loads hoisted into locals, reordered, `offset(1)` -> `add(1)`", True, JC, sub1("        y.0 ^= ptr::read_unaligned(data);\n        y.1 ^= ptr::read_unaligned(data.offset(1));\n        y.2 ^= ptr::read_unaligned(data.offset(2));\n        y.3 ^= ptr::read_unaligned(data.offset(3));\n    }\n    for", "        let m3 = ptr::read_unaligned(data.offset(3));\n        let m0 = ptr::read_unaligned(data);\n        y.3 ^= m3;\n        y.1 ^= ptr::read_unaligned(data.add(1));\n        y.0 ^= m0;\n        y.2 ^= ptr::read_unaligned(data.offset(2));\n    }\n    for")),
    ("P02 jh f8_impl: the typed pointer renamed (data -> blk)", True, JC, in_fn("pub fn f8_impl<M: Machine>", lambda s: s.replace("let data = data as *const M::u128x1;", "let blk = data as *const M::u128x1;").replace("read_unaligned(data", "read_unaligned(blk"))),
    ("P03 groestl tf512_impl: loads reordered, `offset(2)` -> `add(2)`, comment", True, GC, sub1("    let d0 = _mm_loadu_si128(data);\n    let d1 = _mm_loadu_si128(data.offset(1));\n    let d2 = _mm_loadu_si128(data.offset(2));\n    let d3 = _mm_loadu_si128(data.offset(3));\n", "    let d3 = _mm_loadu_si128(data.offset(3)); // last first\n    let d2 = _mm_loadu_si128(data.add(2));\n    let d0 = _mm_loadu_si128(data);\n    let d1 = _mm_loadu_si128(data.offset(1));\n")),
    ("P04 groestl tf1024_impl: a temporary pointer `data.offset(6).add(1)`", True, GC, sub1("        _mm_loadu_si128(data.offset(7)),\n", "        {\n            let q7 = data.offset(6);\n            _mm_loadu_si128(q7.add(1))\n        },\n")),
    ("P05 groestl tf512_impl: an unrelated constant loop without memory access added", True, GC, sub1("    let d3 = _mm_loadu_si128(data.offset(3));\n", "    let d3 = _mm_loadu_si128(data.offset(3));\n    for _i in 0..4 {\n        let _ = _mm_setzero_si128();\n    }\n")),
    ("P06 sse2 def_vec unsafe_read_le: typed temporary pointer", True, SS, sub1("                assert_eq!(input.len(), 16);\n                Self::new(_mm_loadu_si128(input.as_ptr() as *const _))\n", "                assert_eq!(input.len(), 16);\n                let p = input.as_ptr() as *const __m128i;\n                Self::new(_mm_loadu_si128(p))\n")),
    ("P07 sse2 def_vec write_be: local renamed", True, SS, sub1("                let x = self.bswap().x;\n                unsafe {\n                    _mm_storeu_si128(out.as_mut_ptr() as *mut _, x);", "                let swapped = self.bswap().x;\n                unsafe {\n                    _mm_storeu_si128(out.as_mut_ptr() as *mut _, swapped);")),
    ("P08 sse2 avx2 write_le: the assert outside the unsafe block", True, SS, sub1("            unsafe {\n                assert_eq!(out.len(), 32);\n                _mm256_storeu_si256(out.as_mut_ptr() as *mut _, self.x)\n            }", "            assert_eq!(out.len(), 32);\n            unsafe { _mm256_storeu_si256(out.as_mut_ptr() as *mut _, self.x) }")),
    ("P09 soft x2 unsafe_read_le: the pair renamed", True, SO, sub1("        let input = input.split_at(input.len() / 2);\n        x2::new([W::unsafe_read_le(input.0), W::unsafe_read_le(input.1)])", "        let halves = input.split_at(input.len() / 2);\n        x2::new([W::unsafe_read_le(halves.0), W::unsafe_read_le(halves.1)])")),
    ("P10 soft x4 write_le: extra temporary for the length", True, SO, in_fn("fn write_le(self, out: &mut [u8]) {\n        let n", sub1("let n = out.len() / 4;", "let total = out.len();\n        let n = total / 4;"))),
    ("P11 generic u32x4 unsafe_read_le: local renamed, debug_assert added", True, GE, sub1("let x = u32x4_generic::read_from_bytes(input).unwrap();\n        dmap(x, |x| x.to_le())", "debug_assert!(input.len() == 16);\n        let v = u32x4_generic::read_from_bytes(input).unwrap();\n        dmap(v, |w| w.to_le())")),
    ("P12 groestl compressor.rs: raw forms in comments, strings and a cfg(test) module", True, GC, lambda s: s.replace("unsafe fn init512_impl", "// _mm_load_si128(data)\n/* ptr::read(data.offset(9)) */\n\n\nunsafe fn init512_impl", 1) + "\n#[cfg(test)]\nmod more_tests {\n    #[test]\n    fn t() { unsafe { let p = [0u8; 16].as_ptr(); let _ = core::ptr::read(p.add(3)); } }\n}\n"),
    ("P13 jh Compressor::input: pointer taken in a let", True, JC, sub1("        f8(&mut self.cv, data.as_ptr())", "        let p = data.as_ptr();\n        f8(&mut self.cv, p)")),
]


def failing_decls(log):
    """names of the declarations of CC/Mem/SrcFootprint.lean in which the build log reports errors"""
    src = open(MODFILE, encoding="utf-8").read().split("\n")
    names = []
    for m in re.finditer(r"error: CC/Mem/SrcFootprint\.lean:(\d+):", log):
        ln = int(m.group(1))
        for k in range(min(ln, len(src)) - 1, -1, -1):
            mm = re.match(r"(?:private )?(?:theorem|def|example)\s*([\w.']*)", src[k])
            if mm:
                nm = mm.group(1) or "example"
                if nm not in names:
                    names.append(nm)
                break
    return names


def run(cases):
    scratch = tempfile.mkdtemp(prefix="footprint_selftest_")
    out = F.DEFAULT_OUT
    base = F.render_lean(F.footprint_inventory(REPO))
    bad = []
    try:
        for cid, harmless, rel, edit in cases:
            for d in F.MODELLED_DIRS:
                dst = os.path.join(scratch, d)
                shutil.rmtree(dst, ignore_errors=True)
                shutil.copytree(os.path.join(REPO, d), dst)
            path = os.path.join(scratch, rel)
            src = open(path, encoding="utf-8").read()
            new = edit(src)
            if new == src:
                raise SystemExit("selftest: edit of %s changes nothing" % cid)
            open(path, "w", encoding="utf-8").write(new)
            text = F.render_lean(F.footprint_inventory(scratch))
            if harmless:
                ok = text == base
                print("%-4s %s  %s" % ("ok" if ok else "FAIL", cid, "" if ok else "(generated file changed)"))
            else:
                if text == base:
                    ok = False
                    print("FAIL %s  (generated file unchanged)" % cid)
                else:
                    open(out, "w", encoding="utf-8").write(text)
                    r = subprocess.run(["lake", "build", MOD], cwd=LEAN, stdout=subprocess.PIPE, stderr=subprocess.STDOUT)
                    ok = r.returncode != 0
                    log = r.stdout.decode("utf-8", "replace")
                    what = ", ".join(failing_decls(log)) or ("generated file does not compile" if "FootprintSrc.lean" in log else "?")
                    print("%-4s %s  %s" % ("ok" if ok else "FAIL", cid, "(build fails: %s)" % what if ok else "(build still succeeds)"))
            if not ok:
                bad.append(cid)
            sys.stdout.flush()
    finally:
        shutil.rmtree(scratch, ignore_errors=True)
        open(out, "w", encoding="utf-8").write(base)
        subprocess.run(["lake", "build", MOD], cwd=LEAN, stdout=subprocess.PIPE, stderr=subprocess.STDOUT)
    nb = sum(1 for c in cases if not c[1])
    print("%d cases (%d breaking, %d harmless): %d failed %s" % (len(cases), nb, len(cases) - nb, len(bad), bad if bad else ""))
    return 1 if bad else 0


if __name__ == "__main__":
    sel = sys.argv[1:]
    cs = [c for c in CASES if not sel or any(c[0].startswith(p) for p in sel)]
    sys.exit(run(cs))
