"""C08 — incremental hashing is invariant under chunking, cloning and reset.

Correspondence generator: random op histories over several live slots for each of the 15 hash types
(BLAKE-224/256/384/512, Groestl-224/256/384/512, JH-224/256/384/512, Skein-256/512/1024<N> for
several N).  Pieces of length 0, 1, b-1, b, b+1, 2b, 3b+1, "fill the buffer exactly" and (Skein)
"exactly one full block pending"; clone mid-buffer to another slot, then diverge; reset; finreset then
reuse; non-destructive fin at random points.  The runner compares every output line of the real code
with the model's.

`extra` additionally checks the property itself on the real code: the generator tracks each slot's
byte history ("bytes absorbed since the last reset", inherited at the clone point) and, at random
`fin`s, replays that history in ONE update on a scratch slot; both digests must be equal.
"""
import os
import cclib
import gens
from gens import hx, struct_bytes, pat_bytes

# (protocol prefix, argument of `new`, block size in bytes, lazy buffer?)
BLAKE = [("blake", "224", 64, False), ("blake", "256", 64, False),
         ("blake", "384", 128, False), ("blake", "512", 128, False)]
GROESTL = [("groestl", "224", 64, False), ("groestl", "256", 64, False),
           ("groestl", "384", 128, False), ("groestl", "512", 128, False)]
JH = [("jh", "224", 64, False), ("jh", "256", 64, False), ("jh", "384", 64, False), ("jh", "512", 64, False)]
SKEIN_SIZES = [("256", 32), ("512", 64), ("1024", 128)]
SKEIN_N_QUICK = [32, 64, 1, 200]
SKEIN_N_THOROUGH = [32, 64, 1, 200, 33, 1000]

NSLOTS = 4
SCRATCH = 9


def types_for(tier):
    ns = SKEIN_N_QUICK if tier == "quick" else SKEIN_N_THOROUGH
    sk = [("skein", "%s-%d" % (size, n), b, True) for size, b in SKEIN_SIZES for n in ns]
    return BLAKE + GROESTL + JH + sk


def buffered(total, b, lazy):
    """number of bytes sitting in the block buffer after absorbing `total` bytes"""
    if lazy:
        return 0 if total == 0 else total - b * ((total - 1) // b)
    return total % b


class Hist:
    """one op history over NSLOTS live slots of one hash type"""

    def __init__(self, rng, ty, ops, stats, checks):
        self.rng = rng
        self.fam, self.arg, self.b, self.lazy = ty
        self.ops = ops
        self.stats = stats
        self.checks = checks
        self.bytes = {}          # slot -> bytearray: bytes absorbed since the last reset
        self.seed = rng.below(1 << 20)

    def emit(self, s):
        self.ops.append("%s %s" % (self.fam, s))
        return len(self.ops) - 1

    def count(self, k, n=1):
        self.stats[k] = self.stats.get(k, 0) + n

    def new(self, slot):
        self.emit("new %d %s" % (slot, self.arg))
        self.bytes[slot] = bytearray()

    def piece_len(self, slot):
        b = self.b
        have = buffered(len(self.bytes[slot]), b, self.lazy)
        k = self.rng.below(12)
        if k == 0:
            self.count("piece_0"); return 0
        if k == 1:
            self.count("piece_1"); return 1
        if k == 2:
            self.count("piece_b-1"); return b - 1
        if k == 3:
            self.count("piece_b"); return b
        if k == 4:
            self.count("piece_b+1"); return b + 1
        if k == 5:
            self.count("piece_2b"); return 2 * b
        if k == 6:
            self.count("piece_3b+1"); return 3 * b + 1
        if k in (7, 8):
            # fill the buffer exactly: eager -> the block is flushed, pos = 0;
            # lazy -> exactly one full block pending
            self.count("piece_fill_exact" if not self.lazy else "piece_one_full_block_pending")
            return (b - have) if have < b else b
        if k == 9:
            # one byte short of / one byte past the block boundary
            self.count("piece_fill_pm1")
            return max(0, b - have + self.rng.choice([-1, 1]))
        self.count("piece_random")
        return self.rng.below(2 * b + 2)

    def update(self, slot, n=None):
        if n is None:
            n = self.piece_len(slot)
        if n <= 160 and self.rng.below(3) == 0:
            data = struct_bytes(self.rng, n)
            self.emit("update %d %s" % (slot, hx(data)))
        else:
            self.seed += 1
            data = bytes(pat_bytes(self.seed, n))
            self.emit("updpat %d %d %d" % (slot, n, self.seed))
        self.bytes[slot] += data
        self.count("updates")
        have = buffered(len(self.bytes[slot]), self.b, self.lazy)
        if self.lazy and have == self.b:
            self.count("state_full_block_pending")
        if not self.lazy and have == 0 and n > 0:
            self.count("state_flushed_exactly")

    def fin(self, slot, replay_p=4):
        i = self.emit("fin %d" % slot)
        self.count("fin")
        if self.rng.below(replay_p) == 0:
            # the property itself: the slot's byte history in one piece on a scratch slot
            self.emit("new %d %s" % (SCRATCH, self.arg))
            self.emit("update %d %s" % (SCRATCH, hx(bytes(self.bytes[slot]))))
            j = self.emit("fin %d" % SCRATCH)
            self.checks.append((i, j))
            self.count("oneshot_replays")
        return i

    def finreset(self, slot):
        # `finreset` = in-place finalize_into_dirty + reset (FixedOutput::finalize_fixed_reset /
        # finalize_into_reset); `finreset2` = digest 0.9's Digest::finalize_reset (finalizes a clone)
        i = self.emit("%s %d" % ("finreset" if self.rng.below(3) else "finreset2", slot))
        # must equal a non-destructive fin of a one-shot replay
        if self.rng.below(3) == 0:
            self.emit("new %d %s" % (SCRATCH, self.arg))
            self.emit("update %d %s" % (SCRATCH, hx(bytes(self.bytes[slot]))))
            j = self.emit("fin %d" % SCRATCH)
            self.checks.append((i, j))
            self.count("oneshot_replays")
        self.bytes[slot] = bytearray()
        self.count("finreset")

    def reset(self, slot):
        self.emit("reset %d" % slot)
        self.bytes[slot] = bytearray()
        self.count("reset")

    def clone(self, a, b):
        self.emit("clone %d %d" % (a, b))
        self.bytes[b] = bytearray(self.bytes[a])
        self.count("clone")
        have = buffered(len(self.bytes[a]), self.b, self.lazy)
        if 0 < have < self.b:
            self.count("clone_mid_buffer")

    def run(self, base, nsteps):
        rng = self.rng
        slots = [base + i for i in range(NSLOTS)]
        for s in slots:
            self.new(s)
        for _ in range(nsteps):
            s = rng.choice(slots)
            k = rng.below(20)
            if k < 9:
                self.update(s)
            elif k < 12:
                # clone (preferably mid-buffer) to another slot, then diverge
                if buffered(len(self.bytes[s]), self.b, self.lazy) in (0, self.b) and rng.below(3) != 0:
                    self.update(s, 1 + rng.below(self.b - 1))
                t = rng.choice([x for x in slots if x != s])
                self.clone(s, t)
                self.update(s)
                self.update(t)
                a = self.fin(s)
                c = self.fin(t)
                if bytes(self.bytes[s]) == bytes(self.bytes[t]):
                    self.checks.append((a, c))
            elif k < 14:
                self.reset(s)
                if rng.below(2) == 0:
                    a = self.fin(s, 1000000)      # digest of the empty message
                    self.count("fin_after_reset")
            elif k < 17:
                self.finreset(s)
                # reuse; sometimes finalize the EMPTY message in place first (a reset that is skipped
                # "because nothing was absorbed" shows only then)
                if rng.below(4) == 0:
                    self.finreset(s)
                    self.count("finreset_of_empty")
                if rng.below(4) != 0:
                    self.update(s)
                    self.fin(s)
                self.count("reuse_after_finreset")
            else:
                self.fin(s)
                if rng.below(3) == 0:
                    # a finalised copy must not disturb the original
                    self.update(s)
                    self.fin(s)
        for s in slots:
            self.fin(s, 2)
        # two slots with equal byte histories give equal digests
        self.reset(slots[0])
        data_len = rng.choice([0, 1, self.b - 1, self.b, self.b + 1, 2 * self.b, 3 * self.b + 1])
        data = bytes(pat_bytes(self.seed + 77, data_len))
        self.reset(slots[1])
        self.emit("update %d %s" % (slots[0], hx(data)))
        self.bytes[slots[0]] += data
        cut = rng.below(data_len + 1)
        self.emit("update %d %s" % (slots[1], hx(data[:cut])))
        self.emit("update %d %s" % (slots[1], hx(data[cut:])))
        self.bytes[slots[1]] += data
        a = self.emit("fin %d" % slots[0])
        c = self.emit("%s %d" % ("finreset" if self.rng.below(2) else "finreset2", slots[1]))
        self.bytes[slots[1]] = bytearray()
        self.checks.append((a, c))


def build(rng, tier, cfg):
    ops, stats, checks = [], {}, []
    tys = types_for(tier)
    total = 200 if tier == "quick" else 5000
    per = max(1, (total + len(tys) - 1) // len(tys))
    stats["types"] = len(tys)
    stats["histories"] = 0
    for ty in tys:
        for _ in range(per):
            h = Hist(rng, ty, ops, stats, checks)
            h.run(0, 6 + rng.below(14))
            stats["histories"] += 1
    stats["ops"] = len(ops)
    stats["equalities"] = len(checks)
    return ops, stats, checks


def gen_C08(rng, tier, cfg):
    ops, stats, _ = build(rng, tier, cfg)
    return ops, stats


def extra_C08(pid, tier, seed):
    """the property on the real code: per-slot digests equal the one-shot digest of the slot's own
    byte history (chunking / clone independence / reset), checked on the implementation output."""
    cov = {"equalities_checked": 0, "cfgs": []}
    violations = []
    evaluations = 0
    # chunking invariance on the real code at a size no model run reaches: ONE update call with more than
    # 2^31 bytes vs the same bytes in 1 MiB calls (digest and counter), one variant per family per run
    import props as _props
    for fam in ("blake", "skein", "jh", "groestl"):
        ev = _props._single_extra(fam)(pid, "quick", seed)
        violations += ev["violations"]
        evaluations += ev["evaluations"]
        cov["single_update_jobs"] = cov.get("single_update_jobs", 0) + ev["coverage"]["single_update_jobs"]
    for cfg in (["std-release"] if tier == "quick" else ["std-release", "std-debug"]):
        bok, binp, hlog = cclib.harness_build(cfg)
        if not bok:
            continue
        rng = cclib.XorShift(seed * 7919 + 8 + sum(map(ord, cfg)))
        ops, stats, checks = build(rng, "quick", cfg)
        header = ["cfg profile " + cclib.profile_of(cfg)]
        impl, _ = cclib.run_lines(binp, header + ops)
        if impl is None:
            rp = cclib.write_replay(pid, seed, "extra-timeout-" + cfg, "# cfg=%s\n# implementation timed out\n" % cfg)
            violations.append(("timeout (extra)", rp, True))
            continue
        evaluations += len(ops)
        off = len(header)
        for (i, j) in checks:
            cov["equalities_checked"] += 1
            if impl[off + i] != impl[off + j] or impl[off + i] in ("panic", "bad-op", "err", "ok"):
                lo = 0
                body = "# cfg=%s\n# property=%s seed=%d: digests differ for equal byte histories\n# line %d: %s -> %s\n# line %d: %s -> %s\n" % (
                    cfg, pid, seed, i, ops[i], impl[off + i][:200], j, ops[j], impl[off + j][:200])
                body += "\n".join(ops[lo:max(i, j) + 1]) + "\n"
                rp = cclib.write_replay(pid, seed, "invariance-" + cfg, body)
                violations.append(("incremental hashing not invariant (implementation)", rp, False))
                break
        cov["cfgs"].append(cfg)
    return {"coverage": cov, "violations": violations, "known": [], "evaluations": evaluations}


THEOREMS = [
    # generic (all hashes built on BlockBuffer)
    "stateOf_bytes_eager", "stateOf_bytes_lazy", "chunking_eager", "chunking_lazy",
    "chunking_digest_eager", "chunking_digest_lazy", "reset_eq_init", "resetKeep_view", "finreset_eq",
    "history_refines_eager", "history_refines_lazy", "clone_independent", "clone_independent_eager",
    "clone_independent_lazy", "clone_indistinguishable", "instance_chunking", "instance_history_refines",
    "instance_clone_independent",
    # models with `Out`-valued operations (all 15)
    "out_instance_chunking", "out_instance_digest", "out_instance_history_refines",
    "out_instance_clone_independent",
    # the 15 concrete hashes
    "jh_machine_ops", "jh_digest", "chunking_jh", "history_refines_jh", "clone_independent_jh",
    "groestl_machine_ops", "chunking_groestl", "history_refines_groestl", "clone_independent_groestl",
    "blake_machine_ops", "blake_digest", "chunking_blake", "history_refines_blake",
    "clone_independent_blake", "chunking_blake_variants",
    "skein_machine_ops", "skein_digest", "chunking_skein", "history_refines_skein",
    "clone_independent_skein", "chunking_skein_variants",
    # source tie: block-buffer / block-padding / digest / cipher as regenerated from the pinned crate sources
    "source_blockbuffer_match", "source_traits_match",
]

PROP = dict(
    theorems=THEOREMS,
    gen=gen_C08,
    extra=extra_C08,
    cfgs_quick=["std-debug", "std-release"],
    cfgs_thorough=["std-debug", "std-release", "nosimd-debug", "nosimd-release"],
    trusted_extra=[
        "tools/inventory_blockbuffer.py (translator for block-buffer / block-padding / digest / cipher as pinned in /repo/Cargo.lock and "
        "found in the cargo registry): its reading table (Rust form -> Lean term, printed in the header of "
        "lean/CC/Gen/BlockBufferSrc.lean), the prelude combinators chunksExact / chunksExactRem / forChunks / whileLoop, "
        "`#[cfg(feature = \"block-padding\")]` read as enabled, method resolution through trait bounds, `Clone` = copy; "
        "the struct invariant buf.length = b, pos <= b, 0 < b < 2^64 assumed in the obligations (8 <= b / 16 <= b for the length paddings)"],
)
