#!/usr/bin/env python3
"""tools/inventory_null.py — source-to-Lean TRANSLATOR for the crate `ppv-null` (utils-simd/ppv-null/src/lib.rs).

    null_regenerate(repo)      (CLI: python3 tools/inventory_null.py [--repo DIR] [--out FILE | --print])

On every run it lexes the Rust file (lexer / expression parser of tools/inventory_kernels*.py; comments ignored,
`#[cfg(test)]` items dropped), expands the file-level `macro_rules!` invocations (`define_vec1!`, `define_vec2!`,
`define_vec4!`, `zipmap_impl!` — every arm, nested invocations, with the arguments of each instantiation substituted),
and evaluates EVERY public and private method / trait-impl method of every resulting type symbolically.  The result is
written to lean/CC/Gen/NullSrc.lean: one definition per (type, method), an inventory of the items, the struct shapes
and the translation errors.  lean/CC/Null/Src.lean states, per definition, that the hand-written model definition
(`CC.Null.<Type>.<method>`) EQUALS the regenerated one; `CC.Thm.C19.source_null_match` collects the obligations.

How a body is read (the TRUSTED table is printed in the header of the generated file):
  * pure dataflow (operators, casts, field projections, struct construction, calls of pure methods) is evaluated to
    hash-consed terms (`K.Dag`) and printed fully inlined, so renamed locals, extra temporaries, reordered independent
    statements, reformatting and differently written literals regenerate a byte-identical file;
  * everything that can PANIC is an effect step, kept in Rust's evaluation order: `debug_assert*!` (a guard in profile
    debug only — exactly what rustc compiles), `xs[i]` on a slice / array (a guard on the length in every profile),
    `<<` `>>` `-` `+` `*` on integers (overflow-checked in profile debug, masked / wrapping in release), `unreachable!()`,
    calls of methods that can panic;
  * closures and function paths handed to higher-order methods (`map`, `zipmap`) are inlined into the callee's body;
    other method calls stay calls of the regenerated definition of the callee;
  * `&mut self` / `&mut [T]` parameters are threaded: their final values are part of the result.
Anything else is a translation ERROR: the definition becomes a `String` with the reason and is listed in
`null_errors` (obligation `null_errors = []`).  Nothing is skipped silently.

Standard library only; deterministic (no line numbers, no timestamps).
"""
import os, sys

_HERE = os.path.dirname(os.path.abspath(__file__))
sys.path.insert(0, _HERE)
import inventory_kernels as K
import inventory_kernels_code as KC
from inventory_kernels import TErr, Tok, is_p, is_id, match_close

_LEAN = os.path.join(os.path.dirname(_HERE), "lean")
DEFAULT_OUT = os.path.join(_LEAN, "CC", "Gen", "NullSrc.lean")
NULL_LIB = "utils-simd/ppv-null/src/lib.rs"

INT_BITS = {"u8": 8, "u16": 16, "u32": 32, "u64": 64, "u128": 128}
LEAN_KEYWORDS = ("from", "at", "do", "then", "else", "end", "fun", "have", "show", "in", "let", "match", "with", "open",
                 "instance", "structure", "class", "def", "theorem", "where", "if", "for", "import", "namespace", "section")


# =========================================================================== parser: P2 + closures + `match`

class PN(KC.P2):
    def block(self):
        if not self.at_p("{"):
            raise TErr("`{` expected at `%s`" % self.ctx())
        e = match_close(self.t, self.i)
        q = PN(self.t, self.i + 1, e - 1)
        stmts, tail = q.block_body()
        self.i = e
        return ("block", stmts, tail)

    def primary(self):
        t = self.peek()
        if t is not None and t.k == "id" and t.s == "move" and (self.at_p("|", 1) or self.at_p("||", 1)):
            self.i += 1
            t = self.peek()
        if t is not None and t.k == "p" and t.s in ("|", "||"):
            params = []
            self.i += 1
            if t.s == "|":
                while not self.at_p("|"):
                    pat = self.pattern()
                    ty = None
                    if self.at_p(":"):
                        self.i += 1
                        ty = self.type_()
                    params.append((pat, ty))
                    if self.at_p(","):
                        self.i += 1
                self.eat_p("|")
            if self.at_p("->"):
                raise TErr("closure with a declared return type at `%s`" % self.ctx())
            return ("closure", params, self.expr())
        if t is not None and t.k == "id" and t.s == "match":
            return self.match_expr()
        return KC.P2.primary(self)

    def match_expr(self):
        self.eat_id("match")
        scrut = self.expr()
        if not self.at_p("{"):
            raise TErr("`{` expected after the match scrutinee at `%s`" % self.ctx())
        e = match_close(self.t, self.i)
        q = PN(self.t, self.i + 1, e - 1)
        self.i = e
        arms = []
        while not q.done():
            pats = []
            while True:
                t = q.peek()
                if t is not None and t.k == "int":
                    q.i += 1
                    pats.append(("plit", t.v, t.suf))
                elif q.at_id("_"):
                    q.i += 1
                    pats.append(("pwild",))
                else:
                    raise TErr("match pattern not understood at `%s` (integer literals and `_` only)" % q.ctx())
                if q.at_p("|"):
                    q.i += 1
                    continue
                break
            if q.at_id("if"):
                raise TErr("match guard is outside the language")
            q.eat_p("=>")
            if q.at_p("{"):
                body = q.block()
            else:
                body = q.expr()
            if q.at_p(","):
                q.i += 1
            arms.append((pats, body))
        return ("match", scrut, arms)


# =========================================================================== file-level macros (every arm)

class MacroRules(object):
    """`macro_rules! name { (pat) => { body }; ... }`: arms with comma-separated `$x:frag` parameters, selected by the
    number of arguments"""

    def __init__(self, name, toks):
        self.name, self.arms = name, []
        i = 0
        while i < len(toks):
            if is_p(toks[i], ";"):
                i += 1
                continue
            if not (toks[i].k == "p" and toks[i].s in K.OPEN):
                raise TErr("macro %s: arm not understood at `%s`" % (name, toks[i].s))
            e = match_close(toks, i)
            pat = toks[i + 1:e - 1]
            i = e
            if i >= len(toks) or not is_p(toks[i], "=>"):
                raise TErr("macro %s: `=>` expected" % name)
            i += 1
            e2 = match_close(toks, i)
            body = toks[i + 1:e2 - 1]
            i = e2
            params, j = [], 0
            while j < len(pat):
                if is_p(pat[j], "$") and j + 3 < len(pat) + 1 and is_id(pat[j + 1]) and is_p(pat[j + 2], ":") and is_id(pat[j + 3]):
                    params.append((pat[j + 1].s, pat[j + 3].s))
                    j += 4
                    if j < len(pat):
                        if not is_p(pat[j], ","):
                            raise TErr("macro %s: pattern not understood" % name)
                        j += 1
                else:
                    raise TErr("macro %s: pattern not understood at `%s`" % (name, pat[j].s))
            if any(len(p) == len(params) for p, _ in self.arms):
                raise TErr("macro %s: two arms with %d parameters (arm selection by fragment kind is outside the language)" % (name, len(params)))
            self.arms.append((params, body))

    def expand(self, args):
        for params, body in self.arms:
            if len(params) == len(args):
                break
        else:
            raise TErr("macro %s!: no arm takes %d arguments" % (self.name, len(args)))
        sub = {}
        for (n, frag), a in zip(params, args):
            if frag == "ident" and not (len(a) == 1 and a[0].k == "id"):
                raise TErr("macro %s!: argument for $%s:ident is not an identifier" % (self.name, n))
            if frag not in ("ident", "expr", "ty", "tt", "path", "literal"):
                raise TErr("macro %s: fragment kind `%s` is outside the language" % (self.name, frag))
            if frag == "expr" and len(a) > 1:
                a = [Tok("p", "(")] + list(a) + [Tok("p", ")")]
            sub[n] = list(a)
        out, i = [], 0
        while i < len(body):
            if is_p(body[i], "$") and i + 1 < len(body) and is_id(body[i + 1]):
                if body[i + 1].s not in sub:
                    raise TErr("macro %s: unbound metavariable $%s" % (self.name, body[i + 1].s))
                out.extend(sub[body[i + 1].s])
                i += 2
            elif is_p(body[i], "$"):
                raise TErr("macro %s: repetition `$(..)` is outside the language" % self.name)
            else:
                out.append(body[i])
                i += 1
        return out


def toks_text(toks):
    return " ".join(t.s for t in toks)


# =========================================================================== items

class FnDef(object):
    def __init__(self):
        self.name = None; self.vis = "priv"; self.generics = {}; self.params = []; self.ret = None
        self.body = None; self.owner = None; self.trait = None; self.origin = ""; self.assoc = {}
        self.sig_text = ""


class Crate(object):
    """the items of the file after macro expansion"""

    def __init__(self, src_text):
        toks = K.drop_cfg_test(K.lex(src_text))
        self.macros = {}
        self.structs = {}        # name -> (field types (parsed), derives [str], origin)
        self.fns = {}            # (owner, name) -> [FnDef]   (inherent + trait impls)
        self.order = []
        self.items = []          # inventory strings
        self._collect_macros(toks)
        self._items(toks, "")

    def _collect_macros(self, toks):
        i = 0
        while i < len(toks):
            if is_id(toks[i], "macro_rules") and i + 2 < len(toks) and is_p(toks[i + 1], "!") and is_id(toks[i + 2]):
                name = toks[i + 2].s
                e = match_close(toks, i + 3)
                if name in self.macros:
                    raise TErr("macro %s defined twice" % name)
                self.macros[name] = MacroRules(name, toks[i + 4:e - 1])
                i = e
            else:
                i += 1

    def _items(self, toks, origin, depth=0):
        if depth > 16:
            raise TErr("macro expansion too deep")
        i, n = 0, len(toks)
        attrs = []
        while i < n:
            t = toks[i]
            if is_p(t, ";"):
                i += 1
                continue
            if is_p(t, "#"):
                e = K.skip_attr(toks, i)
                attrs.append("".join(x.s for x in toks[i:e]))
                i = e
                continue
            if is_id(t, "macro_rules") and is_p(toks[i + 1], "!"):
                i = match_close(toks, i + 3)
                attrs = []
                continue
            if is_id(t, "use"):
                while not is_p(toks[i], ";"):
                    i += 1
                i += 1
                attrs = []
                continue
            if any(a.startswith("#[cfg") for a in attrs) and not is_id(t, "use"):
                raise TErr("conditional compilation (%s) of an item is outside the language" % [a for a in attrs if a.startswith("#[cfg")][0])
            if is_id(t) and i + 1 < n and is_p(toks[i + 1], "!") and t.s in self.macros:
                e = match_close(toks, i + 2)
                args = KC.split_args(toks[i + 3:e - 1])
                inv = "%s!(%s)" % (t.s, ", ".join("".join(x.s for x in a) for a in args))
                body = self.macros[t.s].expand(args)
                self._items(body, origin or inv, depth + 1)      # the outermost invocation names the instantiation
                i = e
                attrs = []
                continue
            vis = "priv"
            j = i
            if is_id(toks[j], "pub"):
                vis = "pub"
                j += 1
                if is_p(toks[j], "("):
                    j = match_close(toks, j)
            if is_id(toks[j], "struct"):
                i = self._struct(toks, j, attrs, origin, vis)
                attrs = []
                continue
            if is_id(toks[j], "impl") and vis == "priv":
                i = self._impl(toks, j, origin)
                attrs = []
                continue
            raise TErr("item not understood at `%s`" % toks_text(toks[i:i + 8]))

    def _struct(self, toks, j, attrs, origin, vis):
        name = toks[j + 1].s
        if not is_p(toks[j + 2], "("):
            raise TErr("struct %s is not a tuple struct" % name)
        e = match_close(toks, j + 2)
        fields = []
        for a in KC.split_args(toks[j + 3:e - 1]):
            if a and is_id(a[0], "pub"):
                a = a[1:]
            fields.append(PN(a).type_())
        if not is_p(toks[e], ";"):
            raise TErr("struct %s: `;` expected" % name)
        derives = []
        for a in attrs:
            if a.startswith("#[derive(") and a.endswith(")]"):
                derives += [x for x in a[len("#[derive("):-2].split(",") if x]
            elif a.startswith("#[repr") or a.startswith("#[cfg"):
                raise TErr("struct %s: attribute %s is outside the language" % (name, a))
        if name in self.structs:
            raise TErr("struct %s defined twice" % name)
        self.structs[name] = (fields, sorted(derives), origin)
        self.items.append("%s struct %s" % (vis, name))
        for d in sorted(derives):
            self.items.append("derive %s for %s" % (d, name))
        return e + 1

    def _impl(self, toks, j, origin):
        j += 1
        if is_p(toks[j], "<"):
            raise TErr("generic impl is outside the language")
        k = j
        while not is_p(toks[k], "{"):
            k += 1
        head = toks[j:k]
        trait = None
        fi = [x for x in range(len(head)) if is_id(head[x], "for")]
        if fi:
            trait = "".join(x.s for x in head[:fi[0]])
            owner_t = head[fi[0] + 1:]
        else:
            owner_t = head
        if len(owner_t) != 1 or owner_t[0].k != "id":
            raise TErr("impl target `%s` is outside the language" % toks_text(owner_t))
        owner = owner_t[0].s
        e = match_close(toks, k)
        body = toks[k + 1:e - 1]
        i, n = 0, len(body)
        assoc = {}
        fns = []
        fattrs = []
        while i < n:
            t = body[i]
            if is_p(t, ";"):
                i += 1
                continue
            if is_p(t, "#"):
                e2 = K.skip_attr(body, i)
                a = "".join(x.s for x in body[i:e2])
                if a.startswith("#[cfg"):
                    raise TErr("cfg attribute on a method of %s is outside the language" % owner)
                fattrs.append(a)
                i = e2
                continue
            if is_id(t, "type"):
                nm = body[i + 1].s
                if not is_p(body[i + 2], "="):
                    raise TErr("associated type %s::%s not understood" % (owner, nm))
                m = i + 3
                while not is_p(body[m], ";"):
                    m += 1
                assoc[nm] = PN(body[i + 3:m]).type_()
                i = m + 1
                continue
            vis = "priv"
            if is_id(t, "pub"):
                vis = "pub"
                i += 1
                if is_p(body[i], "("):
                    i = match_close(body, i)
            if is_id(body[i], "const") and is_id(body[i + 1], "fn"):
                i += 1
            if not is_id(body[i], "fn"):
                raise TErr("impl item of %s not understood at `%s`" % (owner, toks_text(body[i:i + 6])))
            f, i = self._fn(body, i, owner, trait, origin, vis)
            fns.append(f)
            fattrs = []
        for f in fns:
            f.assoc = assoc
            self.fns.setdefault((owner, f.name), []).append(f)
            self.order.append((owner, f.name, trait))
            self.items.append(("impl %s for %s :: %s" % (trait, owner, f.name)) if trait else "%s %s::%s" % (f.vis, owner, f.name))
        if trait and not fns:
            self.items.append("impl %s for %s (no methods)" % (trait, owner))
        return e

    def _fn(self, toks, i, owner, trait, origin, vis):
        f = FnDef()
        f.owner, f.trait, f.origin, f.vis = owner, trait, origin, vis
        f.name = toks[i + 1].s
        p = PN(toks, i + 2)
        gens = p.generics()
        if not p.at_p("("):
            raise TErr("fn %s::%s: `(` expected" % (owner, f.name))
        e = match_close(toks, p.i)
        f.params = self._params(toks[p.i + 1:e - 1], owner, f.name)
        sig_end = e
        p = PN(toks, e)
        f.ret = None
        if p.at_p("->"):
            p.i += 1
            f.ret = p.type_()
            sig_end = p.i
        bounds = {}
        for g, b in gens:
            if b:
                raise TErr("fn %s::%s: inline generic bound is outside the language" % (owner, f.name))
            bounds[g] = None
        if p.at_id("where"):
            p.i += 1
            while not p.at_p("{"):
                g = p.eat_id()
                p.eat_p(":")
                kind = p.eat_id()
                if g not in bounds or kind not in ("FnMut", "Fn", "FnOnce"):
                    raise TErr("fn %s::%s: where clause not understood" % (owner, f.name))
                p.eat_p("(")
                args = []
                while not p.at_p(")"):
                    args.append(p.type_())
                    if p.at_p(","):
                        p.i += 1
                p.eat_p(")")
                p.eat_p("->")
                r = p.type_()
                bounds[g] = ("fnty", args, r)
                if p.at_p(","):
                    p.i += 1
        for g in bounds:
            if bounds[g] is None:
                raise TErr("fn %s::%s: unconstrained generic parameter %s" % (owner, f.name, g))
        f.generics = bounds
        if not p.at_p("{"):
            raise TErr("fn %s::%s: body expected" % (owner, f.name))
        e2 = match_close(toks, p.i)
        f.body = PN(toks, p.i + 1, e2 - 1).block_body()
        f.sig_text = "fn " + "".join(_sp(x) for x in toks[i + 1:sig_end]).strip()
        return f, e2

    def _params(self, toks, owner, fname):
        out = []
        for a in KC.split_args(toks):
            s = [x.s for x in a]
            if s == ["self"]:
                out.append(("self", "val"))
            elif s == ["mut", "self"]:
                out.append(("self", "val"))
            elif s == ["&", "self"]:
                out.append(("self", "ref"))
            elif s == ["&", "mut", "self"]:
                out.append(("self", "refmut"))
            else:
                p = PN(a)
                pat = p.pattern()
                p.eat_p(":")
                ty = p.type_()
                if not p.done():
                    raise TErr("fn %s::%s: parameter not understood" % (owner, fname))
                out.append((pat, ty))
        return out


def _sp(t):
    if t.k == "p" and t.s in (",", ":", "->"):
        return {",": ", ", ":": ": ", "->": " -> "}[t.s]
    if t.k == "id" and t.s == "mut":
        return "mut "
    return t.s


# =========================================================================== types and values

T_BOOL, T_UNIT, T_USIZE, T_NEVER = ("bool",), ("unit",), ("usize",), ("never",)


def t_int(bits):
    return ("int", bits)


def lean_struct(name):
    return name[:1].upper() + name[1:]


def lean_ty(t, top=True):
    k = t[0]
    if k == "int":
        s = "BitVec %d" % t[1]
    elif k == "usize":
        s = "BitVec 64"
    elif k == "bool":
        return "Bool"
    elif k == "unit":
        return "Unit"
    elif k == "struct":
        return lean_struct(t[1])
    elif k == "list":
        s = "List %s" % lean_ty(t[1], False)
    elif k == "tuple":
        s = " × ".join(lean_ty(x, False) for x in t[1])
    elif k == "fn":
        s = " → ".join([lean_ty(x, False) for x in t[1]] + [lean_ty(t[2], False)])
    else:
        raise TErr("type %r has no Lean carrier" % (t,))
    return s if top else "(%s)" % s


def rust_ty(t):
    k = t[0]
    if k == "int":
        return "u%d" % t[1]
    if k == "struct":
        return t[1]
    if k == "list":
        return "[%s]" % rust_ty(t[1])
    if k == "tuple":
        return "(%s)" % ", ".join(rust_ty(x) for x in t[1])
    return k


class SV(object):
    """a struct value known field by field"""
    def __init__(self, ty, fields):
        self.ty, self.fields = ty, list(fields)


class TV(object):
    def __init__(self, items):
        self.items = list(items)


class AV(object):
    """an array literal `[a, b, ..]`"""
    def __init__(self, items, elty):
        self.items, self.elty = list(items), elty


class RefMut(object):
    def __init__(self, place, ty):
        self.place, self.ty = place, ty


class Closure(object):
    def __init__(self, params, body, env):
        self.params, self.body, self.env = params, body, env


class FnRef(object):
    def __init__(self, owner, name):
        self.owner, self.name = owner, name      # owner: type tuple


class ULit(object):
    """an integer literal whose type is not known yet"""
    def __init__(self, v):
        self.v = v


class Panic(object):
    def __init__(self, why):
        self.why = why


class Env(object):
    def __init__(self, parent=None):
        self.vars, self.parent = {}, parent

    def find(self, name):
        e = self
        while e is not None:
            if name in e.vars:
                return e
            e = e.parent
        return None

    def get(self, name):
        e = self.find(name)
        if e is None:
            raise TErr("unknown variable `%s`" % name)
        return e.vars[name]

    def set(self, name, v):
        e = self.find(name)
        if e is None:
            raise TErr("assignment to unknown variable `%s`" % name)
        e.vars[name] = v

    def define(self, name, v):
        self.vars[name] = v

    def snapshot(self):
        out, e = [], self
        while e is not None:
            out.append((e, dict(e.vars)))
            e = e.parent
        return out


OP_TRAITS = {"+": ("Add", "add"), "-": ("Sub", "sub"), "*": ("Mul", "mul"), "^": ("BitXor", "bitxor"),
             "&": ("BitAnd", "bitand"), "|": ("BitOr", "bitor"), "<<": ("Shl", "shl"), ">>": ("Shr", "shr")}
ASSIGN_TRAITS = {"+": ("AddAssign", "add_assign"), "-": ("SubAssign", "sub_assign"), "^": ("BitXorAssign", "bitxor_assign"),
                 "&": ("BitAndAssign", "bitand_assign"), "|": ("BitOrAssign", "bitor_assign")}
PURE_BIN = {"^": "xor", "&": "and", "|": "or"}
# scalar methods (receiver uN): name -> (arg types or None = same as receiver, op)
SCALAR_METHODS = {
    "wrapping_add": ("same", "add"), "wrapping_sub": ("same", "sub"), "wrapping_mul": ("same", "mul"),
    "bitxor": ("same", "xor"), "bitand": ("same", "and"), "bitor": ("same", "or"),
    "rotate_right": ("u32", "rotr"), "rotate_left": ("u32", "rotl"),
}
PROFILE_STEPS = ("dbgAssert", "shr", "shl", "subU32", "addChk", "subChk", "mulChk")


class Tr(object):
    """a translated definition"""
    def __init__(self):
        self.lean = None; self.params = []; self.needs_p = False; self.is_out = False; self.rty = None
        self.outs = []; self.has_ret = False; self.ret_ty = None; self.text = None; self.doc = ""; self.error = None


# =========================================================================== the evaluator

class Translator(object):
    def __init__(self, crate):
        self.c = crate
        self.dag = K.Dag()
        self.done = {}            # (owner, name) -> Tr
        self.busy = set()
        self.emitted = []         # Tr in dependency order
        self.consts = {}          # lean name -> (ty, value, doc)
        self.const_order = []
        self.errors = []
        self.uid = [0]

    # ---------------------------------------------------------------- nodes
    def leaf(self, name, ty):
        return self.dag.mk(("leaf", name, ty))

    def lit(self, v, ty):
        if ty[0] == "int" and not (0 <= v < (1 << ty[1])):
            raise TErr("literal %d out of range for u%d" % (v, ty[1]))
        if ty[0] == "usize" and not (0 <= v < (1 << 64)):
            raise TErr("literal %d out of range for usize" % v)
        return self.dag.mk(("lit", v, ty))

    def app(self, op, args, ty):
        return self.dag.mk(("app", op, tuple(args), ty))

    def key(self, n):
        return self.dag.nodes[n[1]]

    def nty(self, n):
        return self.key(n)[-1]

    def vty(self, v):
        if K.is_node(v):
            return self.nty(v)
        if isinstance(v, SV):
            return v.ty
        if isinstance(v, TV):
            return ("tuple", tuple(self.vty(x) for x in v.items)) if v.items else T_UNIT
        if isinstance(v, AV):
            return ("array", v.elty, len(v.items))
        if isinstance(v, RefMut):
            return ("refmut", v.ty)
        if isinstance(v, Panic):
            return T_NEVER
        if isinstance(v, ULit):
            return ("ulit",)
        return ("opaque",)

    def as_node(self, v):
        if K.is_node(v):
            return v
        if isinstance(v, SV):
            fs = [self.as_node(x) for x in v.fields]
            base = None
            for k, f in enumerate(fs):
                kk = self.key(f)
                if kk[0] == "app" and kk[1] == "proj" and kk[2][1] == k and self.nty(kk[2][0]) == v.ty:
                    if base is None:
                        base = kk[2][0]
                    if base == kk[2][0]:
                        continue
                base = False
                break
            if base:
                return base
            return self.app("mk", fs, v.ty)
        if isinstance(v, TV):
            fs = [self.as_node(x) for x in v.items]
            if not fs:
                return self.app("unit", [], T_UNIT)
            return self.app("tuple", fs, ("tuple", tuple(self.nty(x) for x in fs)))
        if isinstance(v, AV):
            fs = [self.as_node(x) for x in v.items]
            return self.app("list", fs, ("list", v.elty))
        if isinstance(v, ULit):
            raise TErr("integer literal %d whose type cannot be inferred" % v.v)
        raise TErr("value of kind %s cannot be used here" % type(v).__name__)

    def proj(self, v, k):
        if isinstance(v, SV):
            if k >= len(v.fields):
                raise TErr("field .%d of %s does not exist" % (k, v.ty[1]))
            return v.fields[k]
        if isinstance(v, TV):
            if k >= len(v.items):
                raise TErr("tuple field .%d does not exist" % k)
            return v.items[k]
        if not K.is_node(v):
            raise TErr("field access on a %s" % type(v).__name__)
        ty = self.nty(v)
        kk = self.key(v)
        if ty[0] == "struct":
            fts = self.struct_fields(ty[1])
            if k >= len(fts):
                raise TErr("field .%d of %s does not exist" % (k, ty[1]))
            if kk[0] == "app" and kk[1] == "mk":
                return kk[2][k]
            return self.app("proj", [v, k], fts[k])
        if ty[0] == "tuple":
            if k >= len(ty[1]):
                raise TErr("tuple field .%d does not exist" % k)
            if kk[0] == "app" and kk[1] == "tuple":
                return kk[2][k]
            return self.app("tproj", [v, k, len(ty[1])], ty[1][k])
        raise TErr("field access .%d on a value of type %s" % (k, rust_ty(ty)))

    def explode(self, v):
        if isinstance(v, (SV, TV)):
            return v
        ty = self.nty(v)
        if ty[0] == "struct":
            return SV(ty, [self.proj(v, k) for k in range(len(self.struct_fields(ty[1])))])
        if ty[0] == "tuple":
            return TV([self.proj(v, k) for k in range(len(ty[1]))])
        raise TErr("field assignment on a value of type %s" % rust_ty(ty))

    # ---------------------------------------------------------------- types
    def struct_fields(self, name):
        if name not in self.c.structs:
            raise TErr("unknown struct %s" % name)
        return [self.rtype(t, None, {}, {}) for t in self.c.structs[name][0]]

    def rtype(self, t, owner, assoc, generics):
        k = t[0]
        if k == "ref":
            inner = t[2]
            if inner[0] == "array" and inner[2] is None:
                return ("list", self.rtype(inner[1], owner, assoc, generics))
            return self.rtype(inner, owner, assoc, generics)
        if k == "tuple":
            if not t[1]:
                return T_UNIT
            return ("tuple", tuple(self.rtype(x, owner, assoc, generics) for x in t[1]))
        if k == "array":
            raise TErr("array type in a signature is outside the language")
        if k == "path":
            segs, args = t[1], t[2]
            if args:
                raise TErr("generic type `%s<..>` is outside the language" % "::".join(segs))
            if len(segs) == 1:
                s = segs[0]
                if s in INT_BITS:
                    return t_int(INT_BITS[s])
                if s == "usize":
                    return T_USIZE
                if s == "bool":
                    return T_BOOL
                if s == "Self":
                    if owner is None:
                        raise TErr("`Self` outside an impl")
                    return ("struct", owner)
                if s in generics:
                    g = generics[s]
                    return ("fn", tuple(self.rtype(x, owner, assoc, {}) for x in g[1]), self.rtype(g[2], owner, assoc, {}))
                if s in self.c.structs:
                    return ("struct", s)
                raise TErr("unknown type `%s`" % s)
            if len(segs) == 2 and segs[0] == "Self" and segs[1] in assoc:
                return self.rtype(assoc[segs[1]], owner, {}, generics)
            raise TErr("type path `%s` is outside the language" % "::".join(segs))
        raise TErr("type form %s is outside the language" % k)

    # ---------------------------------------------------------------- callee lookup / translation on demand
    def lookup(self, owner, name, trait=None):
        cands = self.c.fns.get((owner, name), [])
        if trait is not None:
            cands = [f for f in cands if f.trait == trait]
            if not cands:
                raise TErr("no `impl %s for %s`" % (trait, owner))
        if not cands:
            raise TErr("no method `%s` on %s" % (name, owner))
        inh = [f for f in cands if f.trait is None]
        if len(inh) == 1:
            return inh[0]
        if len(cands) != 1:
            raise TErr("method `%s` on %s is ambiguous (%d candidates)" % (name, owner, len(cands)))
        return cands[0]

    def lean_name(self, owner, name):
        return "%s.%s" % (lean_struct(owner), name + "_" if name in LEAN_KEYWORDS else name)

    def translated(self, f):
        key = (f.owner, f.name)
        if key in self.done:
            tr = self.done[key]
            if tr.error:
                raise TErr("callee %s::%s could not be translated" % key)
            return tr
        if key in self.busy:
            raise TErr("recursion through %s::%s" % key)
        tr = self.translate_fn(f)
        if tr.error:
            raise TErr("callee %s::%s could not be translated" % key)
        return tr


class Ev(object):
    """symbolic evaluation of one function body (callees with function-typed parameters are inlined into it)"""

    def __init__(self, T, fnid, counter=None, flags=None):
        self.T, self.fnid = T, fnid
        self.steps = []                  # (kind, args tuple, var node | None)
        self.counter = counter if counter is not None else [0]
        self.flags = flags if flags is not None else {"p": False}
        self.depth = 0

    def fork(self):
        e = Ev(self.T, self.fnid, self.counter, self.flags)
        e.depth = self.depth
        return e

    # ---------------------------------------------------------------- effect steps
    def step(self, kind, args, ty):
        if kind in PROFILE_STEPS:
            self.flags["p"] = True
        self.counter[0] += 1
        var = self.T.dag.mk(("ev", self.counter[0], self.fnid, ty))
        self.steps.append((kind, tuple(args), var))
        return var

    # ---------------------------------------------------------------- literals / coercion
    def coerce(self, v, ty, what="value"):
        T = self.T
        if isinstance(v, ULit):
            if ty is None or ty[0] not in ("int", "usize"):
                raise TErr("integer literal %d where a %s is expected" % (v.v, rust_ty(ty) if ty else "typed value"))
            return T.lit(v.v, ty)
        if isinstance(v, Panic) or ty is None:
            return v
        vt = T.vty(v)
        if vt != ty:
            raise TErr("%s has type %s, expected %s" % (what, rust_ty(vt), rust_ty(ty)))
        return v

    @staticmethod
    def literalish(e):
        while e[0] in ("paren",) or (e[0] == "un" and e[1] in ("!", "-")):
            e = e[1] if e[0] == "paren" else e[2]
        return e[0] == "int" and e[2] is None

    # ---------------------------------------------------------------- expressions
    def ev(self, e, env, cx, want=None):
        T = self.T
        k = e[0]
        if k == "int":
            if e[2] is not None:
                if e[2] == "usize":
                    return T.lit(e[1], T_USIZE)
                if e[2] not in INT_BITS:
                    raise TErr("literal suffix %s is outside the language" % e[2])
                return T.lit(e[1], t_int(INT_BITS[e[2]]))
            if want is not None and want[0] in ("int", "usize"):
                return T.lit(e[1], want)
            return ULit(e[1])
        if k == "paren":
            return self.ev(e[1], env, cx, want)
        if k == "path":
            return self.ev_path(e[1], env, cx)
        if k == "tfield":
            return T.proj(self.ev(e[1], env, cx), e[2])
        if k == "bin":
            return self.ev_bin(e, env, cx, want)
        if k == "un":
            return self.ev_un(e, env, cx, want)
        if k == "cast":
            return self.ev_cast(e, env, cx)
        if k == "call":
            return self.ev_call(e, env, cx, want)
        if k == "mcall":
            return self.ev_mcall(e, env, cx, want)
        if k == "index":
            return self.ev_index(e, env, cx)
        if k == "array":
            items = [self.ev(x, env, cx) for x in e[1]]
            elty = None
            for x in items:
                if not isinstance(x, ULit):
                    elty = T.vty(x)
                    break
            if elty is None:
                raise TErr("array literal whose element type cannot be inferred")
            if elty[0] != "refmut":
                items = [self.coerce(x, elty, "array element") for x in items]
            elif any(T.vty(x) != elty for x in items):
                raise TErr("array of references of different types")
            return AV(items, elty)
        if k == "tuple":
            wants = want[1] if want is not None and want[0] == "tuple" and len(want[1]) == len(e[1]) else [None] * len(e[1])
            return TV([self.ev(x, env, cx, w) for x, w in zip(e[1], wants)])
        if k == "addr":
            if e[1]:
                pl = self.place_of(e[2], env, cx)
                if pl[0] == "var":
                    return RefMut(pl, T.vty(self.read_place(pl, env)))
                raise TErr("`&mut` of this place is outside the language")
            return self.ev(e[2], env, cx, want)
        if k == "deref":
            v = self.ev(e[1], env, cx, want)
            if isinstance(v, RefMut):
                return self.read_place(v.place, env)
            return v
        if k == "closure":
            return Closure(e[1], e[2], env)
        if k == "macro":
            return self.ev_macro(e, env, cx)
        if k == "match":
            return self.ev_match(e, env, cx, want)
        if k == "block":
            return self.exec_block(e[1], e[2], Env(env), cx, want)
        raise TErr("expression form `%s` is outside the language" % k)

    def ev_path(self, segs, env, cx):
        T = self.T
        if len(segs) == 1:
            s = segs[0]
            if env.find(s) is not None:
                return env.get(s)
            raise TErr("unknown name `%s`" % s)
        if len(segs) == 2:
            ow = self.type_seg(segs[0], cx)
            return FnRef(ow, segs[1])
        raise TErr("path `%s` is outside the language" % "::".join(segs))

    def type_seg(self, s, cx):
        if s in INT_BITS:
            return t_int(INT_BITS[s])
        if s == "Self":
            return ("struct", cx["owner"])
        if s in self.T.c.structs:
            return ("struct", s)
        raise TErr("`%s::` is not a type of this crate" % s)

    def ev_un(self, e, env, cx, want):
        T = self.T
        op = e[1]
        v = self.ev(e[2], env, cx, want)
        if op == "-":
            raise TErr("unary minus is outside the language")
        if isinstance(v, ULit):
            raise TErr("`!` on an integer literal whose type cannot be inferred")
        ty = T.vty(v)
        if ty[0] == "int":
            return T.app("not", [v], ty)
        if ty == T_BOOL:
            return T.app("bnot", [v], ty)
        if ty[0] == "struct":
            return self.call_fn(T.lookup(ty[1], "not", "Not"), v, None, [], env, cx)
        raise TErr("`!` on a value of type %s" % rust_ty(ty))

    def ev_bin(self, e, env, cx, want):
        T = self.T
        op, ea, eb = e[1], e[2], e[3]
        if op in ("<<", ">>"):
            a = self.ev(ea, env, cx, want)
            b = self.ev(eb, env, cx, None)
            if isinstance(a, ULit):
                raise TErr("shift of an integer literal whose type cannot be inferred")
            ty = T.vty(a)
            if ty[0] != "int":
                if ty[0] == "struct":
                    raise TErr("no `impl %s` in this crate" % OP_TRAITS[op][0])
                raise TErr("shift of a value of type %s" % rust_ty(ty))
            if isinstance(b, ULit):
                if not (0 <= b.v < (1 << 31)):
                    raise TErr("shift count literal out of range")
                b = T.lit(b.v, t_int(32))          # `{integer}` defaults to i32; only its value matters
            if T.vty(b) != t_int(32):
                raise TErr("shift count of type %s is not in the reading table (u32 / literal only)" % rust_ty(T.vty(b)))
            return self.step("shl" if op == "<<" else "shr", [a, b], ty)
        cmp_ops = ("==", "!=", "<", "<=", ">", ">=")
        if op in ("&&", "||"):
            a = self.coerce(self.ev(ea, env, cx), T_BOOL)
            pre = len(self.steps)
            b = self.coerce(self.ev(eb, env, cx), T_BOOL)
            if len(self.steps) != pre:
                raise TErr("effects in the right operand of `%s` are outside the language" % op)
            return T.app("band" if op == "&&" else "bor", [a, b], T_BOOL)
        w = None if op in cmp_ops else want
        if self.literalish(ea) and not self.literalish(eb):
            b = self.ev(eb, env, cx, w)
            a = self.ev(ea, env, cx, T.vty(b) if not isinstance(b, ULit) else None)
        else:
            a = self.ev(ea, env, cx, w)
            b = self.ev(eb, env, cx, T.vty(a) if not isinstance(a, ULit) else None)
        if isinstance(a, ULit) and isinstance(b, ULit):
            raise TErr("arithmetic on integer literals whose type cannot be inferred")
        if isinstance(a, ULit):
            a = self.coerce(a, T.vty(b))
        if isinstance(b, ULit):
            b = self.coerce(b, T.vty(a))
        ta, tb = T.vty(a), T.vty(b)
        if op in cmp_ops:
            if ta != tb or ta[0] not in ("int", "usize", "bool"):
                raise TErr("comparison `%s` between %s and %s" % (op, rust_ty(ta), rust_ty(tb)))
            return T.app({"==": "eqb", "!=": "neb", "<": "lt", "<=": "le", ">": "gt", ">=": "ge"}[op], [a, b], T_BOOL)
        if ta[0] == "struct":
            if op not in OP_TRAITS:
                raise TErr("operator `%s` on %s" % (op, ta[1]))
            tr, m = OP_TRAITS[op]
            return self.call_fn(T.lookup(ta[1], m, tr), a, None, [b], env, cx)
        if ta[0] == "int":
            if tb != ta:
                raise TErr("operator `%s` between %s and %s" % (op, rust_ty(ta), rust_ty(tb)))
            if op in PURE_BIN:
                return T.app(PURE_BIN[op], [a, b], ta)
            if op == "-":
                return self.step("subU32" if ta == t_int(32) else "subChk", [a, b], ta)
            if op == "+":
                return self.step("addChk", [a, b], ta)
            if op == "*":
                return self.step("mulChk", [a, b], ta)
            raise TErr("operator `%s` on %s is not in the reading table" % (op, rust_ty(ta)))
        if ta == T_BOOL and tb == T_BOOL and op in ("&", "|", "^"):
            return T.app({"&": "band", "|": "bor", "^": "bxor"}[op], [a, b], T_BOOL)
        raise TErr("operator `%s` on a value of type %s is not in the reading table" % (op, rust_ty(ta)))

    def ev_cast(self, e, env, cx):
        T = self.T
        v = self.ev(e[1], env, cx)
        ty = T.rtype(e[2], cx["owner"], cx["assoc"], {})
        if isinstance(v, ULit):
            return self.coerce(v, ty)
        st = T.vty(v)
        if st[0] == "int" and ty[0] == "int":
            return T.app("setWidth", [v, ty[1]], ty)
        if st[0] == "int" and ty == T_USIZE:
            if st[1] > 64:
                raise TErr("`as usize` from u%d truncates: not in the reading table" % st[1])
            return T.app("toNat", [v], T_USIZE)
        if st == T_USIZE and ty[0] == "int":
            return T.app("ofNat", [v, ty[1]], ty)
        if st == ty:
            return v
        raise TErr("cast from %s to %s is not in the reading table" % (rust_ty(st), rust_ty(ty)))

    def scalar_method(self, name, recv, args, what):
        T = self.T
        ty = T.vty(recv)
        if name == "not" and not args:
            return T.app("not", [recv], ty)
        if name not in SCALAR_METHODS:
            raise TErr("%s: method `%s` on %s is not in the reading table" % (what, name, rust_ty(ty)))
        argty, op = SCALAR_METHODS[name]
        if len(args) != 1:
            raise TErr("%s: `%s` takes one argument" % (what, name))
        a = self.coerce(args[0], ty if argty == "same" else t_int(32), "argument of `%s`" % name)
        return T.app(op, [recv, a], ty)

    def ev_args(self, exprs, env, cx, wants=None):
        wants = wants or [None] * len(exprs)
        return [self.ev(x, env, cx, w) for x, w in zip(exprs, wants)]

    def ev_call(self, e, env, cx, want):
        T = self.T
        segs, argx = e[1], e[2]
        targs = e[3] if len(e) > 3 else []
        if len(segs) == 1:
            s = segs[0]
            if env.find(s) is not None:
                return self.apply(env.get(s), self.ev_args(argx, env, cx), cx)
            name = cx["owner"] if s == "Self" else s
            if name in T.c.structs:
                fts = T.struct_fields(name)
                if len(fts) != len(argx):
                    raise TErr("%s(..) with %d arguments, the struct has %d fields" % (name, len(argx), len(fts)))
                vals = [self.coerce(self.ev(x, env, cx, ft), ft, "field of %s" % name) for x, ft in zip(argx, fts)]
                return SV(("struct", name), vals)
            raise TErr("call of unknown function `%s`" % s)
        if targs or len(segs) != 2:
            raise TErr("call of `%s` is outside the language" % "::".join(segs))
        ow = self.type_seg(segs[0], cx)
        return self.apply(FnRef(ow, segs[1]), self.ev_args_for(ow, segs[1], argx, env, cx), cx)

    def ev_args_for(self, ow, name, argx, env, cx):
        """arguments of a path call `Ty::name(args)`, literals typed by the callee's parameter types where known"""
        T = self.T
        if ow[0] == "struct":
            f = T.lookup(ow[1], name)
            ptys = self.param_types(f)
            if len(ptys) == len(argx):
                return self.ev_args(argx, env, cx, ptys)
        return self.ev_args(argx, env, cx)

    def param_types(self, f):
        T = self.T
        out = []
        for pat, ty in f.params:
            if pat == "self":
                out.append(("struct", f.owner))
            else:
                out.append(T.rtype(ty, f.owner, f.assoc, f.generics))
        return out

    def apply(self, fv, args, cx):
        """call of a function VALUE (closure, function path, function-typed parameter)"""
        T = self.T
        if isinstance(fv, Closure):
            if len(args) != len(fv.params):
                raise TErr("closure called with %d arguments" % len(args))
            env = Env(fv.env)
            for (pat, ty), a in zip(fv.params, args):
                if ty is not None:
                    a = self.coerce(a, T.rtype(ty, cx["owner"], cx["assoc"], {}), "closure argument")
                self.bind(pat, a, env)
            snap = fv.env.snapshot()
            r = self.ev(fv.body, env, cx)
            self.check_unchanged(snap, "a closure body")
            return r
        if isinstance(fv, FnRef):
            if fv.owner[0] == "int":
                if not args:
                    raise TErr("`%s::%s` without a receiver" % (rust_ty(fv.owner), fv.name))
                recv = self.coerce(args[0], fv.owner, "receiver of `%s`" % fv.name)
                return self.scalar_method(fv.name, recv, args[1:], "u%d::%s" % (fv.owner[1], fv.name))
            f = T.lookup(fv.owner[1], fv.name)
            if f.params and f.params[0][0] == "self":
                return self.call_fn(f, args[0], None, args[1:], None, cx)
            return self.call_fn(f, None, None, args, None, cx)
        if K.is_node(fv) and T.nty(fv)[0] == "fn":
            fty = T.nty(fv)
            if len(fty[1]) != len(args):
                raise TErr("function parameter called with %d arguments" % len(args))
            a = [T.as_node(self.coerce(x, t, "argument")) for x, t in zip(args, fty[1])]
            return T.app("apply", [fv] + a, fty[2])
        raise TErr("call of a value that is not a function")

    def ev_mcall(self, e, env, cx, want):
        T = self.T
        recv_e, name, argx = e[1], e[2], e[3]
        if (len(e) > 4 and e[4]):
            raise TErr("turbofish method call is outside the language")
        recv = self.ev(recv_e, env, cx)
        if isinstance(recv, ULit):
            raise TErr("method `%s` on an integer literal" % name)
        if isinstance(recv, RefMut):
            raise TErr("method call on a `&mut` value is outside the language")
        ty = T.vty(recv)
        if ty[0] == "int":
            return self.scalar_method(name, recv, self.ev_args(argx, env, cx), "u%d" % ty[1])
        if ty[0] == "list":
            if name == "len" and not argx:
                return T.app("length", [T.as_node(recv)], T_USIZE)
            raise TErr("slice method `%s` is not in the reading table" % name)
        if ty[0] == "struct":
            if name == "clone" and not argx and not T.c.fns.get((ty[1], "clone")):
                if "Clone" not in T.c.structs[ty[1]][1]:
                    raise TErr("%s is not Clone" % ty[1])
                return recv
            f = T.lookup(ty[1], name)
            if not (f.params and f.params[0][0] == "self"):
                raise TErr("`%s::%s` is not a method" % (ty[1], name))
            ptys = self.param_types(f)[1:]
            wants = ptys if len(ptys) == len(argx) else None
            args = self.ev_args(argx, env, cx, wants)
            pl = None
            if f.params[0][1] == "refmut":
                pl = self.place_of(recv_e, env, cx)
            return self.call_fn(f, recv, pl, args, env, cx)
        raise TErr("method `%s` on a value of type %s" % (name, rust_ty(ty)))

    # ---------------------------------------------------------------- calls of methods of this crate
    def call_fn(self, f, recv, recv_place, args, env, cx):
        T = self.T
        nself = 1 if (f.params and f.params[0][0] == "self") else 0
        if len(args) != len(f.params) - nself:
            raise TErr("%s::%s called with %d arguments" % (f.owner, f.name, len(args)))
        if nself:
            recv = self.coerce(recv, ("struct", f.owner), "receiver of %s::%s" % (f.owner, f.name))
        ptys = self.param_types(f)[nself:]
        args = [a if isinstance(a, (Closure, FnRef)) else self.coerce(a, t, "argument of %s::%s" % (f.owner, f.name))
                for a, t in zip(args, ptys)]
        if f.generics:
            return self.inline(f, recv, args)
        tr = T.translated(f)
        vals = ([recv] if nself else []) + args
        nodes = [T.as_node(v) for v in vals]
        if tr.needs_p:
            self.flags["p"] = True
        if tr.is_out:
            r = self.step("call", [tr.lean, tr.needs_p] + nodes, tr.rty)
        else:
            r = T.app("call", [tr.lean, tr.needs_p] + nodes, tr.rty)
        parts = len(tr.outs) + (1 if tr.has_ret else 0)
        comps = [r] if parts == 1 else [T.proj(r, k) for k in range(parts)] if parts else []
        for k, pi in enumerate(tr.outs):
            if pi == 0 and nself:
                if recv_place is None:
                    raise TErr("`&mut self` method %s::%s on something that is not a place" % (f.owner, f.name))
                self.write_place(recv_place, comps[k], env, cx)
            else:
                raise TErr("call of %s::%s: `&mut` argument write-back is outside the language" % (f.owner, f.name))
        if tr.has_ret:
            return comps[-1]
        return TV([])

    def inline(self, f, recv, args):
        T = self.T
        if self.depth > 8:
            raise TErr("inlining too deep at %s::%s" % (f.owner, f.name))
        cx = {"owner": f.owner, "assoc": f.assoc, "f": f}
        env = Env()
        ai = 0
        for pat, ty in f.params:
            if pat == "self":
                if ty != "val":
                    raise TErr("inlined method %s::%s takes self by reference" % (f.owner, f.name))
                env.define("self", recv)
            else:
                if ty[0] == "ref" and ty[1]:
                    raise TErr("inlined method %s::%s has a `&mut` parameter" % (f.owner, f.name))
                self.bind(pat, args[ai], env)
                ai += 1
        self.depth += 1
        r = self.exec_block(f.body[0], f.body[1], env, cx, None)
        self.depth -= 1
        rty = T.rtype(f.ret, f.owner, f.assoc, f.generics) if f.ret is not None else T_UNIT
        return self.coerce(r, rty, "result of %s::%s" % (f.owner, f.name))

    # ---------------------------------------------------------------- indexing
    def index_value(self, ixe, env, cx):
        ix = self.ev(ixe, env, cx, T_USIZE)
        if isinstance(ix, ULit):
            ix = self.T.lit(ix.v, T_USIZE)
        if self.T.vty(ix) != T_USIZE:
            raise TErr("index of type %s (usize expected)" % rust_ty(self.T.vty(ix)))
        return ix

    def static_index(self, ix):
        k = self.T.key(ix)
        return k[1] if k[0] == "lit" else None

    def ev_index(self, e, env, cx):
        T = self.T
        base = self.ev(e[1], env, cx)
        ix = self.index_value(e[2], env, cx)
        if isinstance(base, AV):
            if base.elty[0] == "refmut":
                k = self.static_index(ix)
                if k is None:
                    raise TErr("a reference selected by a dynamic index can only be assigned through (`*xs[i] = v`)")
                if k >= len(base.items):
                    raise TErr("constant index %d out of range for an array of %d" % (k, len(base.items)))
                return base.items[k]
            k = self.static_index(ix)
            if k is not None:
                if k >= len(base.items):
                    raise TErr("constant index %d out of range for an array of %d (rustc rejects it)" % (k, len(base.items)))
                return base.items[k]
            return self.step("idx", [T.as_node(base), ix], base.elty)
        ty = T.vty(base)
        if ty[0] == "list":
            return self.step("idx", [T.as_node(base), ix], ty[1])
        raise TErr("indexing a value of type %s" % rust_ty(ty))

    # ---------------------------------------------------------------- macros in expression / statement position
    def ev_macro(self, e, env, cx):
        T = self.T
        name, toks = e[1], e[2]
        if name in ("unreachable", "panic", "unimplemented", "todo"):
            return Panic(name)
        kinds = {"debug_assert_eq": ("dbgAssert", "eqb"), "debug_assert_ne": ("dbgAssert", "neb"), "debug_assert": ("dbgAssert", None),
                 "assert_eq": ("hardAssert", "eqb"), "assert_ne": ("hardAssert", "neb"), "assert": ("hardAssert", None)}
        if name not in kinds:
            raise TErr("macro `%s!` is not in the reading table" % name)
        kind, rel = kinds[name]
        args = KC.split_args(toks)
        need = 2 if rel else 1
        if len(args) < need:
            raise TErr("`%s!` with %d arguments" % (name, len(args)))
        sub = self.fork()
        snap = env.snapshot()
        if rel:
            ea, eb = PN(args[0]).expr(), PN(args[1]).expr()
            if self.literalish(ea) and not self.literalish(eb):
                b = sub.ev(eb, env, cx)
                a = sub.ev(ea, env, cx, T.vty(b))
            else:
                a = sub.ev(ea, env, cx)
                b = sub.ev(eb, env, cx, None if isinstance(a, ULit) else T.vty(a))
            if isinstance(a, ULit) or isinstance(b, ULit):
                a = sub.coerce(a, None if isinstance(b, ULit) else T.vty(b))
                b = sub.coerce(b, T.vty(a))
            if T.vty(a) != T.vty(b) or T.vty(a)[0] not in ("int", "usize", "bool"):
                raise TErr("`%s!` compares %s with %s" % (name, rust_ty(T.vty(a)), rust_ty(T.vty(b))))
            cond = T.app(rel, [a, b], T_BOOL)
        else:
            cond = sub.coerce(sub.ev(PN(args[0]).expr(), env, cx, T_BOOL), T_BOOL, "asserted condition")
        if sub.steps:
            raise TErr("operands of `%s!` that can panic themselves are outside the language" % name)
        self.check_unchanged(snap, "the operands of `%s!`" % name)
        self.step(kind, [cond], T_UNIT)
        return TV([])

    # ---------------------------------------------------------------- match on an integer
    def ev_match(self, e, env, cx, want):
        T = self.T
        scrut = self.ev(e[1], env, cx)
        if isinstance(scrut, ULit):
            raise TErr("match on an integer literal")
        sty = T.vty(scrut)
        if sty[0] not in ("int", "usize"):
            raise TErr("match on a value of type %s is outside the language" % rust_ty(sty))
        arms, seen_wild = [], False
        rty = want
        for pats, body in e[2]:
            if seen_wild:
                raise TErr("match arm after `_`")
            ps = []
            for p in pats:
                if p[0] == "pwild":
                    seen_wild = True
                    ps.append("_")
                else:
                    if p[2] is not None and ((sty[0] == "int" and p[2] != "u%d" % sty[1]) or (sty[0] == "usize" and p[2] != "usize")):
                        raise TErr("match pattern literal of the wrong type")
                    T.lit(p[1], sty)
                    ps.append(p[1])
            sub = self.fork()
            snap = env.snapshot()
            v = sub.ev(body, Env(env), cx, rty)
            self.check_unchanged(snap, "a match arm")
            if not isinstance(v, Panic):
                if isinstance(v, ULit):
                    v = sub.coerce(v, rty)
                v = v if isinstance(v, TV) and not v.items else T.as_node(v)
                t = T.vty(v)
                if rty is not None and t != rty:
                    raise TErr("match arms of different types (%s, %s)" % (rust_ty(rty), rust_ty(t)))
                rty = t
            arms.append((tuple(ps), sub.steps, v))
        if not seen_wild:
            raise TErr("match without a `_` arm is outside the language")
        if rty is None:
            raise TErr("match whose arms all diverge")
        lits = [p for a in arms for p in a[0] if p != "_"]
        if len(set(lits)) != len(lits):
            raise TErr("match with a repeated literal pattern")
        pure = all(not a[1] and not isinstance(a[2], Panic) for a in arms)
        packed = tuple((a[0], tuple(a[1]), ("panic", a[2].why) if isinstance(a[2], Panic) else a[2]) for a in arms)
        if pure:
            return T.app("match", [scrut, packed], rty)
        return self.step("match", [scrut, packed], rty)

    # ---------------------------------------------------------------- places
    def place_of(self, e, env, cx):
        k = e[0]
        if k == "paren":
            return self.place_of(e[1], env, cx)
        if k == "path" and len(e[1]) == 1:
            if env.find(e[1][0]) is None:
                raise TErr("unknown variable `%s`" % e[1][0])
            v = env.get(e[1][0])
            if isinstance(v, RefMut):
                return v.place
            return ("var", e[1][0], ())
        if k == "tfield":
            b = self.place_of(e[1], env, cx)
            if b[0] != "var":
                raise TErr("field of an indexed place is outside the language")
            return ("var", b[1], b[2] + (e[2],))
        if k == "deref":
            inner = e[1]
            if inner[0] == "index":
                base = self.ev(inner[1], env, cx)
                if isinstance(base, AV) and base.elty[0] == "refmut":
                    return ("arrref", base, self.index_value(inner[2], env, cx))
                raise TErr("`*x[i]` where x is not an array of `&mut`")
            v = self.ev(inner, env, cx) if inner[0] != "path" else None
            if isinstance(v, RefMut):
                return v.place
            return self.place_of(inner, env, cx)       # references are transparent: `*self` is the variable self
        if k == "index":
            b = self.place_of(e[1], env, cx)
            if b[0] != "var":
                raise TErr("nested indexed place is outside the language")
            return ("elem", b, self.index_value(e[2], env, cx))
        raise TErr("assignment to this kind of place is outside the language")

    def read_place(self, pl, env):
        T = self.T
        if pl[0] == "var":
            v = env.get(pl[1])
            for k in pl[2]:
                v = T.proj(v, k)
            return v
        raise TErr("read of this kind of place is outside the language")

    def write_var(self, name, path, val, env):
        T = self.T
        if not path:
            old = env.get(name)
            if not isinstance(old, (Closure, FnRef, RefMut, AV)) and not isinstance(val, (AV, Closure, FnRef, RefMut)):
                val = self.coerce(val, T.vty(old), "assigned value")
            env.set(name, val)
            return

        def upd(v, path):
            if not path:
                return self.coerce(val, T.vty(v), "assigned value")
            x = T.explode(v)
            items = list(x.fields if isinstance(x, SV) else x.items)
            if path[0] >= len(items):
                raise TErr("field .%d does not exist" % path[0])
            items[path[0]] = upd(items[path[0]], path[1:])
            return SV(x.ty, items) if isinstance(x, SV) else TV(items)
        env.set(name, upd(env.get(name), path))

    def write_place(self, pl, val, env, cx):
        T = self.T
        if pl[0] == "var":
            return self.write_var(pl[1], pl[2], val, env)
        if pl[0] == "elem":
            lst = self.read_place(pl[1], env)
            ty = T.vty(lst)
            if ty[0] != "list":
                raise TErr("indexed assignment into a value of type %s" % rust_ty(ty))
            val = self.coerce(val, ty[1], "stored element")
            new = self.step("setIdx", [T.as_node(lst), pl[2], T.as_node(val)], ty)
            return self.write_var(pl[1][1], pl[1][2], new, env)
        if pl[0] == "arrref":
            arr, ix = pl[1], pl[2]
            k = self.static_index(ix)
            if k is not None:
                if k >= len(arr.items):
                    raise TErr("constant index %d out of range for an array of %d" % (k, len(arr.items)))
                return self.write_place(arr.items[k].place, val, env, cx)
            places = [r.place for r in arr.items]
            if len(set(places)) != len(places):
                raise TErr("array of aliasing `&mut` (rustc rejects it)")
            self.step("idxGuard", [T.lit(len(places), T_USIZE), ix], T_UNIT)
            val = T.as_node(self.coerce(val, arr.elty[1], "stored value"))
            olds = [T.as_node(self.read_place(p, env)) for p in places]
            for k, (p, old) in enumerate(zip(places, olds)):
                self.write_place(p, T.app("ite", [T.app("eqn", [ix, T.lit(k, T_USIZE)], T_BOOL), val, old], T.nty(old)), env, cx)
            return
        raise TErr("assignment to this kind of place is outside the language")

    def check_unchanged(self, snap, where):
        for e, old in snap:
            if set(e.vars) != set(old):
                raise TErr("%s declares variables in an outer scope" % where)
            for n in old:
                a, b = old[n], e.vars[n]
                if a is b:
                    continue
                try:
                    same = self.T.as_node(a) == self.T.as_node(b)
                except TErr:
                    same = False
                if not same:
                    raise TErr("%s assigns to the outer variable `%s`: outside the language" % (where, n))

    # ---------------------------------------------------------------- statements
    def bind(self, pat, val, env):
        if pat[0] == "pid":
            env.define(pat[1], val)
        elif pat[0] == "ptuple":
            for k, p in enumerate(pat[1]):
                self.bind(p, self.T.proj(val, k), env)
            if isinstance(val, TV) and len(val.items) != len(pat[1]):
                raise TErr("tuple pattern of the wrong length")
        else:
            raise TErr("pattern form %s" % pat[0])

    def exec_block(self, stmts, tail, env, cx, want):
        T = self.T
        for i, st in enumerate(stmts):
            k = st[0]
            if k == "let":
                if st[3] is None:
                    raise TErr("`let` without initializer is outside the language")
                ty = T.rtype(st[2], cx["owner"], cx["assoc"], {}) if st[2] is not None else None
                v = self.ev(st[3], env, cx, ty)
                if isinstance(v, Panic):
                    raise TErr("diverging expression in a `let`")
                if isinstance(v, ULit):
                    if ty is None:
                        raise TErr("`let` of an integer literal whose type cannot be inferred")
                    v = self.coerce(v, ty)
                elif ty is not None and not isinstance(v, (AV, Closure, FnRef, RefMut)):
                    v = self.coerce(v, ty, "`let` value")
                self.bind(st[1], v, env)
            elif k == "const":
                ty = T.rtype(st[2], cx["owner"], cx["assoc"], {})
                val = const_eval(T, st[3], ty, cx)
                lean = T.lean_name(cx["owner"], st[1])
                doc = "const %s: %s (inside %s::%s)" % (st[1], rust_ty(ty), cx["owner"], cx["f"].name)
                if lean in T.consts and T.consts[lean][:2] != (ty, val):
                    raise TErr("two different constants named %s in %s" % (st[1], cx["owner"]))
                if lean not in T.consts:
                    T.consts[lean] = (ty, val, doc)
                    T.const_order.append(lean)
                env.define(st[1], T.app("const", [lean, val], ty))
            elif k == "assign":
                self.exec_assign(st, env, cx)
            elif k == "expr":
                v = self.ev(st[1], env, cx)
                if isinstance(v, Panic):
                    if i != len(stmts) - 1 or tail is not None:
                        raise TErr("`%s!()` followed by more code is outside the language" % v.why)
                    return v
            else:
                raise TErr("statement form `%s` is outside the language" % k)
        if tail is None:
            return TV([])
        return self.ev(tail, env, cx, want)

    def exec_assign(self, st, env, cx):
        T = self.T
        lv, op, rhs = st[1], st[2], st[3]
        pl = self.place_of(lv, env, cx)
        if op is None:
            want = None
            if pl[0] == "var":
                cur = self.read_place(pl, env)
                want = T.vty(cur) if not isinstance(cur, (AV, Closure, FnRef, RefMut)) else None
            elif pl[0] == "elem":
                want = T.vty(self.read_place(pl[1], env))[1]
            elif pl[0] == "arrref":
                want = pl[1].elty[1]
            v = self.ev(rhs, env, cx, want)
            if isinstance(v, Panic):
                raise TErr("diverging expression assigned")
            return self.write_place(pl, v, env, cx)
        # compound assignment `place op= rhs`
        if pl[0] == "var":
            cur = self.read_place(pl, env)
            ty = T.vty(cur)
            if ty[0] == "struct":
                if op not in ASSIGN_TRAITS:
                    raise TErr("`%s=` on %s" % (op, ty[1]))
                tr, m = ASSIGN_TRAITS[op]
                f = T.lookup(ty[1], m, tr)
                r = self.ev(rhs, env, cx, ("struct", ty[1]))
                self.call_fn(f, cur, pl, [r], env, cx)
                return
            r = self.ev(rhs, env, cx, ty)          # primitive operands: the right operand is evaluated first
            return self.write_place(pl, self.scalar_binop(op, cur, r, ty), env, cx)
        if pl[0] == "elem":
            lst = self.read_place(pl[1], env)
            lty = T.vty(lst)
            if lty[0] != "list" or lty[1][0] != "int":
                raise TErr("compound assignment into an element of %s" % rust_ty(lty))
            r = self.ev(rhs, env, cx, lty[1])
            old = self.step("idx", [T.as_node(lst), pl[2]], lty[1])
            return self.write_place(pl, self.scalar_binop(op, old, r, lty[1]), env, cx)
        raise TErr("compound assignment to this kind of place is outside the language")

    def scalar_binop(self, op, a, b, ty):
        T = self.T
        if ty[0] != "int":
            raise TErr("`%s=` on a value of type %s" % (op, rust_ty(ty)))
        b = self.coerce(b, ty, "right operand of `%s=`" % op)
        if op in PURE_BIN:
            return T.app(PURE_BIN[op], [a, b], ty)
        if op == "-":
            return self.step("subU32" if ty == t_int(32) else "subChk", [a, b], ty)
        if op == "+":
            return self.step("addChk", [a, b], ty)
        if op == "*":
            return self.step("mulChk", [a, b], ty)
        raise TErr("`%s=` on %s is not in the reading table" % (op, rust_ty(ty)))


def const_eval(T, e, ty, cx):
    """a `const` item: evaluated at compile time (an overflow is a compile error, hence a translation error)"""
    def go(e, want):
        k = e[0]
        if k == "int":
            t = want
            if e[2] is not None:
                t = T_USIZE if e[2] == "usize" else t_int(INT_BITS[e[2]])
            return (e[1], t)
        if k == "paren":
            return go(e[1], want)
        if k == "cast":
            v, _ = go(e[1], None)
            t = T.rtype(e[2], cx["owner"], cx["assoc"], {})
            bits = 64 if t == T_USIZE else t[1]
            return (v & ((1 << bits) - 1), t)
        if k == "call" and e[1][-1] == "size_of" and e[1][:-1] in (["core", "mem"], ["std", "mem"], ["mem"]) and not e[2] and len(e[3]) == 1:
            t = T.rtype(e[3][0], cx["owner"], cx["assoc"], {})
            return (size_of(T, t), T_USIZE)
        if k == "bin" and e[1] in ("+", "-", "*", "<<", ">>"):
            if Ev.literalish(e[2]) and not Ev.literalish(e[3]) and e[1] not in ("<<", ">>"):
                b, tb = go(e[3], want)
                a, ta = go(e[2], tb)
            else:
                a, ta = go(e[2], want)
                b, tb = go(e[3], None if e[1] in ("<<", ">>") else ta)
            t = ta or tb
            if t is None:
                raise TErr("constant expression whose type cannot be inferred")
            bits = 64 if t == T_USIZE else t[1]
            if e[1] in ("<<", ">>"):
                if b >= bits:
                    raise TErr("constant shift overflows")
                r = a << b if e[1] == "<<" else a >> b
                return (r & ((1 << bits) - 1), t)
            if tb is not None and ta is not None and ta != tb:
                raise TErr("constant expression mixes %s and %s" % (rust_ty(ta), rust_ty(tb)))
            r = a + b if e[1] == "+" else a - b if e[1] == "-" else a * b
            if not (0 <= r < (1 << bits)):
                raise TErr("constant expression overflows (rustc rejects it)")
            return (r, t)
        raise TErr("constant expression form `%s` is outside the language" % k)
    v, t = go(e, ty)
    if t is not None and t != ty:
        raise TErr("constant of type %s declared %s" % (rust_ty(t), rust_ty(ty)))
    if ty[0] == "int" and not (0 <= v < (1 << ty[1])):
        raise TErr("constant out of range")
    return v


def size_of(T, t):
    if t[0] == "int":
        return t[1] // 8
    if t == T_USIZE:
        return 8
    if t[0] == "struct":
        return sum(size_of(T, x) for x in T.struct_fields(t[1]))       # all fields of one integer type: no padding
    raise TErr("size_of::<%s>() is not in the reading table" % rust_ty(t))


# =========================================================================== rendering

FIELD = "abcdefgh"


def fmt_lit(v, ty):
    if ty[0] == "usize":
        return str(v)
    return ("0x%x#%d" if v >= 65536 else "%d#%d") % (v, ty[1])


class Render(object):
    def __init__(self, T):
        self.T = T

    def atom(self, n):
        s, atomic = self.term(n)
        return s if atomic else "(%s)" % s

    def term(self, n):
        """-> (text, atomic?)"""
        T = self.T
        k = T.key(n)
        if k[0] == "leaf":
            return k[1], True
        if k[0] == "lit":
            return fmt_lit(k[1], k[2]), True
        if k[0] == "ev":
            return ("_" if k[3] == T_UNIT else "e%d" % k[1]), True
        op, a = k[1], k[2]
        A = self.atom
        if op == "proj":
            return "%s.%s" % (A(a[0]), FIELD[a[1]]), True
        if op == "tproj":
            idx, n_ = a[1], a[2]
            path = ".2" * idx + (".1" if idx < n_ - 1 else "")
            return "%s%s" % (A(a[0]), path), True
        if op in ("xor", "and", "or", "add", "sub", "mul"):
            sym = {"xor": "^^^", "and": "&&&", "or": "|||", "add": "+", "sub": "-", "mul": "*"}[op]
            return "%s %s %s" % (A(a[0]), sym, A(a[1])), False
        if op == "not":
            return "~~~ %s" % A(a[0]), False
        if op in ("rotr", "rotl"):
            return "%s %s %s" % (op, A(a[0]), A(a[1])), False
        if op == "setWidth":
            return "%s.setWidth %d" % (A(a[0]), a[1]), False
        if op == "toNat":
            return "%s.toNat" % A(a[0]), True
        if op == "ofNat":
            return "BitVec.ofNat %d %s" % (a[1], A(a[0])), False
        if op == "length":
            return "%s.length" % A(a[0]), True
        if op in ("eqb", "neb", "band", "bor", "bxor"):
            sym = {"eqb": "==", "neb": "!=", "band": "&&", "bor": "||", "bxor": "^^"}[op]
            return "%s %s %s" % (A(a[0]), sym, A(a[1])), False
        if op in ("lt", "le", "gt", "ge"):
            sym = {"lt": "<", "le": "≤", "gt": ">", "ge": "≥"}[op]
            return "decide (%s %s %s)" % (A(a[0]), sym, A(a[1])), False
        if op == "bnot":
            return "!%s" % A(a[0]), False
        if op == "eqn":
            return "%s = %s" % (A(a[0]), A(a[1])), False
        if op == "ite":
            return "if %s then %s else %s" % (self.term(a[0])[0], self.term(a[1])[0], self.term(a[2])[0]), False
        if op == "mk":
            return "(⟨%s⟩ : %s)" % (", ".join(self.term(x)[0] for x in a), lean_ty(k[3])), True
        if op == "tuple":
            return "(%s)" % ", ".join(self.term(x)[0] for x in a), True
        if op == "unit":
            return "()", True
        if op == "list":
            return "[%s]" % ", ".join(self.term(x)[0] for x in a), True
        if op == "call":
            return self.call_text(a), False
        if op == "apply":
            return " ".join(A(x) for x in a), False
        if op == "const":
            return a[0], True
        if op == "match":
            return self.match_text(a, "  "), False
        raise TErr("internal: no rendering for %s" % op)

    def call_text(self, a):
        return " ".join([a[0]] + (["p"] if a[1] else []) + [self.atom(x) for x in a[2:]])

    def match_text(self, a, ind):
        T = self.T
        scrut, arms = a[0], a[1]
        st = self.term(scrut)[0] if T.nty(scrut) == T_USIZE else "%s.toNat" % self.atom(scrut)
        lines = ["match %s with" % st]
        for pats, steps, val in arms:
            body = self.chain(list(steps), val, ind + "    ")
            lines.append("%s| %s =>%s" % (ind, " | ".join(str(p) for p in pats), body))
        return "\n".join(lines)

    def step_text(self, st, ind):
        kind, a, var = st
        A = self.atom
        if kind in ("dbgAssert",):
            return "dbgAssert p %s" % A(a[0])
        if kind == "hardAssert":
            return "hardAssert %s" % A(a[0])
        if kind == "idx":
            return "idx %s %s" % (A(a[0]), A(a[1]))
        if kind == "setIdx":
            return "setIdx %s %s %s" % (A(a[0]), A(a[1]), A(a[2]))
        if kind == "idxGuard":
            return "idxGuard %s %s" % (A(a[0]), A(a[1]))
        if kind in ("shr", "shl", "subU32", "addChk", "subChk", "mulChk"):
            return "%s p %s %s" % (kind, A(a[0]), A(a[1]))
        if kind == "call":
            return self.call_text(a)
        if kind == "match":
            return self.match_text(a, ind)
        raise TErr("internal: no rendering for step %s" % kind)

    def chain(self, steps, val, ind):
        """monadic term: the steps in order, then the value; -> text starting with a space or a newline"""
        T = self.T
        if isinstance(val, tuple) and val and val[0] == "panic":
            final = '.panic "%s"' % val[1]
        elif isinstance(val, TV):
            final = ".ok ()"
        else:
            final = None
        if steps and final is None and steps[-1][2] == val:
            last = steps[-1]
            steps = steps[:-1]
            final = self.step_text(last, ind)
        elif final is None:
            final = ".ok %s" % self.atom(val)
        if not steps:
            return (" " + final) if "\n" not in final else ("\n" + ind + final)
        lines = []
        for st in steps:
            txt = self.step_text(st, ind)
            lines.append("%s(%s).bind fun %s =>" % (ind, txt, self.term(st[2])[0]))
        lines.append(ind + final)
        return "\n" + "\n".join(lines)


# =========================================================================== one function -> one definition

def _param_name(n):
    if n in LEAN_KEYWORDS or n == "p" or (n[:1] == "e" and n[1:].isdigit()):
        return n + "_"
    return n


def translate_fn(T, f):
    key = (f.owner, f.name)
    tr = Tr()
    tr.lean = T.lean_name(f.owner, f.name)
    what = ("impl %s for %s" % (f.trait, f.owner)) if f.trait else ("impl %s" % f.owner)
    tr.doc = "%s%s :: %s%s" % ((f.origin + " · ") if f.origin else "", what, "pub " if f.vis == "pub" else "", f.sig_text)
    T.busy.add(key)
    try:
        T.uid[0] += 1
        ev = Ev(T, T.uid[0])
        env = Env()
        cx = {"owner": f.owner, "assoc": f.assoc, "f": f}
        params, outs = [], []
        for pi, (pat, ty) in enumerate(f.params):
            if pat == "self":
                if pi != 0:
                    raise TErr("`self` is not the first parameter")
                t = ("struct", f.owner)
                env.define("self", T.leaf("self", t))
                params.append(("self", t))
                if ty == "refmut":
                    outs.append((pi, "self"))
                continue
            t = T.rtype(ty, f.owner, f.assoc, f.generics)
            is_mutref = ty[0] == "ref" and ty[1]
            if pat[0] == "pid":
                nm = _param_name(pat[1])
                if nm in [p[0] for p in params]:
                    raise TErr("parameter name clash")
                leaf = T.leaf(nm, t)
                env.define(pat[1], T.app("toNat", [leaf], T_USIZE) if t == T_USIZE else leaf)
                params.append((nm, t))
                if is_mutref:
                    outs.append((pi, pat[1]))
            else:
                if is_mutref:
                    raise TErr("`&mut` parameter bound by a pattern")
                nm = "t" if pi == 0 else "t%d" % pi
                leaf = T.leaf(nm, t)
                params.append((nm, t))
                ev.bind(pat, leaf, env)
        ret_ty = T.rtype(f.ret, f.owner, f.assoc, f.generics) if f.ret is not None else T_UNIT
        r = ev.exec_block(f.body[0], f.body[1], env, cx, ret_ty)
        comps = []
        for pi, nm in outs:
            v = env.get(nm)
            comps.append(T.as_node(ev.coerce(v, params[pi][1], "final value of `%s`" % nm)))
        tr.outs = [pi for pi, _ in outs]
        tr.has_ret = ret_ty != T_UNIT
        if isinstance(r, Panic):
            val = ("panic", r.why)
            rty_parts = [T.nty(c) for c in comps] + ([ret_ty] if tr.has_ret else [])
        else:
            if tr.has_ret:
                comps.append(T.as_node(ev.coerce(r, ret_ty, "returned value")))
            elif not (isinstance(r, TV) and not r.items):
                raise TErr("a value is returned but the function has no return type")
            rty_parts = [T.nty(c) for c in comps]
            val = TV([]) if not comps else comps[0] if len(comps) == 1 else T.app("tuple", comps, ("tuple", tuple(rty_parts)))
        tr.rty = T_UNIT if not rty_parts else rty_parts[0] if len(rty_parts) == 1 else ("tuple", tuple(rty_parts))
        tr.is_out = bool(ev.steps) or isinstance(r, Panic)
        tr.needs_p = ev.flags["p"]
        tr.params = params
        R = Render(T)
        sig = "".join(" (%s : %s)" % (n, lean_ty(t)) for n, t in params)
        if tr.needs_p:
            sig = " (p : Profile)" + sig
        if tr.is_out:
            body = R.chain(ev.steps, val, "  ")
            rt = "Out %s" % lean_ty(tr.rty, False)
        else:
            txt = "()" if isinstance(val, TV) else R.term(val)[0]
            body = ("\n  " + txt) if (len(txt) > 60 or "\n" in txt) else " " + txt
            rt = lean_ty(tr.rty)
        tr.text = "def %s%s : %s :=%s" % (tr.lean, sig, rt, body)
    except TErr as ex:
        tr.error = "%s::%s: %s" % (f.owner, f.name, ex)
        tr.text = "def %s : String := %s" % (tr.lean, K._lean_str(tr.error))
        T.errors.append(tr.error)
    T.busy.discard(key)
    T.done[key] = tr
    T.emitted.append(tr)
    return tr


Translator.translate_fn = translate_fn


# =========================================================================== the whole file

TABLE = """  TRUSTED reading table (Rust form ↦ Lean term; vocabulary of CC.Null.Vocab unless defined below)
    type uN (N = 8…128)              ↦  BitVec N            usize ↦ BitVec 64 (used through its value `.toNat`)
    type &[T] / &mut [T]             ↦  List T              (a `&mut` parameter is threaded: its final value is part of the result)
    tuple struct `name(T, ..)`       ↦  structure `Name` of CC.Null.Vocab, fields .0 .1 .2 .3 ↦ .a .b .c .d  (shape: `null_structs`)
    (A, B, ..)                       ↦  A × B × ..          [a, b, ..] ↦ [a, b, ..] (List)
    `&mut self` method               ↦  returns the final `*self` (paired with the function result, if any); `&x`, `*x` transparent
    a ^ b, a & b, a | b, !a          ↦  a ^^^ b, a &&& b, a ||| b, ~~~ a                      (uN; never panic)
    a.wrapping_add(b) / _sub / _mul  ↦  a + b / a - b / a * b                                 (BitVec arithmetic wraps)
    a.rotate_right(n) / rotate_left  ↦  rotr a n / rotl a n                                   (n : u32; by n mod N)
    a >> n, a << n                   ↦  shr p a n, shl p a n        EFFECT (debug: panic if n ≥ N; release: n masked)   n : u32 or a literal
    a - b (u32)                      ↦  subU32 p a b                EFFECT (debug: panic on underflow; release: wraps)
    a + b, a - b, a * b (other uN)   ↦  addChk p a b, subChk p a b, mulChk p a b   EFFECT (debug: panic on overflow; release: wraps)
    e as uN                          ↦  e.setWidth N                e as usize (e : uM, M ≤ 64) ↦ e.toNat      usize as uN ↦ BitVec.ofNat N e
    xs[i] (slice or array, rvalue)   ↦  idx xs i                    EFFECT (panic if i ≥ len, every profile); constant index into an array literal: the element
    xs[i] = v (slice)                ↦  setIdx xs i v               EFFECT (same guard);  xs[i] op= v ↦ idx xs i, then setIdx xs i (old op v)
    *r[i] = v (array of `&mut`)      ↦  idxGuard n i                EFFECT, then every referenced place k becomes `if i = k then v else old`
    xs.len()                         ↦  xs.length
    debug_assert!(c) / _eq!(a,b) / _ne!  ↦  dbgAssert p c / (a == b) / (a != b)   EFFECT (profile debug only — compiled out in release)
    assert!(c) / _eq! / _ne!         ↦  hardAssert …                EFFECT (every profile)
    unreachable!() / panic!(..)      ↦  .panic "unreachable" / .panic "panic"
    match e { k => a, .., _ => d }   ↦  match e.toNat with | k => a | .. | _ => d            (integer literals and `_` only)
    const N: T = e (inside a fn)     ↦  def Type.N (evaluated at translation time; core::mem::size_of::<T>() = bytes of T)
    a OP b, !a, a OP= b on a struct  ↦  the method of the crate's `impl <OpTrait> for <struct>` (Add::add, BitXor::bitxor, BitAnd::bitand,
                                        BitOr::bitor, Not::not, AddAssign::add_assign, BitXorAssign::bitxor_assign, ..); none ⇒ error
    x.m(args) / Type::m(args)        ↦  Type.m [p] x args — the regenerated definition of the callee (`p` if it needs the profile; an
                                        EFFECT if it can panic); a callee with function-typed parameters (`map`, `zipmap`) is INLINED,
                                        closures and function paths (`u32::wrapping_add`, `u32x4::bitxor`) applied in place
    f(a, ..) (f: F, F: FnMut(..)->.) ↦  f a ..              (function parameters are pure Lean functions)
    #[derive(Clone)]                 ↦  def Type.clone (self) := self
  EFFECTS are kept in Rust's evaluation order (operands left to right; for `place op= rhs` on integers the right operand first); pure
  dataflow is printed fully inlined.  Attributes (`#[inline]`, `#[allow]`), `use` items and visibility do not change a definition
  (visibility and the item list are part of `null_items`)."""

PRELUDE = """/-- `*r[i] = v` through an array of `n` references: the bounds check -/
def idxGuard (n i : Nat) : Out Unit := if i < n then .ok () else .panic "index out of bounds"
/-- `assert!(c)`: checked in every profile -/
def hardAssert (c : Bool) : Out Unit := if c then .ok () else .panic "assertion failed"
/-- `uN::rotate_left(x, n : u32)` -/
def rotl {w : Nat} (x : BitVec w) (n : BitVec 32) : BitVec w := x.rotateLeft (n.toNat % w)
/-- `a + b` on `uN`: debug panics on overflow, release wraps -/
def addChk {w : Nat} (p : Profile) (a b : BitVec w) : Out (BitVec w) :=
  match p with
  | .debug => if a.toNat + b.toNat < 2 ^ w then .ok (a + b) else .panic "attempt to add with overflow"
  | .release => .ok (a + b)
/-- `a - b` on `uN` -/
def subChk {w : Nat} (p : Profile) (a b : BitVec w) : Out (BitVec w) :=
  match p with
  | .debug => if b ≤ a then .ok (a - b) else .panic "attempt to subtract with overflow"
  | .release => .ok (a - b)
/-- `a * b` on `uN` -/
def mulChk {w : Nat} (p : Profile) (a b : BitVec w) : Out (BitVec w) :=
  match p with
  | .debug => if a.toNat * b.toNat < 2 ^ w then .ok (a * b) else .panic "attempt to multiply with overflow"
  | .release => .ok (a * b)"""


def null_inventory(repo="/repo"):
    """-> dict(defs=[Tr], consts=[(lean, ty, val, doc)], items=[str], structs=[(name, [field types])], errors=[str])"""
    inv = {"defs": [], "consts": [], "items": [], "structs": [], "errors": []}
    path = os.path.join(repo, NULL_LIB)
    try:
        if not os.path.exists(path):
            raise TErr("%s not found" % NULL_LIB)
        crate = Crate(open(path, encoding="utf-8").read())
    except TErr as ex:
        inv["errors"].append("%s: %s" % (NULL_LIB, ex))
        return inv
    T = Translator(crate)
    inv["items"] = sorted(crate.items)
    for name in sorted(crate.structs):
        try:
            inv["structs"].append((name, [rust_ty(t) for t in T.struct_fields(name)]))
        except TErr as ex:
            T.errors.append("struct %s: %s" % (name, ex))
    # derived Clone: `clone` is the identity
    for name in sorted(crate.structs):
        fields, derives, origin = crate.structs[name]
        if "Clone" in derives:
            if crate.fns.get((name, "clone")):
                T.errors.append("%s: derived and hand-written Clone" % name)
                continue
            tr = Tr()
            tr.lean = T.lean_name(name, "clone")
            tr.doc = "%s#[derive(Clone)] on %s" % ((origin + " · ") if origin else "", name)
            tr.text = "def %s (self : %s) : %s := self" % (tr.lean, lean_struct(name), lean_struct(name))
            T.emitted.append(tr)
    for key in sorted(crate.fns):
        fs = crate.fns[key]
        if len(fs) > 1:
            T.errors.append("%s::%s: %d methods of this name (inherent / several traits) — one definition per (type, method) only" % (key[0], key[1], len(fs)))
            continue
        if key not in T.done:
            T.translate_fn(fs[0])
    inv["defs"] = T.emitted
    inv["consts"] = [(n,) + T.consts[n] for n in T.const_order]
    inv["errors"] += T.errors
    return inv


def render_lean(inv):
    L = ["/-",
         "  CC.Gen.NullSrc — GENERATED by tools/inventory_null.py from %s; do not edit." % NULL_LIB,
         "  Every public and private method / trait-impl method of every type of the crate (file-level macros expanded per",
         "  invocation), translated from the Rust source; lean/CC/Null/Src.lean proves each equal to the hand-written model.",
         "", TABLE, "-/",
         "import CC.Null.Vocab",
         "namespace CC.Gen.NullSrc",
         "open CC CC.Null",
         "", PRELUDE, ""]
    L.append("/-- translation errors (obligation: `= []`) -/")
    L.append("def null_errors : List String := [%s]" % ", ".join(K._lean_str(e) for e in inv["errors"]))
    L.append("")
    L.append("/-- every item of the crate after macro expansion (sorted) -/")
    L.append("def null_items : List String := [")
    L += ["  %s%s" % (K._lean_str(x), "," if i + 1 < len(inv["items"]) else "") for i, x in enumerate(inv["items"])]
    L.append("]")
    L.append("")
    L.append("/-- the tuple structs and their field types (sorted) -/")
    L.append("def null_structs : List (String × List String) := [%s]" % ", ".join(
        "(%s, [%s])" % (K._lean_str(n), ", ".join(K._lean_str(x) for x in fs)) for n, fs in inv["structs"]))
    L.append("")
    for lean, ty, val, doc in inv["consts"]:
        L.append("/-- %s -/" % doc)
        L.append("def %s : %s := %s" % (lean, lean_ty(ty), fmt_lit(val, ty)))
        L.append("")
    for tr in inv["defs"]:
        L.append("/-- %s -/" % tr.doc.replace("-/", "- /"))
        L.append(tr.text)
        L.append("")
    L.append("end CC.Gen.NullSrc")
    return "\n".join(L) + "\n"


def null_regenerate(repo="/repo", out=None):
    """write lean/CC/Gen/NullSrc.lean (only when the content changes, to keep lake's cache warm)"""
    out = out or DEFAULT_OUT
    inv = null_inventory(repo)
    text = render_lean(inv)
    os.makedirs(os.path.dirname(out), exist_ok=True)
    old = open(out, encoding="utf-8").read() if os.path.exists(out) else None
    if old != text:
        with open(out, "w", encoding="utf-8") as f:
            f.write(text)
    return inv, out


def main(argv):
    repo, out = None, None
    it = iter(argv)
    for a in it:
        if a == "--repo":
            repo = next(it)
        elif a == "--out":
            out = next(it)
        elif a == "--print":
            out = "-"
    if repo is None:
        repo = os.environ.get("VERIF_REPO", "/repo").rstrip("/") or "/repo"
    if out == "-":
        sys.stdout.write(render_lean(null_inventory(repo)))
        return 0
    inv, path = null_regenerate(repo, out)
    print("ppv-null translated from %s: %d definitions, %d errors" % (repo, len(inv["defs"]) + len(inv["consts"]), len(inv["errors"])))
    for e in inv["errors"]:
        print("TRANSLATION ERROR: " + e)
    print("written: " + path)
    return 1 if inv["errors"] else 0


if __name__ == "__main__":
    sys.exit(main(sys.argv[1:]))
