/-
  ccdrv — line-protocol driver: one operation per input line, one canonical result per line.
  Imports only model/spec files (no Mathlib, no proof files) so that it links as a `lean_exe`.
-/
import CC.Drv.Common
import CC.Drv.ChaCha
import CC.Drv.Null
import CC.Drv.Mem
import CC.Drv.JH
import CC.Drv.Groestl
import CC.Drv.Simd
import CC.Simd.Dispatch
import CC.Simd.Backends
import CC.Drv.Blake
import CC.Drv.Threefish
import CC.Drv.Skein
import CC.Drv.Conc
open CC CC.Drv

structure DS where
  cfg : Cfg := {}
  memCache : Option (String × String) := none
  chacha : CC.Drv.ChaCha.St := {}
  blake : CC.Drv.Blake.St := {}
  jh : CC.Drv.JH.St := {}
  groestl : CC.Drv.Groestl.St := {}
  skein : CC.Drv.Skein.St := {}

/-- `cfg backend <name>`: the algorithm models execute on the implementation model of that
    backend (`CC.Simd.Mach.ofBackend`, proved equal to `Mach.ref` in C03). -/
def machOfName : String → Option CC.Simd.Mach := CC.Simd.Mach.ofName

/-- `dispatch select <macro> <sse2><ssse3><sse4.1><avx><avx2>`: the `Machine` class the compile-time (no-std) ladder of
    the model (`CC.Simd.Dispatch.select · .nostd`) takes under that static feature assignment; `SSE41` and `AVX` are
    one Rust type and print as `sse41`. -/
def dispatchSelect (mac bits : String) : String :=
  let m? : Option CC.Simd.Dispatch.Macro := match mac with
    | "dispatch" => some .dispatch | "light128" => some .light128 | "light256" => some .light256 | _ => none
  match m?, bits.toList with
  | some m, [a, b, c, d, e] =>
    if [a, b, c, d, e].all (fun ch => ch == '0' || ch == '1') then
      let f : CC.Simd.Dispatch.Feat := ⟨a == '1', b == '1', c == '1', d == '1', e == '1'⟩
      match CC.Simd.Dispatch.select m .nostd f with
      | some arm => "sel=" ++ (match arm.machine with
          | .generic => "generic" | .sse2 => "sse2" | .ssse3 => "ssse3" | .sse41 => "sse41" | .avx => "sse41" | .avx2 => "avx2")
      | none => "sel=unimplemented"
    else "bad-op"
  | _, _ => "bad-op"

def step (ds : DS) (line : String) : DS × String :=
  let toks := (line.trimAscii.toString.splitOn " ").filter (· != "")
  match toks with
  | [] => (ds, "")
  | ["cfg", "profile", "debug"] => ({ ds with cfg := { ds.cfg with profile := .debug } }, "ok")
  | ["cfg", "profile", "release"] => ({ ds with cfg := { ds.cfg with profile := .release } }, "ok")
  | ["cfg", "backend", name] =>
    match machOfName name with
    | some m => ({ ds with cfg := { ds.cfg with backend := name, mach := m } }, "ok")
    | none => (ds, "bad-op")
  | "chacha" :: _ | "guts" :: _ =>
    let (s, out) := CC.Drv.ChaCha.step ds.cfg ds.chacha toks
    ({ ds with chacha := s }, out)
  | "blake" :: _ =>
    let (s, out) := CC.Drv.Blake.step ds.cfg ds.blake toks
    ({ ds with blake := s }, out)
  | "jh" :: _ =>
    let (s, out) := CC.Drv.JH.step ds.cfg ds.jh toks
    ({ ds with jh := s }, out)
  | "groestl" :: _ =>
    let (s, out) := CC.Drv.Groestl.step ds.cfg ds.groestl toks
    ({ ds with groestl := s }, out)
  | "simd" :: _ | "intrin" :: _ => (ds, CC.Drv.Simd.step toks)
  | "mem" :: _ =>
    -- the model's answer does not depend on the placement (last two tokens: front|back, align):
    -- consecutive ops that differ only there are answered from a one-entry cache
    let key := String.intercalate " " (toks.take (toks.length - 2)) ++ "|" ++ ds.cfg.backend
    match ds.memCache with
    | some (k, v) => if k == key then (ds, v) else
        let v' := CC.Drv.Mem.step ds.cfg toks
        ({ ds with memCache := some (key, v') }, v')
    | none =>
        let v' := CC.Drv.Mem.step ds.cfg toks
        ({ ds with memCache := some (key, v') }, v')
  | "null" :: _ => (ds, CC.Drv.Null.step ds.cfg toks)
  | "tf" :: _ | "tfl" :: _ => (ds, CC.Drv.Threefish.step toks)
  | "skein" :: _ =>
    let (s, out) := CC.Drv.Skein.step ds.cfg ds.skein toks
    ({ ds with skein := s }, out)
  | "conc" :: _ => (ds, CC.Drv.Conc.step ds.cfg toks)
  | ["dispatch", "select", mac, bits] => (ds, dispatchSelect mac bits)
  | _ => (ds, "bad-op")

partial def loop (h : IO.FS.Stream) (out : IO.FS.Stream) (ds : DS) : IO Unit := do
  let line ← h.getLine
  if line.isEmpty then return ()
  if line.startsWith "#" then
    out.putStrLn line.trimAscii.toString
    loop h out ds
  else
    let (ds', r) := step ds line
    out.putStrLn r
    loop h out ds'

def main : IO Unit := do
  let stdin ← IO.getStdin
  let stdout ← IO.getStdout
  loop stdin stdout {}
