import CC.Prim
import CC.Simd.Mach
import CC.ChaCha.Spec
import CC.ChaCha.Core
import CC.ChaCha.Stream
