/-
  CC.Mem.Footprint — footprint model for C16 ("byte-slice APIs are alignment-independent and stay
  inside their buffers").

  The functional models (CC/ChaCha, CC/Groestl, CC/JH, …) have no addresses, so "same result at
  every alignment" is true of them by construction.  What they cannot say is *which bytes of the
  caller's slices the Rust touches and with which alignment requirement*.  This file says that:
  for every byte-slice API, `footprint call lens` is the list of memory accesses the Rust performs,
  as a function of the slice lengths, transcribed statement by statement from

    * hashes/groestl/src/compressor.rs   `tf512_impl`, `tf1024_impl`  (raw `*const __m128i`, `_mm_loadu_si128`)
    * hashes/jh/src/compressor.rs        `f8_impl`                    (`ptr::read_unaligned`, twice 4 × 16 bytes)
    * utils-simd/ppv-lite86/src/x86_64/sse2.rs   `StoreBytes` for the 128-bit SSE vectors (`def_vec!`) and
                                         the 256-bit `u32x4x2_avx2` (`_mm*_loadu/_storeu`, length asserted)
    * utils-simd/ppv-lite86/src/soft.rs  `StoreBytes for x2<W, G>` / `x4<W>` (`split_at`, `[..n]` forwarders)
    * utils-simd/ppv-lite86/src/generic.rs  `read_from_bytes(..).unwrap()` / `write_to(..).unwrap()` (zerocopy:
                                         size checked, unaligned)
    * stream-ciphers/chacha/src/rustcrypto_impl.rs  `Buffer::try_apply_keystream` (safe slice ops)
    * block-buffer 0.9 `input_block` / `input_lazy` (safe copies) composed with the per-block readers of
      BLAKE (`chunks_exact(4|8)` + `from_be_bytes`), Grøstl, JH, Skein (`Block::from_byte_array`: a copy)
    * block-ciphers/threefish/src/lib.rs `read_u64v_le` / `write_u64v_le` (safe 8-byte chunks)

  The tie to the source is the inventory: `accounted` below lists every raw-memory operation of the
  modelled files (as found by `tools/inventory.py`, regenerated into `CC.Gen.memOps` on every run)
  together with its classification; `CC.Thm.C16.inventory_accounted : CC.Gen.memOps = expectedMemOps`.

  What is NOT modelled here: hardware faults, UB that happens not to fault, what the compiler makes
  of the code.  The guard-page runs of the correspondence harness (`mem …` ops) exercise that part.
-/
import CC.Mem.MemOp
import CC.Simd.VOps
namespace CC.Mem
open CC.Simd

/-! ### accesses -/

inductive AKind where
  | read | write
  deriving DecidableEq, Repr

/-- `input`: the caller's `&[u8]`; `output`: the caller's `&mut [u8]` (for in-place APIs the same
    slice: reads are recorded on `input`, writes on `output`, and the two lengths are equal);
    `state`: the object's own block buffer. -/
inductive Base where
  | input | output | state
  deriving DecidableEq, Repr

structure Access where
  kind : AKind
  base : Base
  offset : Nat
  size : Nat
  /-- alignment the access REQUIRES of its address (1 = none) -/
  align : Nat
  deriving DecidableEq, Repr

structure Lens where
  input : Nat
  output : Nat
  state : Nat
  deriving Repr

def Lens.len (l : Lens) : Base → Nat
  | .input => l.input
  | .output => l.output
  | .state => l.state

/-- one slice of `n` bytes used in place (ChaCha `data`, Threefish `block`) -/
def Lens.inplace (n : Nat) (st : Nat := 0) : Lens := ⟨n, n, st⟩

/-- unaligned read / write -/
def rd (b : Base) (off size : Nat) : Access := ⟨.read, b, off, size, 1⟩
def wr (b : Base) (off size : Nat) : Access := ⟨.write, b, off, size, 1⟩

/-- The accesses a call performed, and whether it then ended in a (clean, unwinding) panic. -/
structure Trace where
  accs : List Access
  panicked : Bool
  deriving DecidableEq, Repr

def Trace.done (l : List Access) : Trace := ⟨l, false⟩
def Trace.panic : Trace := ⟨[], true⟩
/-- `a; b` — `b` does not run when `a` panicked -/
def Trace.seq (a b : Trace) : Trace := if a.panicked then a else ⟨a.accs ++ b.accs, b.panicked⟩

/-! ### ppv-lite86 `StoreBytes` -/

/-- How a vector type is built (which `impl StoreBytes` is selected). -/
inductive VShape where
  | sse128                 -- `def_vec!`: `$vec<S3, S4, NI>` (u32x4_sse2, u64x2_sse2, u128x1_sse2)
  | avx256                 -- `avx2::u32x4x2_avx2<NI>`
  | gen128                 -- `u32x4_generic`, `u64x2_generic`
  | x2 (w : VShape)        -- `soft::x2<W, G>`
  | x4 (w : VShape)        -- `soft::x4<W>`
  deriving DecidableEq, Repr

def VShape.bytes : VShape → Nat
  | .sse128 => 16
  | .avx256 => 32
  | .gen128 => 16
  | .x2 w => 2 * w.bytes
  | .x4 w => 4 * w.bytes

/-- `Machine::<type>` of each backend (x86_64/mod.rs:57-96, generic.rs:443-452, the `pub type`
    aliases of sse2.rs:871-884,1604 and generic.rs:625-631).  `none`: no `StoreBytes` impl
    (`u128x1_generic` and its `x2`/`x4`). -/
def shapeOf : Backend → Ty → Option VShape
  | .generic, .u32x4 | .generic, .u64x2 => some .gen128
  | .generic, .u32x4x2 | .generic, .u64x2x2 | .generic, .u64x4 => some (.x2 .gen128)
  | .generic, .u32x4x4 | .generic, .u64x2x4 => some (.x4 .gen128)
  | .generic, .u128x1 | .generic, .u128x2 | .generic, .u128x4 => none
  | .avx2, .u32x4x2 => some .avx256
  | .avx2, .u32x4x4 => some (.x2 .avx256)
  | _, .u32x4 | _, .u64x2 | _, .u128x1 => some .sse128
  | _, .u32x4x2 | _, .u64x2x2 | _, .u64x4 | _, .u128x2 => some (.x2 .sse128)
  | _, .u32x4x4 | _, .u64x2x4 | _, .u128x4 => some (.x4 .sse128)

inductive SBOp where
  | readLe | readBe | writeLe | writeBe
  deriving DecidableEq, Repr

def SBOp.isRead : SBOp → Bool
  | .readLe | .readBe => true
  | _ => false

def sbAcc (isRead : Bool) (off size : Nat) : Access :=
  if isRead then rd .input off size else wr .output off size

/-- `StoreBytes::{unsafe_read_le, unsafe_read_be, write_le, write_be}` on the sub-slice
    `[off, off + len)` of the caller's slice.  The `le` and `be` variants touch memory identically
    (`be` = the same load/store and a register `bswap`; on `u32x4x2_avx2` `be` calls `le`).
      * sse128: `assert_eq!(input.len(), 16); _mm_loadu_si128(input.as_ptr() as *const _)`
      * avx256: `assert_eq!(input.len(), 32); _mm256_loadu_si256(…)`
      * gen128: `read_from_bytes(input).unwrap()` / `write_to(out).unwrap()` — zerocopy returns
        `Err(SizeError)` unless `len = size_of::<Self>() = 16`, and copies with unaligned accesses
      * x2: `let input = input.split_at(input.len() / 2); [W::read(input.0), W::read(input.1)]`
      * x4: `let n = input.len() / 4; [W::read(&input[..n]), W::read(&input[n..n * 2]),
             W::read(&input[n * 2..n * 3]), W::read(&input[n * 3..])]`
    (array elements are evaluated left to right). -/
def sb (isRead : Bool) : VShape → Nat → Nat → Trace
  | .sse128, off, len => if len = 16 then .done [sbAcc isRead off 16] else .panic
  | .avx256, off, len => if len = 32 then .done [sbAcc isRead off 32] else .panic
  | .gen128, off, len => if len = 16 then .done [sbAcc isRead off 16] else .panic
  | .x2 w, off, len =>
    (sb isRead w off (len / 2)).seq (sb isRead w (off + len / 2) (len - len / 2))
  | .x4 w, off, len =>
    let n := len / 4
    (sb isRead w off n).seq ((sb isRead w (off + n) n).seq
      ((sb isRead w (off + n * 2) n).seq (sb isRead w (off + n * 3) (len - n * 3))))

/-! ### hash `update`: block-buffer 0.9 + the per-block readers -/

inductive HashFam where
  | blake32        -- BLAKE-224/256: 64-byte blocks, 16 × `u32::from_be_bytes(chunk of 4)`
  | blake64        -- BLAKE-384/512: 128-byte blocks, 16 × `u64::from_be_bytes(chunk of 8)`
  | groestlShort   -- Grøstl-224/256: `tf512_impl`
  | groestlLong    -- Grøstl-384/512: `tf1024_impl`
  | jh             -- JH: `f8_impl`
  | skein256 | skein512 | skein1024    -- `Block::from_byte_array(block)`: one copy of the block
  deriving DecidableEq, Repr

def HashFam.block : HashFam → Nat
  | .blake32 => 64 | .blake64 => 128 | .groestlShort => 64 | .groestlLong => 128 | .jh => 64
  | .skein256 => 32 | .skein512 => 64 | .skein1024 => 128

/-- Skein buffers with `input_lazy` (keeps the last full block back), the others with `input_block`. -/
def HashFam.lazy : HashFam → Bool
  | .skein256 | .skein512 | .skein1024 => true
  | _ => false

/-- The reads the compression function performs on the block at `[off, off + block)` of `b`.
      * `tf512_impl`:  `_mm_loadu_si128(data)`, `…(data.offset(1))`, `(2)`, `(3)` with `data : *const __m128i`
      * `tf1024_impl`: the same with offsets 0..7
      * `f8_impl`: `ptr::read_unaligned(data)`, `data.offset(1..3)` (`data : *const M::u128x1`, 16 bytes
        each) before the rounds and once more after them -/
def blockReads (f : HashFam) (b : Base) (off : Nat) : List Access :=
  match f with
  | .blake32 => (List.range 16).map fun i => rd b (off + 4 * i) 4
  | .blake64 => (List.range 16).map fun i => rd b (off + 8 * i) 8
  | .groestlShort => (List.range 4).map fun i => rd b (off + 16 * i) 16
  | .groestlLong => (List.range 8).map fun i => rd b (off + 16 * i) 16
  | .jh => ((List.range 4).map fun i => rd b (off + 16 * i) 16) ++
           ((List.range 4).map fun i => rd b (off + 16 * i) 16)
  | .skein256 => [rd b off 32]
  | .skein512 => [rd b off 64]
  | .skein1024 => [rd b off 128]

/-- `update(data)` with the buffer at position `pos`, `len = data.len()`:
    `BlockBuffer::input_block` (`input_lazy` for Skein) — see CC/Buffer/BlockBuffer.lean for the
    functional transcription.
      1. `if len < r (lazy: ≤ r) { buffer[pos..pos + len].copy_from_slice(input); return }`
      2. `if pos != 0 { buffer[pos..].copy_from_slice(&input[..r]); f(&buffer) }`
      3. `for chunk in input.chunks_exact(b) { f(chunk) }`   (lazy: `while input.len() > b`)
      4. `buffer[..rem.len()].copy_from_slice(rem)` -/
def hashUpd (f : HashFam) (pos len : Nat) : List Access :=
  let b := f.block
  let r := b - pos
  if (if f.lazy then len ≤ r else len < r) then
    [rd .input 0 len, wr .state pos len]
  else
    let o := if pos ≠ 0 then r else 0
    let head := if pos ≠ 0 then [rd .input 0 r, wr .state pos r] ++ blockReads f .state 0 else []
    let m := len - o
    let nblk := if f.lazy then (m - 1) / b else m / b
    let body := (List.range nblk).flatMap fun k => blockReads f .input (o + k * b)
    let n := m - nblk * b
    head ++ body ++ [rd .input (o + nblk * b) n, wr .state 0 n]

/-! ### ChaCha `Buffer::try_apply_keystream` -/

/-- offsets visited by `for dd in data[s .. s + n].chunks_mut(c) { for data_b in dd.iter_mut() … }`
    (`chunks_exact_mut(c)` when `c ∣ n`); `fuel ≥ n` -/
def chunkOffs (c : Nat) : Nat → Nat → Nat → List Nat
  | 0, _, _ => []
  | fuel + 1, s, n =>
    if n = 0 then [] else
    let k := min c n
    List.range' s k ++ chunkOffs c fuel (s + k) (n - k)

/-- `*data_b ^= *key_b` -/
def xorByte (i : Nat) : List Access := [rd .input i 1, wr .output i 1]

/-- `try_apply_keystream::<EnableWide>(data, drounds)` with `self.have = have_` (after the lazy
    refill, so `0 ≤ have_ ≤ 64`), `len = data.len()`; `overflow`: the block-counter check fails
    (`return Err(())` before `data` is touched).
      * `let (d0, d1) = data.split_at_mut(have_ready); for (data_b, key_b) in d0.iter_mut().zip(..)`
      * `if EnableWide::BOOL { let (d0, d1) = data.split_at_mut(data.len() & !(BUFSZ - 1));
           for dd in d0.chunks_exact_mut(BUFSZ) { … } }`                     (BUFSZ = 256)
      * `for dd in data.chunks_mut(BLOCK) { … }`                           (BLOCK = 64) -/
def chachaOffs (have_ : Nat) (wide : Bool) (len : Nat) : List Nat :=
  let haveReady := min have_ len
  let rest := len - haveReady
  let w := if wide then rest / 256 * 256 else 0
  List.range' 0 haveReady ++ chunkOffs 256 w haveReady w ++
    chunkOffs 64 (rest - w) (haveReady + w) (rest - w)

def chachaApply (have_ : Nat) (wide overflow : Bool) (len : Nat) : List Access :=
  if overflow then [] else (chachaOffs have_ wide len).flatMap xorByte

/-! ### Threefish `encrypt_block` / `decrypt_block` -/

/-- `read_u64v_le(&mut v, block)` … `write_u64v_le(block, &v)`: `chunks_exact(8)` zipped with the
    `nw` words, `u64::from_le_bytes` / `copy_from_slice(&n.to_le_bytes())`. -/
def tfBlock (nw : Nat) : List Access :=
  ((List.range nw).map fun i => rd .input (8 * i) 8) ++ ((List.range nw).map fun i => wr .output (8 * i) 8)

/-! ### the byte-slice APIs -/

inductive Call where
  /-- `tf512(cv, data: &GenericArray<u8, U64>)` → `tf512_impl(cv, data.as_ptr())` -/
  | groestlTf512
  /-- `tf1024(cv, data: &GenericArray<u8, U128>)` → `tf1024_impl(cv, data.as_ptr())` -/
  | groestlTf1024
  /-- `Compressor::input(data: &GenericArray<u8, U64>)` → `f8_impl(mach, state, data.as_ptr())` -/
  | jhF8
  /-- `V::unsafe_read_le/be(input)` / `v.write_le/be(out)`, any slice length -/
  | storeBytes (s : VShape) (op : SBOp)
  /-- `try_apply_keystream(data)`, any length -/
  | chachaApply (have_ : Nat) (wide overflow : Bool)
  /-- `Update::update(data)`, any length, buffer position `pos` -/
  | hashUpdate (f : HashFam) (pos : Nat)
  /-- `encrypt_block(block)` / `decrypt_block(block)`, `block: &mut GenericArray<u8, 8·nw>` -/
  | tfBlock (nw : Nat)
  deriving Repr

def footprint : Call → Lens → Trace
  | .groestlTf512, _ => .done (blockReads .groestlShort .input 0)
  | .groestlTf1024, _ => .done (blockReads .groestlLong .input 0)
  | .jhF8, _ => .done (blockReads .jh .input 0)
  | .storeBytes s op, l => sb op.isRead s 0 (if op.isRead then l.input else l.output)
  | .chachaApply h w o, l => .done (chachaApply h w o l.output)
  | .hashUpdate f pos, l => .done (hashUpd f pos l.input)
  | .tfBlock nw, _ => .done (tfBlock nw)

/-- What the Rust *types* (fixed-size `GenericArray`s) and the object invariants guarantee about
    the lengths.  No condition on the caller's slice length where the API takes a slice. -/
def Call.wf : Call → Lens → Prop
  | .groestlTf512, l => l.input = 64
  | .groestlTf1024, l => l.input = 128
  | .jhF8, l => l.input = 64
  | .storeBytes _ _, _ => True
  | .chachaApply _ _ _, l => l.input = l.output
  | .hashUpdate f pos, l => l.state = f.block ∧ (if f.lazy then pos ≤ f.block else pos < f.block)
  | .tfBlock nw, l => l.input = 8 * nw ∧ l.output = 8 * nw

/-- `accs` tile `[s, e)` in order, without gap or overlap. -/
def tiles : List Access → Nat → Nat → Prop
  | [], s, e => s = e
  | a :: as, s, e => a.offset = s ∧ tiles as (s + a.size) e

/-! ### the inventory the model accounts for -/

inductive Cls where
  /-- `_mm*_loadu_*`, `ptr::read_unaligned`: any address -/
  | unalignedLoad
  /-- `_mm*_storeu_*`: any address -/
  | unalignedStore
  /-- `p.offset(idx)` on a `*const [elem bytes]` into a block of `block` bytes -/
  | ptrArith (elem idx block : Nat)
  /-- plain-data reinterpretation between types of the same size (zerocopy `transmute!`, a `repr(C)`
      union of arrays / vectors, a pointer cast whose pointee is only accessed by unaligned forms) -/
  | reinterpret
  /-- safe-by-construction (`slice.as_ptr()`: a pointer with the slice's provenance and length) -/
  | safe
  deriving DecidableEq, Repr

def Cls.bounded : Cls → Bool
  | .ptrArith elem idx block => elem * idx + elem ≤ block
  | _ => true

/-- Is this classification admissible for an item of this kind? -/
def Cls.fits : Kind → Cls → Bool
  | .simdLoadU, .unalignedLoad | .simdLddqu, .unalignedLoad | .ptrReadU, .unalignedLoad => true
  | .simdStoreU, .unalignedStore | .ptrWriteU, .unalignedStore => true
  | .ptrOffset, .ptrArith _ _ _ => true
  | .castConst, .reinterpret | .castMut, .reinterpret | .transmute, .reinterpret
  | .unionRead, .reinterpret => true
  | .asPtr, .safe => true
  | _, _ => false

def accounted : List (MemOp × Cls) := [
  (⟨"hashes/groestl/src/compressor.rs", "fn tf1024_impl", .castConst, "data as *const __m128i", 1⟩, .reinterpret),
  (⟨"hashes/groestl/src/compressor.rs", "fn tf1024_impl", .ptrOffset, "data.offset(1)", 1⟩, (.ptrArith 16 1 128)),
  (⟨"hashes/groestl/src/compressor.rs", "fn tf1024_impl", .ptrOffset, "data.offset(2)", 1⟩, (.ptrArith 16 2 128)),
  (⟨"hashes/groestl/src/compressor.rs", "fn tf1024_impl", .ptrOffset, "data.offset(3)", 1⟩, (.ptrArith 16 3 128)),
  (⟨"hashes/groestl/src/compressor.rs", "fn tf1024_impl", .ptrOffset, "data.offset(4)", 1⟩, (.ptrArith 16 4 128)),
  (⟨"hashes/groestl/src/compressor.rs", "fn tf1024_impl", .ptrOffset, "data.offset(5)", 1⟩, (.ptrArith 16 5 128)),
  (⟨"hashes/groestl/src/compressor.rs", "fn tf1024_impl", .ptrOffset, "data.offset(6)", 1⟩, (.ptrArith 16 6 128)),
  (⟨"hashes/groestl/src/compressor.rs", "fn tf1024_impl", .ptrOffset, "data.offset(7)", 1⟩, (.ptrArith 16 7 128)),
  (⟨"hashes/groestl/src/compressor.rs", "fn tf1024_impl", .simdLoadU, "_mm_loadu_si128(data)", 1⟩, .unalignedLoad),
  (⟨"hashes/groestl/src/compressor.rs", "fn tf1024_impl", .simdLoadU, "_mm_loadu_si128(data.offset(1))", 1⟩, .unalignedLoad),
  (⟨"hashes/groestl/src/compressor.rs", "fn tf1024_impl", .simdLoadU, "_mm_loadu_si128(data.offset(2))", 1⟩, .unalignedLoad),
  (⟨"hashes/groestl/src/compressor.rs", "fn tf1024_impl", .simdLoadU, "_mm_loadu_si128(data.offset(3))", 1⟩, .unalignedLoad),
  (⟨"hashes/groestl/src/compressor.rs", "fn tf1024_impl", .simdLoadU, "_mm_loadu_si128(data.offset(4))", 1⟩, .unalignedLoad),
  (⟨"hashes/groestl/src/compressor.rs", "fn tf1024_impl", .simdLoadU, "_mm_loadu_si128(data.offset(5))", 1⟩, .unalignedLoad),
  (⟨"hashes/groestl/src/compressor.rs", "fn tf1024_impl", .simdLoadU, "_mm_loadu_si128(data.offset(6))", 1⟩, .unalignedLoad),
  (⟨"hashes/groestl/src/compressor.rs", "fn tf1024_impl", .simdLoadU, "_mm_loadu_si128(data.offset(7))", 1⟩, .unalignedLoad),
  (⟨"hashes/groestl/src/compressor.rs", "fn tf512_impl", .castConst, "data as *const __m128i", 1⟩, .reinterpret),
  (⟨"hashes/groestl/src/compressor.rs", "fn tf512_impl", .ptrOffset, "data.offset(1)", 1⟩, (.ptrArith 16 1 64)),
  (⟨"hashes/groestl/src/compressor.rs", "fn tf512_impl", .ptrOffset, "data.offset(2)", 1⟩, (.ptrArith 16 2 64)),
  (⟨"hashes/groestl/src/compressor.rs", "fn tf512_impl", .ptrOffset, "data.offset(3)", 1⟩, (.ptrArith 16 3 64)),
  (⟨"hashes/groestl/src/compressor.rs", "fn tf512_impl", .simdLoadU, "_mm_loadu_si128(data)", 1⟩, .unalignedLoad),
  (⟨"hashes/groestl/src/compressor.rs", "fn tf512_impl", .simdLoadU, "_mm_loadu_si128(data.offset(1))", 1⟩, .unalignedLoad),
  (⟨"hashes/groestl/src/compressor.rs", "fn tf512_impl", .simdLoadU, "_mm_loadu_si128(data.offset(2))", 1⟩, .unalignedLoad),
  (⟨"hashes/groestl/src/compressor.rs", "fn tf512_impl", .simdLoadU, "_mm_loadu_si128(data.offset(3))", 1⟩, .unalignedLoad),
  (⟨"hashes/groestl/src/compressor.rs", "mod autodetect / fn tf1024", .asPtr, "data.as_ptr()", 1⟩, .safe),
  (⟨"hashes/groestl/src/compressor.rs", "mod autodetect / fn tf512", .asPtr, "data.as_ptr()", 1⟩, .safe),
  (⟨"hashes/groestl/src/lib.rs", "impl Compressor1024 / fn finalize_dirty", .unionRead, "CvBytes1024 { cv: self.cv }.block", 1⟩, .reinterpret),
  (⟨"hashes/groestl/src/lib.rs", "impl Compressor1024 / fn finalize_dirty", .unionRead, "self.cv", 1⟩, .reinterpret),
  (⟨"hashes/groestl/src/lib.rs", "impl Compressor1024 / fn new", .unionRead, "CvBytes1024 { block }.cv", 1⟩, .reinterpret),
  (⟨"hashes/groestl/src/lib.rs", "impl Compressor512 / fn finalize_dirty", .transmute, "transmute!(self.cv)", 1⟩, .reinterpret),
  (⟨"hashes/groestl/src/lib.rs", "impl Compressor512 / fn new", .transmute, "transmute!(block)", 1⟩, .reinterpret),
  (⟨"hashes/jh/src/compressor.rs", "fn f8_impl", .castConst, "data as *const M::u128x1", 1⟩, .reinterpret),
  (⟨"hashes/jh/src/compressor.rs", "fn f8_impl", .ptrOffset, "data.offset(1)", 2⟩, (.ptrArith 16 1 64)),
  (⟨"hashes/jh/src/compressor.rs", "fn f8_impl", .ptrOffset, "data.offset(2)", 2⟩, (.ptrArith 16 2 64)),
  (⟨"hashes/jh/src/compressor.rs", "fn f8_impl", .ptrOffset, "data.offset(3)", 2⟩, (.ptrArith 16 3 64)),
  (⟨"hashes/jh/src/compressor.rs", "fn f8_impl", .ptrReadU, "ptr::read_unaligned(data)", 2⟩, .unalignedLoad),
  (⟨"hashes/jh/src/compressor.rs", "fn f8_impl", .ptrReadU, "ptr::read_unaligned(data.offset(1))", 2⟩, .unalignedLoad),
  (⟨"hashes/jh/src/compressor.rs", "fn f8_impl", .ptrReadU, "ptr::read_unaligned(data.offset(2))", 2⟩, .unalignedLoad),
  (⟨"hashes/jh/src/compressor.rs", "fn f8_impl", .ptrReadU, "ptr::read_unaligned(data.offset(3))", 2⟩, .unalignedLoad),
  (⟨"hashes/jh/src/compressor.rs", "fn f8_impl", .unionRead, "X2Bytes::<M> { bytes: rc[j] }.x2", 1⟩, .reinterpret),
  (⟨"hashes/jh/src/compressor.rs", "impl Compressor / fn finalize", .transmute, "transmute!(self.cv)", 1⟩, .reinterpret),
  (⟨"hashes/jh/src/compressor.rs", "impl Compressor / fn input", .asPtr, "data.as_ptr()", 1⟩, .safe),
  (⟨"hashes/jh/src/compressor.rs", "impl Compressor / fn new", .transmute, "transmute!(bytes)", 1⟩, .reinterpret),
  (⟨"hashes/skein/src/lib.rs", "impl Block<N> / fn as_byte_array", .unionRead, "self.bytes", 1⟩, .reinterpret),
  (⟨"hashes/skein/src/lib.rs", "impl Block<N> / fn as_byte_array_mut", .unionRead, "self.bytes", 1⟩, .reinterpret),
  (⟨"hashes/skein/src/lib.rs", "impl Block<N> / fn as_word_array", .unionRead, "self.words", 1⟩, .reinterpret),
  (⟨"hashes/skein/src/lib.rs", "impl Block<N> / fn as_word_array_mut", .unionRead, "self.words", 1⟩, .reinterpret),
  (⟨"utils-simd/ppv-lite86/src/generic.rs", "fn dmap", .unionRead, "t.d", 1⟩, .reinterpret),
  (⟨"utils-simd/ppv-lite86/src/generic.rs", "fn dmap2", .unionRead, "a.d", 1⟩, .reinterpret),
  (⟨"utils-simd/ppv-lite86/src/generic.rs", "fn dmap2", .unionRead, "b.d", 1⟩, .reinterpret),
  (⟨"utils-simd/ppv-lite86/src/generic.rs", "fn omap", .unionRead, "a.q", 1⟩, .reinterpret),
  (⟨"utils-simd/ppv-lite86/src/generic.rs", "fn omap2", .unionRead, "a.q", 1⟩, .reinterpret),
  (⟨"utils-simd/ppv-lite86/src/generic.rs", "fn omap2", .unionRead, "b.q", 1⟩, .reinterpret),
  (⟨"utils-simd/ppv-lite86/src/generic.rs", "fn qmap", .unionRead, "t.q", 1⟩, .reinterpret),
  (⟨"utils-simd/ppv-lite86/src/generic.rs", "fn qmap2", .unionRead, "a.q", 1⟩, .reinterpret),
  (⟨"utils-simd/ppv-lite86/src/generic.rs", "fn qmap2", .unionRead, "b.q", 1⟩, .reinterpret),
  (⟨"utils-simd/ppv-lite86/src/generic.rs", "impl From<vec128_storage> for [u32; 4] / fn from", .unionRead, "d.d", 1⟩, .reinterpret),
  (⟨"utils-simd/ppv-lite86/src/generic.rs", "impl From<vec128_storage> for [u64; 2] / fn from", .unionRead, "q.q", 1⟩, .reinterpret),
  (⟨"utils-simd/ppv-lite86/src/generic.rs", "impl PartialEq<vec128_storage> for vec128_storage / fn eq", .unionRead, "rhs.q", 1⟩, .reinterpret),
  (⟨"utils-simd/ppv-lite86/src/generic.rs", "impl PartialEq<vec128_storage> for vec128_storage / fn eq", .unionRead, "self.q", 1⟩, .reinterpret),
  (⟨"utils-simd/ppv-lite86/src/generic.rs", "impl Store<vec128_storage> for u128x1_generic / fn unpack", .unionRead, "s.q", 1⟩, .reinterpret),
  (⟨"utils-simd/ppv-lite86/src/generic.rs", "impl Store<vec128_storage> for u32x4_generic / fn unpack", .unionRead, "s.d", 1⟩, .reinterpret),
  (⟨"utils-simd/ppv-lite86/src/generic.rs", "impl Store<vec128_storage> for u64x2_generic / fn unpack", .unionRead, "s.q", 1⟩, .reinterpret),
  (⟨"utils-simd/ppv-lite86/src/x86_64/mod.rs", "impl From<&'a vec128_storage> for &'a [u32; 4] / fn from", .unionRead, "x.u32x4", 1⟩, .reinterpret),
  (⟨"utils-simd/ppv-lite86/src/x86_64/mod.rs", "impl PartialEq for vec128_storage / fn eq", .unionRead, "rhs.u128x1", 1⟩, .reinterpret),
  (⟨"utils-simd/ppv-lite86/src/x86_64/mod.rs", "impl PartialEq for vec128_storage / fn eq", .unionRead, "self.u128x1", 1⟩, .reinterpret),
  (⟨"utils-simd/ppv-lite86/src/x86_64/mod.rs", "impl PartialEq for vec256_storage / fn eq", .unionRead, "rhs.sse2", 1⟩, .reinterpret),
  (⟨"utils-simd/ppv-lite86/src/x86_64/mod.rs", "impl PartialEq for vec256_storage / fn eq", .unionRead, "self.sse2", 1⟩, .reinterpret),
  (⟨"utils-simd/ppv-lite86/src/x86_64/mod.rs", "impl PartialEq for vec512_storage / fn eq", .unionRead, "rhs.avx", 1⟩, .reinterpret),
  (⟨"utils-simd/ppv-lite86/src/x86_64/mod.rs", "impl PartialEq for vec512_storage / fn eq", .unionRead, "self.avx", 1⟩, .reinterpret),
  (⟨"utils-simd/ppv-lite86/src/x86_64/mod.rs", "impl vec256_storage / fn split128", .unionRead, "self.sse2", 1⟩, .reinterpret),
  (⟨"utils-simd/ppv-lite86/src/x86_64/mod.rs", "impl vec512_storage / fn split128", .unionRead, "self.sse2", 1⟩, .reinterpret),
  (⟨"utils-simd/ppv-lite86/src/x86_64/mod.rs", "macro impl_into / impl From<$storage> for $array / fn from", .unionRead, "vec.$name", 1⟩, .reinterpret),
  (⟨"utils-simd/ppv-lite86/src/x86_64/sse2.rs", "impl Vector<[u32; 16]> for u32x4x4_sse2<S3, S4, NI> / fn to_scalars", .transmute, "transmute!(self)", 1⟩, .reinterpret),
  (⟨"utils-simd/ppv-lite86/src/x86_64/sse2.rs", "macro def_vec / impl Store<vec128_storage> for $vec<S3, S4, NI> / fn unpack", .unionRead, "x.sse2", 1⟩, .reinterpret),
  (⟨"utils-simd/ppv-lite86/src/x86_64/sse2.rs", "macro def_vec / impl StoreBytes for $vec<S3, S4, NI> / fn unsafe_read_be", .asPtr, "input.as_ptr()", 1⟩, .safe),
  (⟨"utils-simd/ppv-lite86/src/x86_64/sse2.rs", "macro def_vec / impl StoreBytes for $vec<S3, S4, NI> / fn unsafe_read_be", .castConst, "input.as_ptr() as *const _", 1⟩, .reinterpret),
  (⟨"utils-simd/ppv-lite86/src/x86_64/sse2.rs", "macro def_vec / impl StoreBytes for $vec<S3, S4, NI> / fn unsafe_read_be", .simdLoadU, "_mm_loadu_si128(input.as_ptr() as *const _)", 1⟩, .unalignedLoad),
  (⟨"utils-simd/ppv-lite86/src/x86_64/sse2.rs", "macro def_vec / impl StoreBytes for $vec<S3, S4, NI> / fn unsafe_read_le", .asPtr, "input.as_ptr()", 1⟩, .safe),
  (⟨"utils-simd/ppv-lite86/src/x86_64/sse2.rs", "macro def_vec / impl StoreBytes for $vec<S3, S4, NI> / fn unsafe_read_le", .castConst, "input.as_ptr() as *const _", 1⟩, .reinterpret),
  (⟨"utils-simd/ppv-lite86/src/x86_64/sse2.rs", "macro def_vec / impl StoreBytes for $vec<S3, S4, NI> / fn unsafe_read_le", .simdLoadU, "_mm_loadu_si128(input.as_ptr() as *const _)", 1⟩, .unalignedLoad),
  (⟨"utils-simd/ppv-lite86/src/x86_64/sse2.rs", "macro def_vec / impl StoreBytes for $vec<S3, S4, NI> / fn write_be", .asPtr, "out.as_mut_ptr()", 1⟩, .safe),
  (⟨"utils-simd/ppv-lite86/src/x86_64/sse2.rs", "macro def_vec / impl StoreBytes for $vec<S3, S4, NI> / fn write_be", .castMut, "out.as_mut_ptr() as *mut _", 1⟩, .reinterpret),
  (⟨"utils-simd/ppv-lite86/src/x86_64/sse2.rs", "macro def_vec / impl StoreBytes for $vec<S3, S4, NI> / fn write_be", .simdStoreU, "_mm_storeu_si128(out.as_mut_ptr() as *mut _, x)", 1⟩, .unalignedStore),
  (⟨"utils-simd/ppv-lite86/src/x86_64/sse2.rs", "macro def_vec / impl StoreBytes for $vec<S3, S4, NI> / fn write_le", .asPtr, "out.as_mut_ptr()", 1⟩, .safe),
  (⟨"utils-simd/ppv-lite86/src/x86_64/sse2.rs", "macro def_vec / impl StoreBytes for $vec<S3, S4, NI> / fn write_le", .castMut, "out.as_mut_ptr() as *mut _", 1⟩, .reinterpret),
  (⟨"utils-simd/ppv-lite86/src/x86_64/sse2.rs", "macro def_vec / impl StoreBytes for $vec<S3, S4, NI> / fn write_le", .simdStoreU, "_mm_storeu_si128(out.as_mut_ptr() as *mut _, self.x)", 1⟩, .unalignedStore),
  (⟨"utils-simd/ppv-lite86/src/x86_64/sse2.rs", "mod avx2 / impl Store<vec256_storage> for u32x4x2_avx2<NI> / fn unpack", .unionRead, "p.avx", 1⟩, .reinterpret),
  (⟨"utils-simd/ppv-lite86/src/x86_64/sse2.rs", "mod avx2 / impl Store<vec512_storage> for u32x4x4_avx2<NI> / fn unpack", .unionRead, "p.avx", 2⟩, .reinterpret),
  (⟨"utils-simd/ppv-lite86/src/x86_64/sse2.rs", "mod avx2 / impl StoreBytes for u32x4x2_avx2<NI> / fn unsafe_read_le", .asPtr, "input.as_ptr()", 1⟩, .safe),
  (⟨"utils-simd/ppv-lite86/src/x86_64/sse2.rs", "mod avx2 / impl StoreBytes for u32x4x2_avx2<NI> / fn unsafe_read_le", .castConst, "input.as_ptr() as *const _", 1⟩, .reinterpret),
  (⟨"utils-simd/ppv-lite86/src/x86_64/sse2.rs", "mod avx2 / impl StoreBytes for u32x4x2_avx2<NI> / fn unsafe_read_le", .simdLoadU, "_mm256_loadu_si256(input.as_ptr() as *const _)", 1⟩, .unalignedLoad),
  (⟨"utils-simd/ppv-lite86/src/x86_64/sse2.rs", "mod avx2 / impl StoreBytes for u32x4x2_avx2<NI> / fn write_le", .asPtr, "out.as_mut_ptr()", 1⟩, .safe),
  (⟨"utils-simd/ppv-lite86/src/x86_64/sse2.rs", "mod avx2 / impl StoreBytes for u32x4x2_avx2<NI> / fn write_le", .castMut, "out.as_mut_ptr() as *mut _", 1⟩, .reinterpret),
  (⟨"utils-simd/ppv-lite86/src/x86_64/sse2.rs", "mod avx2 / impl StoreBytes for u32x4x2_avx2<NI> / fn write_le", .simdStoreU, "_mm256_storeu_si256(out.as_mut_ptr() as *mut _, self.x)", 1⟩, .unalignedStore),
  (⟨"utils-simd/ppv-lite86/src/x86_64/sse2.rs", "mod avx2 / impl Vector<[u32; 16]> for u32x4x4_avx2<NI> / fn to_scalars", .transmute, "transmute!(self)", 1⟩, .reinterpret)
]

def expectedMemOps : List MemOp := accounted.map (·.1)

/-- byte offsets of the unaligned loads of function `ctx` that the inventory lists:
    the load through the base pointer and one per `ptrArith` item, each `count` times -/
def loadOffsets (file ctx : String) : List Nat :=
  (accounted.filter fun p => p.1.file == file && p.1.ctx == ctx).flatMap fun p =>
    match p.1.kind, p.2 with
    | .ptrOffset, .ptrArith elem idx _ => List.replicate p.1.count (elem * idx)
    | _, _ => []

/-- insertion sort (structural, so that it evaluates in the kernel) -/
def insertSorted (x : Nat) : List Nat → List Nat
  | [] => [x]
  | y :: ys => if x ≤ y then x :: y :: ys else y :: insertSorted x ys

def isort : List Nat → List Nat
  | [] => []
  | x :: xs => insertSorted x (isort xs)

end CC.Mem
