/-
  CC.Mem.SrcFootprint — the obligations that tie the hand-written footprint model of C16
  (CC/Mem/Footprint.lean) to the raw-memory access footprints REGENERATED from the tree under
  verification on every run (`CC.Gen.FootprintSrc`, written by tools/inventory_footprint.py).

    (0) `src_footprint_clean`             the translator understood every selected function
    (1) `src_footprint_in_bounds`         every generated access lies inside the region its pointer was
                                          derived from, under the guards in force, for ALL lengths; every
                                          sub-region handed to a callee lies inside the caller's region and
                                          is at least as long as what the callee's parameter needs
        `src_footprint_calls_consistent`  … where "what the callee needs" is what the callee's own record
                                          says (raw-pointer parameters: the extent its accesses reach)
        `src_memops_covered`              every pointer-level item of the raw-memory inventory
                                          (`CC.Gen.memOps`) lies in a translated function
    (2) `src_footprint_unaligned`         no generated access requires an alignment
    (3) `src_footprint_matches_model`     executing the generated records gives exactly the traces of the
                                          hand model `CC.Mem.footprint`:
          * JH      `Compressor::input` → `f8` → `f8_impl`            = `.jhF8`          (as sorted lists)
          * Grøstl  `Compressor512::input` → `autodetect::tf512` → `{aes,ssse3,sse2}::tf512` → `tf512_impl`
                                                                     = `.groestlTf512`   (every alternative)
                    `Compressor1024::input` → … → `tf1024_impl`       = `.groestlTf1024`
          * ppv-lite86 `StoreBytes::{unsafe_read_le, unsafe_read_be, write_le, write_be}` of `def_vec!`
                    (128-bit SSE), `u32x4x2_avx2`, `u32x4_generic`, `u64x2_generic`, `x2<W, G>`, `x4<W>`
                    and `Machine::{read_le, read_be}` = `.storeBytes s op` for EVERY shape `s`, every
                    offset and EVERY slice length (panics included)
        NOT covered by (3) (safe slice code, no raw pointers; tied by the correspondence only):
        `.chachaApply`, `.hashUpdate` (block-buffer + BLAKE / Skein block readers), `.tfBlock`.
-/
import CC.Mem.Lemmas
import CC.Gen.FootprintSrc
import CC.Gen.MemOps
namespace CC.Mem.Src
open CC.Mem CC.Simd CC.Gen.FootprintSrc

/-! ### (0) nothing was skipped -/

theorem src_footprint_clean : footprint_errors = [] := by decide

/-! ### (1) in bounds -/

def argOk (lens : String → Nat) (a : Arg) : Prop :=
  a.off.eval lens + a.len.eval lens ≤ lens a.base ∧ ∀ n, a.need = some n → n ≤ a.len.eval lens

/-- every access / handed-on region is inside its parameter — given that the guards before it passed -/
def okEvs (lens : String → Nat) : List Ev → Prop
  | [] => True
  | .acc _ p off size _ :: r => off.eval lens + size ≤ lens p ∧ okEvs lens r
  | .assertEq a b :: r => a.eval lens = b.eval lens → okEvs lens r
  | .check a b :: r => a.eval lens ≤ b.eval lens → okEvs lens r
  | .call _ args :: r => (∀ a ∈ args, argOk lens a) ∧ okEvs lens r
  | .callGeneric _ args :: r => (∀ a ∈ args, argOk lens a) ∧ okEvs lens r

/-- what a caller has to supply: an `array` parameter has exactly the length its type says, the region
    behind a raw pointer is at least as long as the extent the record states; nothing for slices -/
def paramOk (lens : String → Nat) (p : Param) : Prop :=
  match p.kind, p.guaranteed with
  | .array, some n => lens p.name = n
  | .ptr, some n => n ≤ lens p.name
  | .ptr, none => False
  | _, _ => True

def FnRec.inBounds (r : FnRec) : Prop :=
  ∀ lens : String → Nat, (∀ p ∈ r.params, paramOk lens p) → okEvs lens r.body

theorem forall_mem_nil' {α} {P : α → Prop} : ∀ x ∈ ([] : List α), P x := by simp
theorem forall_mem_cons' {α} {P : α → Prop} {a : α} {l : List α} (h1 : P a) (h2 : ∀ x ∈ l, P x) :
    ∀ x ∈ a :: l, P x := by
  intro x hx; rcases List.mem_cons.1 hx with rfl | h
  · exact h1
  · exact h2 x h

/-- **(1)** for every generated function, all lengths. -/
theorem src_footprint_in_bounds : ∀ r ∈ fns, r.inBounds := by
  unfold fns
  repeat' (first | exact forall_mem_nil' | refine forall_mem_cons' ?_ ?_)
  all_goals
    intro lens h
    fpsrc_unfold_all
    simp only [List.forall_mem_cons, List.not_mem_nil, paramOk, okEvs, argOk, Ex.eval, false_imp_iff, implies_true,
      Option.some.injEq, forall_eq', and_true, true_and, reduceCtorEq] at h ⊢
    omega

/-! ### (1b) the needs quoted at the call sites are the callees' own; (1c) the inventory is covered -/

def lookup (k : String) : Option FnRec := fns.find? (·.key == k)

def argConsistent (f : String) (a : Arg) : Bool :=
  match lookup f with
  | none => false
  | some r =>
    match r.params.find? (·.name == a.callee) with
    | none => false
    | some p => p.guaranteed == a.need

def Ev.callsOk : Ev → Bool
  | .call fs args => !fs.isEmpty && fs.all fun f =>
      args.all (argConsistent f) && ((lookup f).map (·.params.length) == some args.length)
  | _ => true

theorem src_footprint_calls_consistent : ∀ r ∈ fns, ∀ e ∈ r.body, e.callsOk = true := by decide +kernel

/-- raw-pointer parameters always carry the extent they need -/
theorem src_footprint_ptr_extents : ∀ r ∈ fns, ∀ p ∈ r.params, p.kind = .ptr → p.guaranteed.isSome = true := by
  decide +kernel

/-- the kinds of the raw-memory inventory that operate on POINTERS (the others — `transmute!`, union
    reads — reinterpret values) -/
def pointerLevel : Kind → Bool
  | .transmute | .unionRead => false
  | _ => true

theorem src_memops_covered :
    ∀ m ∈ CC.Gen.memOps, pointerLevel m.kind = true →
      (fns.any fun r => r.file == m.file && r.ctx == m.ctx) = true := by
  decide +kernel

/-! ### (2) no alignment requirement -/

def Ev.alignOk : Ev → Bool
  | .acc _ _ _ _ al => al == 1
  | _ => true

theorem src_footprint_unaligned : ∀ r ∈ fns, ∀ e ∈ r.body, e.alignOk = true := by decide +kernel

/-! ### (3) executing the generated records -/

/-- where a parameter lies in the API's slice: (absolute offset, length) -/
abbrev Frame := String → Nat × Nat

def Frame.lens (fr : Frame) : String → Nat := fun p => (fr p).2

/-- the model's convention: reads are recorded on `input`, writes on `output` -/
def mkAcc (w : Bool) (off size al : Nat) : Access :=
  ⟨if w then .write else .read, if w then .output else .input, off, size, al⟩

def subFrame (fr : Frame) (args : List Arg) : Frame := fun q =>
  match args.find? (fun a => a.callee == q) with
  | some a => ((fr a.base).1 + a.off.eval fr.lens, a.len.eval fr.lens)
  | none => (0, 0)

/-- all traces the events can produce (`callF`: functions of the table; `genF`: the method of the type
    parameter, given the regions handed to it).  `[]` = stuck (unknown callee). -/
def execEvs (callF : String → Frame → List Trace) (genF : String → List (Nat × Nat) → List Trace) (fr : Frame) :
    List Ev → List Trace
  | [] => [Trace.done []]
  | .acc w p off size al :: r =>
    (execEvs callF genF fr r).map fun t => (Trace.done [mkAcc w ((fr p).1 + off.eval fr.lens) size al]).seq t
  | .assertEq a b :: r => if a.eval fr.lens = b.eval fr.lens then execEvs callF genF fr r else [Trace.panic]
  | .check a b :: r => if a.eval fr.lens ≤ b.eval fr.lens then execEvs callF genF fr r else [Trace.panic]
  | .call fs args :: r =>
    (fs.flatMap fun f => callF f (subFrame fr args)).flatMap fun t => (execEvs callF genF fr r).map fun t' => t.seq t'
  | .callGeneric m args :: r =>
    (genF m (args.map fun a => ((fr a.base).1 + a.off.eval fr.lens, a.len.eval fr.lens))).flatMap fun t =>
      (execEvs callF genF fr r).map fun t' => t.seq t'

def execFn (genF : String → List (Nat × Nat) → List Trace) : Nat → String → Frame → List Trace
  | 0, _, _ => []
  | n + 1, k, fr =>
    match lookup k with
    | none => []
    | some r => execEvs (execFn genF n) genF fr r.body

def noGen : String → List (Nat × Nat) → List Trace := fun _ _ => []

/-- one parameter covering the whole slice `[off, off + len)` -/
def whole (off len : Nat) : Frame := fun _ => (off, len)

/-! #### JH and Grøstl: closed -/

def insAcc (x : Access) : List Access → List Access
  | [] => [x]
  | y :: ys => if x.offset ≤ y.offset then x :: y :: ys else y :: insAcc x ys

def sortAcc : List Access → List Access
  | [] => []
  | x :: xs => insAcc x (sortAcc xs)

def _root_.CC.Mem.Trace.sorted (t : Trace) : Trace := ⟨sortAcc t.accs, t.panicked⟩

/-- JH: `Compressor::input(data: &GenericArray<u8, U64>)` (→ `f8` → `f8_impl`) and `f8_impl` on a 64-byte
    region perform exactly the model's eight 16-byte reads (the generated list is sorted by offset, the
    model lists the four loads before the rounds and the four after them: compared as sorted lists). -/
theorem src_jh_matches_model (l : Lens) :
    (execFn noGen 4 "hashes/jh/src/compressor.rs :: impl Compressor / fn input" (whole 0 64)).map Trace.sorted =
      [(footprint .jhF8 l).sorted] ∧
    (execFn noGen 2 "hashes/jh/src/compressor.rs :: fn f8_impl" (whole 0 64)).map Trace.sorted =
      [(footprint .jhF8 l).sorted] := by
  have h : footprint .jhF8 l = footprint .jhF8 ⟨0, 0, 0⟩ := rfl
  rw [h]; constructor <;> decide +kernel

/-- Grøstl: `Compressor512::input` / `Compressor1024::input` (→ `autodetect::tf*` → the function pointer
    selected among `aes::`, `ssse3::`, `sse2::` → `tf*_impl`): whichever alternative runs, the trace is the
    model's (4 resp. 8 unaligned 16-byte loads at 0, 16, …, in this order). -/
theorem src_groestl_matches_model (l : Lens) :
    (let ts := execFn noGen 5 "hashes/groestl/src/lib.rs :: impl Compressor512 / fn input" (whole 0 64)
     ts ≠ [] ∧ ∀ t ∈ ts, t = footprint .groestlTf512 l) ∧
    (let ts := execFn noGen 5 "hashes/groestl/src/lib.rs :: impl Compressor1024 / fn input" (whole 0 128)
     ts ≠ [] ∧ ∀ t ∈ ts, t = footprint .groestlTf1024 l) := by
  have h1 : footprint .groestlTf512 l = footprint .groestlTf512 ⟨0, 0, 0⟩ := rfl
  have h2 : footprint .groestlTf1024 l = footprint .groestlTf1024 ⟨0, 0, 0⟩ := rfl
  rw [h1, h2]; constructor <;> decide +kernel

/-! #### ppv-lite86 `StoreBytes`: every shape, every length -/

def _root_.CC.Mem.SBOp.fnName : SBOp → String
  | .readLe => "unsafe_read_le"
  | .readBe => "unsafe_read_be"
  | .writeLe => "write_le"
  | .writeBe => "write_be"

/-- which generated record is `impl StoreBytes for <leaf>` (the generic 128-bit shape stands for both
    `u32x4_generic` (`g64 = false`) and `u64x2_generic` (`g64 = true`)) -/
def leafKey (g64 : Bool) : VShape → SBOp → String
  | .sse128, op => "utils-simd/ppv-lite86/src/x86_64/sse2.rs :: macro def_vec / impl StoreBytes for $vec<S3, S4, NI> / fn " ++ op.fnName
  | .avx256, op => "utils-simd/ppv-lite86/src/x86_64/sse2.rs :: mod avx2 / impl StoreBytes for u32x4x2_avx2<NI> / fn " ++ op.fnName
  | _, op => "utils-simd/ppv-lite86/src/generic.rs :: impl StoreBytes for " ++
      (if g64 then "u64x2_generic" else "u32x4_generic") ++ " / fn " ++ op.fnName

def x2Rec : SBOp → FnRec
  | .readLe => fp_soft_rs_impl_StoreBytes_for_x2_W_G_fn_unsafe_read_le
  | .readBe => fp_soft_rs_impl_StoreBytes_for_x2_W_G_fn_unsafe_read_be
  | .writeLe => fp_soft_rs_impl_StoreBytes_for_x2_W_G_fn_write_le
  | .writeBe => fp_soft_rs_impl_StoreBytes_for_x2_W_G_fn_write_be

def x4Rec : SBOp → FnRec
  | .readLe => fp_soft_rs_impl_StoreBytes_for_x4_W_fn_unsafe_read_le
  | .readBe => fp_soft_rs_impl_StoreBytes_for_x4_W_fn_unsafe_read_be
  | .writeLe => fp_soft_rs_impl_StoreBytes_for_x4_W_fn_write_le
  | .writeBe => fp_soft_rs_impl_StoreBytes_for_x4_W_fn_write_be

/-- the method of `W` = the same method one level down, on exactly one region -/
def genOf (op : SBOp) (k : Nat → Nat → List Trace) : String → List (Nat × Nat) → List Trace :=
  fun m regs =>
    match regs with
    | [(o, l)] => if m = op.fnName then k o l else []
    | _ => []

/-- `<shape as StoreBytes>::<op>` on the region `[off, off + len)`, executed from the generated records -/
def execSB (g64 : Bool) : VShape → SBOp → Nat → Nat → List Trace
  | .x2 w, op, off, len => execEvs (fun _ _ => []) (genOf op (execSB g64 w op)) (whole off len) (x2Rec op).body
  | .x4 w, op, off, len => execEvs (fun _ _ => []) (genOf op (execSB g64 w op)) (whole off len) (x4Rec op).body
  | .sse128, op, off, len => execFn noGen 2 (leafKey g64 .sse128 op) (whole off len)
  | .avx256, op, off, len => execFn noGen 2 (leafKey g64 .avx256 op) (whole off len)
  | .gen128, op, off, len => execFn noGen 2 (leafKey g64 .gen128 op) (whole off len)

theorem _root_.CC.Mem.Trace.seq_done_nil (t : Trace) : t.seq (Trace.done []) = t := by
  cases t with
  | mk a p => cases p <;> simp [Trace.seq, Trace.done]

theorem sbAcc_eq (w : Bool) (off size : Nat) : mkAcc w off size 1 = sbAcc (!w) off size := by
  cases w <;> rfl

/-- the record behind each leaf key -/
def leafRec : Bool → VShape → SBOp → FnRec
  | _, .sse128, .readLe => fp_x86_64_sse2_rs_macro_def_vec_impl_StoreBytes_for_vec_S3_S4_NI_fn_unsafe_read_le
  | _, .sse128, .readBe => fp_x86_64_sse2_rs_macro_def_vec_impl_StoreBytes_for_vec_S3_S4_NI_fn_unsafe_read_be
  | _, .sse128, .writeLe => fp_x86_64_sse2_rs_macro_def_vec_impl_StoreBytes_for_vec_S3_S4_NI_fn_write_le
  | _, .sse128, .writeBe => fp_x86_64_sse2_rs_macro_def_vec_impl_StoreBytes_for_vec_S3_S4_NI_fn_write_be
  | _, .avx256, .readLe => fp_x86_64_sse2_rs_mod_avx2_impl_StoreBytes_for_u32x4x2_avx2_NI_fn_unsafe_read_le
  | _, .avx256, .readBe => fp_x86_64_sse2_rs_mod_avx2_impl_StoreBytes_for_u32x4x2_avx2_NI_fn_unsafe_read_be
  | _, .avx256, .writeLe => fp_x86_64_sse2_rs_mod_avx2_impl_StoreBytes_for_u32x4x2_avx2_NI_fn_write_le
  | _, .avx256, .writeBe => fp_x86_64_sse2_rs_mod_avx2_impl_StoreBytes_for_u32x4x2_avx2_NI_fn_write_be
  | false, _, .readLe => fp_generic_rs_impl_StoreBytes_for_u32x4_generic_fn_unsafe_read_le
  | false, _, .readBe => fp_generic_rs_impl_StoreBytes_for_u32x4_generic_fn_unsafe_read_be
  | false, _, .writeLe => fp_generic_rs_impl_StoreBytes_for_u32x4_generic_fn_write_le
  | false, _, .writeBe => fp_generic_rs_impl_StoreBytes_for_u32x4_generic_fn_write_be
  | true, _, .readLe => fp_generic_rs_impl_StoreBytes_for_u64x2_generic_fn_unsafe_read_le
  | true, _, .readBe => fp_generic_rs_impl_StoreBytes_for_u64x2_generic_fn_unsafe_read_be
  | true, _, .writeLe => fp_generic_rs_impl_StoreBytes_for_u64x2_generic_fn_write_le
  | true, _, .writeBe => fp_generic_rs_impl_StoreBytes_for_u64x2_generic_fn_write_be

theorem lookup_leaf (g64 : Bool) (s : VShape) (hs : s = .sse128 ∨ s = .avx256 ∨ s = .gen128) (op : SBOp) :
    lookup (leafKey g64 s op) = some (leafRec g64 s op) := by
  rcases hs with rfl | rfl | rfl <;> cases op <;> cases g64 <;> decide +kernel

theorem lookup_avx_rle :
    lookup "utils-simd/ppv-lite86/src/x86_64/sse2.rs :: mod avx2 / impl StoreBytes for u32x4x2_avx2<NI> / fn unsafe_read_le" =
      some fp_x86_64_sse2_rs_mod_avx2_impl_StoreBytes_for_u32x4x2_avx2_NI_fn_unsafe_read_le := by decide +kernel
theorem lookup_avx_wle :
    lookup "utils-simd/ppv-lite86/src/x86_64/sse2.rs :: mod avx2 / impl StoreBytes for u32x4x2_avx2<NI> / fn write_le" =
      some fp_x86_64_sse2_rs_mod_avx2_impl_StoreBytes_for_u32x4x2_avx2_NI_fn_write_le := by decide +kernel

/-- the leaves, closed over offset and length: the guard first, then one unaligned access of the whole
    vector — or a clean panic without any access -/
theorem execSB_leaf (g64 : Bool) (s : VShape) (n : Nat)
    (hs : (s = .sse128 ∧ n = 16) ∨ (s = .avx256 ∧ n = 32) ∨ (s = .gen128 ∧ n = 16)) (op : SBOp) (off len : Nat) :
    execSB g64 s op off len = [if len = n then Trace.done [sbAcc op.isRead off n] else Trace.panic] := by
  rcases hs with ⟨rfl, rfl⟩ | ⟨rfl, rfl⟩ | ⟨rfl, rfl⟩ <;> cases op <;> cases g64 <;>
  · rw [execSB]
    first
      | rw [execFn, lookup_leaf _ _ (Or.inl rfl)]
      | rw [execFn, lookup_leaf _ _ (Or.inr (Or.inl rfl))]
      | rw [execFn, lookup_leaf _ _ (Or.inr (Or.inr rfl))]
    simp only [leafRec]
    fpsrc_unfold
    simp only [execEvs, execFn, lookup_avx_rle, lookup_avx_wle, List.flatMap_cons, List.flatMap_nil, List.append_nil]
    try fpsrc_unfold
    simp [execEvs, subFrame, Ex.eval, Frame.lens, whole, mkAcc, Trace.seq_done_nil, SBOp.isRead, sbAcc, rd, wr]
    try (split <;> simp [Trace.seq, Trace.done, Trace.panic])

/-- **StoreBytes, every shape, every offset, every length**: executing the generated records of the
    leaf impls and of the `x2` / `x4` forwarders gives exactly the hand model's trace `sb`. -/
theorem execSB_eq_sb (g64 : Bool) (s : VShape) (op : SBOp) (off len : Nat) :
    execSB g64 s op off len = [sb op.isRead s off len] := by
  induction s generalizing off len with
  | sse128 => rw [execSB_leaf g64 .sse128 16 (Or.inl ⟨rfl, rfl⟩)]; rfl
  | avx256 => rw [execSB_leaf g64 .avx256 32 (Or.inr (Or.inl ⟨rfl, rfl⟩))]; rfl
  | gen128 => rw [execSB_leaf g64 .gen128 16 (Or.inr (Or.inr ⟨rfl, rfl⟩))]; rfl
  | x2 w ih =>
    have h1 : len / 2 ≤ len := Nat.div_le_self _ _
    cases op <;>
    · rw [execSB]
      simp only [x2Rec]
      fpsrc_unfold
      simp only [execEvs, genOf, Ex.eval, Frame.lens, whole, h1, if_true, List.map_cons, List.map_nil, SBOp.fnName, ih,
        List.flatMap_cons, List.flatMap_nil, List.append_nil, Trace.seq_done_nil, Nat.add_zero, sb, SBOp.isRead]
  | x4 w ih =>
    have h1 : len / 4 ≤ len := Nat.div_le_self _ _
    have h2 : len / 4 ≤ len / 4 * 2 := by omega
    have h3 : len / 4 * 2 ≤ len := by omega
    have h4 : len / 4 * 2 ≤ len / 4 * 3 := by omega
    have h5 : len / 4 * 3 ≤ len := by omega
    have e1 : len / 4 * 2 - len / 4 = len / 4 := by omega
    have e2 : len / 4 * 3 - len / 4 * 2 = len / 4 := by omega
    cases op <;>
    · rw [execSB]
      simp only [x4Rec]
      fpsrc_unfold
      simp only [execEvs, genOf, Ex.eval, Frame.lens, whole, h1, h2, h3, h4, h5, e1, e2, if_true, List.map_cons,
        List.map_nil, SBOp.fnName, ih, List.flatMap_cons, List.flatMap_nil, List.append_nil, Trace.seq_done_nil,
        Nat.add_zero, sb, SBOp.isRead]

/-- **(3) for `StoreBytes`**: the API calls `V::unsafe_read_le/be(input)`, `v.write_le/be(out)` (offset 0, any
    slice length) equal `footprint (.storeBytes s op)`, for both generic leaf types; and
    `Machine::read_le` / `read_be` (ppv-lite86 types.rs) forward the whole slice to them. -/
theorem src_storeBytes_matches_model (g64 : Bool) (s : VShape) (op : SBOp) (l : Lens) :
    execSB g64 s op 0 (if op.isRead then l.input else l.output) = [footprint (.storeBytes s op) l] ∧
    execEvs (fun _ _ => []) (genOf .readLe (execSB g64 s .readLe)) (whole 0 l.input)
        fp_types_rs_trait_Machine_fn_read_le.body = [footprint (.storeBytes s .readLe) l] ∧
    execEvs (fun _ _ => []) (genOf .readBe (execSB g64 s .readBe)) (whole 0 l.input)
        fp_types_rs_trait_Machine_fn_read_be.body = [footprint (.storeBytes s .readBe) l] := by
  refine ⟨execSB_eq_sb g64 s op 0 _, ?_, ?_⟩ <;>
  · fpsrc_unfold
    simp only [execEvs, genOf, Ex.eval, Frame.lens, whole, List.map_cons, List.map_nil, SBOp.fnName, execSB_eq_sb,
      List.flatMap_cons, List.flatMap_nil, List.append_nil, Trace.seq_done_nil, Nat.add_zero, footprint, SBOp.isRead,
      if_true]

/-! ### non-vacuity / sensitivity -/

/-- `okEvs` is not trivially true: a fifth load `data.offset(4)` in `tf512_impl` is out of bounds -/
example : ¬ (∀ lens : String → Nat, 64 ≤ lens "data" → okEvs lens [.acc false "data" (.lit 64) 16 1]) := by
  intro h; have := h (fun _ => 64) (Nat.le_refl _); simp [okEvs, Ex.eval] at this
/-- … and so is an access that is not protected by its length guard -/
example : ¬ (∀ lens : String → Nat, okEvs lens [.acc false "input" (.lit 0) 16 1]) := by
  intro h; have := h (fun _ => 0); simp [okEvs, Ex.eval] at this
example : okEvs (fun _ => 7) [.assertEq (.len "input") (.lit 16), .acc false "input" (.lit 0) 16 1] := by
  simp [okEvs, Ex.eval]
/-- a panic of the first half stops the second: 65 bytes into `x2<u32x4x2_avx2>` -/
example : execSB false (.x2 .avx256) .readLe 0 65 = [⟨[rd .input 0 32], true⟩] := by decide +kernel

end CC.Mem.Src
