/-
  CC.Mem.Lemmas — helper lemmas about the footprint model (used by CC/Thm/C16.lean).
-/
import CC.Mem.Footprint
namespace CC.Mem

/-! ### traces -/

theorem Trace.mem_seq {a b : Trace} {x : Access} (h : x ∈ (a.seq b).accs) : x ∈ a.accs ∨ x ∈ b.accs := by
  unfold Trace.seq at h
  split at h
  · exact .inl h
  · simpa using h

theorem Trace.seq_panicked (a b : Trace) : (a.seq b).panicked = (a.panicked || b.panicked) := by
  unfold Trace.seq
  cases h : a.panicked <;> simp [h]

theorem Trace.seq_accs_ok {a b : Trace} (h : a.panicked = false) : (a.seq b).accs = a.accs ++ b.accs := by
  unfold Trace.seq; simp [h]

theorem tiles_append {l1 l2 : List Access} {s m e : Nat} (h1 : tiles l1 s m) (h2 : tiles l2 m e) :
    tiles (l1 ++ l2) s e := by
  induction l1 generalizing s with
  | nil => simp only [tiles] at h1; subst h1; simpa using h2
  | cons a as ih => exact ⟨h1.1, ih h1.2⟩

/-! ### StoreBytes -/

/-- every access of a `StoreBytes` call on `[off, off + len)` lies inside that range, is unaligned,
    and is on the caller's input (reads) or output (writes) slice -/
theorem sb_bounds (isRead : Bool) (s : VShape) : ∀ (off len : Nat) (a : Access), a ∈ (sb isRead s off len).accs →
    off ≤ a.offset ∧ a.offset + a.size ≤ off + len ∧ a.align = 1 ∧
    a.base = (if isRead then Base.input else Base.output) ∧
    a.kind = (if isRead then AKind.read else AKind.write) := by
  induction s with
  | sse128 =>
    intro off len a h
    unfold sb at h
    split at h
    · cases isRead <;> simp [Trace.done, sbAcc, rd, wr] at h <;> subst h <;> simp <;> omega
    · simp [Trace.panic] at h
  | avx256 =>
    intro off len a h
    unfold sb at h
    split at h
    · cases isRead <;> simp [Trace.done, sbAcc, rd, wr] at h <;> subst h <;> simp <;> omega
    · simp [Trace.panic] at h
  | gen128 =>
    intro off len a h
    unfold sb at h
    split at h
    · cases isRead <;> simp [Trace.done, sbAcc, rd, wr] at h <;> subst h <;> simp <;> omega
    · simp [Trace.panic] at h
  | x2 w ih =>
    intro off len a h
    unfold sb at h
    rcases Trace.mem_seq h with h | h
    · have := ih _ _ a h; refine ⟨this.1, ?_, this.2.2⟩; omega
    · have := ih _ _ a h; refine ⟨?_, ?_, this.2.2⟩ <;> omega
  | x4 w ih =>
    intro off len a h
    unfold sb at h
    simp only at h
    rcases Trace.mem_seq h with h | h
    · have := ih _ _ a h; refine ⟨this.1, ?_, this.2.2⟩; omega
    · rcases Trace.mem_seq h with h | h
      · have := ih _ _ a h; refine ⟨?_, ?_, this.2.2⟩ <;> omega
      · rcases Trace.mem_seq h with h | h
        · have := ih _ _ a h; refine ⟨?_, ?_, this.2.2⟩ <;> omega
        · have := ih _ _ a h; refine ⟨?_, ?_, this.2.2⟩ <;> omega

theorem VShape.bytes_pos (s : VShape) : 0 < s.bytes := by
  induction s <;> simp [VShape.bytes] <;> omega

/-- wrong length ⇒ the call ends in a panic (`assert_eq!` / `.unwrap()` of the leaf that gets the
    wrong share) -/
theorem sb_panics (isRead : Bool) (s : VShape) : ∀ (off len : Nat), len ≠ s.bytes →
    (sb isRead s off len).panicked = true := by
  induction s with
  | sse128 => intro off len h; unfold sb; simp [VShape.bytes] at h; simp [h, Trace.panic]
  | avx256 => intro off len h; unfold sb; simp [VShape.bytes] at h; simp [h, Trace.panic]
  | gen128 => intro off len h; unfold sb; simp [VShape.bytes] at h; simp [h, Trace.panic]
  | x2 w ih =>
    intro off len h
    unfold sb
    rw [Trace.seq_panicked]
    simp only [VShape.bytes] at h
    by_cases h1 : len / 2 = w.bytes
    · rw [ih (off + len / 2) (len - len / 2) (by omega)]; simp
    · rw [ih off (len / 2) h1]; simp
  | x4 w ih =>
    intro off len h
    unfold sb
    simp only [Trace.seq_panicked]
    simp only [VShape.bytes] at h
    by_cases h1 : len / 4 = w.bytes
    · rw [ih (off + len / 4 * 3) (len - len / 4 * 3) (by omega)]; simp
    · rw [ih off (len / 4) h1]; simp

/-- right length ⇒ no panic and the accesses tile `[off, off + len)` exactly -/
theorem sb_ok (isRead : Bool) (s : VShape) : ∀ (off len : Nat), len = s.bytes →
    (sb isRead s off len).panicked = false ∧ tiles (sb isRead s off len).accs off (off + len) := by
  induction s with
  | sse128 =>
    intro off len h; unfold sb; simp [VShape.bytes] at h
    cases isRead <;> simp [h, Trace.done, tiles, sbAcc, rd, wr]
  | avx256 =>
    intro off len h; unfold sb; simp [VShape.bytes] at h
    cases isRead <;> simp [h, Trace.done, tiles, sbAcc, rd, wr]
  | gen128 =>
    intro off len h; unfold sb; simp [VShape.bytes] at h
    cases isRead <;> simp [h, Trace.done, tiles, sbAcc, rd, wr]
  | x2 w ih =>
    intro off len h
    simp only [VShape.bytes] at h
    have a1 := ih off (len / 2) (by omega)
    have a2 := ih (off + len / 2) (len - len / 2) (by omega)
    unfold sb
    refine ⟨by rw [Trace.seq_panicked, a1.1, a2.1]; rfl, ?_⟩
    rw [Trace.seq_accs_ok a1.1]
    refine tiles_append a1.2 ?_
    have e : off + len / 2 + (len - len / 2) = off + len := by omega
    rw [← e]; exact a2.2
  | x4 w ih =>
    intro off len h
    simp only [VShape.bytes] at h
    have a1 := ih off (len / 4) (by omega)
    have a2 := ih (off + len / 4) (len / 4) (by omega)
    have a3 := ih (off + len / 4 * 2) (len / 4) (by omega)
    have a4 := ih (off + len / 4 * 3) (len - len / 4 * 3) (by omega)
    unfold sb
    simp only
    refine ⟨by simp only [Trace.seq_panicked, a1.1, a2.1, a3.1, a4.1]; rfl, ?_⟩
    have p34 : ((sb isRead w (off + len / 4 * 2) (len / 4)).seq
        (sb isRead w (off + len / 4 * 3) (len - len / 4 * 3))).panicked = false := by
      rw [Trace.seq_panicked, a3.1, a4.1]; rfl
    have p234 : ((sb isRead w (off + len / 4) (len / 4)).seq
        ((sb isRead w (off + len / 4 * 2) (len / 4)).seq
        (sb isRead w (off + len / 4 * 3) (len - len / 4 * 3)))).panicked = false := by
      rw [Trace.seq_panicked, a2.1, p34]; rfl
    rw [Trace.seq_accs_ok a1.1, Trace.seq_accs_ok a2.1, Trace.seq_accs_ok a3.1]
    have e2 : off + len / 4 + len / 4 = off + len / 4 * 2 := by omega
    have e3 : off + len / 4 * 2 + len / 4 = off + len / 4 * 3 := by omega
    have e4 : off + len / 4 * 3 + (len - len / 4 * 3) = off + len := by omega
    have t2 := a2.2; rw [e2] at t2
    have t3 := a3.2; rw [e3] at t3
    have t4 := a4.2; rw [e4] at t4
    exact tiles_append a1.2 (tiles_append t2 (tiles_append t3 t4))

/-! ### block readers and hash update -/

theorem blockReads_bounds (f : HashFam) (b : Base) (off : Nat) (a : Access) (h : a ∈ blockReads f b off) :
    a.base = b ∧ off ≤ a.offset ∧ a.offset + a.size ≤ off + f.block ∧ a.align = 1 ∧ a.kind = .read := by
  cases f <;> simp only [blockReads, List.mem_map, List.mem_range, List.mem_append, List.mem_singleton] at h
  case blake32 => obtain ⟨i, hi, rfl⟩ := h; simp [rd, HashFam.block]; omega
  case blake64 => obtain ⟨i, hi, rfl⟩ := h; simp [rd, HashFam.block]; omega
  case groestlShort => obtain ⟨i, hi, rfl⟩ := h; simp [rd, HashFam.block]; omega
  case groestlLong => obtain ⟨i, hi, rfl⟩ := h; simp [rd, HashFam.block]; omega
  case jh => rcases h with ⟨i, hi, rfl⟩ | ⟨i, hi, rfl⟩ <;> simp [rd, HashFam.block] <;> omega
  case skein256 => subst h; simp [rd, HashFam.block]
  case skein512 => subst h; simp [rd, HashFam.block]
  case skein1024 => subst h; simp [rd, HashFam.block]

theorem HashFam.block_pos (f : HashFam) : 0 < f.block := by cases f <;> decide

theorem blk_in {k q b m : Nat} (h : k < q) (hq : q * b ≤ m) : k * b + b ≤ m := by
  have : (k + 1) * b ≤ q * b := Nat.mul_le_mul_right b h
  rw [Nat.succ_mul] at this
  omega

theorem hashUpd_bounds (f : HashFam) (pos len : Nat)
    (hpos : if f.lazy then pos ≤ f.block else pos < f.block) (a : Access) (h : a ∈ hashUpd f pos len) :
    a.align = 1 ∧ ((a.base = .input ∧ a.kind = .read ∧ a.offset + a.size ≤ len) ∨
                   (a.base = .state ∧ a.offset + a.size ≤ f.block)) := by
  have hb := f.block_pos
  unfold hashUpd at h
  simp only at h
  by_cases hs : (if f.lazy = true then len ≤ f.block - pos else len < f.block - pos)
  · -- short input: one copy
    rw [if_pos hs] at h
    simp only [List.mem_cons, List.not_mem_nil, or_false] at h
    rcases h with rfl | rfl
    · exact ⟨rfl, .inl ⟨rfl, rfl, Nat.le_of_eq (Nat.zero_add _)⟩⟩
    · refine ⟨rfl, .inr ⟨rfl, ?_⟩⟩
      show pos + len ≤ f.block
      cases hl : f.lazy <;> simp [hl] at hs hpos <;> omega
  · rw [if_neg hs] at h
    simp only [List.mem_append, List.mem_flatMap, List.mem_range, List.mem_cons, List.not_mem_nil,
      or_false] at h
    -- facts about the split point
    have ho : (if pos ≠ 0 then f.block - pos else 0) ≤ len := by
      cases hl : f.lazy <;> simp [hl] at hs hpos <;> split <;> omega
    have hq : (if f.lazy = true then (len - (if pos ≠ 0 then f.block - pos else 0) - 1) / f.block
               else (len - (if pos ≠ 0 then f.block - pos else 0)) / f.block) * f.block
              ≤ len - (if pos ≠ 0 then f.block - pos else 0) := by
      split
      · exact Nat.le_trans (Nat.div_mul_le_self _ _) (Nat.sub_le _ _)
      · exact Nat.div_mul_le_self _ _
    rcases h with (h | ⟨k, hk, h⟩) | h
    · -- head
      by_cases hp : pos ≠ 0
      · rw [if_pos hp] at h
        simp only [List.mem_append, List.mem_cons, List.not_mem_nil, or_false] at h
        rw [if_pos hp] at ho
        rcases h with (rfl | rfl) | h
        · refine ⟨rfl, .inl ⟨rfl, rfl, ?_⟩⟩
          show 0 + (f.block - pos) ≤ len
          omega
        · refine ⟨rfl, .inr ⟨rfl, ?_⟩⟩
          show pos + (f.block - pos) ≤ f.block
          cases hl : f.lazy <;> simp [hl] at hpos <;> omega
        · have := blockReads_bounds f .state 0 a h
          exact ⟨this.2.2.2.1, .inr ⟨this.1, by omega⟩⟩
      · rw [if_neg hp] at h
        simp at h
    · -- full blocks read in place from the caller's slice
      have hb' := blockReads_bounds f .input _ a h
      refine ⟨hb'.2.2.2.1, .inl ⟨hb'.1, hb'.2.2.2.2, ?_⟩⟩
      have := blk_in hk hq
      omega
    · -- remainder copy
      rcases h with rfl | rfl
      · refine ⟨rfl, .inl ⟨rfl, rfl, ?_⟩⟩
        simp only [rd]
        omega
      · refine ⟨rfl, .inr ⟨rfl, ?_⟩⟩
        simp only [wr, Nat.zero_add]
        -- remainder ≤ block size
        generalize (len - (if pos ≠ 0 then f.block - pos else 0)) = m at *
        cases hl : f.lazy
        · simp only [Bool.false_eq_true, if_false]
          have := Nat.mod_lt m hb
          have e := Nat.div_add_mod m f.block
          rw [Nat.mul_comm] at e
          omega
        · simp only [if_true]
          rcases Nat.eq_zero_or_pos m with rfl | hm
          · simp
          · have := Nat.mod_lt (m - 1) hb
            have e := Nat.div_add_mod (m - 1) f.block
            rw [Nat.mul_comm] at e
            omega

/-! ### ChaCha -/

theorem chunkOffs_eq (c : Nat) (hc : 0 < c) : ∀ (fuel s n : Nat), n ≤ fuel → chunkOffs c fuel s n = List.range' s n := by
  intro fuel
  induction fuel with
  | zero => intro s n h; have : n = 0 := by omega
            subst this; simp [chunkOffs]
  | succ f ih =>
    intro s n h
    unfold chunkOffs
    split
    · rename_i h0; subst h0; simp
    · rename_i h0
      simp only
      have hk : 0 < min c n := by omega
      rw [ih (s + min c n) (n - min c n) (by omega)]
      have := List.range'_append_1 (s := s) (m := min c n) (n := n - min c n)
      rw [this]
      congr 1
      omega

theorem range'_three (h w t : Nat) :
    List.range' 0 h ++ List.range' h w ++ List.range' (h + w) t = List.range' 0 (h + w + t) := by
  have e : List.range' h w = List.range' (0 + h) w := by rw [Nat.zero_add]
  rw [e, List.range'_append_1]
  have e2 : List.range' (h + w) t = List.range' (0 + (h + w)) t := by rw [Nat.zero_add]
  rw [e2, List.range'_append_1]

theorem chachaOffs_eq (have_ : Nat) (wide : Bool) (len : Nat) : chachaOffs have_ wide len = List.range len := by
  unfold chachaOffs
  simp only
  rw [chunkOffs_eq 256 (by omega) _ _ _ (Nat.le_refl _), chunkOffs_eq 64 (by omega) _ _ _ (Nat.le_refl _)]
  rw [range'_three, List.range_eq_range']
  congr 1
  have : (if wide = true then (len - min have_ len) / 256 * 256 else 0) ≤ len - min have_ len := by
    split
    · exact Nat.div_mul_le_self _ _
    · omega
  omega

/-! ### Threefish -/

theorem tfBlock_bounds (nw : Nat) (a : Access) (h : a ∈ tfBlock nw) :
    a.align = 1 ∧ a.base ≠ .state ∧ a.offset + a.size ≤ 8 * nw := by
  simp only [tfBlock, List.mem_append, List.mem_map, List.mem_range] at h
  rcases h with ⟨i, hi, rfl⟩ | ⟨i, hi, rfl⟩ <;> simp [rd, wr] <;> omega

end CC.Mem
