/-
  CC.Mem.MemOp — the item type of the raw-memory-operation inventory (`tools/inventory.py memops`).

  One item = one distinct raw-memory operation in one function of the modelled Rust sources:
  the file, the enclosing context (`mod … / macro … / impl … / fn …`), the kind of operation, its
  normalised source text and the number of occurrences in that context.  No line numbers: an edit
  elsewhere in the file leaves the inventory unchanged.
-/
namespace CC.Mem

/-- What the scanner recognises (see `tools/inventory_memops.py` for the exact patterns). -/
inductive Kind where
  | simdLoadU        -- `_mm*_loadu_*`
  | simdLoadA        -- `_mm*_load_si128/_ps/_pd/…`: REQUIRES an aligned address
  | simdLddqu        -- `_mm*_lddqu_*`
  | simdLoadOther    -- any other `_mm*_…load…` (maskload, loadl, …)
  | simdStoreU       -- `_mm*_storeu_*`
  | simdStoreA       -- `_mm*_store_si128/…`: REQUIRES an aligned address
  | simdStream       -- `_mm*_stream_*`: REQUIRES an aligned address
  | simdStoreOther   -- any other `_mm*_…store…`
  | ptrReadU         -- `ptr::read_unaligned` / `.read_unaligned()`
  | ptrRead          -- `ptr::read` / `.read()`: REQUIRES an aligned address
  | ptrWriteU        -- `ptr::write_unaligned`
  | ptrWrite         -- `ptr::write` / `.write(v)`: REQUIRES an aligned address
  | ptrOther         -- `ptr::read_volatile`, `ptr::copy`, `ptr::swap`, …
  | ptrOffset        -- `.offset(…)`
  | ptrAdd           -- `.add(…)` / `.sub(…)`
  | castConst        -- `… as *const T`
  | castMut          -- `… as *mut T`
  | asPtr            -- `.as_ptr()` / `.as_mut_ptr()`
  | fromRawParts     -- `slice::from_raw_parts(_mut)`
  | transmute        -- `mem::transmute`, zerocopy `transmute!`
  | getUnchecked     -- `.get_unchecked(_mut)(…)`
  | copyNonoverlapping
  | writeBytes
  | unionRead        -- read of a union field (reinterpretation)
  deriving DecidableEq, Repr

structure MemOp where
  file : String
  ctx : String
  kind : Kind
  text : String
  count : Nat
  deriving DecidableEq, Repr

/-- Kinds whose use on a caller-supplied byte pointer would make the API alignment dependent
    (or, for the `…Other` kinds, that the footprint model has no account of). -/
def Kind.needsAlignment : Kind → Bool
  | .simdLoadA | .simdStoreA | .simdStream | .ptrRead | .ptrWrite => true
  | _ => false

def Kind.unmodelled : Kind → Bool
  | .simdLoadOther | .simdStoreOther | .ptrOther | .fromRawParts | .getUnchecked
  | .copyNonoverlapping | .writeBytes | .ptrAdd => true
  | _ => false

end CC.Mem
