/-
  CC.Mem.SrcVocab — vocabulary of the REGENERATED raw-memory footprints (`CC.Gen.FootprintSrc`,
  written by tools/inventory_footprint.py from the tree under verification on every run).

  Only data types live here (imported by the generated file); their meaning (`okEvs`, `exec`) and the
  obligations against the hand-written footprint model are in CC/Mem/SrcFootprint.lean.

  One `FnRec` per Rust function that touches caller-provided byte memory through a raw pointer, a
  load/store intrinsic, zerocopy, or by handing (part of) it on to such a function:

    * `params`  the byte-memory parameters: `&[u8]` / `&mut [u8]` (`slice`, no length known),
                `&[u8; N]` / `&GenericArray<u8, UN>` (`array`, the TYPE guarantees `N` bytes),
                `*const u8` / `*mut T` (`ptr`: `guaranteed` is the extent in bytes the function needs
                behind the pointer — every caller must supply at least that much, obligation
                `src_footprint_in_bounds`)
    * `body`    the events in program order (consecutive accesses, which commute, in sorted order):
                accesses (kind, base parameter, byte offset, size, REQUIRED alignment), the guards
                (`assert_eq!`, slice-index checks: a clean panic when they fail), calls that pass a
                sub-region of a parameter on (to a function of the table, to one of several `cfg` /
                run-time selected alternatives, or to a method of the impl's type parameter `W`).
  Offsets and lengths are closed terms over the parameters' lengths (`Ex`); loops over constant
  ranges are unrolled by the translator, `let`-bound index arithmetic is substituted.
-/
namespace CC.Mem.Src

/-- index arithmetic: literals, `p.len()`, `+ - * /` (usize; `-` is only emitted where a preceding
    guard makes it exact) -/
inductive Ex where
  | lit (n : Nat)
  | len (p : String)
  | add (a b : Ex)
  | sub (a b : Ex)
  | mul (a b : Ex)
  | div (a b : Ex)
  deriving DecidableEq, Repr

def Ex.eval (lens : String → Nat) : Ex → Nat
  | .lit n => n
  | .len p => lens p
  | .add a b => a.eval lens + b.eval lens
  | .sub a b => a.eval lens - b.eval lens
  | .mul a b => a.eval lens * b.eval lens
  | .div a b => a.eval lens / b.eval lens

/-- the sub-region `[off, off + len)` of the caller's parameter `base` becomes the callee's parameter
    `callee`; `need`: what the callee's parameter is guaranteed / requires (copied from its record,
    obligation `src_footprint_calls_consistent`) -/
structure Arg where
  callee : String
  base : String
  off : Ex
  len : Ex
  need : Option Nat
  deriving DecidableEq, Repr

inductive Ev where
  /-- one load / store of `size` bytes at `base + off` that requires `align` (1 = none) -/
  | acc (write : Bool) (base : String) (off : Ex) (size align : Nat)
  /-- `assert_eq!(a, b)`, `.unwrap()` of zerocopy's size check: clean panic unless `a = b` -/
  | assertEq (a b : Ex)
  /-- slice-index / `split_at` / `assert!(a <= b)` check: clean panic unless `a ≤ b` -/
  | check (a b : Ex)
  /-- call of one of `fns` (keys of the table; more than one: `cfg` alternatives or a function
      pointer selected at run time) -/
  | call (fns : List String) (args : List Arg)
  /-- call of `W::method` / `w.method(..)` where `W` is the impl's type parameter -/
  | callGeneric (method : String) (args : List Arg)
  deriving DecidableEq, Repr

inductive PKind where
  | slice | array | ptr
  deriving DecidableEq, Repr

structure Param where
  name : String
  kind : PKind
  guaranteed : Option Nat
  deriving DecidableEq, Repr

structure FnRec where
  /-- `<file> :: <context>` with the context labels of the raw-memory inventory (`CC.Gen.memOps`) -/
  file : String
  ctx : String
  params : List Param
  body : List Ev
  deriving DecidableEq, Repr

def FnRec.key (r : FnRec) : String := r.file ++ " :: " ++ r.ctx

end CC.Mem.Src
