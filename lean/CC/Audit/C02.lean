import CC.Thm.C02
#print axioms CC.Thm.C02.new_at_zero
#print axioms CC.Thm.C02.history_refines
#print axioms CC.Thm.C02.history_from_new
#print axioms CC.Thm.C02.profile_independent
#print axioms CC.Thm.C02.output_depends_on_position_only
#print axioms CC.Thm.C02.apply_bytewise
#print axioms CC.Thm.C02.rechunk
#print axioms CC.Thm.C02.apply_twice_restores
#print axioms CC.Thm.C02.source_glue_match
#print axioms CC.Thm.C02.source_seeknum_match
