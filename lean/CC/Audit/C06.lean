import CC.Thm.C06
#print axioms CC.Thm.C06.ss_is_sbox
#print axioms CC.Thm.C06.l_is_L
#print axioms CC.Thm.C06.swap_is_xor
#print axioms CC.Thm.C06.h0_conforms
#print axioms CC.Thm.C06.jh_conforms_partial
#print axioms CC.Thm.C06.round_refines
#print axioms CC.Thm.C06.constants_conform
#print axioms CC.Thm.C06.f8_conforms
#print axioms CC.Thm.C06.jh_conforms
#print axioms CC.Thm.C06.jh_datalen_exact
#print axioms CC.Thm.C06.jh_datalen_overflow_debug
#print axioms CC.Thm.C06.jh_bitlen_check
#print axioms CC.Thm.C06.source_kernels_match
#print axioms CC.Thm.C06.source_glue_match
#print axioms CC.Thm.C06.source_compressor_match
