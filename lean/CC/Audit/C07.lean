import CC.Thm.C07
#print axioms CC.Thm.C07.groestl_conforms_partial
#print axioms CC.Thm.C07.counter_exact
#print axioms CC.Thm.C07.final_count_exact
#print axioms CC.Groestl.mul2_eq
#print axioms CC.Groestl.mixNet_eq
#print axioms CC.Groestl.aesenclast_zero
#print axioms CC.Groestl.transpose_inv_transpose
#print axioms CC.Groestl.spec_256_empty
#print axioms CC.Groestl.model_512_empty
