import CC.Thm.C07
#print axioms CC.Thm.C07.groestl_conforms
#print axioms CC.Thm.C07.groestl_conforms_partial
#print axioms CC.Thm.C07.tf512_is_f
#print axioms CC.Thm.C07.of512_is_omega
#print axioms CC.Thm.C07.tf1024_is_f
#print axioms CC.Thm.C07.of1024_is_omega
#print axioms CC.Thm.C07.counter_exact
#print axioms CC.Thm.C07.final_count_exact
#print axioms CC.Groestl.spec_256_empty
#print axioms CC.Groestl.spec_512_empty
#print axioms CC.Thm.C07.source_kernels_match
#print axioms CC.Thm.C07.source_literals_match
#print axioms CC.Thm.C07.source_glue_match
#print axioms CC.Thm.C07.source_dataflow_match
