import CC.Thm.C04
#print axioms CC.Thm.C04.put_block_eq_compress32
#print axioms CC.Thm.C04.put_block_eq_compress64
#print axioms CC.Thm.C04.finalize_conforms
#print axioms CC.Thm.C04.blake_conforms
#print axioms CC.Thm.C04.counter_exact
#print axioms CC.Thm.C04.increase_count_exact
#print axioms CC.Thm.C04.streaming_conforms
#print axioms CC.Thm.C04.source_kernels_match
#print axioms CC.Thm.C04.source_code_match
#print axioms CC.Thm.C04.source_glue_match
