import CC.Thm.C11
#print axioms CC.Thm.C11.limits
#print axioms CC.Thm.C11.exhaustion_atomic
#print axioms CC.Thm.C11.usable_after_error
#print axioms CC.Thm.C11.seek_total
#print axioms CC.Thm.C11.no_exhaustion_below_2_64
#print axioms CC.Thm.C11.no_reuse
#print axioms CC.Thm.C11.nonce_words_fixed
#print axioms CC.Thm.C11.source_glue_match
#print axioms CC.Thm.C11.source_seeknum_match
