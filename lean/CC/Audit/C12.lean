import CC.Thm.C12
#print axioms CC.Thm.C12.leaf
#print axioms CC.Thm.C12.required_provided
#print axioms CC.Thm.C12.leafTable_complete
#print axioms CC.Thm.C12.leafTable_sound
#print axioms CC.Thm.C12.transpose4_eq
#print axioms CC.Thm.C12.source_portable_match
#print axioms CC.Thm.C12.source_x86_match
