import CC.Thm.C09
#print axioms CC.Thm.C09.threefish_conforms
#print axioms CC.Thm.C09.unroll_eq_loop
#print axioms CC.Thm.C09.P_tables
#print axioms CC.Thm.C09.source_kernels_match
#print axioms CC.Thm.C09.source_code_match
#print axioms CC.Thm.C09.source_glue_match
#print axioms CC.Thm.C09.generated_encrypt_conforms
