import CC.Thm.C16
#print axioms CC.Thm.C16.in_bounds
#print axioms CC.Thm.C16.alignment_free
#print axioms CC.Thm.C16.only_storeBytes_panics
#print axioms CC.Thm.C16.storeBytes_wrong_length_panics
#print axioms CC.Thm.C16.storeBytes_leaf_no_access
#print axioms CC.Thm.C16.storeBytes_exact
#print axioms CC.Thm.C16.covers_exactly
#print axioms CC.Thm.C16.covers_exactly_count
#print axioms CC.Thm.C16.inventory_accounted
#print axioms CC.Thm.C16.no_aligned_forms
#print axioms CC.Thm.C16.accounted_classified
#print axioms CC.Thm.C16.load_offsets_match
#print axioms CC.Thm.C16.result_ignores_address
#print axioms CC.Thm.C16.source_footprint_match
