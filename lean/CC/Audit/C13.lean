import CC.Thm.C13
#print axioms CC.Thm.C13.lanes_roundtrip
#print axioms CC.Thm.C13.extract_insert
#print axioms CC.Thm.C13.transpose4_is_transpose
#print axioms CC.Thm.C13.to_scalars_order
#print axioms CC.Thm.C13.bytes_le_roundtrip
#print axioms CC.Thm.C13.bytes_be_roundtrip
#print axioms CC.Thm.C13.storage_views
#print axioms CC.Thm.C13.source_portable_match
#print axioms CC.Thm.C13.source_x86_match
#print axioms CC.Thm.C13.eq_is_equality
#print axioms CC.Thm.C13.eq128_s4_is_equality
#print axioms CC.Thm.C13.source_eq_match
