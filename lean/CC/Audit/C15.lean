import CC.Thm.C15
#print axioms CC.Thm.C15.get_set
#print axioms CC.Thm.C15.set_isolated
#print axioms CC.Thm.C15.bad_param
#print axioms CC.Thm.C15.bad_param_small
#print axioms CC.Thm.C15.param_high_bit_ignored
#print axioms CC.Thm.C15.set_is_direct
#print axioms CC.Thm.C15.stream64_eq_iff
#print axioms CC.Thm.C15.stream32_eq_iff
#print axioms CC.Thm.C15.stream64_eq_refill
#print axioms CC.Thm.C15.source_code_match
#print axioms CC.Thm.C15.state_eq_is_equality
#print axioms CC.Thm.C15.rows_eq_is_equality
#print axioms CC.Thm.C15.source_eq_match
