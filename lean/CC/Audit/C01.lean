import CC.Thm.C01
#print axioms CC.Thm.C01.core_eq_spec
#print axioms CC.Thm.C01.block_conforms
#print axioms CC.Thm.C01.keystream_conforms
#print axioms CC.Thm.C01.apply_exact
#print axioms CC.Thm.C01.source_kernels_match
#print axioms CC.Thm.C01.source_code_match
