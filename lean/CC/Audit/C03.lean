import CC.Thm.C03
#print axioms CC.Thm.C03.backend_eq_ref
#print axioms CC.Thm.C03.backend_independent
#print axioms CC.Thm.C03.dispatch_total
#print axioms CC.Thm.C03.dispatch_sound
#print axioms CC.Thm.C03.arms_sound
#print axioms CC.Thm.C03.ladder_extracted
#print axioms CC.Thm.C03.final_else_as_modelled
#print axioms CC.Thm.C03.machine_types_as_modelled
#print axioms CC.Thm.C03.extraction_clean
#print axioms CC.Thm.C03.cfg_atoms_as_modelled
