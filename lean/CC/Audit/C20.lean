import CC.Thm.C20
#print axioms CC.Thm.C20.cfg_exclusive
#print axioms CC.Thm.C20.optional_deps_guarded
#print axioms CC.Thm.C20.refs_resolved_partial
#print axioms CC.Thm.C20.refs_resolved_baseline
#print axioms CC.Thm.C20.groestl_ssse3_without_aes_dangling
#print axioms CC.Thm.C20.unused_features_inert
#print axioms CC.Thm.C20.unused_features_select_nothing
#print axioms CC.Thm.C20.no_unroll_only_selects
#print axioms CC.Thm.C20.backend_choice_only_selects
#print axioms CC.Thm.C20.no_simd_only_selects
#print axioms CC.Thm.C20.std_nostd_dispatch_only_selects
#print axioms CC.Thm.C20.selected_arm_sound
#print axioms CC.Thm.C20.cfg_atoms_as_modelled
