import CC.Thm.C10
#print axioms CC.Thm.C10.dec_enc
#print axioms CC.Thm.C10.enc_dec
#print axioms CC.Thm.C10.mix_inverse
#print axioms CC.Thm.C10.source_glue_match
#print axioms CC.Thm.C10.generated_dec_enc
#print axioms CC.Thm.C10.generated_enc_dec
