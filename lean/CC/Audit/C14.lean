import CC.Thm.C14
#print axioms CC.Thm.C14.refill4_eq
#print axioms CC.Thm.C14.refill_counter
#print axioms CC.Thm.C14.refill4_counter
#print axioms CC.Thm.C14.refill_block
#print axioms CC.Thm.C14.source_code_match
#print axioms CC.Thm.C14.generated_refill4_eq
