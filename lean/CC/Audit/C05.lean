import CC.Thm.C05
#print axioms CC.Thm.C05.skein_conforms
#print axioms CC.Thm.C05.process_block_is_ubi_step
#print axioms CC.Thm.C05.default_is_config_ubi
#print axioms CC.Thm.C05.output_loop_is_output
#print axioms CC.Thm.C05.source_kernels_match
#print axioms CC.Thm.C05.source_glue_match
#print axioms CC.Thm.C05.source_block_match
