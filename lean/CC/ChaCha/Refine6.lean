/-
  CC.ChaCha.Refine6 — every operation history on the concrete machine yields, step by step, the
  results of the abstract position machine.
-/
import CC.ChaCha.Refine5
import CC.ChaCha.Machine
namespace CC.ChaCha
open CC CC.Simd CC.ChaCha.Spec

theorem step_refines (g : Guts) (p : Profile) (c : Cipher) (pos : Nat) (op : Op)
    (h : RC g c pos) (hv : op.valid) :
    ∃ c', c'.v = c.v ∧ cStep p c op = .ok (c', (aStep (limitOf c.v) (ksOf c.v g) pos op).2) ∧
      RC g c' (aStep (limitOf c.v) (ksOf c.v g) pos op).1 := by
  cases op with
  | seek v =>
    obtain ⟨hyes, hno⟩ := Cipher_seek_step g c pos v h
    by_cases hc : 0 ≤ v ∧ v.toNat < 2 ^ 64 ∧ v.toNat ≤ limitOf c.v
    · obtain ⟨c', hcv, he, hr⟩ := hyes hc
      refine ⟨c', hcv, ?_, ?_⟩
      · simp only [cStep, he, aStep, hc, and_self, if_true]
      · simp only [aStep, hc, and_self, if_true]; exact hr
    · refine ⟨c, rfl, ?_, ?_⟩
      · simp only [cStep, hno hc, aStep, hc, if_false]
      · simp only [aStep, hc, if_false]; exact h
  | apply data =>
    obtain ⟨c', hcv, hyes, hno⟩ := Cipher_apply_step g p c pos data h hv
    refine ⟨c', hcv, ?_, ?_⟩
    · by_cases hc : pos + data.length ≤ limitOf c.v
      · simp only [cStep, (hyes hc).1, aStep, hc, if_true]
      · simp only [cStep, (hno hc).1, aStep, hc, if_false]
    · by_cases hc : pos + data.length ≤ limitOf c.v
      · simp only [aStep, hc, if_true]; exact (hyes hc).2
      · simp only [aStep, hc, if_false]; exact (hno hc).2
  | pos ty =>
    refine ⟨c, rfl, ?_, h⟩
    simp only [cStep, Cipher_pos_step g p c pos ty h, aStep]
    by_cases hc : pos ≤ ty.max
    · simp only [hc, if_true]
    · simp only [hc, if_false]

theorem history_refines (g : Guts) (p : Profile) (ops : List Op) :
    ∀ (c : Cipher) (pos : Nat), RC g c pos → (∀ op ∈ ops, op.valid) →
    ∃ c', c'.v = c.v ∧ cRun p c ops = .ok (c', (aRun (limitOf c.v) (ksOf c.v g) pos ops).2) ∧
      RC g c' (aRun (limitOf c.v) (ksOf c.v g) pos ops).1 := by
  induction ops with
  | nil => intro c pos h _; exact ⟨c, rfl, rfl, h⟩
  | cons op ops ih =>
    intro c pos h hv
    obtain ⟨c1, hv1, he1, hr1⟩ := step_refines g p c pos op h (hv op (List.mem_cons_self))
    obtain ⟨c2, hv2, he2, hr2⟩ := ih c1 _ hr1 (fun o ho => hv o (List.mem_cons_of_mem _ ho))
    rw [hv1] at he2 hr2 hv2
    refine ⟨c2, hv2, ?_, ?_⟩
    · simp only [cRun, he1, he2, aRun]
    · simp only [aRun]; exact hr2

end CC.ChaCha
