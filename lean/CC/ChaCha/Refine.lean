/-
  CC.ChaCha.Refine — the buffered stream (`Buffer::try_apply_keystream`, seek, current_pos)
  refines the abstract "position" machine.  Part 1: keystream from a state, wide and tail loops.
-/
import CC.ChaCha.Wide
import CC.ChaCha.Stream
namespace CC.ChaCha
open CC CC.Simd CC.ChaCha.Spec

/-- advance the 64-bit counter lane by `k` -/
def adv (s : Guts) (k : BitVec 64) : Guts := { s with d := addLo s.d k }

/-- the 64-byte block generated from state `s` -/
def blockAt (dr : Nat) (s : Guts) : List (BitVec 8) := (refill Mach.ref s dr).1

theorem addLo_zero' (d : BitVec 128) : addLo d 0#64 = d := addLo_zero d

theorem adv_zero (s : Guts) : adv s 0#64 = s := by
  cases s; simp only [adv, addLo_zero']

theorem adv_adv (s : Guts) (a b : BitVec 64) : adv (adv s a) b = adv s (a + b) := by
  simp [adv, addLo_addLo]

theorem refill_adv (s : Guts) (dr : Nat) : refill Mach.ref s dr = (blockAt dr s, adv s 1) := by
  rw [refill_ref_eq]; rfl

theorem wideBlock_eq (s : Guts) (dr : Nat) (i : BitVec 64) : wideBlock s dr i = blockAt dr (adv s i) := by
  simp [wideBlock, blockAt, refill_ref_eq, adv]

theorem refill4_adv (s : Guts) (dr : Nat) :
    refill4 Mach.ref s dr =
      (blockAt dr s ++ blockAt dr (adv s 1) ++ blockAt dr (adv s 2) ++ blockAt dr (adv s 3), adv s 4) := by
  rw [refill4_ref_eq]
  simp only [wideBlock_eq]
  have : adv s 0 = s := adv_zero s
  rw [this]
  rfl

theorem toLe32_length (w : BitVec 32) : (toLe32 w).length = 4 := rfl

theorem blockAt_length (dr : Nat) (s : Guts) : (blockAt dr s).length = 64 := by
  simp [blockAt, refill_ref_block, serialize, words, List.flatMap, toLe32_length]

/-- `k` consecutive blocks starting at state `s` -/
def ksBlocks (dr : Nat) : Nat → Guts → List (BitVec 8)
  | 0, _ => []
  | k + 1, s => blockAt dr s ++ ksBlocks dr k (adv s 1)

theorem ksBlocks_length (dr k : Nat) (s : Guts) : (ksBlocks dr k s).length = 64 * k := by
  induction k generalizing s with
  | zero => rfl
  | succ k ih => simp [ksBlocks, ih, blockAt_length]; omega

theorem ksBlocks_add (dr a b : Nat) (s : Guts) :
    ksBlocks dr (a + b) s = ksBlocks dr a s ++ ksBlocks dr b (adv s (BitVec.ofNat 64 a)) := by
  induction a generalizing s with
  | zero =>
    have : BitVec.ofNat 64 0 = 0#64 := rfl
    simp only [ksBlocks, this, adv_zero, Nat.zero_add, List.nil_append]
  | succ a ih =>
    have h1 : a + 1 + b = (a + b) + 1 := by omega
    have h2 : (1 : BitVec 64) + BitVec.ofNat 64 a = BitVec.ofNat 64 (a + 1) := by
      rw [BitVec.add_comm]; simp [BitVec.ofNat_add]
    rw [h1]
    simp only [ksBlocks, ih, adv_adv, List.append_assoc, h2]

/-! ### xorBytes algebra -/

theorem xorBytes_length (a b : List (BitVec 8)) : (xorBytes a b).length = min a.length b.length := by
  simp [xorBytes]

theorem xorBytes_append (a a' b b' : List (BitVec 8)) (h : a.length = b.length) :
    xorBytes (a ++ a') (b ++ b') = xorBytes a b ++ xorBytes a' b' := by
  simp [xorBytes, List.zipWith_append h]

theorem xorBytes_nil_left (b : List (BitVec 8)) : xorBytes [] b = [] := rfl
theorem xorBytes_nil_right (a : List (BitVec 8)) : xorBytes a [] = [] := by simp [xorBytes]

/-- xor with a longer key only uses its prefix -/
theorem xorBytes_take (a b : List (BitVec 8)) : xorBytes a b = xorBytes a (b.take a.length) := by
  induction a generalizing b with
  | nil => simp [xorBytes]
  | cons x xs ih =>
    cases b with
    | nil => simp [xorBytes]
    | cons y ys =>
      simp only [xorBytes, List.zipWith_cons_cons, List.length_cons, List.take_succ_cons, List.cons.injEq, true_and]
      exact ih ys

/-! ### the two loops of `try_apply_keystream` -/

theorem ksBlocks_four (dr : Nat) (s : Guts) :
    ksBlocks dr 4 s = blockAt dr s ++ blockAt dr (adv s 1) ++ blockAt dr (adv s 2) ++ blockAt dr (adv s 3) := by
  have e2 : (1 : BitVec 64) + 1 = 2 := by decide
  have e3 : (2 : BitVec 64) + 1 = 3 := by decide
  simp only [ksBlocks, adv_adv, e2, e3, List.append_nil, List.append_assoc]

theorem wideLoop_spec (dr k : Nat) (s : Guts) (data : List (BitVec 8)) (h : 256 * k ≤ data.length) :
    wideLoop Mach.ref dr k s data =
      (xorBytes (data.take (256 * k)) (ksBlocks dr (4 * k) s), adv s (BitVec.ofNat 64 (4 * k))) := by
  induction k generalizing s data with
  | zero =>
    have : BitVec.ofNat 64 (4 * 0) = 0#64 := rfl
    simp [wideLoop, ksBlocks, xorBytes, this, adv_zero]
  | succ k ih =>
    have hd : 256 * k ≤ (data.drop 256).length := by simp; omega
    have e1 : 256 * (k + 1) = 256 + 256 * k := by omega
    have e2 : 4 * (k + 1) = 4 + 4 * k := by omega
    have e4 : (4 : BitVec 64) + BitVec.ofNat 64 (4 * k) = BitVec.ofNat 64 (4 + 4 * k) := by
      simp [BitVec.ofNat_add]
    have e5 : BitVec.ofNat 64 4 = (4 : BitVec 64) := rfl
    simp only [wideLoop, refill4_adv, ih _ _ hd, adv_adv, e4]
    rw [e1, e2, List.take_add, ksBlocks_add, e5, ← ksBlocks_four]
    rw [xorBytes_append]
    simp [ksBlocks_length]; omega


theorem ofNat_succ64 (a : Nat) : (1 : BitVec 64) + BitVec.ofNat 64 a = BitVec.ofNat 64 (a + 1) := by
  rw [BitVec.add_comm]; simp [BitVec.ofNat_add]

theorem xorBytes_split (data b c : List (BitVec 8)) (h : b.length ≤ data.length) :
    xorBytes data (b ++ c) = xorBytes (data.take b.length) b ++ xorBytes (data.drop b.length) c := by
  have := xorBytes_append (data.take b.length) (data.drop b.length) b c (by simp; omega)
  rw [List.take_append_drop] at this
  exact this

theorem tailLoop_spec (dr fuel : Nat) (s : Guts) (data out : List (BitVec 8)) (hv : Nat)
    (h : data.length ≤ 64 * fuel) :
    tailLoop Mach.ref dr fuel s data out hv =
      (xorBytes data (ksBlocks dr ((data.length + 63) / 64) s),
       adv s (BitVec.ofNat 64 ((data.length + 63) / 64)),
       if data.length = 0 then out else blockAt dr (adv s (BitVec.ofNat 64 ((data.length + 63) / 64 - 1))),
       if data.length = 0 then hv else 64 * ((data.length + 63) / 64) - data.length) := by
  induction fuel generalizing s data out hv with
  | zero =>
    have : data = [] := by
      cases data with
      | nil => rfl
      | cons x xs => simp at h
    subst this
    have : BitVec.ofNat 64 0 = 0#64 := rfl
    simp [tailLoop, ksBlocks, xorBytes, adv_zero]
  | succ fuel ih =>
    cases hdata : data with
    | nil =>
      simp [tailLoop, ksBlocks, xorBytes, adv_zero]
    | cons x xs =>
      rw [← hdata]
      have hpos : 0 < data.length := by rw [hdata]; simp
      have hne : data.length ≠ 0 := by omega
      have hdrop : (data.drop 64).length ≤ 64 * fuel := by simp; omega
      have hstep : tailLoop Mach.ref dr (fuel + 1) s data out hv =
          (let r := tailLoop Mach.ref dr fuel (adv s 1) (data.drop 64) (blockAt dr s) (64 - (data.take 64).length)
           (xorBytes (data.take 64) (blockAt dr s) ++ r.1, r.2.1, r.2.2.1, r.2.2.2)) := by
        rw [hdata]; simp only [tailLoop, refill_adv]
      rw [hstep, ih _ _ _ _ hdrop]
      simp only [hne, if_false]
      by_cases hm : data.length ≤ 64
      · -- single (last) block
        have hd0 : (data.drop 64).length = 0 := by simp; omega
        have hnb : (data.length + 63) / 64 = 1 := by omega
        have hdn : data.drop 64 = [] := List.eq_nil_of_length_eq_zero hd0
        have htk : data.take 64 = data := List.take_of_length_le hm
        have e0 : BitVec.ofNat 64 0 = 0#64 := rfl
        have e1 : BitVec.ofNat 64 1 = (1 : BitVec 64) := rfl
        simp only [hdn, htk, hnb, List.length_nil, Nat.zero_add, ksBlocks, xorBytes_nil_left,
          List.append_nil, if_true, e0, e1, adv_zero, Nat.sub_self]
      · have hlen : (data.drop 64).length = data.length - 64 := by simp
        have hnb : (data.length + 63) / 64 = (data.length - 64 + 63) / 64 + 1 := by omega
        have hne' : (data.drop 64).length ≠ 0 := by omega
        have htl : (data.take 64).length = 64 := by simp; omega
        have hne2 : data.length - 64 ≠ 0 := by omega
        simp only [hlen, if_neg hne2, hnb, ksBlocks, adv_adv, ofNat_succ64, Nat.add_sub_cancel]
        refine Prod.ext ?_ (Prod.ext rfl (Prod.ext ?_ ?_))
        · simp only []
          have := xorBytes_split data (blockAt dr s) (ksBlocks dr ((data.length - 64 + 63) / 64) (adv s 1))
            (by rw [blockAt_length]; omega)
          rw [blockAt_length] at this
          rw [this]
        · simp only []
          have : (data.length - 64 + 63) / 64 - 1 + 1 = (data.length - 64 + 63) / 64 := by omega
          rw [this]
        · simp only []; omega


end CC.ChaCha
