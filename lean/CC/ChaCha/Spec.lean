/-
  CC.ChaCha.Spec — the ChaCha block function as published (RFC 7539 §2.1–2.3, generalised to
  `2·drounds` rounds; HChaCha as in the XChaCha draft), on sixteen 32-bit words.
  This is the *specification* side: written from the document, not from the Rust.
-/
import CC.Prim
namespace CC.ChaCha.Spec

/-- Sixteen state words, RFC 7539 §2.3 numbering. -/
structure S16 where
  x0 : BitVec 32
  x1 : BitVec 32
  x2 : BitVec 32
  x3 : BitVec 32
  x4 : BitVec 32
  x5 : BitVec 32
  x6 : BitVec 32
  x7 : BitVec 32
  x8 : BitVec 32
  x9 : BitVec 32
  x10 : BitVec 32
  x11 : BitVec 32
  x12 : BitVec 32
  x13 : BitVec 32
  x14 : BitVec 32
  x15 : BitVec 32
  deriving DecidableEq, Repr

/-- RFC 7539 §2.1 quarter round. -/
def qr (a b c d : BitVec 32) : BitVec 32 × BitVec 32 × BitVec 32 × BitVec 32 :=
  let a := a + b
  let d := (d ^^^ a).rotateLeft 16
  let c := c + d
  let b := (b ^^^ c).rotateLeft 12
  let a := a + b
  let d := (d ^^^ a).rotateLeft 8
  let c := c + d
  let b := (b ^^^ c).rotateLeft 7
  (a, b, c, d)

/-- QUARTERROUND on columns (0,4,8,12) (1,5,9,13) (2,6,10,14) (3,7,11,15). -/
def columnRound (s : S16) : S16 :=
  let (x0, x4, x8, x12) := qr s.x0 s.x4 s.x8 s.x12
  let (x1, x5, x9, x13) := qr s.x1 s.x5 s.x9 s.x13
  let (x2, x6, x10, x14) := qr s.x2 s.x6 s.x10 s.x14
  let (x3, x7, x11, x15) := qr s.x3 s.x7 s.x11 s.x15
  { x0, x1, x2, x3, x4, x5, x6, x7, x8, x9, x10, x11, x12, x13, x14, x15 }

/-- QUARTERROUND on diagonals (0,5,10,15) (1,6,11,12) (2,7,8,13) (3,4,9,14). -/
def diagonalRound (s : S16) : S16 :=
  let (x0, x5, x10, x15) := qr s.x0 s.x5 s.x10 s.x15
  let (x1, x6, x11, x12) := qr s.x1 s.x6 s.x11 s.x12
  let (x2, x7, x8, x13) := qr s.x2 s.x7 s.x8 s.x13
  let (x3, x4, x9, x14) := qr s.x3 s.x4 s.x9 s.x14
  { x0, x1, x2, x3, x4, x5, x6, x7, x8, x9, x10, x11, x12, x13, x14, x15 }

def doubleRound (s : S16) : S16 := diagonalRound (columnRound s)

/-- `n` double rounds. -/
def rounds : Nat → S16 → S16
  | 0, s => s
  | n + 1, s => rounds n (doubleRound s)

def add (a b : S16) : S16 :=
  { x0 := a.x0 + b.x0, x1 := a.x1 + b.x1, x2 := a.x2 + b.x2, x3 := a.x3 + b.x3,
    x4 := a.x4 + b.x4, x5 := a.x5 + b.x5, x6 := a.x6 + b.x6, x7 := a.x7 + b.x7,
    x8 := a.x8 + b.x8, x9 := a.x9 + b.x9, x10 := a.x10 + b.x10, x11 := a.x11 + b.x11,
    x12 := a.x12 + b.x12, x13 := a.x13 + b.x13, x14 := a.x14 + b.x14, x15 := a.x15 + b.x15 }

def words (s : S16) : List (BitVec 32) :=
  [s.x0, s.x1, s.x2, s.x3, s.x4, s.x5, s.x6, s.x7, s.x8, s.x9, s.x10, s.x11, s.x12, s.x13, s.x14, s.x15]

/-- Little-endian serialisation, §2.3. -/
def serialize (s : S16) : List (BitVec 8) := (words s).flatMap toLe32

/-- "expand 32-byte k". -/
def c0 : BitVec 32 := 0x61707865#32
def c1 : BitVec 32 := 0x3320646e#32
def c2 : BitVec 32 := 0x79622d32#32
def c3 : BitVec 32 := 0x6b206574#32

/-- Initial matrix from 8 key words and the four words 12..15 (counter/nonce, layout is the caller's). -/
def initState (k : List (BitVec 32)) (w12 w13 w14 w15 : BitVec 32) : S16 :=
  { x0 := c0, x1 := c1, x2 := c2, x3 := c3,
    x4 := k.getD 0 0, x5 := k.getD 1 0, x6 := k.getD 2 0, x7 := k.getD 3 0,
    x8 := k.getD 4 0, x9 := k.getD 5 0, x10 := k.getD 6 0, x11 := k.getD 7 0,
    x12 := w12, x13 := w13, x14 := w14, x15 := w15 }

/-- The ChaCha block function with `dr` double rounds: 64 bytes. -/
def block (dr : Nat) (k : List (BitVec 32)) (w12 w13 w14 w15 : BitVec 32) : List (BitVec 8) :=
  let s := initState k w12 w13 w14 w15
  serialize (add (rounds dr s) s)

/-- HChaCha: rounds without feed-forward; words 0..3 and 12..15 are the subkey. -/
def hchacha (dr : Nat) (k : List (BitVec 32)) (n0 n1 n2 n3 : BitVec 32) : List (BitVec 32) :=
  let s := rounds dr (initState k n0 n1 n2 n3)
  [s.x0, s.x1, s.x2, s.x3, s.x12, s.x13, s.x14, s.x15]

/-- Key bytes (32) to eight little-endian words. -/
def keyWords (key : List (BitVec 8)) : List (BitVec 32) :=
  (List.range 8).map fun i => read32le (key.drop (4 * i))

/-- Nonce layouts of the seven public cipher types. -/
inductive Layout where
  | djb    -- 64-bit counter, 64-bit nonce   (ChaCha8/12/20)
  | ietf   -- 32-bit counter, 96-bit nonce   (RFC 7539)
  | x      -- 192-bit nonce, HChaCha subkey, 64-bit counter  (XChaCha8/12/20)
  deriving DecidableEq, Repr

structure Variant where
  layout : Layout
  drounds : Nat
  deriving DecidableEq, Repr

def Variant.nonceLen (v : Variant) : Nat :=
  match v.layout with
  | .djb => 8
  | .ietf => 12
  | .x => 24

/-- Number of keystream bytes the variant offers. -/
def Variant.limit (v : Variant) : Nat :=
  match v.layout with
  | .ietf => 2 ^ 38
  | _ => 2 ^ 70

/-- The 64-byte keystream block with index `ctr` for (variant, key, nonce). -/
def ksBlock (v : Variant) (key nonce : List (BitVec 8)) (ctr : Nat) : List (BitVec 8) :=
  match v.layout with
  | .djb =>
    block v.drounds (keyWords key) (BitVec.ofNat 32 ctr) (BitVec.ofNat 32 (ctr / 2 ^ 32))
      (read32le nonce) (read32le (nonce.drop 4))
  | .ietf =>
    block v.drounds (keyWords key) (BitVec.ofNat 32 ctr) (read32le nonce)
      (read32le (nonce.drop 4)) (read32le (nonce.drop 8))
  | .x =>
    let sub := hchacha v.drounds (keyWords key) (read32le nonce) (read32le (nonce.drop 4))
      (read32le (nonce.drop 8)) (read32le (nonce.drop 12))
    block v.drounds sub (BitVec.ofNat 32 ctr) (BitVec.ofNat 32 (ctr / 2 ^ 32))
      (read32le (nonce.drop 16)) (read32le (nonce.drop 20))

/-- Keystream byte at absolute position `p`. -/
def ksByte (v : Variant) (key nonce : List (BitVec 8)) (p : Nat) : BitVec 8 :=
  (ksBlock v key nonce (p / 64)).getD (p % 64) 0

/-- Keystream bytes `[p, p+n)`. -/
def ksRange (v : Variant) (key nonce : List (BitVec 8)) (p n : Nat) : List (BitVec 8) :=
  (List.range n).map fun i => ksByte v key nonce (p + i)

end CC.ChaCha.Spec
