/-
  CC.ChaCha.Machine — operation histories on a cipher instance: the concrete machine (the model
  of the Rust API) and the abstract "absolute position" machine the property talks about.
-/
import CC.ChaCha.Stream
namespace CC.ChaCha
open CC CC.Simd

/-- One API call. `seek v`: `try_seek::<T>(v)` for a value `v` of any supported integer type;
    `apply data`: `try_apply_keystream(data)`; `pos ty`: `try_current_pos::<ty>()`. -/
inductive Op where
  | seek (v : Int)
  | apply (data : List (BitVec 8))
  | pos (ty : SeekTy)

/-- Observable result of a call. -/
inductive Res where
  | seekOk
  | seekErr
  | bytes (out : List (BitVec 8))     -- `Ok(())`, data now holds `out`
  | applyErr                          -- `Err(LoopError)`, data untouched
  | posv (n : Nat)
  | overflow
  deriving DecidableEq

/-- concrete step (model of the real code) -/
def cStep (p : Profile) (c : Cipher) : Op → Out (Cipher × Res)
  | .seek v =>
    match Cipher.trySeek Mach.ref c v with
    | .ok (c', true) => .ok (c', .seekOk)
    | .ok (c', false) => .ok (c', .seekErr)
    | .err => .err
    | .panic w => .panic w
  | .apply data =>
    match Cipher.tryApply Mach.ref p c data with
    | .ok (c', some out) => .ok (c', .bytes out)
    | .ok (c', none) => .ok (c', .applyErr)
    | .err => .err
    | .panic w => .panic w
  | .pos ty =>
    match Cipher.tryCurrentPos p c ty with
    | .ok (some n) => .ok (c, .posv n)
    | .ok none => .ok (c, .overflow)
    | .err => .err
    | .panic w => .panic w

def cRun (p : Profile) : Cipher → List Op → Out (Cipher × List Res)
  | c, [] => .ok (c, [])
  | c, op :: ops =>
    match cStep p c op with
    | .ok (c', r) =>
      match cRun p c' ops with
      | .ok (c'', rs) => .ok (c'', r :: rs)
      | .err => .err
      | .panic w => .panic w
    | .err => .err
    | .panic w => .panic w

/-- abstract step: the state is just the absolute position; `lim` = number of keystream bytes,
    `ks pos n` = keystream bytes `[pos, pos+n)`. -/
def aStep (lim : Nat) (ks : Nat → Nat → List (BitVec 8)) (pos : Nat) : Op → Nat × Res
  | .seek v => if 0 ≤ v ∧ v.toNat < 2 ^ 64 ∧ v.toNat ≤ lim then (v.toNat, .seekOk) else (pos, .seekErr)
  | .apply data =>
    if pos + data.length ≤ lim then (pos + data.length, .bytes (xorBytes data (ks pos data.length)))
    else (pos, .applyErr)
  | .pos ty => (pos, if pos ≤ ty.max then .posv pos else .overflow)

def aRun (lim : Nat) (ks : Nat → Nat → List (BitVec 8)) : Nat → List Op → Nat × List Res
  | pos, [] => (pos, [])
  | pos, op :: ops =>
    let (pos', r) := aStep lim ks pos op
    let (pos'', rs) := aRun lim ks pos' ops
    (pos'', r :: rs)

/-- `apply` arguments are Rust slices: shorter than 2^64 bytes. -/
def Op.valid : Op → Prop
  | .apply data => data.length < 2 ^ 64
  | _ => True

end CC.ChaCha
