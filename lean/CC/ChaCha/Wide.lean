/-
  CC.ChaCha.Wide — the four-block path equals four single-block refills (reference machine).
-/
import CC.ChaCha.Lemmas
namespace CC.ChaCha
open CC.Simd CC.ChaCha.Spec

/-! ### 512-bit lane algebra -/

@[simp] theorem q128_pack512_0 (a b c d : BitVec 128) : q128 (pack512 a b c d) 0 = a := by
  unfold q128 pack512; bv_decide
@[simp] theorem q128_pack512_1 (a b c d : BitVec 128) : q128 (pack512 a b c d) 1 = b := by
  unfold q128 pack512; bv_decide
@[simp] theorem q128_pack512_2 (a b c d : BitVec 128) : q128 (pack512 a b c d) 2 = c := by
  unfold q128 pack512; bv_decide
@[simp] theorem q128_pack512_3 (a b c d : BitVec 128) : q128 (pack512 a b c d) 3 = d := by
  unfold q128 pack512; bv_decide

@[simp] theorem q128_xor_0 (a b : BitVec 512) : q128 (a ^^^ b) 0 = q128 a 0 ^^^ q128 b 0 := by
  unfold q128; bv_decide
@[simp] theorem q128_xor_1 (a b : BitVec 512) : q128 (a ^^^ b) 1 = q128 a 1 ^^^ q128 b 1 := by
  unfold q128; bv_decide
@[simp] theorem q128_xor_2 (a b : BitVec 512) : q128 (a ^^^ b) 2 = q128 a 2 ^^^ q128 b 2 := by
  unfold q128; bv_decide
@[simp] theorem q128_xor_3 (a b : BitVec 512) : q128 (a ^^^ b) 3 = q128 a 3 ^^^ q128 b 3 := by
  unfold q128; bv_decide

theorem pack512_q128 (v : BitVec 512) : pack512 (q128 v 0) (q128 v 1) (q128 v 2) (q128 v 3) = v := by
  unfold q128 pack512; bv_decide

/-- lane `i` of a four-block state -/
def lane4 (x : RS4) (i : Nat) : RS :=
  { a := q128 x.a i, b := q128 x.b i, c := q128 x.c i, d := q128 x.d i }

theorem dround4_lane (x : RS4) (i : Nat) (hi : i < 4) :
    lane4 (dround4 Mach.ref x) i = dround Mach.ref (lane4 x i) := by
  have : i = 0 ∨ i = 1 ∨ i = 2 ∨ i = 3 := by omega
  rcases this with rfl | rfl | rfl | rfl <;>
  simp [lane4, dround4, dround, round4, round, diagonalize4, diagonalize, undiagonalize4,
    undiagonalize, Mach.ref, zip512, map512]

theorem iter_dround4_lane (n : Nat) (x : RS4) (i : Nat) (hi : i < 4) :
    lane4 (iter (dround4 Mach.ref) n x) i = iter (dround Mach.ref) n (lane4 x i) := by
  induction n generalizing x with
  | zero => rfl
  | succ n ih =>
    show lane4 (iter (dround4 Mach.ref) n (dround4 Mach.ref x)) i
        = iter (dround Mach.ref) n (dround Mach.ref (lane4 x i))
    rw [ih, dround4_lane _ _ hi]

/-! ### counters -/

/-- 64-bit add into the low lane (the block counter) -/
def addLo (d : BitVec 128) (i : BitVec 64) : BitVec 128 := zip64 (· + ·) d (pack64 i 0)

theorem addPos_ref (d : BitVec 128) (i : BitVec 64) : addPos Mach.ref d i = addLo d i := rfl

theorem incd (d : BitVec 128) :
    CC.Simd.insert32 (CC.Simd.insert32 d
      (((((lane32 d 1).setWidth 64 <<< 32 ||| (lane32 d 0).setWidth 64) + 1) >>> 32).setWidth 32) 1)
      (((((lane32 d 1).setWidth 64 <<< 32 ||| (lane32 d 0).setWidth 64) + 1)).setWidth 32) 0 = addLo d 1 := by
  unfold CC.Simd.insert32 lane32 pack32 addLo zip64 lane64 pack64
  bv_decide

theorem incBlockCt_ref (s : Guts) : incBlockCt Mach.ref s = { s with d := addLo s.d 1 } := by
  unfold incBlockCt pos64
  rw [ref_extract32, ref_insert32]
  simp only []
  rw [incd]

theorem d0123_ref (d : BitVec 128) :
    d0123 Mach.ref d = pack512 d (addLo d 1) (addLo d 2) (addLo d 3) := by
  show zip512 (zip64 (· + ·)) (pack512 d d d d)
      (pack512 (pack64 0 0) (pack64 1 0) (pack64 2 0) (pack64 3 0)) = _
  simp only [zip512, q128_pack512_0, q128_pack512_1, q128_pack512_2, q128_pack512_3, addLo]
  congr 1
  unfold zip64 lane64 pack64; bv_decide

theorem addLo_addLo (d : BitVec 128) (i j : BitVec 64) : addLo (addLo d i) j = addLo d (i + j) := by
  unfold addLo zip64 lane64 pack64; bv_decide

theorem toLeBytes_pack512 (a b c d : BitVec 128) :
    toLeBytes (pack512 a b c d) 64 = toLeBytes a 16 ++ toLeBytes b 16 ++ toLeBytes c 16 ++ toLeBytes d 16 := by
  have h16 : ∀ (x : BitVec 128), toLeBytes x 16 = (List.range 16).map (fun i => (x >>> (8 * i)).setWidth 8) := fun _ => rfl
  have h64 : ∀ (x : BitVec 512), toLeBytes x 64 = (List.range 64).map (fun i => (x >>> (8 * i)).setWidth 8) := fun _ => rfl
  rw [h64, h16, h16, h16, h16]
  have r64 : List.range 64 = List.range 16 ++ (List.range 16).map (· + 16) ++ (List.range 16).map (· + 32)
      ++ (List.range 16).map (· + 48) := by decide
  have r16 : List.range 16 = [0,1,2,3,4,5,6,7,8,9,10,11,12,13,14,15] := by decide
  rw [r64]
  simp only [List.map_append, List.map_map]
  rw [r16]
  simp only [List.map, Function.comp, List.cons_append, List.nil_append, List.cons.injEq, and_true]
  unfold pack512
  refine ⟨?_, ?_, ?_, ?_, ?_, ?_, ?_, ?_, ?_, ?_, ?_, ?_, ?_, ?_, ?_, ?_,
          ?_, ?_, ?_, ?_, ?_, ?_, ?_, ?_, ?_, ?_, ?_, ?_, ?_, ?_, ?_, ?_,
          ?_, ?_, ?_, ?_, ?_, ?_, ?_, ?_, ?_, ?_, ?_, ?_, ?_, ?_, ?_, ?_,
          ?_, ?_, ?_, ?_, ?_, ?_, ?_, ?_, ?_, ?_, ?_, ?_, ?_, ?_, ?_, ?_⟩ <;> bv_decide

theorem addLo_zero (d : BitVec 128) : addLo d 0 = d := by
  unfold addLo zip64 lane64 pack64; bv_decide

theorem refill_ref_eq (s : Guts) (dr : Nat) :
    refill Mach.ref s dr =
      (outputNarrow Mach.ref s (iter (dround Mach.ref) dr { a := kvec Mach.ref, b := s.b, c := s.c, d := s.d }),
       { s with d := addLo s.d 1 }) := by
  simp only [refill, refillNarrowRounds, incBlockCt_ref]

/-- the i-th 64-byte block of the wide output -/
def wideBlock (s : Guts) (dr : Nat) (i : BitVec 64) : List (BitVec 8) :=
  outputNarrow Mach.ref { s with d := addLo s.d i }
    (iter (dround Mach.ref) dr { a := kvec Mach.ref, b := s.b, c := s.c, d := addLo s.d i })

theorem refill4_ref_eq (s : Guts) (dr : Nat) :
    refill4 Mach.ref s dr =
      (wideBlock s dr 0 ++ wideBlock s dr 1 ++ wideBlock s dr 2 ++ wideBlock s dr 3,
       { s with d := addLo s.d 4 }) := by
  unfold refill4
  simp only [ref_fromLanes512, ref_transpose4, ref_add32x16, ref_writeLe32x16, ref_toLanes512,
    addPos_ref, d0123_ref, transpose4_512, q128_pack512_0]
  have h := fun i hi => iter_dround4_lane dr
    { a := pack512 (kvec Mach.ref) (kvec Mach.ref) (kvec Mach.ref) (kvec Mach.ref),
      b := pack512 s.b s.b s.b s.b, c := pack512 s.c s.c s.c s.c,
      d := pack512 s.d (addLo s.d 1) (addLo s.d 2) (addLo s.d 3) } i hi
  generalize iter (dround4 Mach.ref) dr _ = X at h ⊢
  have h0 := h 0 (by omega)
  have h1 := h 1 (by omega)
  have h2 := h 2 (by omega)
  have h3 := h 3 (by omega)
  simp only [lane4, q128_pack512_0, q128_pack512_1, q128_pack512_2, q128_pack512_3] at h0 h1 h2 h3
  simp only [wideBlock, addLo_zero, ← h0, ← h1, ← h2, ← h3, outputNarrow, toLeBytes_pack512, zip512,
    q128_pack512_0, q128_pack512_1, q128_pack512_2, q128_pack512_3, ref_add32, ref_writeLe32x4,
    List.append_assoc]

end CC.ChaCha
