/-
  CC.ChaCha.Keystream — the keystream of a constructed cipher is the specified one:
  block `n` generated from the `n`-th state of the layout equals `Spec.ksBlock v key nonce n`.
-/
import CC.ChaCha.Refine7
namespace CC.ChaCha
open CC CC.Simd CC.ChaCha.Spec

theorem list4 {α} (bs : List α) (h : bs.length = 4) :
    ∃ b0 b1 b2 b3, bs = [b0, b1, b2, b3] := by
  rcases bs with _ | ⟨b0, _ | ⟨b1, _ | ⟨b2, _ | ⟨b3, _ | ⟨x, xs⟩⟩⟩⟩⟩ <;> simp at h
  exact ⟨b0, b1, b2, b3, rfl⟩

theorem list16 {α} (bs : List α) (h : bs.length = 16) :
    ∃ b0 b1 b2 b3 b4 b5 b6 b7 b8 b9 b10 b11 b12 b13 b14 b15, bs = [b0, b1, b2, b3, b4, b5, b6, b7, b8, b9, b10, b11, b12, b13, b14, b15] := by
  rcases bs with _ | ⟨b0, _ | ⟨b1, _ | ⟨b2, _ | ⟨b3, _ | ⟨b4, _ | ⟨b5, _ | ⟨b6, _ | ⟨b7, _ | ⟨b8, _ | ⟨b9, _ | ⟨b10, _ | ⟨b11, _ | ⟨b12, _ | ⟨b13, _ | ⟨b14, _ | ⟨b15, _ | ⟨x, xs⟩⟩⟩⟩⟩⟩⟩⟩⟩⟩⟩⟩⟩⟩⟩⟩⟩ <;> simp at h
  exact ⟨b0, b1, b2, b3, b4, b5, b6, b7, b8, b9, b10, b11, b12, b13, b14, b15, rfl⟩

/-- a 16-byte little-endian vector load is four little-endian words -/
theorem ofLeBytes128_16 (b0 b1 b2 b3 b4 b5 b6 b7 b8 b9 b10 b11 b12 b13 b14 b15 : BitVec 8) :
    ofLeBytes 128 [b0, b1, b2, b3, b4, b5, b6, b7, b8, b9, b10, b11, b12, b13, b14, b15]
      = pack32 (le32 b0 b1 b2 b3) (le32 b4 b5 b6 b7) (le32 b8 b9 b10 b11) (le32 b12 b13 b14 b15) := by
  simp only [ofLeBytes, List.foldr, pack32, le32]
  bv_decide

/-- `m.read_le::<u32x4>(bs)` on the reference machine, for a 16-byte slice, word by word -/
theorem readLe_words (bs : List (BitVec 8)) (h : bs.length = 16) :
    Mach.ref.readLe32x4 bs = pack32 (read32le bs) (read32le (bs.drop 4)) (read32le (bs.drop 8)) (read32le (bs.drop 12)) := by
  obtain ⟨b0, b1, b2, b3, b4, b5, b6, b7, b8, b9, b10, b11, b12, b13, b14, b15, rfl⟩ := list16 bs h
  rw [ref_readLe32x4]
  simp only [List.take, ofLeBytes128_16, read32le, List.drop, List.getD_cons_zero, List.getD_cons_succ]

theorem blockAt_eq_block (dr : Nat) (s : Guts) :
    blockAt dr s = Spec.block dr
      [lane32 s.b 0, lane32 s.b 1, lane32 s.b 2, lane32 s.b 3, lane32 s.c 0, lane32 s.c 1, lane32 s.c 2, lane32 s.c 3]
      (lane32 s.d 0) (lane32 s.d 1) (lane32 s.d 2) (lane32 s.d 3) := by
  unfold blockAt
  rw [refill_ref_block]
  have : gutsS16 s = initState
      [lane32 s.b 0, lane32 s.b 1, lane32 s.b 2, lane32 s.b 3, lane32 s.c 0, lane32 s.c 1, lane32 s.c 2, lane32 s.c 3]
      (lane32 s.d 0) (lane32 s.d 1) (lane32 s.d 2) (lane32 s.d 3) := by
    simp only [gutsS16, toS16, kvec, ref_vec32, initState, lane32_pack32_0, lane32_pack32_1, lane32_pack32_2,
      lane32_pack32_3, List.getD_cons_zero, List.getD_cons_succ]
  rw [this]; rfl

theorem read32le_take_drop (l : List (BitVec 8)) (n k : Nat) (h : k + 4 ≤ n) :
    read32le ((l.take n).drop k) = read32le (l.drop k) := by
  unfold read32le
  have e : ∀ j, j < 4 → ((l.take n).drop k).getD j 0 = (l.drop k).getD j 0 := by
    intro j hj
    simp only [List.getD_eq_getElem?_getD, List.getElem?_drop]
    rw [List.getElem?_take_of_lt (by omega)]
  rw [e 0 (by omega), e 1 (by omega), e 2 (by omega), e 3 (by omega)]

theorem read32le_take (l : List (BitVec 8)) (n : Nat) (h : 4 ≤ n) :
    read32le (l.take n) = read32le l := by
  have := read32le_take_drop l n 0 (by omega)
  simpa using this

theorem lane32_pack64_0 (c h : BitVec 64) : lane32 (pack64 c h) 0 = c.setWidth 32 := by
  unfold lane32 pack64; bv_decide
theorem lane32_pack64_1 (c h : BitVec 64) : lane32 (pack64 c h) 1 = (c >>> 32).setWidth 32 := by
  unfold lane32 pack64; bv_decide
theorem lane32_pack64_2 (c : BitVec 64) (d : BitVec 128) : lane32 (pack64 c (lane64 d 1)) 2 = lane32 d 2 := by
  unfold lane32 pack64 lane64; bv_decide
theorem lane32_pack64_3 (c : BitVec 64) (d : BitVec 128) : lane32 (pack64 c (lane64 d 1)) 3 = lane32 d 3 := by
  unfold lane32 pack64 lane64; bv_decide

theorem ofNat64_lo (n : Nat) : (BitVec.ofNat 64 n).setWidth 32 = BitVec.ofNat 32 n := by
  apply BitVec.eq_of_toNat_eq
  simp [BitVec.toNat_ofNat]

theorem ofNat64_hi (n : Nat) : ((BitVec.ofNat 64 n) >>> 32).setWidth 32 = BitVec.ofNat 32 (n / 2 ^ 32) := by
  apply BitVec.eq_of_toNat_eq
  simp [BitVec.toNat_setWidth, BitVec.toNat_ofNat, BitVec.toNat_ushiftRight, Nat.shiftRight_eq_div_pow]
  omega

/-- key words of a 32-byte key as the two row vectors hold them -/
theorem keyWords_eq (key : List (BitVec 8)) :
    keyWords key = [read32le key, read32le (key.drop 4), read32le (key.drop 8), read32le (key.drop 12),
      read32le (key.drop 16), read32le (key.drop 20), read32le (key.drop 24), read32le (key.drop 28)] := by
  simp [keyWords, List.range, List.range.loop]


/-- words of the state `initChaCha` builds -/
theorem initChaCha_words (key nonce : List (BitVec 8)) (hk : key.length = 32) :
    (initChaCha Mach.ref key nonce).b = pack32 (read32le key) (read32le (key.drop 4)) (read32le (key.drop 8)) (read32le (key.drop 12)) ∧
    (initChaCha Mach.ref key nonce).c = pack32 (read32le (key.drop 16)) (read32le (key.drop 20)) (read32le (key.drop 24)) (read32le (key.drop 28)) := by
  simp only [initChaCha]
  rw [readLe_words (key.take 16) (by simp; omega), readLe_words (key.drop 16) (by simp; omega)]
  simp only [read32le_take _ 16 (by omega), read32le_take_drop key 16 4 (by omega),
    read32le_take_drop key 16 8 (by omega), read32le_take_drop key 16 12 (by omega), List.drop_drop]
  trivial

/-- djb (64-bit counter, 8-byte nonce): block `n` is the specified block -/
theorem block_djb (v : Variant) (key nonce : List (BitVec 8)) (hl : v.layout = .djb)
    (hk : key.length = 32) (hn : nonce.length = 8) (n : Nat) :
    blockAt v.drounds (stateAt64 (initChaCha Mach.ref key nonce) (BitVec.ofNat 64 n)) = ksBlock v key nonce n := by
  obtain ⟨hb, hc⟩ := initChaCha_words key nonce hk
  have h12 : ¬ nonce.length = 12 := by omega
  have hd : (initChaCha Mach.ref key nonce).d = pack32 0 0 (read32le nonce) (read32le (nonce.drop 4)) := by
    simp only [initChaCha, h12, if_false, hn]; rfl
  rw [blockAt_eq_block]
  simp only [stateAt64, hb, hc, lane32_pack32_0, lane32_pack32_1, lane32_pack32_2, lane32_pack32_3,
    lane32_pack64_0, lane32_pack64_1, lane32_pack64_2, lane32_pack64_3, ofNat64_lo, ofNat64_hi, hd]
  simp only [ksBlock, hl, keyWords_eq]

/-- IETF (32-bit counter, 12-byte nonce) -/
theorem block_ietf (v : Variant) (key nonce : List (BitVec 8)) (hl : v.layout = .ietf)
    (hk : key.length = 32) (hn : nonce.length = 12) (n : Nat) :
    blockAt v.drounds (stateAt32 (initChaCha Mach.ref key nonce) (BitVec.ofNat 32 n)) = ksBlock v key nonce n := by
  obtain ⟨hb, hc⟩ := initChaCha_words key nonce hk
  have hd : (initChaCha Mach.ref key nonce).d = pack32 0 (read32le nonce) (read32le (nonce.drop 4)) (read32le (nonce.drop 8)) := by
    simp only [initChaCha, hn, if_true]
  rw [blockAt_eq_block]
  simp only [stateAt32, hb, hc, hd, lane32_pack32_0, lane32_pack32_1, lane32_pack32_2, lane32_pack32_3]
  simp only [ksBlock, hl, keyWords_eq]


/-- XChaCha: the subkey rows are HChaCha of the key and the first 16 nonce bytes -/
theorem block_x (v : Variant) (key nonce : List (BitVec 8)) (hl : v.layout = .x)
    (hk : key.length = 32) (hn : nonce.length = 24) (n : Nat) :
    blockAt v.drounds (stateAt64 (initChaChaX Mach.ref key nonce v.drounds) (BitVec.ofNat 64 n)) = ksBlock v key nonce n := by
  -- the HChaCha input state
  have hkb := readLe_words (key.take 16) (by simp; omega)
  have hkc := readLe_words (key.drop 16) (by simp; omega)
  have hnd := readLe_words (nonce.take 16) (by simp; omega)
  simp only [read32le_take _ 16 (by omega), read32le_take_drop key 16 4 (by omega),
    read32le_take_drop key 16 8 (by omega), read32le_take_drop key 16 12 (by omega),
    read32le_take_drop nonce 16 4 (by omega), read32le_take_drop nonce 16 8 (by omega),
    read32le_take_drop nonce 16 12 (by omega), List.drop_drop] at hkb hkc hnd
  have hr := rounds_ref v.drounds
    (RS.mk (kvec Mach.ref) (Mach.ref.readLe32x4 (key.take 16)) (Mach.ref.readLe32x4 (key.drop 16))
      (Mach.ref.readLe32x4 (nonce.take 16)))
  have hinit : toS16 (RS.mk (kvec Mach.ref) (Mach.ref.readLe32x4 (key.take 16)) (Mach.ref.readLe32x4 (key.drop 16))
      (Mach.ref.readLe32x4 (nonce.take 16))) =
      initState (keyWords key) (read32le nonce) (read32le (nonce.drop 4)) (read32le (nonce.drop 8)) (read32le (nonce.drop 12)) := by
    rw [hkb, hkc, hnd]
    simp only [toS16, kvec, ref_vec32, initState, keyWords_eq, lane32_pack32_0, lane32_pack32_1, lane32_pack32_2,
      lane32_pack32_3, List.getD_cons_zero, List.getD_cons_succ]
  rw [hinit] at hr
  rw [blockAt_eq_block]
  simp only [stateAt64, initChaChaX, refillNarrowRounds, lane32_pack64_0, lane32_pack64_1, lane32_pack64_2,
    lane32_pack64_3, ofNat64_lo, ofNat64_hi, lane32_pack32_2, lane32_pack32_3]
  simp only [ksBlock, hl, hchacha, ← hr, toS16]


/-- **Keystream conformance.** For every one of the seven cipher types, key, nonce and block index
    below the block limit, the block the constructed cipher's stream has at that index is the
    specified ChaCha block function (after HChaCha subkey derivation for XChaCha). -/
theorem ks_block_conforms (v : Variant) (key nonce : List (BitVec 8)) (hk : key.length = 32)
    (hn : nonce.length = v.nonceLen) (n : Nat) :
    blockAt v.drounds ((layOf v (Cipher.new Mach.ref v key nonce).buf.state).st n) = ksBlock v key nonce n := by
  unfold Variant.nonceLen at hn
  cases hl : v.layout <;> simp only [hl] at hn
  · have hc : (Cipher.new Mach.ref v key nonce).buf.state = initChaCha Mach.ref key nonce := by
      simp [Cipher.new, hl]
    rw [hc, layOf_djb _ _ hl]; exact block_djb v key nonce hl hk hn n
  · have hc : (Cipher.new Mach.ref v key nonce).buf.state = initChaCha Mach.ref key nonce := by
      simp [Cipher.new, hl]
    rw [hc, layOf_ietf _ _ hl]; exact block_ietf v key nonce hl hk hn n
  · have hc : (Cipher.new Mach.ref v key nonce).buf.state = initChaChaX Mach.ref key nonce v.drounds := by
      simp [Cipher.new, hl]
    rw [hc, layOf_x _ _ hl]; exact block_x v key nonce hl hk hn n

/-- … byte by byte: the keystream byte of the model at absolute position `p` is `Spec.ksByte`. -/
theorem ks_byte_conforms (v : Variant) (key nonce : List (BitVec 8)) (hk : key.length = 32)
    (hn : nonce.length = v.nonceLen) (p : Nat) :
    (layOf v (Cipher.new Mach.ref v key nonce).buf.state).byteAt v.drounds p = ksByte v key nonce p := by
  unfold Lay.byteAt ksByte
  rw [ks_block_conforms v key nonce hk hn, List.getD_eq_getElem?_getD]

end CC.ChaCha
