/-
  CC.ChaCha.SrcSeekNum — the translator tie for the integer-type conversions of the THIRD-PARTY crate `cipher`
  (version pinned in /repo/Cargo.lock): obligations `CC.Src.src_seeknum_*`.

  `lean/CC/Gen/SeekNumSrc.lean` is regenerated on every run (tools/inventory_seeknum.py) from the crate's `src/stream.rs`:
  the body of `macro_rules! impl_seek_num` (`from_block_byte`, `to_block_byte`) expanded for every type of the macro's
  invocation list, the list itself, and the forwarding `impl<C: StreamCipher> StreamCipher for &mut C`.  Proved here:

  * the invocation list IS the list of constructors of the model's `SeekTy` (a type added or removed breaks it);
  * every expansion has the shape `fromShape lo hi` / `toShape lo hi` at the range `SeekTy.min t … SeekTy.max t` of its
    type (`rfl`), and for that shape:
  * `from_block_byte(block, byte, bs)` — for EVERY non-negative `block` (in particular every `u128`, the type the ChaCha
    glue instantiates `T` with: `blocks: u128`), every `byte < 64` and `bs = 64`, in BOTH profiles — does not panic and
    EQUALS the hand model `fromBlockByteP t` (`CC.ChaCha.fromBlockByte`).
    WHY these arguments: `bs` is the literal `BLOCK as u8 = 64` at both call sites of `try_current_pos` (the regenerated
    glue `Gen.Kernels.chacha_any_try_current_pos_*` passes `64#8`), and `byte` is `64 - have` for `0 < have ≤ 64` resp.
    `-have` for `-64 < have ≤ 0` (the struct invariant `-64 < have ≤ 64` of `Buffer`, the hypothesis of
    `src_chacha_buffer_try_apply_keystream`), i.e. `byte ≤ 63`.  Outside it the crate and the hand model DIFFER: for
    `byte ≥ 64 = bs` the crate's `debug_assert!(byte < bs)` panics in profile debug and the unchecked `+` can wrap in
    profile release (`src_seeknum_from_block_byte_debug_assert`, `…_release_wraps` below), the hand model does neither.
  * `to_block_byte(self, bs)` (NOT called by the ChaCha glue; tied for completeness): never panics for `bs ≠ 0`, and for
    a non-negative position and `bs = 64` it is `(pos / 64, pos % 64)` converted to the target type (`toBlockByte`);
    it inverts `from_block_byte`.
  * `pos.try_into()` to `u64` (core's `TryFrom`, TRUSTED: succeeds iff the number fits) as the glue obligations write it
    (`CC.Src.tryIntoU64`) is the reading `tryConv 0 (2^64-1)` of the generated file's table, for every value of every type.
  * the `&mut C` impl forwards each method to the same method of `C` with the arguments in order.
-/
import CC.Gen.SeekNumSrc
import CC.ChaCha.Src
namespace CC.Src
open CC CC.ChaCha CC.Gen.SeekNumSrc

/-! ### the invocation list -/

/-- the constructors of the model's `SeekTy`, in the order of the macro invocation -/
def seekTyAll : List SeekTy := [.u8, .u16, .u32, .u64, .u128, .usize, .i32]

theorem seekTyAll_complete (t : SeekTy) : t ∈ seekTyAll := by cases t <;> decide

/-- the Rust name of the type -/
def seekTyName : SeekTy → String
  | .u8 => "u8" | .u16 => "u16" | .u32 => "u32" | .u64 => "u64" | .u128 => "u128" | .usize => "usize" | .i32 => "i32"

theorem src_seeknum_clean : seeknum_errors = [] := rfl

/-- the types `impl_seek_num!` is invoked for are exactly the constructors of `SeekTy` -/
theorem src_seeknum_types : seeknum_types = seekTyAll.map seekTyName := by decide

theorem src_seeknum_methods : seeknum_methods = ["from_block_byte", "to_block_byte"] := by decide

/-! ### the shape of the macro body -/

/-- the body of `from_block_byte` for a type with the range `lo … hi` -/
def fromShape (lo hi : Int) (p : Profile) (block byte bs : Int) : Out (Option Int) :=
  if p = .debug ∧ ¬ (byte < bs) then .panic "debug_assert" else
  match tryConv lo hi block with
  | none => .ok none
  | some v1 =>
  match checkedMul lo hi v1 (wrapInt lo hi bs) with
  | none => .ok none
  | some v2 =>
  if p = .debug ∧ ¬ inRange lo hi (v2 + (wrapInt lo hi byte)) then .panic "attempt to add with overflow" else
  .ok (some (wrapInt lo hi (v2 + (wrapInt lo hi byte))))

/-- the body of `to_block_byte` for an unsigned type with the range `lo … hi` (`T_lo … T_hi`: the range of the target type) -/
def toShapeU (lo hi : Int) (_p : Profile) (T_lo T_hi self bs : Int) : Out (Option (Int × Int)) :=
  if (wrapInt lo hi bs) = 0 then .panic "divisor of zero" else
  match tryConv T_lo T_hi (Int.tdiv self (wrapInt lo hi bs)) with
  | none => .ok none
  | some v1 =>
  .ok (some ((v1, wrapInt 0 255 (Int.tmod self (wrapInt lo hi bs)))))

/-- the same for a signed type (rustc adds the `MIN / -1` check) -/
def toShapeS (lo hi : Int) (_p : Profile) (T_lo T_hi self bs : Int) : Out (Option (Int × Int)) :=
  if (wrapInt lo hi bs) = 0 then .panic "divisor of zero" else
  if self = lo ∧ (wrapInt lo hi bs) = -1 then .panic "division overflow" else
  match tryConv T_lo T_hi (Int.tdiv self (wrapInt lo hi bs)) with
  | none => .ok none
  | some v1 =>
  .ok (some ((v1, wrapInt 0 255 (Int.tmod self (wrapInt lo hi bs)))))

/-- the translated `from_block_byte` of the type `t` -/
def genFromBlockByte : SeekTy → Profile → Int → Int → Int → Out (Option Int)
  | .u8 => seeknum_u8_from_block_byte
  | .u16 => seeknum_u16_from_block_byte
  | .u32 => seeknum_u32_from_block_byte
  | .u64 => seeknum_u64_from_block_byte
  | .u128 => seeknum_u128_from_block_byte
  | .usize => seeknum_usize_from_block_byte
  | .i32 => seeknum_i32_from_block_byte

/-- the translated `to_block_byte` of the type `t` -/
def genToBlockByte : SeekTy → Profile → Int → Int → Int → Int → Out (Option (Int × Int))
  | .u8 => seeknum_u8_to_block_byte
  | .u16 => seeknum_u16_to_block_byte
  | .u32 => seeknum_u32_to_block_byte
  | .u64 => seeknum_u64_to_block_byte
  | .u128 => seeknum_u128_to_block_byte
  | .usize => seeknum_usize_to_block_byte
  | .i32 => seeknum_i32_to_block_byte

/-- every expansion of `from_block_byte` is the shape at the model's range of the type -/
theorem src_seeknum_from_shape (t : SeekTy) : genFromBlockByte t = fromShape t.min (t.max : Nat) := by
  cases t <;> rfl

/-- every expansion of `to_block_byte` is the shape at the model's range of the type -/
theorem src_seeknum_to_shape (t : SeekTy) :
    genToBlockByte t = (if t = .i32 then toShapeS else toShapeU) t.min (t.max : Nat) := by
  cases t <;> rfl

/-! ### arithmetic of the reading table -/

theorem wrapInt_id (lo hi x : Int) (h1 : lo ≤ x) (h2 : x ≤ hi) : wrapInt lo hi x = x := by
  unfold wrapInt
  rw [Int.emod_eq_of_lt (by omega) (by omega)]
  omega

theorem tryConv_in (lo hi x : Int) (h1 : lo ≤ x) (h2 : x ≤ hi) : tryConv lo hi x = some x := by
  simp [tryConv, inRange, h1, h2]

theorem tryConv_out (lo hi x : Int) (h : x < lo ∨ hi < x) : tryConv lo hi x = none := by
  have : ¬ (lo ≤ x ∧ x ≤ hi) := by omega
  simp [tryConv, inRange, this]

/-- what the ranges of the seven types have in common -/
structure GoodRange (lo hi : Int) : Prop where
  lo_le : lo ≤ 0
  hi_ge : 255 ≤ hi
  /-- the size of the non-negative part is a multiple of the block size -/
  div64 : (hi + 1) % 64 = 0

theorem seekTy_good (t : SeekTy) : GoodRange t.min (t.max : Nat) := by
  cases t <;> constructor <;> simp [SeekTy.min, SeekTy.max]

theorem seekTy_max_cast (t : SeekTy) : ((t.max : Nat) : Int) ≥ 255 := (seekTy_good t).hi_ge

/-! ### `from_block_byte` -/

/-- inside the glue's arguments the shape neither panics nor wraps: it is the model's three-way case split -/
theorem fromShape_spec (lo hi : Int) (g : GoodRange lo hi) (p : Profile) (block byte : Nat) (hb : byte < 64) :
    fromShape lo hi p block byte 64 =
      .ok (if hi < (block : Int) then none else if hi < (block : Int) * 64 then none
           else some ((block : Int) * 64 + byte)) := by
  have h1 := g.lo_le
  have h2 := g.hi_ge
  have h3 := g.div64
  have e64 : wrapInt lo hi 64 = 64 := wrapInt_id _ _ _ (by omega) (by omega)
  have eby : wrapInt lo hi (byte : Int) = byte := wrapInt_id _ _ _ (by omega) (by omega)
  have hlt : ¬ (p = Profile.debug ∧ ¬ ((byte : Int) < 64)) := by omega
  unfold fromShape
  rw [if_neg hlt, e64, eby]
  by_cases c1 : hi < (block : Int)
  · rw [tryConv_out _ _ _ (Or.inr c1), if_pos c1]
  · rw [tryConv_in _ _ _ (by omega) (by omega), if_neg c1]
    simp only [checkedMul]
    by_cases c2 : hi < (block : Int) * 64
    · rw [tryConv_out _ _ _ (Or.inr c2), if_pos c2]
    · rw [tryConv_in _ _ _ (by omega) (by omega), if_neg c2]
      have hin : inRange lo hi ((block : Int) * 64 + byte) := by unfold inRange; omega
      have hng : ¬ (p = Profile.debug ∧ ¬ inRange lo hi ((block : Int) * 64 + byte)) := fun h => h.2 hin
      simp only []
      rw [if_neg hng, wrapInt_id _ _ _ hin.1 hin.2]

/-- **`from_block_byte` = the hand model.**  For every type of the invocation list, both profiles, every `u128` block
    number, every byte offset below the block size and `bs = BLOCK as u8 = 64`: the translated crate code does not panic
    and returns what `CC.ChaCha.fromBlockByte` (the named primitive `fromBlockByteP t` of the glue obligations) says. -/
theorem src_seeknum_from_block_byte (t : SeekTy) (p : Profile) (block : BitVec 128) (byte : BitVec 8)
    (hb : byte.toNat < 64) :
    genFromBlockByte t p (block.toNat : Int) (byte.toNat : Int) 64 =
      .ok ((fromBlockByteP t block byte 64#8).map Int.ofNat) := by
  rw [src_seeknum_from_shape, fromShape_spec _ _ (seekTy_good t) p _ _ hb]
  simp only [fromBlockByteP, fromBlockByte, if_true]
  by_cases c1 : block.toNat > t.max
  · have : ((t.max : Nat) : Int) < (block.toNat : Int) := by omega
    simp [c1, this]
  · by_cases c2 : block.toNat * 64 > t.max
    · have a : ¬ ((t.max : Nat) : Int) < (block.toNat : Int) := by omega
      have b : ((t.max : Nat) : Int) < (block.toNat : Int) * 64 := by omega
      simp [c1, c2, a, b]
    · have a : ¬ ((t.max : Nat) : Int) < (block.toNat : Int) := by omega
      have b : ¬ ((t.max : Nat) : Int) < (block.toNat : Int) * 64 := by omega
      simp [c1, c2, a, b]

/-- the same for every non-negative block number (every value of every unsigned `T`, every non-negative value of `i32`) -/
theorem src_seeknum_from_block_byte_nat (t : SeekTy) (p : Profile) (block byte : Nat) (hb : byte < 64) :
    genFromBlockByte t p (block : Int) (byte : Int) 64 = .ok ((fromBlockByte t block byte).map Int.ofNat) := by
  rw [src_seeknum_from_shape, fromShape_spec _ _ (seekTy_good t) p _ _ hb]
  simp only [fromBlockByte]
  by_cases c1 : block > t.max
  · have : ((t.max : Nat) : Int) < (block : Int) := by omega
    simp [c1, this]
  · by_cases c2 : block * 64 > t.max
    · have a : ¬ ((t.max : Nat) : Int) < (block : Int) := by omega
      have b : ((t.max : Nat) : Int) < (block : Int) * 64 := by omega
      simp [c1, c2, a, b]
    · have a : ¬ ((t.max : Nat) : Int) < (block : Int) := by omega
      have b : ¬ ((t.max : Nat) : Int) < (block : Int) * 64 := by omega
      simp [c1, c2, a, b]

/-- the result of a successful call is a value of the type -/
theorem src_seeknum_from_block_byte_in_range (t : SeekTy) (block byte pos : Nat) (hb : byte < 64)
    (h : fromBlockByte t block byte = some pos) : pos ≤ t.max := by
  have g := (seekTy_good t).div64
  unfold fromBlockByte at h
  split at h
  · cases h
  · split at h
    · cases h
    · cases h; omega

/-- OUTSIDE the glue's arguments the crate and the hand model differ (documented, not used by C02 / C11): with
    `byte ≥ bs` the crate panics in profile debug, whatever the type and the block … -/
theorem src_seeknum_from_block_byte_debug_assert (t : SeekTy) (block byte bs : Int) (h : bs ≤ byte) :
    genFromBlockByte t .debug block byte bs = .panic "debug_assert" := by
  rw [src_seeknum_from_shape]
  unfold fromShape
  rw [if_pos ⟨rfl, by omega⟩]

/-- … and in profile release the unchecked `+` wraps: `u8::from_block_byte(3, 64, 64) = Ok(0)` -/
theorem src_seeknum_from_block_byte_release_wraps :
    genFromBlockByte .u8 .release 3 64 64 = .ok (some 0) := by rfl

/-! ### `to_block_byte` -/

/-- hand model of `SeekNum::to_block_byte::<T>(pos, bs = 64)` for a non-negative position: block number (if it fits
    the target type `T`) and byte offset -/
def toBlockByte (tgt : SeekTy) (pos : Nat) : Option (Nat × Nat) :=
  if pos / 64 > tgt.max then none else some (pos / 64, pos % 64)

def natPair (x : Nat × Nat) : Int × Int := ((x.1 : Int), (x.2 : Int))

theorem toShape_spec (lo hi : Int) (g : GoodRange lo hi) (sgn : Bool) (p : Profile) (tlo thi : Int) (htlo : tlo ≤ 0)
    (pos : Nat) :
    (if sgn then toShapeS else toShapeU) lo hi p tlo thi pos 64 =
      .ok (if thi < ((pos / 64 : Nat) : Int) then none else some (((pos / 64 : Nat) : Int), ((pos % 64 : Nat) : Int))) := by
  have h1 := g.lo_le
  have h2 := g.hi_ge
  have e64 : wrapInt lo hi 64 = 64 := wrapInt_id _ _ _ (by omega) (by omega)
  have ed : Int.tdiv (pos : Int) 64 = ((pos / 64 : Nat) : Int) := by
    rw [Int.tdiv_eq_ediv_of_nonneg (by omega)]; omega
  have em : Int.tmod (pos : Int) 64 = ((pos % 64 : Nat) : Int) := by
    rw [Int.tmod_eq_emod_of_nonneg (by omega)]; omega
  have ew : wrapInt 0 255 ((pos % 64 : Nat) : Int) = ((pos % 64 : Nat) : Int) := wrapInt_id _ _ _ (by omega) (by omega)
  have hz : ¬ ((64 : Int) = 0) := by decide
  have hm : ¬ (((pos : Nat) : Int) = lo ∧ (64 : Int) = -1) := by omega
  cases sgn
  · simp only [Bool.false_eq_true, if_false]
    unfold toShapeU
    rw [e64, if_neg hz, ed, em, ew]
    by_cases c : thi < ((pos / 64 : Nat) : Int)
    · rw [tryConv_out _ _ _ (Or.inr c), if_pos c]
    · rw [tryConv_in _ _ _ (by omega) (by omega), if_neg c]
  · simp only [if_true]
    unfold toShapeS
    rw [e64, if_neg hz, if_neg hm, ed, em, ew]
    by_cases c : thi < ((pos / 64 : Nat) : Int)
    · rw [tryConv_out _ _ _ (Or.inr c), if_pos c]
    · rw [tryConv_in _ _ _ (by omega) (by omega), if_neg c]

theorem seekTy_min_le (t : SeekTy) : t.min ≤ 0 := (seekTy_good t).lo_le

/-- **`to_block_byte` = its hand model**: every type `t` of the list, every target type `tgt` of the list, both profiles,
    every non-negative position and `bs = 64`: no panic, `(pos / 64, pos % 64)` resp. `Err` when the block number does
    not fit `tgt` -/
theorem src_seeknum_to_block_byte (t tgt : SeekTy) (p : Profile) (pos : Nat) :
    genToBlockByte t p tgt.min (tgt.max : Nat) (pos : Int) 64 = .ok ((toBlockByte tgt pos).map natPair) := by
  rw [src_seeknum_to_shape]
  have := toShape_spec _ _ (seekTy_good t) (decide (t = .i32)) p tgt.min (tgt.max : Nat) (seekTy_min_le tgt) pos
  simp only [decide_eq_true_eq] at this
  rw [this]
  unfold toBlockByte natPair
  by_cases c : pos / 64 > tgt.max
  · have : ((tgt.max : Nat) : Int) < ((pos / 64 : Nat) : Int) := by omega
    rw [if_pos this, if_pos c]; rfl
  · have : ¬ ((tgt.max : Nat) : Int) < ((pos / 64 : Nat) : Int) := by omega
    rw [if_neg this, if_neg c]; rfl

/-- `to_block_byte` never panics, in either profile, for ANY position of the type (negative `i32` included), any target
    range and any non-zero block size -/
theorem src_seeknum_to_block_byte_no_panic (t : SeekTy) (p : Profile) (tlo thi self bs : Int)
    (hbs1 : 0 < bs) (hbs2 : bs ≤ 255) : ∃ r, genToBlockByte t p tlo thi self bs = .ok r := by
  rw [src_seeknum_to_shape]
  have g := seekTy_good t
  have h1 := g.lo_le
  have h2 := g.hi_ge
  have e : wrapInt t.min (t.max : Nat) bs = bs := wrapInt_id _ _ _ (by omega) (by omega)
  have hz : ¬ (bs = 0) := by omega
  have hm : ¬ (self = t.min ∧ bs = -1) := by omega
  by_cases ht : t = .i32
  · simp only [ht, if_true]
    unfold toShapeS
    rw [← ht, e, if_neg hz, if_neg hm]
    cases tryConv tlo thi (self.tdiv bs) <;> exact ⟨_, rfl⟩
  · simp only [ht, if_false]
    unfold toShapeU
    rw [e, if_neg hz]
    cases tryConv tlo thi (self.tdiv bs) <;> exact ⟨_, rfl⟩

/-- `to_block_byte` inverts `from_block_byte` (models; by the two theorems above also the translated code) -/
theorem toBlockByte_fromBlockByte (t : SeekTy) (block byte pos : Nat) (hb : byte < 64)
    (h : fromBlockByte t block byte = some pos) : toBlockByte .u128 pos = some (block, byte) := by
  unfold fromBlockByte at h
  have hm : t.max ≤ SeekTy.max .u128 := by cases t <;> simp [SeekTy.max]
  split at h
  · cases h
  · split at h
    · cases h
    · cases h
      unfold toBlockByte
      have e1 : (block * 64 + byte) / 64 = block := by omega
      have e2 : (block * 64 + byte) % 64 = byte := by omega
      rw [e1, e2, if_neg (by omega)]

/-! ### `pos.try_into()` to `u64` -/

/-- the glue obligations' reading of `let ct: u64 = pos.try_into()…` is the table's `tryConv` at the range of `u64`
    (core's `TryFrom` between integer types: TRUSTED), for every value `pos` of every type -/
theorem src_seeknum_try_into_u64 (pos : Int) :
    tryIntoU64 pos = (tryConv 0 18446744073709551615 pos).map (fun x => BitVec.ofNat 64 x.toNat) := by
  unfold tryIntoU64
  by_cases h : pos < 0 ∨ pos.toNat ≥ 2 ^ 64
  · rw [if_pos h, tryConv_out _ _ _ (by omega)]; rfl
  · rw [if_neg h, tryConv_in _ _ _ (by omega) (by omega)]; rfl

/-! ### the `&mut C` forwarding impl -/

theorem src_seeknum_refmut_methods :
    refmut_bound = "C : StreamCipher" ∧
    refmut_methods = [("apply_keystream", "apply_keystream", ["self", "data"], ["self", "data"]),
                      ("try_apply_keystream", "try_apply_keystream", ["self", "data"], ["self", "data"])] := by
  decide

theorem src_seeknum_refmut_apply_keystream {S D R : Type} (f : S → D → R) : refmut_apply_keystream f = f := rfl

theorem src_seeknum_refmut_try_apply_keystream {S D R : Type} (f : S → D → R) : refmut_try_apply_keystream f = f := rfl

end CC.Src
