/-
  CC.ChaCha.Core — model of `stream-ciphers/chacha/src/guts.rs` over an arbitrary `Mach`.
  Implementation-shaped: row-vectorised rounds with diagonalize/undiagonalize, 64-bit lane adds
  for the counter, `refill` (narrow) and `refill4` (wide, u32x4x4 + transpose4).
-/
import CC.Prim
import CC.Simd.Mach
import CC.ChaCha.Spec
namespace CC.ChaCha
open CC.Simd

/-- `guts::ChaCha { b, c, d : vec128_storage }` -/
structure Guts where
  b : BitVec 128
  c : BitVec 128
  d : BitVec 128
  deriving DecidableEq, Repr

/-- `guts::State<V>` for a 128-bit `V` -/
structure RS where
  a : BitVec 128
  b : BitVec 128
  c : BitVec 128
  d : BitVec 128
  deriving DecidableEq, Repr

/-- `guts::State<V>` for a 512-bit `V` (four blocks in parallel) -/
structure RS4 where
  a : BitVec 512
  b : BitVec 512
  c : BitVec 512
  d : BitVec 512
  deriving DecidableEq, Repr

def round (M : Mach) (x : RS) : RS :=
  let a := M.add32 x.a x.b
  let d := M.rotr32 16 (M.xor128 x.d a)
  let c := M.add32 x.c d
  let b := M.rotr32 20 (M.xor128 x.b c)
  let a := M.add32 a b
  let d := M.rotr32 24 (M.xor128 d a)
  let c := M.add32 c d
  let b := M.rotr32 25 (M.xor128 b c)
  { a, b, c, d }

def diagonalize (M : Mach) (x : RS) : RS :=
  { x with a := M.shuf1230 x.a, c := M.shuf3012 x.c, d := M.shuf2301 x.d }

def undiagonalize (M : Mach) (x : RS) : RS :=
  { x with c := M.shuf1230 x.c, d := M.shuf2301 x.d, a := M.shuf3012 x.a }

def dround (M : Mach) (x : RS) : RS := undiagonalize M (round M (diagonalize M (round M x)))

def iter {α} (f : α → α) : Nat → α → α
  | 0, x => x
  | n + 1, x => iter f n (f x)

def kvec (M : Mach) : BitVec 128 := M.vec32 Spec.c0 Spec.c1 Spec.c2 Spec.c3

/-- `refill_narrow_rounds` -/
def refillNarrowRounds (M : Mach) (s : Guts) (dr : Nat) : RS :=
  iter (dround M) dr { a := kvec M, b := s.b, c := s.c, d := s.d }

/-- `ChaCha::pos64` -/
def pos64 (M : Mach) (s : Guts) : BitVec 64 :=
  ((M.extract32 s.d 1).setWidth 64 <<< 32) ||| (M.extract32 s.d 0).setWidth 64

/-- `ChaCha::seek64` -/
def seek64 (M : Mach) (s : Guts) (blockct : BitVec 64) : Guts :=
  { s with d := M.insert32 (M.insert32 s.d ((blockct >>> 32).setWidth 32) 1) (blockct.setWidth 32) 0 }

/-- `ChaCha::seek32` -/
def seek32 (M : Mach) (s : Guts) (blockct : BitVec 32) : Guts :=
  { s with d := M.insert32 s.d blockct 0 }

/-- `ChaCha::inc_block_ct` (wrapping, as fixed). -/
def incBlockCt (M : Mach) (s : Guts) : Guts :=
  let pos := pos64 M s + 1
  { s with d := M.insert32 (M.insert32 s.d ((pos >>> 32).setWidth 32) 1) (pos.setWidth 32) 0 }

/-- `ChaCha::output_narrow` -/
def outputNarrow (M : Mach) (s : Guts) (x : RS) : List (BitVec 8) :=
  M.writeLe32x4 (M.add32 x.a (kvec M)) ++ M.writeLe32x4 (M.add32 x.b s.b) ++
  M.writeLe32x4 (M.add32 x.c s.c) ++ M.writeLe32x4 (M.add32 x.d s.d)

/-- `ChaCha::refill`: one 64-byte block, then advance the counter. -/
def refill (M : Mach) (s : Guts) (dr : Nat) : List (BitVec 8) × Guts :=
  let x := refillNarrowRounds M s dr
  (outputNarrow M s x, incBlockCt M s)

/-! ### wide path -/

def round4 (M : Mach) (x : RS4) : RS4 :=
  let a := M.add32x16 x.a x.b
  let d := M.rotr32x16 16 (M.xor512 x.d a)
  let c := M.add32x16 x.c d
  let b := M.rotr32x16 20 (M.xor512 x.b c)
  let a := M.add32x16 a b
  let d := M.rotr32x16 24 (M.xor512 d a)
  let c := M.add32x16 c d
  let b := M.rotr32x16 25 (M.xor512 b c)
  { a, b, c, d }

def diagonalize4 (M : Mach) (x : RS4) : RS4 :=
  { x with a := M.shufLane1230 x.a, c := M.shufLane3012 x.c, d := M.shufLane2301 x.d }

def undiagonalize4 (M : Mach) (x : RS4) : RS4 :=
  { x with c := M.shufLane1230 x.c, d := M.shufLane2301 x.d, a := M.shufLane3012 x.a }

def dround4 (M : Mach) (x : RS4) : RS4 := undiagonalize4 M (round4 M (diagonalize4 M (round4 M x)))

/-- `d0123` (little-endian version): counters c, c+1, c+2, c+3 as 64-bit lane adds. -/
def d0123 (M : Mach) (d : BitVec 128) : BitVec 512 :=
  M.add64x8 (M.fromLanes512 d d d d)
    (M.fromLanes512 (M.vec64 0 0) (M.vec64 1 0) (M.vec64 2 0) (M.vec64 3 0))

/-- `add_pos` (little-endian version) -/
def addPos (M : Mach) (d : BitVec 128) (i : BitVec 64) : BitVec 128 :=
  M.add64 d (M.vec64 i 0)

/-- `refill_wide_impl`: four consecutive blocks (256 bytes), counter += 4. -/
def refill4 (M : Mach) (s : Guts) (dr : Nat) : List (BitVec 8) × Guts :=
  let k := kvec M
  let kk := M.fromLanes512 k k k k
  let sb := M.fromLanes512 s.b s.b s.b s.b
  let sc := M.fromLanes512 s.c s.c s.c s.c
  let sd := d0123 M s.d
  let x := iter (dround4 M) dr { a := kk, b := sb, c := sc, d := sd }
  let (r0, r1, r2, r3) :=
    M.transpose4 (M.add32x16 x.a kk) (M.add32x16 x.b sb) (M.add32x16 x.c sc) (M.add32x16 x.d sd)
  let out := M.writeLe32x16 r0 ++ M.writeLe32x16 r1 ++ M.writeLe32x16 r2 ++ M.writeLe32x16 r3
  (out, { s with d := addPos M (M.toLanes512 sd).1 4 })

/-! ### parameters (plain array access in the Rust: `self.d.into(): [u32;4]`) -/

/-- `set_stream_param(param, value)`, `param : u32` (`param < 2^32`):
    ```
    let mut d: [u32; 4] = self.d.into();
    let p0 = ((param << 1) | 1) as usize;      // `<<` on u32 DISCARDS bit 31 of param (no overflow check on shifts)
    let p1 = (param << 1) as usize;
    d[p0] = (value >> 32) as u32;              // index out of bounds (panic) iff p0 ≥ 4
    d[p1] = value as u32;
    ```
    so `p1 = 2·(param mod 2^31)`, `p0 = p1 + 1`: `param ≡ 0 (mod 2^31)` writes words 0, 1, `param ≡ 1 (mod 2^31)` writes
    words 2, 3, every other value indexes out of bounds and panics (before anything is stored). -/
def setStreamParam (s : Guts) (param : Nat) (value : BitVec 64) : Out Guts :=
  let q := param % 2147483648
  if q = 0 then
    .ok { s with d := pack32 (value.setWidth 32) ((value >>> 32).setWidth 32) (lane32 s.d 2) (lane32 s.d 3) }
  else if q = 1 then
    .ok { s with d := pack32 (lane32 s.d 0) (lane32 s.d 1) (value.setWidth 32) ((value >>> 32).setWidth 32) }
  else .panic "index out of bounds"

/-- `get_stream_param(param)`: the same index computation (bit 31 of `param` is discarded by the shift). -/
def getStreamParam (s : Guts) (param : Nat) : Out (BitVec 64) :=
  let q := param % 2147483648
  if q = 0 then .ok (((lane32 s.d 1).setWidth 64 <<< 32) ||| (lane32 s.d 0).setWidth 64)
  else if q = 1 then .ok (((lane32 s.d 3).setWidth 64 <<< 32) ||| (lane32 s.d 2).setWidth 64)
  else .panic "index out of bounds"

def stream32Eq (a b : Guts) : Bool :=
  a.b == b.b && a.c == b.c && lane32 a.d 3 == lane32 b.d 3 && lane32 a.d 2 == lane32 b.d 2
    && lane32 a.d 1 == lane32 b.d 1

def stream64Eq (a b : Guts) : Bool :=
  a.b == b.b && a.c == b.c && lane32 a.d 3 == lane32 b.d 3 && lane32 a.d 2 == lane32 b.d 2

/-! ### constructors -/

/-- `guts::ChaCha::new(key, nonce)` for nonce lengths 8 and 12 (scalar `read_u32le`). -/
def gutsNew (key nonce : List (BitVec 8)) : Guts :=
  let n := nonce.length
  { b := pack32 (read32le key) (read32le (key.drop 4)) (read32le (key.drop 8)) (read32le (key.drop 12)),
    c := pack32 (read32le (key.drop 16)) (read32le (key.drop 20)) (read32le (key.drop 24)) (read32le (key.drop 28)),
    d := pack32 0 (if n = 12 then read32le nonce else 0) (read32le (nonce.drop (n - 8))) (read32le (nonce.drop (n - 4))) }

/-- `rustcrypto_impl::init_chacha` (vector `read_le` for the key). -/
def initChaCha (M : Mach) (key nonce : List (BitVec 8)) : Guts :=
  let n := nonce.length
  { b := M.readLe32x4 (key.take 16),
    c := M.readLe32x4 (key.drop 16),
    d := pack32 0 (if n = 12 then read32le nonce else 0) (read32le (nonce.drop (n - 8))) (read32le (nonce.drop (n - 4))) }

/-- `init_chacha_x`: HChaCha subkey from the first 16 nonce bytes. -/
def initChaChaX (M : Mach) (key nonce : List (BitVec 8)) (dr : Nat) : Guts :=
  let st : Guts := { b := M.readLe32x4 (key.take 16), c := M.readLe32x4 (key.drop 16),
                     d := M.readLe32x4 (nonce.take 16) }
  let x := refillNarrowRounds M st dr
  { b := x.a, c := x.d, d := pack32 0 0 (read32le (nonce.drop 16)) (read32le (nonce.drop 20)) }

end CC.ChaCha
